package main

import (
	"encoding/json"
	"fmt"
	"go/ast"
	"go/token"
	"go/types"
	"os"
	"path/filepath"
	"sort"
	"strings"
)

// inventory emits `def <name> : List String` (what the source has now) and
// `def <name>Expected : List String` (the hand-written expectation under expect/), and records
// the difference for the properties that use it as a premise.
func (x *Ex) inventory(f *LeanFile, name, doc string, items []string, pids ...string) {
	sort.Strings(items)
	var exp []string
	b, err := os.ReadFile(filepath.Join(x.expect, name+".json"))
	if err == nil {
		json.Unmarshal(b, &exp)
	}
	sort.Strings(exp)
	f.def(doc, "def "+name+" : List String :=\n  ["+joinLean(items)+"]\ndef "+name+"Expected : List String :=\n  ["+joinLean(exp)+"]")
	have := map[string]int{}
	for _, i := range items {
		have[i]++
	}
	for _, e := range exp {
		have[e]--
	}
	var diffs []string
	for k, v := range have {
		if v > 0 {
			diffs = append(diffs, fmt.Sprintf("%s: new or changed site: %s", name, k))
		} else if v < 0 {
			diffs = append(diffs, fmt.Sprintf("%s: expected site missing: %s", name, k))
		}
	}
	sort.Strings(diffs)
	for _, p := range pids {
		x.invDiffs[p] = append(x.invDiffs[p], diffs...)
	}
	// write the current inventory next to the output so expectations can be refreshed by hand
	if out := os.Getenv("VERIF_DUMP_INVENTORY"); out != "" {
		jb, _ := json.MarshalIndent(items, "", " ")
		os.WriteFile(filepath.Join(out, name+".json"), jb, 0o644)
	}
}

func joinLean(xs []string) string {
	q := make([]string, len(xs))
	for i, s := range xs {
		q[i] = leanStr(s)
	}
	return strings.Join(q, ",\n   ")
}

// forEachFunc visits every function declaration of the non-test library code.
func (x *Ex) forEachFunc(fn func(rel string, fd *ast.FuncDecl, info *types.Info)) {
	var rels []string
	for rel := range x.pkgs {
		rels = append(rels, rel)
	}
	sort.Strings(rels)
	for _, rel := range rels {
		if strings.HasPrefix(rel, "example") || strings.HasPrefix(rel, "scripts") || strings.HasPrefix(rel, "internal/testutil") {
			continue
		}
		p := x.pkgs[rel]
		for _, file := range p.Syntax {
			fname := x.fset.File(file.Pos()).Name()
			if strings.HasSuffix(fname, "_test.go") || strings.HasPrefix(filepath.Base(fname), "verif_") {
				continue
			}
			for _, d := range file.Decls {
				if fd, ok := d.(*ast.FuncDecl); ok && fd.Body != nil {
					fn(rel, fd, p.TypesInfo)
				}
			}
		}
	}
}

func funcName(rel string, fd *ast.FuncDecl) string {
	r := ""
	if fd.Recv != nil && len(fd.Recv.List) > 0 {
		t := fd.Recv.List[0].Type
		if s, ok := t.(*ast.StarExpr); ok {
			t = s.X
		}
		if id, ok := t.(*ast.Ident); ok {
			r = id.Name + "."
		}
	}
	if rel == "" {
		rel = "distiller"
	}
	return rel + "." + r + fd.Name.Name
}

var loggerMethods = map[string]string{
	"PrintExtractionInfo": "print", "PrintVisibilityInfo": "print", "PrintPaginationInfo": "print", "PrintTimingInfo": "print",
	"IsLogExtraction": "test", "IsLogVisibility": "test", "IsLogPagination": "test", "IsLogTiming": "test", "hasFlag": "test",
	"printLog": "print", "printArticleLog": "print", "logTableInfo": "print", "logFinalScore": "print", "logAndReturn": "logret",
}

// loggerSites: every use of the logger, with the syntactic role it plays.
func (x *Ex) loggerSites() []string {
	var out []string
	x.forEachFunc(func(rel string, fd *ast.FuncDecl, info *types.Info) {
		fname := funcName(rel, fd)
		var stack []ast.Node
		ast.Inspect(fd.Body, func(n ast.Node) bool {
			if n == nil {
				stack = stack[:len(stack)-1]
				return true
			}
			stack = append(stack, n)
			call, ok := n.(*ast.CallExpr)
			if !ok {
				return true
			}
			sel, ok := call.Fun.(*ast.SelectorExpr)
			if !ok {
				return true
			}
			kind, ok := loggerMethods[sel.Sel.Name]
			if !ok {
				return true
			}
			role := "other"
			if len(stack) >= 2 {
				switch p := stack[len(stack)-2].(type) {
				case *ast.ExprStmt:
					role = "statement"
				case *ast.IfStmt:
					if p.Cond == n {
						role = "if-cond"
					}
				case *ast.UnaryExpr:
					if len(stack) >= 3 {
						if i, ok := stack[len(stack)-3].(*ast.IfStmt); ok && i.Cond == p {
							role = "if-not-cond:" + collapse(x.bodyText(i.Body.List))
						}
					}
				case *ast.ReturnStmt:
					role = "return"
				}
			}
			out = append(out, fname+" | "+kind+" "+sel.Sel.Name+" | "+role)
			return true
		})
	})
	return out
}

// mapRanges: every `range` over a map-typed expression.
func (x *Ex) mapRanges() []string {
	var out []string
	x.forEachFunc(func(rel string, fd *ast.FuncDecl, info *types.Info) {
		ast.Inspect(fd.Body, func(n ast.Node) bool {
			rs, ok := n.(*ast.RangeStmt)
			if !ok {
				return true
			}
			if tv, ok := info.Types[rs.X]; ok {
				if _, isMap := tv.Type.Underlying().(*types.Map); isMap {
					out = append(out, funcName(rel, fd)+" | range "+collapse(x.src(rs.X)))
				}
			}
			return true
		})
	})
	return out
}

func rootIdent(e ast.Expr) *ast.Ident {
	for {
		switch v := e.(type) {
		case *ast.Ident:
			return v
		case *ast.SelectorExpr:
			e = v.X
		case *ast.IndexExpr:
			e = v.X
		case *ast.StarExpr:
			e = v.X
		case *ast.ParenExpr:
			e = v.X
		case *ast.SliceExpr:
			e = v.X
		default:
			return nil
		}
	}
}

// packageWrites: assignments, inc/dec, address-of, and delete() whose target is rooted at a
// package-level variable (outside init and declarations).
func (x *Ex) packageWrites() []string {
	var out []string
	x.forEachFunc(func(rel string, fd *ast.FuncDecl, info *types.Info) {
		isPkgVar := func(e ast.Expr) (string, bool) {
			id := rootIdent(e)
			if id == nil {
				return "", false
			}
			obj := info.Uses[id]
			if obj == nil {
				obj = info.Defs[id]
			}
			v, ok := obj.(*types.Var)
			if !ok || v.IsField() || v.Parent() == nil || v.Pkg() == nil {
				return "", false
			}
			if v.Parent() == v.Pkg().Scope() {
				return v.Pkg().Name() + "." + v.Name(), true
			}
			return "", false
		}
		ast.Inspect(fd.Body, func(n ast.Node) bool {
			switch v := n.(type) {
			case *ast.AssignStmt:
				if v.Tok == token.DEFINE {
					return true
				}
				for _, l := range v.Lhs {
					if name, ok := isPkgVar(l); ok {
						out = append(out, funcName(rel, fd)+" | write "+name+" | "+collapse(x.src(v)))
					}
				}
			case *ast.IncDecStmt:
				if name, ok := isPkgVar(v.X); ok {
					out = append(out, funcName(rel, fd)+" | incdec "+name)
				}
			case *ast.UnaryExpr:
				if v.Op == token.AND {
					if name, ok := isPkgVar(v.X); ok {
						out = append(out, funcName(rel, fd)+" | address-of "+name)
					}
				}
			case *ast.CallExpr:
				if id, ok := v.Fun.(*ast.Ident); ok && (id.Name == "delete" || id.Name == "clear") && len(v.Args) > 0 {
					if name, ok := isPkgVar(v.Args[0]); ok {
						out = append(out, funcName(rel, fd)+" | "+id.Name+" "+name)
					}
				}
				// pointer-receiver method calls on package-level values (e.g. regexp.Longest)
				if sel, ok := v.Fun.(*ast.SelectorExpr); ok {
					if name, ok := isPkgVar(sel.X); ok {
						if s := info.Selections[sel]; s != nil {
							if fn, ok := s.Obj().(*types.Func); ok {
								if sig, ok := fn.Type().(*types.Signature); ok && sig.Recv() != nil {
									if _, isPtr := sig.Recv().Type().(*types.Pointer); isPtr {
										mn := fn.Name()
										// read-only methods of *regexp.Regexp are the overwhelming majority; list the mutating ones
										if mn == "Longest" || strings.HasPrefix(mn, "Set") || mn == "Store" || mn == "Add" || mn == "Lock" || mn == "Unlock" || mn == "Do" {
											out = append(out, funcName(rel, fd)+" | mutating-method "+name+"."+mn)
										}
									}
								}
							}
						}
					}
				}
			}
			return true
		})
	})
	return out
}

// packageVarKinds: package-level variables with a type that has mutable state shared between
// calls (maps, slices, pointers, structs) - informational for C12.
func (x *Ex) packageVars() []string {
	var out []string
	var rels []string
	for rel := range x.pkgs {
		rels = append(rels, rel)
	}
	sort.Strings(rels)
	for _, rel := range rels {
		if strings.HasPrefix(rel, "example") || strings.HasPrefix(rel, "scripts") || strings.HasPrefix(rel, "internal/testutil") {
			continue
		}
		p := x.pkgs[rel]
		scope := p.Types.Scope()
		for _, n := range scope.Names() {
			if v, ok := scope.Lookup(n).(*types.Var); ok {
				pos := x.fset.Position(v.Pos())
				if strings.HasSuffix(pos.Filename, "_test.go") || strings.HasPrefix(filepath.Base(pos.Filename), "verif_") {
					continue
				}
				kind := "value"
				switch v.Type().Underlying().(type) {
				case *types.Map:
					kind = "map"
				case *types.Slice:
					kind = "slice"
				case *types.Pointer:
					kind = "pointer"
				}
				r := rel
				if r == "" {
					r = "distiller"
				}
				out = append(out, r+"."+n+" | "+kind)
			}
		}
	}
	return out
}

// hazardSites: expressions that can panic at run time — index and slice expressions on
// slices/arrays/strings, single-value type assertions, explicit panic calls.
func (x *Ex) hazardSites() []string {
	var out []string
	x.forEachFunc(func(rel string, fd *ast.FuncDecl, info *types.Info) {
		fname := funcName(rel, fd)
		commaOk := map[ast.Expr]bool{}
		ast.Inspect(fd.Body, func(n ast.Node) bool {
			switch v := n.(type) {
			case *ast.AssignStmt:
				if len(v.Lhs) == 2 && len(v.Rhs) == 1 {
					commaOk[v.Rhs[0]] = true
				}
			case *ast.ValueSpec:
				if len(v.Names) == 2 && len(v.Values) == 1 {
					commaOk[v.Values[0]] = true
				}
			case *ast.TypeSwitchStmt:
				ast.Inspect(v.Assign, func(m ast.Node) bool {
					if ta, ok := m.(*ast.TypeAssertExpr); ok {
						commaOk[ta] = true
					}
					return true
				})
			}
			return true
		})
		ast.Inspect(fd.Body, func(n ast.Node) bool {
			switch v := n.(type) {
			case *ast.IndexExpr:
				if tv, ok := info.Types[v.X]; ok {
					switch tv.Type.Underlying().(type) {
					case *types.Slice, *types.Array, *types.Basic, *types.Pointer:
						out = append(out, fname+" | index | "+collapse(x.src(v)))
					}
				}
			case *ast.SliceExpr:
				out = append(out, fname+" | slice | "+collapse(x.src(v)))
			case *ast.TypeAssertExpr:
				if v.Type != nil && !commaOk[v] {
					out = append(out, fname+" | type-assert | "+collapse(x.src(v)))
				}
			case *ast.CallExpr:
				if id, ok := v.Fun.(*ast.Ident); ok && id.Name == "panic" {
					out = append(out, fname+" | panic | "+collapse(x.src(v)))
				}
			}
			return true
		})
	})
	return out
}

var domMutators = map[string]int{ // function name → index of the argument that is mutated
	"SetAttribute": 0, "RemoveAttribute": 0, "AppendChild": 0, "PrependChild": 0, "DetachChild": 0, "ReplaceChild": 0,
	"SetInnerHTML": 0, "SetTextContent": 0, "RemoveNodes": 0, "ReplaceNode": 0,
}

// mutationSites: every place where a *html.Node, *url.URL or *Options reachable from a caller
// could be written: calls of the dom package's mutators, html.Node's mutating methods, and
// assignments to fields of such values.
func (x *Ex) mutationSites() []string {
	var out []string
	isKind := func(t types.Type) string {
		s := t.String()
		switch {
		case strings.HasSuffix(s, "golang.org/x/net/html.Node"):
			return "node"
		case strings.HasSuffix(s, "net/url.URL"):
			return "url"
		case strings.HasSuffix(s, "go-domdistiller.Options"):
			return "options"
		}
		return ""
	}
	x.forEachFunc(func(rel string, fd *ast.FuncDecl, info *types.Info) {
		fname := funcName(rel, fd)
		// local provenance: how the root identifier of a target was introduced in this function
		origin := map[string]string{}
		if fd.Recv != nil {
			for _, f := range fd.Recv.List {
				for _, n := range f.Names {
					origin[n.Name] = "receiver"
				}
			}
		}
		for _, f := range fd.Type.Params.List {
			for _, n := range f.Names {
				origin[n.Name] = "param"
			}
		}
		ast.Inspect(fd.Body, func(n ast.Node) bool {
			switch v := n.(type) {
			case *ast.AssignStmt:
				if v.Tok == token.DEFINE {
					for i, l := range v.Lhs {
						if id, ok := l.(*ast.Ident); ok && id.Name != "_" {
							r := v.Rhs[0]
							if len(v.Rhs) == len(v.Lhs) {
								r = v.Rhs[i]
							}
							if _, seen := origin[id.Name]; !seen {
								origin[id.Name] = ":= " + trunc80(collapse(x.src(r)))
							}
						}
					}
				}
			case *ast.RangeStmt:
				for _, l := range []ast.Expr{v.Key, v.Value} {
					if id, ok := l.(*ast.Ident); ok && id.Name != "_" {
						origin[id.Name] = "range " + trunc80(collapse(x.src(v.X)))
					}
				}
			case *ast.FuncLit:
				for _, f := range v.Type.Params.List {
					for _, n := range f.Names {
						if _, seen := origin[n.Name]; !seen {
							origin[n.Name] = "closure-param"
						}
					}
				}
			}
			return true
		})
		prov := func(e ast.Expr) string {
			t := collapse(x.src(e))
			if id := rootIdent(e); id != nil {
				if o, ok := origin[id.Name]; ok {
					return t + "  [" + id.Name + " " + o + "]"
				}
			}
			return t
		}
		ast.Inspect(fd.Body, func(n ast.Node) bool {
			switch v := n.(type) {
			case *ast.CallExpr:
				sel, ok := v.Fun.(*ast.SelectorExpr)
				if !ok {
					return true
				}
				if id, ok := sel.X.(*ast.Ident); ok && id.Name == "dom" {
					if idx, ok := domMutators[sel.Sel.Name]; ok && len(v.Args) > idx {
						out = append(out, fname+" | dom."+sel.Sel.Name+" | "+prov(v.Args[idx]))
					}
					return true
				}
				switch sel.Sel.Name {
				case "AppendChild", "InsertBefore", "RemoveChild":
					if tv, ok := info.Types[sel.X]; ok && isKind(tv.Type) == "node" {
						out = append(out, fname+" | node."+sel.Sel.Name+" | "+prov(sel.X))
					}
				}
			case *ast.AssignStmt:
				if v.Tok == token.DEFINE {
					return true
				}
				for _, l := range v.Lhs {
					if sel, ok := l.(*ast.SelectorExpr); ok {
						if tv, ok := info.Types[sel.X]; ok {
							if k := isKind(tv.Type); k != "" {
								out = append(out, fname+" | "+k+"-field "+sel.Sel.Name+" | "+prov(sel.X))
							}
						}
					}
				}
			}
			return true
		})
	})
	return out
}

func trunc80(s string) string {
	if len(s) > 80 {
		return s[:80] + "…"
	}
	return s
}
