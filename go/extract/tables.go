package main

import (
	"go/ast"
	"go/token"
	"strings"
)

// collapse normalises source text: comment-only lines dropped, whitespace collapsed.
func collapse(s string) string {
	var keep []string
	for _, l := range strings.Split(s, "\n") {
		if strings.HasPrefix(strings.TrimSpace(l), "//") {
			continue
		}
		keep = append(keep, l)
	}
	return strings.Join(strings.Fields(strings.Join(keep, "\n")), " ")
}

func (x *Ex) bodyText(stmts []ast.Stmt) string {
	var parts []string
	for _, s := range stmts {
		parts = append(parts, collapse(x.src(s)))
	}
	return strings.Join(parts, "; ")
}

func (x *Ex) natConst(f *LeanFile, rel, goName, leanName string) {
	v := x.varValue(rel, goName)
	if bl, ok := v.(*ast.BasicLit); ok && bl.Kind == token.INT {
		f.def(rel+"."+goName, "def "+leanName+" : Option Nat := some "+bl.Value)
		return
	}
	x.fail("const %s.%s: not an integer literal", rel, goName)
	f.def(rel+"."+goName+" (FAILED)", "def "+leanName+" : Option Nat := none")
}

// caseTable emits `List (List String × String)` : labels and collapsed body text per clause
// (default clause: empty label list).
func (x *Ex) caseTable(f *LeanFile, rel, recv, fn, tag string, nth int, leanName string) []caseClause {
	fd := x.funcDecl(rel, recv, fn)
	var cs []caseClause
	ok := false
	if fd != nil {
		cs, ok = x.switchCases(fd, tag, nth)
	}
	if !ok {
		x.fail("switch %s.%s.%s on %q #%d: not found / labels not string literals", rel, recv, fn, tag, nth)
		f.def(rel+"."+fn+" switch "+tag+" (FAILED)", "def "+leanName+" : List (List String × String) := []\ndef "+leanName+"_ok : Bool := false")
		return nil
	}
	var items []string
	for _, c := range cs {
		items = append(items, "("+leanStrList(c.labels)+", "+leanStr(x.bodyText(c.body))+")")
	}
	f.def(rel+"."+fn+" switch "+tag, "def "+leanName+" : List (List String × String) :=\n  ["+strings.Join(items, ",\n   ")+"]\ndef "+leanName+"_ok : Bool := true")
	return cs
}

func (x *Ex) genTables() string {
	f := newLeanFile("Tables", "Tables: map/slice/switch-case literals of the source, as Lean lists.")

	// --- domutil: attribute stripping
	x.tableVar(f, "internal/domutil", "allowedAttributes", "allowedAttributes")
	x.tableVar(f, "internal/domutil", "elementWithSizeAttr", "elementWithSizeAttr")
	x.caseTable(f, "internal/domutil", "", "StripAttributes", "attr.Key", 0, "stripCases")
	if cs := x.caseTable(f, "internal/domutil", "", "GetDisplayStyle", "dom.TagName(node)", 0, "displayCases"); cs != nil {
		// the same switch with the returned literal parsed out: (tags, display value)
		var items []string
		ok := true
		for _, c := range cs {
			lit := ""
			if len(c.body) == 1 {
				if r, isRet := c.body[0].(*ast.ReturnStmt); isRet && len(r.Results) == 1 {
					if v, isStr := unquote(r.Results[0]); isStr {
						lit = v
					}
				}
			}
			if lit == "" {
				ok = false
			}
			items = append(items, "("+leanStrList(c.labels)+", "+leanStr(lit)+")")
		}
		if !ok {
			x.fail("GetDisplayStyle: a clause does not return a string literal")
			items = nil
		}
		f.def("internal/domutil.GetDisplayStyle: (tags, returned display value)", "def displayTable : List (List String × String) :=\n  ["+strings.Join(items, ",\n   ")+"]")
	} else {
		f.def("internal/domutil.GetDisplayStyle (FAILED)", "def displayTable : List (List String × String) := []")
	}
	x.caseTable(f, "internal/domutil", "", "MakeAllSrcAttributesAbsolute", "dom.TagName(root)", 0, "srcTagCases")

	// --- webdoc
	x.caseTable(f, "internal/webdoc", "", "CanBeNested", "tagName", 0, "nestableCases")
	x.caseTable(f, "internal/webdoc", "", "GetActionForElement", "display", 0, "actionDisplayCases")
	x.caseTable(f, "internal/webdoc", "", "GetActionForElement", "tagName", 0, "actionTagCases")
	x.natConst(f, "internal/webdoc", "maxClassCount", "maxClassCount")

	// --- converter
	x.caseTable(f, "internal/converter", "DomConverter", "visitElementNodeHandler", "tagName", 0, "emptyContainerCases")
	x.caseTable(f, "internal/converter", "DomConverter", "visitElementNodeHandler", "tagName", 1, "converterCases")
	x.tableVar(f, "internal/converter", "unlikelyRoles", "unlikelyRoles")

	// --- embed
	x.tableVar(f, "internal/extractor/embed", "relevantImageTags", "relevantImageTags")
	x.tableVarKV(f, "internal/markup/schemaorg", "schemaTypeURLs", "schemaTypeURLs")
	x.tableVarKV(f, "internal/markup/schemaorg", "tagAttributeMap", "tagAttributeMap")
	// the regular expressions the hand-written model spells out (Model/Terms, Model/TextRender)
	x.regexVars(f, "modelledRegexps", [][2]string{
		{"internal/pagination", "rxNumber"}, {"internal/pagination", "rxTerms"}, {"internal/pagination", "rxSurroundingDigits"},
		{"internal/pagination", "rxLinkNumberCleaner"},
		{"internal/domutil", "rxPunctuation"}, {"internal/domutil", "rxTempNewline"}, {"internal/domutil", "rxDisplay"},
		{"internal/domutil", "rxVisibilityHidden"}, {"internal/domutil", "rxSrcsetURL"},
		{"internal/stringutil", "rxFullWordCounter"}, {"internal/stringutil", "rxLetterWordCounter"},
		{"internal/stringutil", "rxWordMatcher1"}, {"internal/stringutil", "rxWordMatcher2"}, {"internal/stringutil", "rxWordMatcher3"},
		{"internal/pagination", "rxNextLink"}, {"internal/pagination", "rxPrevLink"}, {"internal/pagination", "rxPositive"}, {"internal/pagination", "rxNegative"},
		{"internal/pagination", "rxExtraneous"}, {"internal/pagination", "rxPagination"}, {"internal/pagination", "rxLinkPagination"}, {"internal/pagination", "rxFirstLast"},
		{"internal/pagination", "rxNumberAtStart"},
		{"internal/extractor", "rxTitleSeparator"}, {"internal/extractor", "rxTitleHierarchySep"}, {"internal/extractor", "rxTitleRemoveFinalPart"},
		{"internal/extractor", "rxTitleRemove1stPart"}, {"internal/extractor", "rxTitleAnySeparator"},
		{"internal/converter", "rxUnlikelyCandidates"}, {"internal/converter", "rxOkMaybeItsACandidate"}, {"internal/converter", "rxByline"},
	})
	x.tableVar(f, "internal/extractor/embed", "relevantTwitterTags", "relevantTwitterTags")
	x.tableVar(f, "internal/extractor/embed", "relevantVimeoTags", "relevantVimeoTags")
	x.tableVar(f, "internal/extractor/embed", "relevantYouTubeTags", "relevantYouTubeTags")
	x.tableVar(f, "internal/extractor/embed", "lazyImageSrcAttrs", "lazyImageSrcAttrs")
	x.tableVar(f, "internal/extractor/embed", "lazyImageSrcsetAttrs", "lazyImageSrcsetAttrs")

	// --- table classifier
	x.tableVarKV(f, "internal/tableclass", "headerTags", "headerTags")
	x.tableVarKV(f, "internal/tableclass", "objectTags", "objectTags")
	x.tableVar(f, "internal/tableclass", "ariaTableRoles", "ariaTableRoles")
	x.tableVar(f, "internal/tableclass", "ariaTableDescendantRoles", "ariaTableDescendantRoles")
	x.tableVar(f, "internal/tableclass", "ariaRoles", "ariaRoles")

	// --- thresholds
	x.natConst(f, "internal/extractor", "documentCharThreshold", "documentCharThreshold")
	x.natConst(f, "internal/filter/docfilter", "imageMinimumAcceptedScore", "imageMinimumAcceptedScore")
	x.natConst(f, "internal/pagination", "MaxNumForPageParam", "maxNumForPageParam")

	return f.finish()
}

// regexVars: the source patterns of package-level `regexp.MustCompile` variables, as
// (package.name, pattern) pairs; "" when the variable is not such a call on one string literal.
func (x *Ex) regexVars(f *LeanFile, leanName string, vars [][2]string) {
	var items []string
	for _, v := range vars {
		pat := ""
		if e := x.varValue(v[0], v[1]); e != nil {
			if call, ok := e.(*ast.CallExpr); ok && x.src(call.Fun) == "regexp.MustCompile" && len(call.Args) == 1 {
				if s, ok := unquote(call.Args[0]); ok {
					pat = s
				}
			}
		}
		if pat == "" {
			x.fail("regexp %s.%s: not a regexp.MustCompile of one string literal", v[0], v[1])
		}
		items = append(items, "("+leanStr(v[0]+"."+v[1])+", "+leanStr(pat)+")")
	}
	f.def("package-level regular expressions (source patterns)", "def "+leanName+" : List (String × String) :=\n  ["+strings.Join(items, ",\n   ")+"]")
}
