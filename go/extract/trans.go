package main

import (
	"encoding/json"
	"fmt"
	"go/ast"
	"go/token"
	"os"
	"path/filepath"
	"sort"
	"strings"
)

// Env: how Go sub-expressions map to Lean terms.
//   atoms : normalised (inlined) Go expression text → Lean term
//   defs  : local identifier → inlined text of its defining expression
type Env struct {
	aliases [][2]string // long text → short name, applied to every key before lookup
	atoms   map[string]string
	defs    map[string]string
	missing map[string]bool
}

func (x *Ex) loadEnv(name string) *Env {
	env := &Env{atoms: map[string]string{}, defs: map[string]string{}, missing: map[string]bool{}}
	b, err := os.ReadFile(filepath.Join(x.expect, name+".json"))
	if err == nil {
		if err := json.Unmarshal(b, &env.atoms); err != nil {
			x.fail("expectation %s.json: %v", name, err)
		}
	}
	for k, v := range env.atoms {
		if strings.HasPrefix(k, "@alias ") {
			env.aliases = append(env.aliases, [2]string{v, strings.TrimPrefix(k, "@alias ")})
			delete(env.atoms, k)
		}
	}
	// alias texts may mention other aliases: expand them to raw source text first
	for pass := 0; pass < 5; pass++ {
		for i := range env.aliases {
			for j := range env.aliases {
				if i != j {
					env.aliases[i][0] = strings.ReplaceAll(env.aliases[i][0], env.aliases[j][1], env.aliases[j][0])
				}
			}
		}
	}
	sort.Slice(env.aliases, func(i, j int) bool { return len(env.aliases[i][0]) > len(env.aliases[j][0]) })
	return env
}

func (env *Env) key(k string) string {
	for _, a := range env.aliases {
		k = strings.ReplaceAll(k, a[0], a[1])
	}
	return k
}

func (env *Env) reportMissing(x *Ex, what string) {
	ks := make([]string, 0, len(env.missing))
	for k := range env.missing {
		ks = append(ks, k)
	}
	sort.Strings(ks)
	for _, k := range ks {
		x.fail("%s: no atom for leaf %q", what, k)
	}
}

// inl prints e with locally defined identifiers replaced by their definitions.
func (x *Ex) inl(e ast.Expr, env *Env) string {
	switch v := e.(type) {
	case *ast.Ident:
		if d, ok := env.defs[v.Name]; ok {
			return d
		}
		return v.Name
	case *ast.ParenExpr:
		return "(" + x.inl(v.X, env) + ")"
	case *ast.BinaryExpr:
		return x.inl(v.X, env) + " " + v.Op.String() + " " + x.inl(v.Y, env)
	case *ast.UnaryExpr:
		return v.Op.String() + x.inl(v.X, env)
	case *ast.StarExpr:
		return "*" + x.inl(v.X, env)
	case *ast.SelectorExpr:
		return x.inl(v.X, env) + "." + v.Sel.Name
	case *ast.IndexExpr:
		return x.inl(v.X, env) + "[" + x.inl(v.Index, env) + "]"
	case *ast.SliceExpr:
		s := x.inl(v.X, env) + "["
		if v.Low != nil {
			s += x.inl(v.Low, env)
		}
		s += ":"
		if v.High != nil {
			s += x.inl(v.High, env)
		}
		return s + "]"
	case *ast.CallExpr:
		args := make([]string, len(v.Args))
		for i, a := range v.Args {
			args[i] = x.inl(a, env)
		}
		return x.inl(v.Fun, env) + "(" + strings.Join(args, ", ") + ")"
	case *ast.TypeAssertExpr:
		return x.inl(v.X, env) + ".(" + collapse(x.src(v.Type)) + ")"
	default:
		return collapse(x.src(e))
	}
}

// define records `lhs := rhs` (and multi-value forms) in env.defs.
func (x *Ex) define(as *ast.AssignStmt, env *Env) bool {
	if as.Tok != token.DEFINE && as.Tok != token.ASSIGN {
		return false
	}
	if len(as.Rhs) == 1 && len(as.Lhs) >= 1 {
		r := x.inl(as.Rhs[0], env)
		if len(as.Lhs) == 1 {
			if id, ok := as.Lhs[0].(*ast.Ident); ok && id.Name != "_" {
				env.defs[id.Name] = r
				return true
			}
			return false
		}
		for i, l := range as.Lhs {
			if id, ok := l.(*ast.Ident); ok && id.Name != "_" {
				env.defs[id.Name] = fmt.Sprintf("%s.%d", r, i)
			}
		}
		return true
	}
	if len(as.Rhs) == len(as.Lhs) {
		for i, l := range as.Lhs {
			if id, ok := l.(*ast.Ident); ok && id.Name != "_" {
				env.defs[id.Name] = x.inl(as.Rhs[i], env)
			}
		}
		return true
	}
	return false
}

// tr translates a boolean / integer / string expression to a Lean term.
func (x *Ex) tr(e ast.Expr, env *Env) string {
	key := env.key(x.inl(e, env))
	if t, ok := env.atoms[key]; ok {
		return t
	}
	switch v := e.(type) {
	case *ast.ParenExpr:
		return "(" + x.tr(v.X, env) + ")"
	case *ast.Ident:
		switch v.Name {
		case "true", "false":
			return v.Name
		}
		if d, ok := env.defs[v.Name]; ok {
			if t, ok := env.atoms[env.key(d)]; ok {
				return t
			}
		}
	case *ast.BasicLit:
		switch v.Kind {
		case token.INT:
			return "(" + v.Value + " : Int)"
		case token.STRING:
			s, _ := unquote(v)
			return leanStr(s)
		}
	case *ast.UnaryExpr:
		switch v.Op {
		case token.NOT:
			return "(!" + x.tr(v.X, env) + ")"
		case token.SUB:
			return "(-" + x.tr(v.X, env) + ")"
		}
	case *ast.BinaryExpr:
		a, b := x.tr(v.X, env), x.tr(v.Y, env)
		switch v.Op {
		case token.LAND:
			return "(" + a + " && " + b + ")"
		case token.LOR:
			return "(" + a + " || " + b + ")"
		case token.EQL:
			return "(" + a + " == " + b + ")"
		case token.NEQ:
			return "(" + a + " != " + b + ")"
		case token.LSS:
			return "(decide (" + a + " < " + b + "))"
		case token.LEQ:
			return "(decide (" + a + " ≤ " + b + "))"
		case token.GTR:
			return "(decide (" + a + " > " + b + "))"
		case token.GEQ:
			return "(decide (" + a + " ≥ " + b + "))"
		case token.ADD:
			return "(" + a + " + " + b + ")"
		case token.SUB:
			return "(" + a + " - " + b + ")"
		}
	}
	env.missing[key] = true
	return "(unknownAtom " + leanStr(key) + ")"
}

// ---------- rule lists: a cascade of `if cond { return X }` ----------

type rule struct {
	guard string // Lean Bool term
	ret   string // collapsed text of the returned expression list
}

// trRules walks stmts in order, inlining definitions, and collects the guarded returns.
// prefix is the Lean conjunction of enclosing loop guards ("" at top level).
func (x *Ex) trRules(stmts []ast.Stmt, env *Env, loopKey string, out *[]rule) {
	for _, s := range stmts {
		switch v := s.(type) {
		case *ast.AssignStmt:
			x.define(v, env)
		case *ast.DeclStmt, *ast.ExprStmt, *ast.IncDecStmt:
			// no control flow
		case *ast.IfStmt:
			if v.Init != nil {
				if as, ok := v.Init.(*ast.AssignStmt); ok {
					x.define(as, env)
				}
			}
			// body must end in return for the rule form; nested ifs are flattened as conjunctions
			x.trIfRule(v, env, loopKey, "", out)
		case *ast.ForStmt:
			key := "for(" + collapse(x.srcOrEmpty(v.Cond)) + ")"
			x.trRules(v.Body.List, env, loopKey+key+":", out)
		case *ast.RangeStmt:
			key := "range(" + x.inl(v.X, env) + ")"
			if id, ok := v.Value.(*ast.Ident); ok && id.Name != "_" {
				env.defs[id.Name] = "elem(" + x.inl(v.X, env) + ")"
			}
			x.trRules(v.Body.List, env, loopKey+key+":", out)
		case *ast.ReturnStmt:
			*out = append(*out, rule{guard: "true", ret: x.retText(v)})
		}
	}
}

func (x *Ex) srcOrEmpty(e ast.Expr) string {
	if e == nil {
		return ""
	}
	return x.src(e)
}

func (x *Ex) retText(r *ast.ReturnStmt) string {
	if x.retf != nil {
		return x.retf(r)
	}
	parts := make([]string, len(r.Results))
	for i, e := range r.Results {
		parts[i] = collapse(x.src(e))
	}
	return strings.Join(parts, ", ")
}

func containsReturn(n ast.Node) bool {
	found := false
	ast.Inspect(n, func(m ast.Node) bool {
		if _, ok := m.(*ast.ReturnStmt); ok {
			found = true
		}
		return !found
	})
	return found
}

// condDefine records an assignment that happens only under cond: the identifier becomes
// ite(cond, new, old) so that every later key mentions the condition.
func (x *Ex) condDefine(as *ast.AssignStmt, env *Env, condKey string) {
	for i, l := range as.Lhs {
		id, ok := l.(*ast.Ident)
		if !ok || id.Name == "_" || i >= len(as.Rhs) {
			continue
		}
		old, had := env.defs[id.Name]
		if !had {
			old = id.Name
		}
		env.defs[id.Name] = "ite(" + condKey + ", " + x.inl(as.Rhs[i], env) + ", " + old + ")"
	}
}

// condIf walks an if statement that cannot leave the function and records every plain
// assignment as a conditional definition (the condition being the conjunction of the
// enclosing tests).
func (x *Ex) condIf(v *ast.IfStmt, env *Env, outer string) {
	if v.Init != nil {
		if as, ok := v.Init.(*ast.AssignStmt); ok {
			x.define(as, env)
		}
	}
	own := x.inl(v.Cond, env)
	ck, nk := own, "!("+own+")"
	if outer != "" {
		ck, nk = outer+" && "+own, outer+" && !("+own+")"
	}
	x.condBlock(v.Body.List, env, ck)
	switch e := v.Else.(type) {
	case *ast.BlockStmt:
		x.condBlock(e.List, env, nk)
	case *ast.IfStmt:
		x.condIf(e, env, nk)
	}
}

func (x *Ex) condBlock(stmts []ast.Stmt, env *Env, ck string) {
	for _, s := range stmts {
		switch b := s.(type) {
		case *ast.AssignStmt:
			if b.Tok == token.DEFINE {
				x.define(b, env)
			} else {
				x.condDefine(b, env, ck)
			}
		case *ast.IfStmt:
			x.condIf(b, env, ck)
		}
	}
}

func (x *Ex) trIfRule(v *ast.IfStmt, env *Env, loopKey, outer string, out *[]rule) {
	if !containsReturn(v) {
		// no control flow out of the function: only (conditional) definitions matter
		x.condIf(v, env, "")
		return
	}
	var g string
	if loopKey != "" {
		// a guard inside a loop is an opaque existential leaf keyed by the loop and the condition
		key := env.key(loopKey + x.inl(v.Cond, env))
		if t, ok := env.atoms[key]; ok {
			g = t
		} else {
			env.missing[key] = true
			g = "(unknownAtom " + leanStr(key) + ")"
		}
	} else {
		g = x.tr(v.Cond, env)
	}
	if outer != "" {
		g = "(" + outer + " && " + g + ")"
	}
	for _, s := range v.Body.List {
		switch b := s.(type) {
		case *ast.ReturnStmt:
			*out = append(*out, rule{guard: g, ret: x.retText(b)})
		case *ast.IfStmt:
			x.trIfRule(b, env, loopKey, g, out)
		case *ast.AssignStmt:
			x.define(b, env)
		}
	}
	if v.Else != nil {
		ng := "(!" + g + ")"
		switch e := v.Else.(type) {
		case *ast.IfStmt:
			x.trIfRule(e, env, loopKey, ng, out)
		case *ast.BlockStmt:
			for _, s := range e.List {
				if r, ok := s.(*ast.ReturnStmt); ok {
					*out = append(*out, rule{guard: ng, ret: x.retText(r)})
				}
			}
		}
	}
}

// ---------- straight-line state updates (loop bodies, builder methods) ----------

type stEnv struct {
	*Env
	vars    map[string]string   // Go lvalue text → Lean state variable
	order   []string            // Lean state variables, tuple order
	actions map[string][]string // Go call text → Lean lets ("v := term")
	ignore  map[string]bool     // statements to ignore (collapsed text)
}

func (s *stEnv) tuple() string { return "(" + strings.Join(s.order, ", ") + ")" }

// trStmts produces a Lean term of tuple type: the state after executing stmts.
func (x *Ex) trStmts(stmts []ast.Stmt, s *stEnv) string {
	if len(stmts) == 0 {
		return s.tuple()
	}
	st, rest := stmts[0], stmts[1:]
	txt := collapse(x.src(st))
	if s.ignore[txt] {
		return x.trStmts(rest, s)
	}
	switch v := st.(type) {
	case *ast.AssignStmt:
		if len(v.Lhs) == 1 && len(v.Rhs) == 1 {
			if lv, ok := s.vars[x.inl(v.Lhs[0], s.Env)]; ok && v.Tok == token.ASSIGN {
				return "let " + lv + " := " + x.tr(v.Rhs[0], s.Env) + "\n" + x.trStmts(rest, s)
			}
		}
		if x.define(v, s.Env) {
			return x.trStmts(rest, s)
		}
	case *ast.IncDecStmt:
		if lv, ok := s.vars[x.inl(v.X, s.Env)]; ok {
			op := " + 1"
			if v.Tok == token.DEC {
				op = " - 1"
			}
			return "let " + lv + " := " + lv + op + "\n" + x.trStmts(rest, s)
		}
	case *ast.ExprStmt:
		if lets, ok := s.actions[x.inl(v.X, s.Env)]; ok {
			out := ""
			for _, l := range lets {
				out += "let " + l + "\n"
			}
			return out + x.trStmts(rest, s)
		}
	case *ast.ReturnStmt:
		return s.tuple()
	case *ast.IfStmt:
		if v.Init != nil {
			if as, ok := v.Init.(*ast.AssignStmt); ok {
				x.define(as, s.Env)
			}
		}
		c := x.tr(v.Cond, s.Env)
		thenEndsInReturn := len(v.Body.List) > 0 && isReturn(v.Body.List[len(v.Body.List)-1])
		if thenEndsInReturn && v.Else == nil {
			return "if " + c + " then (\n" + x.trStmts(v.Body.List, s) + ") else (\n" + x.trStmts(rest, s) + ")"
		}
		a := x.trStmts(v.Body.List, s)
		b := s.tuple()
		switch e := v.Else.(type) {
		case *ast.BlockStmt:
			b = x.trStmts(e.List, s)
		case *ast.IfStmt:
			b = x.trStmts([]ast.Stmt{e}, s)
		}
		return "let " + s.tuple() + " := if " + c + " then (\n" + a + ") else (\n" + b + ")\n" + x.trStmts(rest, s)
	}
	s.missing["stmt: "+txt] = true
	return x.trStmts(rest, s)
}

func isReturn(s ast.Stmt) bool { _, ok := s.(*ast.ReturnStmt); return ok }
