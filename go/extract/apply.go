package main

import (
	"encoding/json"
	"fmt"
	"go/ast"
	"os"
	"path/filepath"
	"strings"
)

// genApply: facts about distiller.Apply used by C13 (and C01/C10).
func (x *Ex) genApply(body *LeanFile) {
	fd := x.funcDecl("", "", "Apply")
	// 1. every use of the options value, in source order, with the statement it occurs in
	var uses, fields []string
	if fd != nil {
		var visit func(stmts []ast.Stmt)
		record := func(s ast.Stmt, txt string) {
			ast.Inspect(s, func(n ast.Node) bool {
				if blk, ok := n.(*ast.BlockStmt); ok && n != s {
					_ = blk
					return false
				}
				if sel, ok := n.(*ast.SelectorExpr); ok {
					if id, ok := sel.X.(*ast.Ident); ok && id.Name == "opts" {
						uses = append(uses, sel.Sel.Name+" | "+txt)
					}
				}
				return true
			})
		}
		visit = func(stmts []ast.Stmt) {
			for _, s := range stmts {
				switch v := s.(type) {
				case *ast.IfStmt:
					record(&ast.ExprStmt{X: v.Cond}, "if "+collapse(x.src(v.Cond)))
					visit(v.Body.List)
					if e, ok := v.Else.(*ast.BlockStmt); ok {
						visit(e.List)
					}
				case *ast.ForStmt, *ast.RangeStmt:
				default:
					record(s, collapse(x.src(s)))
					if as, ok := s.(*ast.AssignStmt); ok && len(as.Lhs) == 1 {
						l := collapse(x.src(as.Lhs[0]))
						if strings.HasPrefix(l, "result.") {
							fields = append(fields, strings.TrimPrefix(l, "result.")+" | "+collapse(x.src(as.Rhs[0])))
						}
					}
				}
			}
		}
		visit(fd.Body.List)
	} else {
		x.fail("distiller.Apply not found")
	}
	body.def("distiller.Apply: every use of the Options value, in source order", "def applyOptsUses : List String :=\n  ["+joinLean(uses)+"]")
	body.def("distiller.Apply: assignments to result fields, in source order", "def applyResultFields : List String :=\n  ["+joinLean(fields)+"]")

	// 2. the option-dependent tail as a state update: (url, pagination)
	env := x.loadEnv("applyTail")
	out := ""
	if fd != nil {
		// start at `result := Result{}`
		start := -1
		for i, s := range fd.Body.List {
			if collapse(x.src(s)) == "result := Result{}" {
				start = i
			}
		}
		if start >= 0 {
			s := &stEnv{Env: env, vars: map[string]string{"result.URL": "url", "result.PaginationInfo": "pag"}, order: []string{"url", "pag"},
				actions: map[string][]string{}, ignore: map[string]bool{}}
			var tail []ast.Stmt
			for _, st := range fd.Body.List[start+1:] {
				t := collapse(x.src(st))
				skip := false
				for _, p := range []string{"result.Node =", "result.Text =", "result.WordCount =", "result.Title =", "result.ContentImages =", "result.MarkupInfo =",
					"timingInfo", "result.TimingInfo =", "if logger.hasFlag(LogTiming)", "return &result, nil"} {
					if strings.HasPrefix(t, p) {
						skip = true
					}
				}
				if !skip {
					tail = append(tail, st)
				}
			}
			// inside the pagination block: ignore timing and logging statements
			ast.Inspect(fd.Body, func(n ast.Node) bool {
				if es, ok := n.(*ast.ExprStmt); ok {
					t := collapse(x.src(es))
					if strings.HasPrefix(t, "logger.Print") || strings.HasPrefix(t, "timingInfo.") {
						s.ignore[t] = true
					}
				}
				if as, ok := n.(*ast.AssignStmt); ok {
					t := collapse(x.src(as))
					if strings.HasPrefix(t, "paginationStart :=") {
						s.ignore[t] = true
					}
				}
				return true
			})
			out = "let url := \"\"\nlet pag := (\"\", \"\")\n" + x.trStmts(tail, s)
		}
	}
	x.emitOrSentinel(body, "distiller.Apply (option-dependent tail)", "applyTail", "(o : OptAtoms)", "String × (String × String)", out, env)
}

// bodyStmts emits the top-level statements of a function as collapsed source text: a cheap,
// exact fingerprint of short orchestration functions whose *shape* is a proof premise. When an
// expectation expect/bodies/<leanName>.json exists, `<leanName>Expected` is emitted as well and
// the difference is recorded for the given properties.
func (x *Ex) bodyStmts(body *LeanFile, rel, recv, fn, leanName string, pids ...string) {
	fd := x.funcDecl(rel, recv, fn)
	var items []string
	if fd == nil {
		x.fail("%s.%s.%s not found", rel, recv, fn)
	} else {
		for _, s := range fd.Body.List {
			items = append(items, collapse(x.src(s)))
		}
	}
	body.def(rel+"."+recv+"."+fn+": top-level statements", "def "+leanName+" : List String :=\n  ["+joinLean(items)+"]")
	if out := os.Getenv("VERIF_DUMP_INVENTORY"); out != "" {
		os.MkdirAll(filepath.Join(out, "bodies"), 0o755)
		jb, _ := json.MarshalIndent(items, "", " ")
		os.WriteFile(filepath.Join(out, "bodies", leanName+".json"), jb, 0o644)
	}
	b, err := os.ReadFile(filepath.Join(x.expect, "bodies", leanName+".json"))
	if err != nil {
		return
	}
	var exp []string
	json.Unmarshal(b, &exp)
	body.def("expectation go/extract/expect/bodies/"+leanName+".json", "def "+leanName+"Expected : List String :=\n  ["+joinLean(exp)+"]")
	if strings.Join(exp, "\x00") != strings.Join(items, "\x00") {
		for _, p := range pids {
			x.invDiffs[p] = append(x.invDiffs[p], fmt.Sprintf("%s.%s.%s: statements differ from the expectation (%s)", rel, recv, fn, leanName))
		}
	}
}

// bodyGroup emits the collapsed source of a group of functions as one Lean value
// `<leanName> : List (String × List String)` (function, its top-level statements) and its
// expected twin from expect/bodies/<leanName>.json; any difference re-opens the listed properties.
func (x *Ex) bodyGroup(body *LeanFile, leanName string, pids []string, fns [][3]string) {
	type entry struct {
		Func  string
		Stmts []string
	}
	var cur []entry
	for _, f := range fns {
		fd := x.funcDecl(f[0], f[1], f[2])
		e := entry{Func: f[0] + "." + f[1] + "." + f[2]}
		if fd == nil {
			x.fail("%s.%s.%s not found", f[0], f[1], f[2])
		} else {
			for _, s := range fd.Body.List {
				e.Stmts = append(e.Stmts, collapse(x.src(s)))
			}
		}
		cur = append(cur, e)
	}
	render := func(es []entry) string {
		var parts []string
		for _, e := range es {
			parts = append(parts, "("+leanStr(e.Func)+", ["+joinLean(e.Stmts)+"])")
		}
		return strings.Join(parts, ",\n   ")
	}
	body.def("top-level statements of a group of functions", "def "+leanName+" : List (String × List String) :=\n  ["+render(cur)+"]")
	if out := os.Getenv("VERIF_DUMP_INVENTORY"); out != "" {
		os.MkdirAll(filepath.Join(out, "bodies"), 0o755)
		jb, _ := json.MarshalIndent(cur, "", " ")
		os.WriteFile(filepath.Join(out, "bodies", leanName+".json"), jb, 0o644)
	}
	b, err := os.ReadFile(filepath.Join(x.expect, "bodies", leanName+".json"))
	if err != nil {
		return
	}
	var exp []entry
	json.Unmarshal(b, &exp)
	body.def("expectation go/extract/expect/bodies/"+leanName+".json", "def "+leanName+"Expected : List (String × List String) :=\n  ["+render(exp)+"]")
	byName := map[string]string{}
	for _, e := range exp {
		byName[e.Func] = strings.Join(e.Stmts, "\x00")
	}
	for _, e := range cur {
		if old, ok := byName[e.Func]; !ok || old != strings.Join(e.Stmts, "\x00") {
			for _, p := range pids {
				x.invDiffs[p] = append(x.invDiffs[p], fmt.Sprintf("%s: statements differ from the expectation (%s)", e.Func, leanName))
			}
		}
	}
}
