package main

import (
	"go/ast"
	"go/token"
	"strings"
)

// getterShape classifies a markup.Parser getter: a loop over ps.accessors that returns the
// first acceptable answer of one accessor method, else the zero value.
func (x *Ex) getterShape(fd *ast.FuncDecl) (method, shape string) {
	if fd == nil || len(fd.Body.List) != 2 {
		return "", "unknown"
	}
	rs, ok := fd.Body.List[0].(*ast.RangeStmt)
	if !ok || collapse(x.src(rs.X)) != "ps.accessors" || len(rs.Body.List) == 0 {
		return "", "unknown"
	}
	last, ok := fd.Body.List[1].(*ast.ReturnStmt)
	if !ok || len(last.Results) != 1 {
		return "", "unknown"
	}
	zero := collapse(x.src(last.Results[0]))
	// forms: `if v := accessor.M(); TEST { return v }`  or  `v := accessor.M(); if TEST { return v }`
	var call ast.Expr
	var test ast.Expr
	var ret *ast.ReturnStmt
	var name string
	stmts := rs.Body.List
	getIf := func(s ast.Stmt) *ast.IfStmt { i, _ := s.(*ast.IfStmt); return i }
	switch len(stmts) {
	case 1:
		i := getIf(stmts[0])
		if i == nil || i.Init == nil || i.Else != nil || len(i.Body.List) != 1 {
			return "", "unknown"
		}
		as, ok := i.Init.(*ast.AssignStmt)
		if !ok || len(as.Lhs) != 1 || len(as.Rhs) != 1 {
			return "", "unknown"
		}
		name, call, test = collapse(x.src(as.Lhs[0])), as.Rhs[0], i.Cond
		ret, _ = i.Body.List[0].(*ast.ReturnStmt)
	case 2:
		as, ok := stmts[0].(*ast.AssignStmt)
		i := getIf(stmts[1])
		if !ok || i == nil || i.Init != nil || i.Else != nil || len(i.Body.List) != 1 || len(as.Lhs) != 1 || len(as.Rhs) != 1 {
			return "", "unknown"
		}
		name, call, test = collapse(x.src(as.Lhs[0])), as.Rhs[0], i.Cond
		ret, _ = i.Body.List[0].(*ast.ReturnStmt)
	default:
		return "", "unknown"
	}
	if ret == nil || len(ret.Results) != 1 {
		return "", "unknown"
	}
	c := collapse(x.src(call))
	if !strings.HasPrefix(c, "accessor.") || !strings.HasSuffix(c, "()") {
		return "", "unknown"
	}
	method = strings.TrimSuffix(strings.TrimPrefix(c, "accessor."), "()")
	t := collapse(x.src(test))
	r := collapse(x.src(ret.Results[0]))
	switch {
	case t == name+` != ""` && r == name && zero == `""`:
		shape = "first-nonempty-string"
	case t == "len("+name+") > 0" && r == name && zero == "nil":
		shape = "first-nonempty-list"
	case t == name+" != nil" && r == name && zero == "nil":
		shape = "first-non-nil"
	case t == name && r == "true" && zero == "false":
		shape = "any-true"
	default:
		shape = "unknown"
	}
	return
}

func (x *Ex) genMarkup(body *LeanFile) {
	// accessor order in NewParser
	{
		fd := x.funcDecl("internal/markup", "", "NewParser")
		var items []string
		ok := fd != nil
		if ok {
			var visit func(stmts []ast.Stmt, cond string)
			visit = func(stmts []ast.Stmt, cond string) {
				for _, s := range stmts {
					switch v := s.(type) {
					case *ast.AssignStmt:
						if len(v.Lhs) == 1 && len(v.Rhs) == 1 && collapse(x.src(v.Lhs[0])) == "ps.accessors" {
							if call, ok := v.Rhs[0].(*ast.CallExpr); ok && collapse(x.src(call.Fun)) == "append" && len(call.Args) == 2 {
								items = append(items, "("+leanStr(collapse(x.src(call.Args[1])))+", "+leanStr(cond)+")")
							}
						}
					case *ast.IfStmt:
						visit(v.Body.List, collapse(x.src(v.Cond)))
					}
				}
			}
			visit(fd.Body.List, "")
		}
		if !ok || len(items) == 0 {
			x.fail("markup.NewParser: accessor order not found")
			body.def("internal/markup.NewParser (FAILED)", "def accessorOrder : List (String × String) := []")
		} else {
			body.def("internal/markup.NewParser: accessors in append order, with the guarding condition", "def accessorOrder : List (String × String) :=\n  ["+strings.Join(items, ",\n   ")+"]")
		}
	}
	// getter shapes
	{
		var items []string
		for _, g := range []string{"Title", "Type", "URL", "Images", "Description", "Publisher", "Copyright", "Author", "Article", "OptOut"} {
			fd := x.funcDecl("internal/markup", "Parser", g)
			m, sh := x.getterShape(fd)
			if sh == "unknown" {
				x.fail("markup.Parser.%s: getter does not have the first-acceptable-answer shape", g)
			}
			items = append(items, "("+leanStr(g)+", "+leanStr(m)+", "+leanStr(sh)+")")
		}
		body.def("internal/markup.Parser getters: (getter, accessor method, shape)", "def getterShapes : List (String × String × String) :=\n  ["+strings.Join(items, ",\n   ")+"]")
	}
	// MarkupInfo(): opt-out first, then field assembly
	{
		fd := x.funcDecl("internal/markup", "Parser", "MarkupInfo")
		optFirst := false
		var fields, art, img []string
		if fd != nil && len(fd.Body.List) > 0 {
			if i, ok := fd.Body.List[0].(*ast.IfStmt); ok && collapse(x.src(i.Cond)) == "ps.OptOut()" && len(i.Body.List) == 1 {
				if collapse(x.src(i.Body.List[0])) == "return data.MarkupInfo{}" {
					optFirst = true
				}
			}
			ast.Inspect(fd.Body, func(n ast.Node) bool {
				cl, ok := n.(*ast.CompositeLit)
				if !ok {
					return true
				}
				ty := collapse(x.src(cl.Type))
				var dst *[]string
				switch ty {
				case "data.MarkupInfo":
					dst = &fields
				case "data.MarkupArticle":
					dst = &art
				case "data.MarkupImage":
					dst = &img
				default:
					return true
				}
				for _, el := range cl.Elts {
					if kv, ok := el.(*ast.KeyValueExpr); ok {
						*dst = append(*dst, "("+leanStr(collapse(x.src(kv.Key)))+", "+leanStr(collapse(x.src(kv.Value)))+")")
					}
				}
				return true
			})
		}
		b := "false"
		if optFirst {
			b = "true"
		}
		body.def("internal/markup.Parser.MarkupInfo: opt-out is tested first and returns the empty record", "def markupOptOutFirst : Bool := "+b)
		body.def("internal/markup.Parser.MarkupInfo: fields of the assembled record", "def markupInfoFields : List (String × String) := ["+strings.Join(fields, ", ")+"]")
		body.def("internal/markup.Parser.MarkupInfo: article copy", "def markupArticleFields : List (String × String) := ["+strings.Join(art, ", ")+"]")
		body.def("internal/markup.Parser.MarkupInfo: image copy", "def markupImageFields : List (String × String) := ["+strings.Join(img, ", ")+"]")
	}
	// OpenGraph required-property gate: the tagless switch at the end of opengraph.NewParser
	{
		env := x.loadEnv("ogGate")
		fd := x.funcDecl("internal/markup/opengraph", "", "NewParser")
		out := ""
		if fd != nil {
			var sw *ast.SwitchStmt
			for _, s := range fd.Body.List {
				if v, ok := s.(*ast.SwitchStmt); ok && v.Tag == nil {
					sw = v
				}
			}
			if sw != nil {
				var conds []string
				good := true
				for _, c := range sw.Body.List {
					cc := c.(*ast.CaseClause)
					if len(cc.List) != 1 || len(cc.Body) != 1 || !strings.HasPrefix(collapse(x.src(cc.Body[0])), "return nil,") {
						good = false
						break
					}
					conds = append(conds, x.tr(cc.List[0], env))
				}
				// after the switch the function must return the parser
				lastOK := false
				if r, ok := fd.Body.List[len(fd.Body.List)-1].(*ast.ReturnStmt); ok && collapse(x.src(r)) == "return ps, nil" {
					lastOK = true
				}
				if good && lastOK && len(conds) > 0 {
					out = "!(" + strings.Join(conds, " || ") + ")"
				}
			}
		}
		_ = token.ADD
		x.emitOrSentinel(body, "internal/markup/opengraph.NewParser (required-property switch): parser is returned iff", "ogGate", "(a : OgAtoms)", "Bool", out, env)
	}
}
