package main

func (x *Ex) genFuncsMore(body *LeanFile) {}

func (x *Ex) genInventory() string {
	f := newLeanFile("Inventory", "Inventories: source sites used as proof premises.")
	return f.finish()
}
