package main

import (
	"go/ast"
	"strings"
)

// embedRet: `return &webdoc.Embed{Element: node, Type: "youtube", ID: youtubeID, ...}` → ("youtube", <id term>)
func (x *Ex) embedRet(env *Env) func(*ast.ReturnStmt) string {
	return func(r *ast.ReturnStmt) string {
		if len(r.Results) == 1 {
			if id, ok := r.Results[0].(*ast.Ident); ok && id.Name == "nil" {
				return "none"
			}
			if id, ok := r.Results[0].(*ast.Ident); ok {
				if d, ok := env.defs[id.Name]; ok {
					if t, ok := env.atoms[env.key(d)]; ok {
						return t
					}
					env.missing["return "+env.key(d)] = true
					return "none"
				}
			}
			e := r.Results[0]
			if u, ok := e.(*ast.UnaryExpr); ok {
				e = u.X
			}
			if cl, ok := e.(*ast.CompositeLit); ok && strings.HasSuffix(collapse(x.src(cl.Type)), "Embed") {
				ty, id := "", ""
				for _, el := range cl.Elts {
					kv := el.(*ast.KeyValueExpr)
					switch collapse(x.src(kv.Key)) {
					case "Type":
						ty = x.tr(kv.Value, env)
					case "ID":
						id = x.tr(kv.Value, env)
					}
				}
				return "some (" + ty + ", " + id + ")"
			}
		}
		env.missing["return "+collapse(x.src(r))] = true
		return "none"
	}
}

func (x *Ex) embedJob(body *LeanFile, recv, fn, leanName, expect string) {
	env := x.loadEnv(expect)
	fd := x.funcDecl("internal/extractor/embed", recv, fn)
	out := ""
	if fd != nil {
		var rs []rule
		x.retf = x.embedRet(env)
		x.trRules(fd.Body.List, env, "", &rs)
		x.retf = nil
		var sb strings.Builder
		done := false
		for _, r := range rs {
			if r.guard == "true" {
				sb.WriteString(r.ret)
				done = true
				break
			}
			sb.WriteString("if " + r.guard + " then " + r.ret + "\nelse ")
		}
		if !done {
			sb.WriteString("none")
		}
		out = "(" + sb.String() + " : Option (String × String))"
	}
	x.emitOrSentinel(body, "internal/extractor/embed."+recv+"."+fn, leanName, "(a : EmbedAtoms)", "Option (String × String)", out, env)
}

func (x *Ex) genFuncsMore(body *LeanFile) {
	x.embedJob(body, "YouTubeExtractor", "Extract", "youtubeExtract", "youtubeExtract")
	x.embedJob(body, "VimeoExtractor", "Extract", "vimeoExtract", "vimeoExtract")
	x.embedJob(body, "TwitterExtractor", "extractRendered", "twitterRendered", "twitterRendered")
	x.embedJob(body, "TwitterExtractor", "extractNonRendered", "twitterNonRendered", "twitterNonRendered")
	x.genMarkup(body)
	x.genApply(body)
	x.bodyStmts(body, "internal/extractor", "ContentExtractor", "ExtractContent", "extractContentBody")
	x.bodyStmts(body, "internal/extractor", "ContentExtractor", "createWebDocumentInfoFromPage", "createWebDocumentBody")
	x.bodyStmts(body, "internal/extractor", "ContentExtractor", "processDocument", "processDocumentBody")
	x.bodyStmts(body, "internal/converter", "DomConverter", "Convert", "converterConvertBody")
	x.bodyStmts(body, "internal/domutil", "", "WalkNodes", "walkNodesBody")
	x.bodyStmts(body, "internal/webdoc", "TextBlock", "ApplyToModel", "applyToModelBody")
	x.bodyStmts(body, "internal/webdoc", "Text", "GenerateOutput", "textGenerateOutputBody", "C05", "C06", "C09")
	x.bodyStmts(body, "internal/webdoc", "Table", "GenerateOutput", "tableGenerateOutputBody", "C05", "C06", "C09")
	x.bodyStmts(body, "internal/webdoc", "Figure", "GenerateOutput", "figureGenerateOutputBody", "C05", "C06", "C09")
	x.bodyStmts(body, "internal/webdoc", "Image", "cloneAndProcessNode", "imageCloneAndProcessBody", "C05", "C06")
	x.bodyStmts(body, "internal/webdoc", "Image", "GenerateOutput", "imageGenerateOutputBody", "C09")
	x.bodyStmts(body, "internal/webdoc", "Video", "GenerateOutput", "videoGenerateOutputBody", "C05", "C06")
	x.bodyStmts(body, "internal/webdoc", "Embed", "GenerateOutput", "embedGenerateOutputBody", "C05")
	x.bodyStmts(body, "internal/webdoc", "Tag", "GenerateOutput", "tagGenerateOutputBody", "C05")
	x.bodyStmts(body, "internal/webdoc", "Document", "GenerateOutput", "documentGenerateOutputBody", "C09")
	x.bodyStmts(body, "internal/webdoc", "Document", "GetImageURLs", "documentGetImageURLsBody", "C09")
	x.bodyStmts(body, "internal/domutil", "", "CloneAndProcessList", "cloneAndProcessListBody", "C05", "C06")
	x.bodyStmts(body, "internal/domutil", "", "CloneAndProcessTree", "cloneAndProcessTreeBody", "C04", "C05")
	x.bodyStmts(body, "internal/filter/heuristic", "DocumentTitleMatch", "processPotentialTitle", "processPotentialTitleBody", "C15")
	x.bodyStmts(body, "internal/filter/heuristic", "DocumentTitleMatch", "Process", "documentTitleMatchProcessBody", "C15")
	x.bodyStmts(body, "internal/extractor", "ContentExtractor", "ensureTitleInitialized", "ensureTitleInitializedBody", "C15")
	x.bodyStmts(body, "internal/extractor", "ContentExtractor", "ExtractTitle", "extractTitleBody", "C15")
	x.bodyStmts(body, "internal/domutil", "", "GetOutputNodes", "getOutputNodesBody", "C04", "C05")
	x.bodyStmts(body, "internal/domutil", "", "MakeAllLinksAbsolute", "makeAllLinksAbsoluteBody", "C06")
	x.bodyStmts(body, "internal/webdoc", "WebDocumentBuilder", "flushBlock", "flushBlockBody", "C06")
	// the scanning half of FindOutlink is what hook VerifNumberGroups repeats
	x.bodyStmts(body, "internal/pagination", "PageNumberFinder", "FindOutlink", "numberFindOutlinkBody", "C16", "C17")
	x.bodyStmts(body, "internal/pagination", "PrevNextFinder", "FindPagination", "prevNextFindPaginationBody", "C16", "C17")
	// the article extractor: what Model/Filters.lean models, function by function
	x.bodyGroup(body, "articleExtractorBodies", []string{"C01", "C02", "C03", "C09", "C15"}, [][3]string{
		{"internal/extractor", "ArticleExtractor", "Extract"},
		{"internal/filter/english", "TerminatingBlocksFinder", "Process"},
		{"internal/filter/english", "NumWordsRulesClassifier", "Process"},
		{"internal/filter/english", "NumWordsRulesClassifier", "classify"},
		{"internal/filter/simple", "LabelToBoilerplate", "Process"},
		{"internal/filter/simple", "BoilerplateBlock", "Process"},
		{"internal/filter/heuristic", "SimilarSiblingContent", "Process"},
		{"internal/filter/heuristic", "SimilarSiblingContent", "allowExpandFrom"},
		{"internal/filter/heuristic", "SimilarSiblingContent", "allowExpandTo"},
		{"internal/filter/heuristic", "SimilarSiblingContent", "isSimilarIndex"},
		{"internal/filter/heuristic", "SimilarSiblingContent", "areSameTag"},
		{"internal/filter/heuristic", "SimilarSiblingContent", "findCanonicalReps"},
		{"internal/filter/heuristic", "HeadingFusion", "Process"},
		{"internal/filter/heuristic", "BlockProximityFusion", "Process"},
		{"internal/filter/heuristic", "KeepLargestBlock", "Process"},
		{"internal/filter/heuristic", "KeepLargestBlock", "maybeExpandContentToEarlierTextBlocks"},
		{"internal/filter/heuristic", "KeepLargestBlock", "maybeExpandContentToLaterTextBlocks"},
		{"internal/filter/heuristic", "KeepLargestBlock", "isSibling"},
		{"internal/filter/heuristic", "ExpandTitleToContent", "Process"},
		{"internal/filter/heuristic", "LargeBlockAroundTagLevelToContent", "Process"},
		{"internal/filter/heuristic", "ListAtEnd", "Process"},
		{"internal/webdoc", "", "NewTextBlock"},
		{"internal/webdoc", "TextBlock", "MergeNext"},
		{"internal/webdoc", "TextBlock", "SetIsContent"},
		{"internal/webdoc", "TextBlock", "AddLabels"},
		{"internal/webdoc", "TextBlock", "RemoveLabels"},
		{"internal/webdoc", "TextBlock", "HasLabel"},
		{"internal/webdoc", "TextBlock", "OffsetBlocksStart"},
		{"internal/webdoc", "TextBlock", "OffsetBlocksEnd"},
		{"internal/webdoc", "TextBlock", "FirstNonWhitespaceTextNode"},
		{"internal/webdoc", "TextBlock", "LastNonWhitespaceTextNode"},
		{"internal/webdoc", "TextBlock", "calcLinkDensity"},
		{"internal/webdoc", "TextBlock", "firstText"},
		{"internal/webdoc", "TextBlock", "lastText"},
		{"internal/webdoc", "TextDocument", "CountWordsInContent"},
		{"internal/webdoc", "TextDocument", "ApplyToModel"},
		{"internal/webdoc", "Document", "CreateTextDocument"},
	})
	// Apply itself and the extractor's constructor: root validation, document element, container
	x.bodyGroup(body, "applyBodies", []string{"C01", "C13"}, [][3]string{
		{"", "", "Apply"},
		{"internal/extractor", "", "NewContentExtractor"},
	})
	// the entry points around Apply: they only fetch / open / parse and delegate
	x.bodyGroup(body, "entryPointBodies", []string{"C10", "C11", "C13"}, [][3]string{
		{"", "", "ApplyForURL"},
		{"", "", "ApplyForFile"},
		{"", "", "ApplyForReader"},
	})
	// the lead-image filter and its two scorers (Model/DocFilters.lean: leadImage, imageScore)
	x.bodyGroup(body, "leadImageBodies", []string{"C08"}, [][3]string{
		{"internal/filter/docfilter", "LeadImageFinder", "Process"},
		{"internal/filter/docfilter", "LeadImageFinder", "findLeadImage"},
		{"internal/filter/docfilter", "LeadImageFinder", "getImageScore"},
		{"internal/filter/docfilter", "LeadImageFinder", "getLeadHeuristics"},
		{"internal/filter/docfilter/scorer", "ImageDomDistanceScorer", "GetImageScore"},
		{"internal/filter/docfilter/scorer", "ImageDomDistanceScorer", "compute"},
		{"internal/filter/docfilter/scorer", "ImageHasFigureScorer", "GetImageScore"},
		{"internal/filter/docfilter/scorer", "ImageHasFigureScorer", "compute"},
		{"internal/filter/docfilter", "NestedElementRetainer", "Process"},
		{"internal/domutil", "", "GetNodeDepth"},
		{"internal/domutil", "", "GetParentNodes"},
	})
	// what the visibility test reads from an inline style (Model/Style.lean)
	x.bodyGroup(body, "styleBodies", []string{"C04"}, [][3]string{
		{"internal/domutil", "", "GetDisplayStyle"},
		{"internal/domutil", "", "IsProbablyVisible"},
	})
	// the converter's byline / empty-container tests (Model/Candidates.lean)
	x.bodyGroup(body, "candidateBodies", []string{"C20"}, [][3]string{
		{"internal/converter", "", "isByline"},
		{"internal/converter", "", "isValidByline"},
		{"internal/converter", "", "isElementWithoutContent"},
	})
	// the prev/next finder: the loop over the anchors and the page-number difference (Model/LinkScore.lean,
	// Model/Pagination.lean pickTop)
	x.bodyGroup(body, "prevNextBodies", []string{"C16", "C17"}, [][3]string{
		{"internal/pagination", "PrevNextFinder", "FindPagination"},
		{"internal/pagination", "PrevNextFinder", "FindOutlink"},
		{"internal/pagination", "PrevNextFinder", "getPageDiff"},
		{"internal/stringutil", "", "EqualsIgnoreCase"},
		{"internal/stringutil", "", "HasPrefixIgnoreCase"},
	})
	// the title heuristic (Model/Title.lean)
	x.bodyGroup(body, "titleBodies", []string{"C15"}, [][3]string{
		{"internal/extractor", "", "getDocumentTitle"},
		{"internal/extractor", "ContentExtractor", "ExtractTitle"},
		{"internal/extractor", "ContentExtractor", "ensureTitleInitialized"},
	})
	// the page-number finder's reading of one anchor and its walk over the neighbouring leaves
	x.bodyGroup(body, "pageNumberBodies", []string{"C16", "C17"}, [][3]string{
		{"internal/pagination", "PageNumberFinder", "getPageInfoAndText"},
		{"internal/pagination", "PageNumberFinder", "findAndAddClosestValidLeafNodes"},
	})
	// the table classifier's counting and text helpers (Model/TableClass.lean: rowsCols, hasOneOf)
	x.bodyGroup(body, "tableCountBodies", []string{"C18"}, [][3]string{
		{"internal/tableclass", "Classifier", "getRowAndColumnCount"},
		{"internal/tableclass", "Classifier", "hasValidText"},
		{"internal/tableclass", "Classifier", "hasOneOfElements"},
		{"internal/tableclass", "Classifier", "getDirectDescendants"},
		{"internal/tableclass", "Classifier", "hasNestedTables"},
	})
	// reference resolution (Model/AbsURL.lean)
	x.bodyGroup(body, "urlBodies", []string{"C06", "C16"}, [][3]string{
		{"internal/stringutil", "", "CreateAbsoluteURL"},
	})
	// tree helpers every stage leans on: the deep copy the converter works on (Model/Render.lean
	// `dedupNode ∘ id`: a complete copy), ancestor tests, foreign raw-text test
	x.bodyGroup(body, "domHelperBodies", []string{"C03", "C05", "C10", "C20"}, [][3]string{
		{"internal/domutil", "", "Clone"},
		{"internal/domutil", "", "IsForeignRawTextElement"},
		{"internal/domutil", "", "HasAncestor"},
		{"internal/domutil", "", "Contains"},
		{"internal/domutil", "", "SomeNode"},
		{"internal/domutil", "", "NodeName"},
		{"internal/domutil", "", "GetFirstElementByTagName"},
		{"internal/domutil", "", "GetFirstElementByTagNameInc"},
	})
	// the rendering of Text elements and of the document: what Model/TextRender.lean models
	x.bodyGroup(body, "textRenderBodies", []string{"C01", "C02", "C05", "C06", "C07", "C09"}, [][3]string{
		{"internal/webdoc", "Text", "GenerateOutput"},
		{"internal/webdoc", "Text", "GetTextNodes"},
		{"internal/webdoc", "Tag", "GenerateOutput"},
		{"internal/webdoc", "Document", "GenerateOutput"},
		{"internal/domutil", "", "TreeClone"},
		{"internal/domutil", "", "GetAncestors"},
		{"internal/domutil", "", "GetNearestCommonAncestor"},
		{"internal/domutil", "", "GetParentElement"},
		{"internal/domutil", "", "InnerText"},
		{"internal/domutil", "", "StripAttributes"},
		{"internal/domutil", "", "MakeAllLinksAbsolute"},
		{"internal/domutil", "", "MakeAllSrcAttributesAbsolute"},
		{"internal/domutil", "", "MakeAllSrcSetAbsolute"},
	})
	// the rendering of the other element kinds: what Model/MediaRender.lean models
	x.bodyGroup(body, "mediaRenderBodies", []string{"C04", "C05", "C06", "C09", "C19"}, [][3]string{
		{"internal/webdoc", "Image", "GenerateOutput"},
		{"internal/webdoc", "Image", "GetURLs"},
		{"internal/webdoc", "Image", "getProcessedNode"},
		{"internal/webdoc", "Image", "cloneAndProcessNode"},
		{"internal/webdoc", "Figure", "GenerateOutput"},
		{"internal/webdoc", "Video", "GenerateOutput"},
		{"internal/webdoc", "Embed", "GenerateOutput"},
		{"internal/webdoc", "Table", "GenerateOutput"},
		{"internal/webdoc", "Table", "GetImageURLs"},
		{"internal/webdoc", "Document", "GetImageURLs"},
		{"internal/domutil", "", "CloneAndProcessTree"},
		{"internal/domutil", "", "CloneAndProcessList"},
		{"internal/domutil", "", "GetOutputNodes"},
		{"internal/domutil", "", "GetAllSrcSetURLs"},
		{"internal/domutil", "", "GetSrcSetURLs"},
		{"internal/domutil", "", "makeSrcSetAbsolute"},
		{"internal/domutil", "", "GetFirstElementByTagNameInc"},
		{"internal/domutil", "", "RemoveDuplicateAttributes"},
	})
	// how the page-number finder reads text: what Model/Terms.lean models
	x.bodyGroup(body, "pageTermBodies", []string{"C16", "C17"}, [][3]string{
		{"internal/pagination", "PageNumberFinder", "addNonLinkTextIfValid"},
		{"internal/pagination", "PageNumberFinder", "addLinkIfValid"},
		{"internal/pagination", "PageNumberFinder", "linkTextToNumber"},
	})
	// the IE Reading View accessor: what Model/IEReader.lean models
	x.bodyGroup(body, "ieReaderBodies", []string{"C14"}, [][3]string{
		{"internal/markup/iereader", "", "NewParser"},
		{"internal/markup/iereader", "Parser", "Article"},
		{"internal/markup/iereader", "Parser", "OptOut"},
		{"internal/markup/iereader", "Parser", "findTitle"},
		{"internal/markup/iereader", "Parser", "findImages"},
		{"internal/markup/iereader", "Parser", "findPublisher"},
		{"internal/markup/iereader", "Parser", "findCopyright"},
		{"internal/markup/iereader", "Parser", "findAuthor"},
		{"internal/markup/iereader", "Parser", "findDate"},
		{"internal/markup/iereader", "Parser", "findOptOut"},
		{"internal/markup/iereader", "Parser", "isImageRelevantBySize"},
		{"internal/markup/iereader", "Parser", "getImageCaption"},
		{"internal/markup", "", "NewParser"},
		{"internal/markup", "Parser", "OptOut"},
		{"internal/markup", "Parser", "MarkupInfo"},
	})
	// the image extractor: what Model/ImageExtract.lean models
	x.bodyGroup(body, "imageExtractBodies", []string{"C02", "C04", "C09"}, [][3]string{
		{"internal/extractor/embed", "ImageExtractor", "Extract"},
		{"internal/extractor/embed", "ImageExtractor", "findRealFigureImage"},
		{"internal/extractor/embed", "ImageExtractor", "findVisibleFigCaption"},
		{"internal/extractor/embed", "ImageExtractor", "processPicture"},
		{"internal/extractor/embed", "ImageExtractor", "replaceLazyAttr"},
		{"internal/extractor/embed", "ImageExtractor", "replaceLazySrcAttr"},
		{"internal/extractor/embed", "ImageExtractor", "replaceLazySrcsetAttr"},
		{"internal/extractor/embed", "ImageExtractor", "createFigCaption"},
	})
	// the OpenGraph parser: what Model/OpenGraph.lean models
	x.bodyGroup(body, "openGraphBodies", []string{"C14"}, [][3]string{
		{"internal/markup/opengraph", "", "NewParser"},
		{"internal/markup/opengraph", "Parser", "parseMetaTags"},
		{"internal/markup/opengraph", "ImagePropParser", "Parse"},
		{"internal/markup/opengraph", "ImagePropParser", "Verify"},
		{"internal/markup/opengraph", "ProfilePropParser", "Parse"},
		{"internal/markup/opengraph", "ProfilePropParser", "GetFullName"},
		{"internal/markup/opengraph", "ArticlePropParser", "Parse"},
		{"internal/markup/opengraph", "Parser", "Title"},
		{"internal/markup/opengraph", "Parser", "Type"},
		{"internal/markup/opengraph", "Parser", "URL"},
		{"internal/markup/opengraph", "Parser", "Images"},
		{"internal/markup/opengraph", "Parser", "Description"},
		{"internal/markup/opengraph", "Parser", "Publisher"},
		{"internal/markup/opengraph", "Parser", "Author"},
		{"internal/markup/opengraph", "Parser", "Article"},
		{"internal/markup/opengraph", "Parser", "OptOut"},
		{"internal/markup/opengraph", "PrefixNameList", "setDefault"},
	})
	// the word counters: what Model/Words.lean models
	x.bodyGroup(body, "wordCounterBodies", []string{"C09"}, [][3]string{
		{"internal/stringutil", "FullWordCounter", "Count"},
		{"internal/stringutil", "LetterWordCounter", "Count"},
		{"internal/stringutil", "FastWordCounter", "Count"},
		{"internal/stringutil", "", "SelectWordCounter"},
	})
	// the schema.org accessor: what Model/SchemaOrg.lean models
	x.bodyGroup(body, "schemaOrgBodies", []string{"C14"}, [][3]string{
		{"internal/markup/schemaorg", "Parser", "parse"},
		{"internal/markup/schemaorg", "Parser", "parseElement"},
		{"internal/markup/schemaorg", "Parser", "getItemScopeParent"},
		{"internal/markup/schemaorg", "Parser", "createItemForElement"},
		{"internal/markup/schemaorg", "Parser", "isItemScope"},
		{"internal/markup/schemaorg", "Parser", "getItemProp"},
		{"internal/markup/schemaorg", "Parser", "getItemType"},
		{"internal/markup/schemaorg", "Parser", "getPropertyValue"},
		{"internal/markup/schemaorg", "Parser", "getAuthorFromRelAttribute"},
		{"internal/markup/schemaorg", "Parser", "getArticleItems"},
		{"internal/markup/schemaorg", "Parser", "getImageItems"},
		{"internal/markup/schemaorg", "Parser", "Title"},
		{"internal/markup/schemaorg", "Parser", "Type"},
		{"internal/markup/schemaorg", "Parser", "URL"},
		{"internal/markup/schemaorg", "Parser", "Images"},
		{"internal/markup/schemaorg", "Parser", "Description"},
		{"internal/markup/schemaorg", "Parser", "Publisher"},
		{"internal/markup/schemaorg", "Parser", "Copyright"},
		{"internal/markup/schemaorg", "Parser", "Author"},
		{"internal/markup/schemaorg", "Parser", "Article"},
		{"internal/markup/schemaorg", "Parser", "OptOut"},
		{"internal/markup/schemaorg", "BaseThingItem", "init"},
		{"internal/markup/schemaorg", "BaseThingItem", "putStringValue"},
		{"internal/markup/schemaorg", "BaseThingItem", "putItemValue"},
		{"internal/markup/schemaorg", "", "NewArticleItem"},
		{"internal/markup/schemaorg", "ArticleItem", "getArticle"},
		{"internal/markup/schemaorg", "ArticleItem", "getCopyright"},
		{"internal/markup/schemaorg", "ArticleItem", "getPersonOrOrganizationName"},
		{"internal/markup/schemaorg", "ArticleItem", "getRepresentativeImageItem"},
		{"internal/markup/schemaorg", "ArticleItem", "getImage"},
		{"internal/markup/schemaorg", "", "NewImageItem"},
		{"internal/markup/schemaorg", "ImageItem", "isRepresentativeOfPage"},
		{"internal/markup/schemaorg", "ImageItem", "getImage"},
		{"internal/markup/schemaorg", "", "NewPersonItem"},
		{"internal/markup/schemaorg", "PersonItem", "getName"},
		{"internal/markup/schemaorg", "", "NewOrganizationItem"},
		{"internal/markup/schemaorg", "OrganizationItem", "getName"},
	})
	// the prefix test whose success licenses `linkHref[lenPrefix:]` in PrevNextFinder.FindOutlink
	x.bodyStmts(body, "internal/stringutil", "", "HasPrefixIgnoreCase", "hasPrefixIgnoreCaseBody", "C01", "C16")
}

func (x *Ex) genInventory() string {
	f := newLeanFile("Inventory", "Inventories: source sites used as proof premises.")
	x.inventory(f, "loggerSites", "every use of the logger in library code, with its syntactic role", x.loggerSites(), "C13")
	x.inventory(f, "mapRanges", "every range over a map-typed expression in library code", x.mapRanges(), "C11")
	x.inventory(f, "packageWrites", "every write rooted at a package-level variable in library code", x.packageWrites(), "C11", "C12")
	x.inventory(f, "hazardSites", "index / slice / type-assertion / panic sites of library code", x.hazardSites(), "C01")
	x.inventory(f, "mutationSites", "every write to a html.Node / url.URL / Options value in library code", x.mutationSites(), "C10")
	x.inventory(f, "packageVars", "package-level variables of library code", x.packageVars(), "C12")
	return f.finish()
}
