package main

import (
	"fmt"
	"strings"

	distiller "github.com/markusmobius/go-domdistiller"
	"golang.org/x/net/html"
	"golang.org/x/net/html/atom"
)

// rootselect: the model of the root selection (Model/Root.lean: the head of Apply and of
// NewContentExtractor) against the implementation. For an element root the real document element
// is read through the hook; for any other root the model's choice is checked on the real code:
// Apply must fail exactly when the model says so, and otherwise give the result it gives on the
// element the model selected.

func rootSelectRoots(r *Rng, g *PageGen) []*html.Node {
	mkText := func(s string) *html.Node { return &html.Node{Type: html.TextNode, Data: s} }
	mkEl := func(tag string, kids ...*html.Node) *html.Node {
		n := &html.Node{Type: html.ElementNode, Data: tag, DataAtom: atom.Lookup([]byte(tag))}
		for _, k := range kids {
			n.AppendChild(k)
		}
		return n
	}
	mkDoc := func(kids ...*html.Node) *html.Node {
		n := &html.Node{Type: html.DocumentNode}
		for _, k := range kids {
			n.AppendChild(k)
		}
		return n
	}
	para := func() *html.Node { return mkEl("p", mkText(g.words(30))) }
	src := "<html><head><title>" + g.words(3) + "</title></head><body>" + g.blocks(r.Range(2, 5), 0) + "</body></html>"
	d := parseDoc(src)
	var els []*html.Node
	findAll(d.Root, func(x *html.Node) bool { return x.Type == html.ElementNode }, &els)
	out := []*html.Node{d.Root, d.elementRoot(), findFirst(d.Root, "body")}
	for k := 0; k < 2 && len(els) > 0; k++ {
		e := els[r.Intn(len(els))]
		out = append(out, e, cloneTree(e))
	}
	out = append(out,
		mkDoc(),
		mkDoc(&html.Node{Type: html.CommentNode, Data: "c"}, mkText("t")),
		mkDoc(&html.Node{Type: html.DoctypeNode, Data: "html"}, &html.Node{Type: html.CommentNode, Data: "c"}, mkEl("div", para(), para())),
		mkDoc(mkText("t"), mkEl("p", mkText(g.words(40))), mkEl("html", mkEl("body", para()))),
		mkDoc(mkEl("section", para(), mkEl("html", mkEl("body", para(), para())))),
		mkEl("div", para(), mkEl("html", mkEl("body", para()), mkEl("html", para()))),
		mkEl("html", mkEl("body", para(), mkEl("html", para()))),
		mkEl("div", mkEl("span", mkEl("HTML", para())), para()),
		mkText(g.words(5)),
		&html.Node{Type: html.CommentNode, Data: "c"},
		mkDoc(&html.Node{Type: html.CommentNode, Data: "c"}, mkEl("img")),
	)
	return out
}

func rootSelectCorr(ctx *Ctx, n int) {
	rep := ctx.Rep
	type rcase struct {
		root  *html.Node
		ids   map[*html.Node]int
		nodes []*html.Node
	}
	var cases []rcase
	var lines []string
	for i := 0; i < n; i++ {
		r := newRng(ctx.Seed, fmt.Sprintf("C01/root/%d", i))
		g := newPageGen(r)
		for _, root := range rootSelectRoots(r, g) {
			if root == nil {
				continue
			}
			c := rcase{root: root, ids: map[*html.Node]int{}}
			var sb strings.Builder
			enc := func(x *html.Node) {
				before := len(c.ids)
				encodeOwn(c.ids, x, &sb)
				_ = before
			}
			if root.Type == html.ElementNode {
				sb.WriteString("1 1")
				enc(root)
			} else {
				nk := 0
				for k := root.FirstChild; k != nil; k = k.NextSibling {
					nk++
				}
				c.ids[root] = 0 // the root itself takes id 0, as in the model's `other 0 3`
				fmt.Fprintf(&sb, "0 %d", nk)
				for k := root.FirstChild; k != nil; k = k.NextSibling {
					enc(k)
				}
			}
			c.nodes = make([]*html.Node, len(c.ids))
			for nd, id := range c.ids {
				c.nodes[id] = nd
			}
			cases = append(cases, c)
			lines = append(lines, fmt.Sprintf("rootselect %d %s", len(cases), strings.TrimSpace(sb.String())))
		}
	}
	rep.CorrCases["rootselect"] += len(cases)
	ans, err := runDriver(ctx.Driver, lines)
	if err != nil {
		rep.mismatch("rootselect", "driver-failed", err.Error(), "")
		return
	}
	noElem := "input doesn't have a valid element"
	for i, c := range cases {
		model := ans[fmt.Sprint(i+1)]
		info := map[string]interface{}{"root": trunc(renderNodeSafe(c.root), 1500), "root_type": int(c.root.Type)}
		if c.root.Type == html.ElementNode {
			de := distiller.VerifDocumentElement(c.root)
			impl := fmt.Sprintf("%d %d", c.ids[c.root], c.ids[de])
			if model != impl {
				rep.mismatch("rootselect", info, model, impl)
			}
			rep.hist("rootselect:element-root")
			continue
		}
		res, aerr := distiller.Apply(c.root, nil)
		if model == "err" {
			rep.hist("rootselect:rejected")
			if aerr == nil || !strings.Contains(aerr.Error(), noElem) {
				rep.mismatch("rootselect", info, model, fmt.Sprintf("Apply returned %v", aerr))
			}
			continue
		}
		var rid, did int
		if _, e := fmt.Sscanf(model, "%d %d", &rid, &did); e != nil || rid >= len(c.nodes) || did >= len(c.nodes) {
			rep.mismatch("rootselect", info, model, "unparsable model answer")
			continue
		}
		rep.hist("rootselect:non-element-root")
		if aerr != nil {
			rep.mismatch("rootselect", info, model, "Apply returned the error "+aerr.Error())
			continue
		}
		chosen := c.nodes[rid]
		if de := distiller.VerifDocumentElement(chosen); c.ids[de] != did {
			rep.mismatch("rootselect", info, model, fmt.Sprintf("document element of the selected root is node %d", c.ids[de]))
			continue
		}
		ref, rerr := distiller.Apply(chosen, nil)
		if rerr != nil || ref == nil || res == nil {
			rep.mismatch("rootselect", info, model, fmt.Sprintf("Apply on the selected element: %v", rerr))
			continue
		}
		a, b := viewOf(res), viewOf(ref)
		if f, same := a.sameExceptPagination(b); !same {
			rep.mismatch("rootselect", info, model, "Apply(root) and Apply(selected element) differ in "+f)
		}
	}
}
