package main

import (
	"fmt"
	"regexp"
	"strings"

	distiller "github.com/markusmobius/go-domdistiller"
	"golang.org/x/net/html"
)

func init() { props["C18"] = runC18 }

// TableSpec is a feature vector a table is built from.
type TableSpec struct {
	Editable   int // 0 none, 1 contenteditable=true, 2 contenteditable=TRUE, 3 contenteditable=false
	Role       string
	DescRole   int // 0 none, 1 role=row on tr, 2 gridcell on td, 3 navigation on td, 4 only inside nested table, 5 upper-case ROW, 6 landmark on the nested table element, 7 table-part role on the nested table element
	Datatable  string
	Nested     bool
	Rows, Cols int
	// Ragged: 0 every row has Cols cells; 1 the last three rows have two more; 2 the first
	// three rows have two more (the column count is the maximum over ALL rows)
	Ragged int
	ColSpan    bool // express the last two columns with colspan=2
	RowSpan    bool // first tr carries rowspan=2 (counts as two rows)
	Header     int  // 0 none,1 caption text,2 caption empty,3 thead,4 tfoot,5 colgroup,6 col,7 th text,8 th empty, 9 empty th then th with text
	Cell       int  // 0 none,1 abbr attr,2 headers,3 scope,4 lone abbr child,5 abbr child + span
	Summary    bool
	// EmptyVal: the summary / abbr / headers / scope attribute is present without a value
	// (`summary=""`, a bare `scope`): the cascade asks for presence only
	EmptyVal bool
	Object     int // 0 none,1 iframe,2 embed,3 object,4 applet
	ID         string
}

type tableSpecPlain TableSpec

func (s TableSpec) String() string { return fmt.Sprintf("%+v", tableSpecPlain(s)) }

func (s TableSpec) HTML(cellText func() string) string {
	var sb strings.Builder
	attrs := ""
	if s.ID != "" {
		attrs += ` id="` + s.ID + `"`
	}
	if s.Role != "" {
		attrs += ` role="` + s.Role + `"`
	}
	if s.Datatable != "" {
		attrs += ` datatable="` + s.Datatable + `"`
	}
	if s.Summary {
		if s.EmptyVal {
			attrs += ` summary=""`
		} else {
			attrs += ` summary="sum"`
		}
	}
	sb.WriteString("<table" + attrs + ">")
	switch s.Header {
	case 1:
		sb.WriteString("<caption>" + cellText() + "</caption>")
	case 2:
		sb.WriteString("<caption>  </caption>")
	case 5:
		sb.WriteString("<colgroup></colgroup>")
	case 6:
		sb.WriteString("<colgroup><col></colgroup>")
	}
	rows := s.Rows
	open, close := "<tbody>", "</tbody>"
	if s.Header == 3 {
		open, close = "<thead>", "</thead>"
	}
	if s.Header == 4 {
		open, close = "<tfoot>", "</tfoot>"
	}
	sb.WriteString(open)
	for i := 0; i < rows; i++ {
		tr := "<tr"
		if i == 0 && s.DescRole == 1 {
			tr += ` role="row"`
		}
		if i == 0 && s.DescRole == 5 {
			tr += ` role="ROW"`
		}
		if i == 0 && s.RowSpan {
			tr += ` rowspan="2"`
		}
		sb.WriteString(tr + ">")
		cols := s.Cols
		if (s.Ragged == 1 && i >= rows-3) || (s.Ragged == 2 && i < 3) {
			cols += 2
		}
		for j := 0; j < cols; j++ {
			first := i == 0 && j == 0
			tag, a := "td", ""
			if first {
				switch s.Header {
				case 7:
					tag = "th"
				case 8, 9:
					tag = "th"
				}
				switch s.DescRole {
				case 2:
					a += ` role="gridcell"`
				case 3:
					a += ` role="navigation"`
				}
				switch {
				case s.Cell == 1 && s.EmptyVal:
					a += ` abbr=""`
				case s.Cell == 2 && s.EmptyVal:
					a += ` headers`
				case s.Cell == 3 && s.EmptyVal:
					a += ` scope`
				case s.Cell == 1:
					a += ` abbr="x"`
				case s.Cell == 2:
					a += ` headers="h"`
				case s.Cell == 3:
					a += ` scope="col"`
				}
			}
			if s.ColSpan && j == cols-2 && cols >= 2 {
				a += ` colspan="2"`
			}
			sb.WriteString("<" + tag + a + ">")
			txt := cellText()
			if first && (s.Header == 8 || s.Header == 9) {
				txt = " "
			}
			switch {
			case first && s.Cell == 4 && tag == "td":
				sb.WriteString("<abbr>" + txt + "</abbr>")
			case first && s.Cell == 5 && tag == "td":
				sb.WriteString("<abbr>" + txt + "</abbr><span>" + cellText() + "</span>")
			case i == 0 && j == 1 && s.Header == 9:
				sb.WriteString(txt)
			case i == rows-1 && j == 0 && s.Nested:
				inner := `<table`
				if s.DescRole == 6 {
					inner += ` role="navigation"`
				}
				if s.DescRole == 7 {
					inner += ` role="rowgroup"`
				}
				inner += `><tr><td`
				if s.DescRole == 4 {
					inner += ` role="gridcell"`
				}
				inner += `>` + cellText() + `</td><td>` + cellText() + `</td></tr></table>`
				sb.WriteString(inner)
			case i == rows-1 && j == cols-1 && s.Object > 0:
				sb.WriteString([]string{"", `<iframe src="http://ads.example.com/x"></iframe>`, `<embed src="x.swf">`, `<object data="x.swf"></object>`, `<applet code="x"></applet>`}[s.Object])
				sb.WriteString(txt)
			default:
				sb.WriteString(txt)
			}
			sb.WriteString("</" + tag + ">")
			if s.ColSpan && j == cols-2 && cols >= 2 {
				j++ // the spanned cell replaces the last column
			}
		}
		if s.Header == 9 && i == 0 {
			// (second header cell with text is the j==1 cell above; nothing to add)
		}
		sb.WriteString("</tr>")
	}
	sb.WriteString(close + "</table>")
	h := sb.String()
	switch s.Editable {
	case 1:
		h = `<div contenteditable="true"><p>` + cellText() + `</p>` + h + `</div>`
	case 2:
		h = `<section><div contenteditable="TRUE">` + h + `</div></section>`
	case 3:
		h = `<div contenteditable="false">` + h + `</div>`
	}
	return h
}

var c18Roles = []string{"", "", "", "presentation", "grid", "treegrid", "navigation", "main", "GRID", "Presentation", "other", "row"}
var c18Rows = []int{1, 2, 2, 3, 5, 6, 19, 20}
var c18Cols = []int{1, 2, 2, 4, 5}

func randTableSpec(r *Rng) TableSpec {
	pick := func(n int, pctZero int) int {
		if r.Chance(pctZero) {
			return 0
		}
		return 1 + r.Intn(n)
	}
	s := TableSpec{
		Editable: pick(3, 80), Role: c18Roles[r.Intn(len(c18Roles))], DescRole: pick(7, 70),
		Datatable: r.Pick("", "", "", "0", "1"), Nested: r.Chance(12),
		Rows: c18Rows[r.Intn(len(c18Rows))], Cols: c18Cols[r.Intn(len(c18Cols))],
		ColSpan: r.Chance(10), RowSpan: r.Chance(8),
		Header: pick(9, 65), Cell: pick(5, 70), Summary: r.Chance(15), Object: pick(4, 75),
	}
	if s.DescRole == 4 || s.DescRole == 6 || s.DescRole == 7 {
		s.Nested = true // these roles sit on or inside a nested table
	}
	s.EmptyVal = r.Chance(30)
	if r.Chance(20) {
		s.Ragged = 1 + r.Intn(2)
		if r.Chance(50) {
			// long and narrow, the widest rows beyond (or before) the 20th
			s.Rows = []int{21, 23, 25, 40}[r.Intn(4)]
			s.Cols = 1 + r.Intn(2)
		}
	}
	return s
}

func ancestorsOf(t *html.Node) string {
	var parts []string
	n := 0
	for p := t.Parent; p != nil; p = p.Parent {
		tag := ""
		if p.Type == html.ElementNode {
			tag = p.Data
		}
		parts = append(parts, hx(tag)+" "+hx(getAttr(p, "contenteditable")))
		n++
	}
	return fmt.Sprintf("%d %s", n, strings.Join(parts, " "))
}

func validTextAtoms(d *Doc, t *html.Node) string {
	var ids []string
	var all []*html.Node
	findAll(t, func(n *html.Node) bool { return n.Type == html.ElementNode }, &all)
	for _, e := range all {
		switch e.Data {
		case "caption", "th", "col", "colgroup", "embed", "object", "applet", "iframe":
			if distiller.VerifValidText(e) {
				ids = append(ids, fmt.Sprint(d.ID[e]))
			}
		}
	}
	return fmt.Sprintf("%d %s", len(ids), strings.Join(ids, " "))
}

func reasonClass(r string) string {
	// the loop over cells returns at the first cell having either feature; which of the two
	// reasons is reported depends on cell order only. The verdict (Data) is the same.
	if r == "AbbrHeadersScope" || r == "OnlyHasAbbr" {
		return "CellAbbr"
	}
	return r
}

type tableReplay struct {
	HTML string `json:"html"`
	Spec string `json:"spec,omitempty"`
}

var rxTableLog = regexp.MustCompile(`^Table: (\w+) #(\w+)`)

func runC18(ctx *Ctx) {
	rep := ctx.Rep
	rep.Rule = "tables built from rule-relevant feature vectors (editable ancestor, roles incl. case variants, datatable, nesting, rows 1/2/3/5/6/19/20, cols 1/2/4/5, row/colspan, header structures, cell attributes, summary, embedded objects), classified stand-alone and inside multi-table documents by the converter; distinct by feature vector; non-trivial = at least two rules of the cascade applicable or a feature on a threshold"
	corr := newCorr("tableclass")
	corr.keepAll = true
	type pending struct {
		impl   string
		replay tableReplay
		where  string
	}
	var pend []pending
	tok := 0
	cellText := func() string { tok++; return fmt.Sprintf("w%d", tok) }

	addTable := func(d *Doc, t *html.Node, implType, implReason, where string, replay tableReplay) {
		var sb strings.Builder
		sb.WriteString(ancestorsOf(t) + " " + validTextAtoms(d, t))
		d.encodeTree(t, &sb)
		// the model answer is checked below (two comparisons), so register with a placeholder
		corr.add(sb.String(), "", replay)
		pend = append(pend, pending{impl: implType + " " + reasonClass(implReason), replay: replay, where: where})
	}

	classifyStandalone := func(spec TableSpec) {
		src := "<html><body>" + spec.HTML(cellText) + "</body></html>"
		d := parseDoc(src)
		t := findFirst(d.Root, "table")
		if t == nil {
			return
		}
		tp, reason := distiller.VerifClassifyTable(t)
		rep.Evaluations++
		rep.hist("impl:" + tp + ":" + reason)
		addTable(d, t, tp, reason, "standalone", tableReplay{HTML: src, Spec: spec.String()})
		rep.sample(map[string]interface{}{"spec": spec.String(), "verdict": tp + " " + reason})
	}

	// in-context: several tables in one page, classified by the converter's own classifier
	classifyInContext := func(specs []TableSpec, r *Rng) {
		var sb strings.Builder
		sb.WriteString("<html><body>")
		for i := range specs {
			specs[i].ID = fmt.Sprintf("t%d", i)
			wrapO, wrapC := "", ""
			switch r.Intn(5) {
			case 1:
				wrapO, wrapC = "<div><div>", "</div></div>"
			case 2:
				wrapO, wrapC = "<ul><li>", "</li></ul>"
			case 3:
				wrapO, wrapC = "<blockquote>", "</blockquote>"
			case 4:
				wrapO, wrapC = "<article><section>", "</section></article>"
			}
			sb.WriteString("<p>" + cellText() + " " + cellText() + "</p>" + wrapO + specs[i].HTML(cellText) + wrapC)
		}
		sb.WriteString("</body></html>")
		src := sb.String()
		d := parseDoc(src)
		res := distiller.VerifExtract(d.elementRoot(), pageURL, distiller.LogVisibility)
		rep.Evaluations++
		seen := map[string]string{}
		for _, l := range res.Visibility {
			if m := rxTableLog.FindStringSubmatch(l); m != nil {
				seen[m[2]] = m[1]
			}
		}
		var tables []*html.Node
		findAll(d.Root, func(n *html.Node) bool {
			return n.Type == html.ElementNode && n.Data == "table" && getAttr(n, "id") != ""
		}, &tables)
		for _, t := range tables {
			id := getAttr(t, "id")
			tp, ok := seen[id]
			if !ok {
				rep.hist("context:not-visited")
				continue
			}
			// in context only the type is logged with the id; the stand-alone reason is used
			// for the reason class, the type comes from the converter's classifier
			_, reason := distiller.VerifClassifyTable(t)
			rep.hist("context:" + tp)
			addTable(d, t, tp, reason, "in-document", tableReplay{HTML: src, Spec: "table #" + id + " of a multi-table page"})
		}
	}

	if ctx.Replay != "" {
		var r tableReplay
		readReplay(ctx.Replay, &r)
		d := parseDoc(r.HTML)
		res := distiller.VerifExtract(d.elementRoot(), pageURL, distiller.LogVisibility)
		seen := map[string]string{}
		for _, l := range res.Visibility {
			if m := rxTableLog.FindStringSubmatch(l); m != nil {
				seen[m[2]] = m[1]
			}
		}
		var tables []*html.Node
		findAll(d.Root, func(n *html.Node) bool { return n.Type == html.ElementNode && n.Data == "table" }, &tables)
		for _, t := range tables {
			tp, reason := distiller.VerifClassifyTable(t)
			if s, ok := seen[getAttr(t, "id")]; ok && getAttr(t, "id") != "" {
				tp = s
			}
			rep.Evaluations++
			addTable(d, t, tp, reason, "replay", r)
		}
	} else {
		n := ctx.pick(3000, 60000)
		for i := 0; i < n; i++ {
			r := newRng(ctx.Seed, fmt.Sprintf("C18/%d", i))
			classifyStandalone(randTableSpec(r))
		}
		m := ctx.pick(300, 6000)
		for i := 0; i < m; i++ {
			r := newRng(ctx.Seed, fmt.Sprintf("C18ctx/%d", i))
			k := r.Range(2, 4)
			specs := make([]TableSpec, k)
			for j := range specs {
				specs[j] = randTableSpec(r)
				specs[j].Editable = 0
				if r.Chance(30) && j > 0 {
					specs[j] = specs[j-1] // the same table twice in one page
				}
			}
			classifyInContext(specs, r)
		}
	}

	// run the model; compare implementation with (a) the generated cascade: tie, (b) the
	// documented cascade: the property itself
	rep.CorrCases["tableclass"] += corr.n
	ans, err := runDriver(ctx.Driver, corr.lines)
	if err != nil {
		rep.mismatch("tableclass", "driver-failed", err.Error(), "")
	}
	for i, p := range pend {
		a := ans[fmt.Sprint(i+1)]
		f := strings.Fields(a)
		if len(f) == 0 || f[0] == "unmodelled" {
			rep.hist("model:unmodelled")
			continue
		}
		var gen, spec string
		switch f[0] {
		case "ok":
			gen, spec = f[1]+" "+reasonClass(f[2]), f[3]+" "+reasonClass(f[4])
		case "gen-untranslated":
			spec = f[1] + " " + reasonClass(f[2])
		default:
			rep.mismatch("tableclass", p.replay, a, p.impl)
			continue
		}
		if gen != "" && gen != p.impl {
			rep.mismatch("tableclass("+p.where+")", p.replay, gen, p.impl)
		}
		if spec != p.impl {
			rep.violate(map[string]string{"where": p.where, "documented": spec, "implementation": p.impl},
				fmt.Sprintf("table classified %q by the implementation but the documented cascade gives %q (%s)", p.impl, spec, p.where), p.replay)
		}
		// non-trivial: at least two rules applicable, or a feature sits on a threshold
		if f[0] == "ok" && len(f) >= 7 && (f[5] != "0" && f[5] != "1" || f[6] == "1") {
			rep.nontrivial(p.replay.Spec + p.where)
		}
		rep.hist("applicable-rules:" + f[len(f)-2])
	}
}
