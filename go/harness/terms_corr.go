package main

import (
	"fmt"
	"strings"

	distiller "github.com/markusmobius/go-domdistiller"
)

// terms / linknum: how the page-number finder reads plain text and link text
// (Model/Terms.lean) against the real addNonLinkTextIfValid / linkTextToNumber, on texts made of
// numbers, words and every kind of separator and padding (ASCII, Latin-1, general punctuation,
// no-break / thin / ideographic spaces, CJK, full-width digits).

var termPieces = []string{"1", "2", "3", "7", "10", "12", "99", "100", "101", "007", "2024", "99999999999999999999", "0",
	"page", "Page", "of", "next", "x", "p2", "2nd", "3.5", "1-2", "[4]", "(5)", "{6}", "-7-", "8.", "«9»", "*10*", "#11", "№12", "_13_", "1_4",
	"第2页", "２", "٣", "é", "ü5", "5ü", "½", "²", "2²", "|", "·", "»", "—", "…", ",", ".", ":", "/", "|3|", "€4", "4€", "a", "Z9"}

var termSeps = []string{" ", " ", "  ", "\t", "\n", "\r\n", "\f", "\v", " ", " | ", " ", "　", "​", " ", "", "", " | ", " · ", ", ", "\u0085"}

func genTermText(r *Rng) string {
	var sb strings.Builder
	if r.Chance(30) {
		sb.WriteString(termSeps[r.Intn(len(termSeps))])
	}
	for n := r.Range(0, 6); n > 0; n-- {
		sb.WriteString(termPieces[r.Intn(len(termPieces))])
		sb.WriteString(termSeps[r.Intn(len(termSeps))])
	}
	return sb.String()
}

func groupsStr(gs []distiller.VerifPageGroup) string {
	var parts []string
	for _, g := range gs {
		var items []string
		for _, p := range g.List {
			items = append(items, fmt.Sprintf("%d:%s", p.Num, hx(p.URL)))
		}
		parts = append(parts, fmt.Sprintf("<%d:%s>", g.DeltaSign, strings.Join(items, ",")))
	}
	return strings.Join(parts, " ")
}

func termsCorr(ctx *Ctx, n int) (*Corr, *Corr) {
	tc, lc := newCorr("terms"), newCorr("linknum")
	for i := 0; i < n; i++ {
		r := newRng(ctx.Seed, fmt.Sprintf("terms/%d", i))
		text := genTermText(r)
		added, groups := distiller.VerifTextTerms(text, "http://e.com/1")
		tc.add(hx(text)+" "+hx("http://e.com/1"), b01(added)+" "+groupsStr(groups), map[string]string{"text": text})
		lt := text
		if r.Chance(60) {
			lt = r.Pick("", " ", " ", "(", "[", " {") + r.Pick("1", "2", "12", "100", "101", "-3", "+4", "007", "٣", "２", "99999999999999999999", "3a", "") + r.Pick("", " ", ")", "]", "} ", "\n", ".")
		}
		num, ok := distiller.VerifLinkTextToNumber(lt)
		ans := "-"
		if ok && num >= 0 && num <= 100 {
			ans = fmt.Sprint(num)
		}
		lc.add(hx(lt), ans, map[string]string{"text": lt})
	}
	return tc, lc
}
