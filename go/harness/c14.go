package main

import (
	"fmt"
	"strings"

	distiller "github.com/markusmobius/go-domdistiller"
	"github.com/markusmobius/go-domdistiller/data"
)

func init() { props["C14"] = runC14 }

type metaIntent struct {
	OGTitle, OGType, OGURL, OGImage, OGDesc, OGSite string
	OGSection, OGPublished                          string
	OGEarly                                         string // an article:* tag in front of everything, og:type included
	Schema                                          bool
	SHeadline, SURL, SDesc, SAuthor, SPublisher     string
	SAuthorNested                                   bool
	SPublished, SModified, SSection                 string
	IETitle, IECopyright, IEByline, IEDateline      string
	IEDisplayDate                                   string
	IEOptOut                                        string // "", "true", "false", "TRUE"
	IEInBody                                        bool
	Shuffle                                         uint64
}

func (m metaIntent) HTML(body string) string {
	var head, bodyMeta []string
	add := func(s string) { head = append(head, s) }
	og := func(p, v string) {
		if v != "" {
			add(`<meta property="og:` + p + `" content="` + v + `">`)
		}
	}
	og("title", m.OGTitle)
	og("type", m.OGType)
	og("url", m.OGURL)
	og("image", m.OGImage)
	og("description", m.OGDesc)
	og("site_name", m.OGSite)
	// article:* properties are only meaningful to the OpenGraph parser once it has seen
	// og:type=article (its documented behaviour), so they go after the shuffled part
	var tail []string
	if m.OGSection != "" {
		tail = append(tail, `<meta property="article:section" content="`+m.OGSection+`">`)
	}
	if m.OGPublished != "" {
		tail = append(tail, `<meta property="article:published_time" content="`+m.OGPublished+`">`)
	}
	ie := func(n, v string) {
		if v == "" {
			return
		}
		t := `<meta name="` + n + `" content="` + v + `">`
		if m.IEInBody {
			bodyMeta = append(bodyMeta, t)
		} else {
			add(t)
		}
	}
	ie("title", m.IETitle)
	ie("copyright", m.IECopyright)
	ie("displaydate", m.IEDisplayDate)
	ie("IE_RM_OFF", m.IEOptOut)
	add("<title>Plain page title for metadata pages</title>")
	// deterministic shuffle of the head
	s := m.Shuffle
	for i := len(head) - 1; i > 0; i-- {
		s = s*6364136223846793005 + 1442695040888963407
		j := int((s >> 33) % uint64(i+1))
		head[i], head[j] = head[j], head[i]
	}
	var sb strings.Builder
	head = append(head, tail...)
	if m.OGEarly != "" {
		// an article:* tag that precedes og:type; the article:* tags of the tail still follow the
		// type, so the OpenGraph article record exists whatever is made of the early tag
		head = append([]string{`<meta property="article:expiration_time" content="` + m.OGEarly + `">`}, head...)
	}
	sb.WriteString("<html><head>" + strings.Join(head, "\n") + "</head><body>\n")
	sb.WriteString(strings.Join(bodyMeta, "\n"))
	if m.IEByline != "" {
		sb.WriteString(`<div class="byline-name"> ` + m.IEByline + ` </div>`)
	}
	if m.IEDateline != "" {
		sb.WriteString(`<div class="dateline">` + m.IEDateline + `</div>`)
	}
	if m.Schema {
		sb.WriteString(`<div itemscope itemtype="http://schema.org/Article">`)
		if m.SHeadline != "" {
			sb.WriteString(`<h2 itemprop="headline">` + m.SHeadline + `</h2>`)
		}
		if m.SURL != "" {
			sb.WriteString(`<a itemprop="url" href="` + m.SURL + `">link</a>`)
		}
		if m.SDesc != "" {
			sb.WriteString(`<span itemprop="description">` + m.SDesc + `</span>`)
		}
		if m.SAuthor != "" {
			if m.SAuthorNested {
				sb.WriteString(`<div itemprop="author" itemscope itemtype="http://schema.org/Person"><span itemprop="name">` + m.SAuthor + `</span></div>`)
			} else {
				sb.WriteString(`<span itemprop="author">` + m.SAuthor + `</span>`)
			}
		}
		if m.SPublisher != "" {
			sb.WriteString(`<div itemprop="publisher" itemscope itemtype="http://schema.org/Organization"><span itemprop="name">` + m.SPublisher + `</span></div>`)
		}
		if m.SPublished != "" {
			sb.WriteString(`<meta itemprop="datePublished" content="` + m.SPublished + `">`)
		}
		if m.SModified != "" {
			sb.WriteString(`<meta itemprop="dateModified" content="` + m.SModified + `">`)
		}
		if m.SSection != "" {
			sb.WriteString(`<span itemprop="articleSection">` + m.SSection + `</span>`)
		}
		sb.WriteString(body + `</div>`)
	} else {
		sb.WriteString(body)
	}
	sb.WriteString("</body></html>")
	return sb.String()
}

type expSource struct {
	Title, Type, URL, Desc, Publisher, Copyright, Author string
	HasArticle                                           bool
	Art                                                  data.MarkupArticle
	OptOut                                               bool
}

// expectedInfo is the property restated on the generator's intent: per-source values as
// the page declares them, combined by the documented precedence.
func (m metaIntent) expectedInfo() (data.MarkupInfo, bool) {
	var srcs []expSource
	ogUsable := m.OGTitle != "" && m.OGType != "" && m.OGURL != "" && m.OGImage != ""
	if ogUsable {
		s := expSource{Title: m.OGTitle, URL: m.OGURL, Desc: m.OGDesc, Publisher: m.OGSite}
		if strings.ToLower(m.OGType) == "article" {
			s.Type = "Article"
		}
		if strings.ToLower(m.OGType) == "article" && (m.OGSection != "" || m.OGPublished != "") {
			s.HasArticle = true
			s.Art = data.MarkupArticle{Section: m.OGSection, PublishedTime: m.OGPublished}
		}
		srcs = append(srcs, s)
	}
	sc := expSource{}
	if m.Schema {
		sc = expSource{Title: m.SHeadline, Type: "Article", URL: m.SURL, Desc: m.SDesc, Author: m.SAuthor, Publisher: m.SPublisher, HasArticle: true,
			Art: data.MarkupArticle{PublishedTime: m.SPublished, ModifiedTime: m.SModified, Section: m.SSection}}
		if m.SAuthor != "" {
			sc.Art.Authors = []string{m.SAuthor}
		}
	}
	srcs = append(srcs, sc)
	ie := expSource{Title: m.IETitle, Copyright: m.IECopyright, Author: m.IEByline, HasArticle: true, OptOut: strings.ToLower(m.IEOptOut) == "true"}
	ie.Art.PublishedTime = m.IEDateline
	if ie.Art.PublishedTime == "" {
		ie.Art.PublishedTime = m.IEDisplayDate
	}
	if m.IEByline != "" {
		ie.Art.Authors = []string{m.IEByline}
	}
	srcs = append(srcs, ie)
	for _, s := range srcs {
		if s.OptOut {
			return data.MarkupInfo{}, ogUsable
		}
	}
	first := func(f func(expSource) string) string {
		for _, s := range srcs {
			if v := f(s); v != "" {
				return v
			}
		}
		return ""
	}
	info := data.MarkupInfo{
		Title: first(func(s expSource) string { return s.Title }), Type: first(func(s expSource) string { return s.Type }),
		URL: first(func(s expSource) string { return s.URL }), Description: first(func(s expSource) string { return s.Desc }),
		Publisher: first(func(s expSource) string { return s.Publisher }), Copyright: first(func(s expSource) string { return s.Copyright }),
		Author: first(func(s expSource) string { return s.Author }),
	}
	for _, s := range srcs {
		if s.HasArticle {
			info.Article = s.Art
			break
		}
	}
	return info, ogUsable
}

func leanList(xs []string) string { return "[" + strings.Join(xs, ", ") + "]" }

func encImage(i data.MarkupImage) string {
	return fmt.Sprintf("%s %s %s %s %d %d", hx(i.URL), hx(i.SecureURL), hx(i.Type), hx(i.Caption), i.Width, i.Height)
}
func showImage(i data.MarkupImage) string {
	return fmt.Sprintf("[%s %s %s %s %d %d]", hx(i.URL), hx(i.SecureURL), hx(i.Type), hx(i.Caption), i.Width, i.Height)
}
func encArticle(a *data.MarkupArticle) string {
	s := fmt.Sprintf("%s %s %s %s %d", hx(a.PublishedTime), hx(a.ModifiedTime), hx(a.ExpirationTime), hx(a.Section), len(a.Authors))
	for _, x := range a.Authors {
		s += " " + hx(x)
	}
	return s
}
func showArticle(a data.MarkupArticle) string {
	au := make([]string, len(a.Authors))
	for i, x := range a.Authors {
		au[i] = hx(x)
	}
	return fmt.Sprintf("(%s %s %s %s %s)", hx(a.PublishedTime), hx(a.ModifiedTime), hx(a.ExpirationTime), hx(a.Section), leanList(au))
}
func encSource(s distiller.VerifSource) string {
	var sb strings.Builder
	fmt.Fprintf(&sb, "%s %s %s %s %s %s %s %d", hx(s.Title), hx(s.Type), hx(s.URL), hx(s.Description), hx(s.Publisher), hx(s.Copyright), hx(s.Author), len(s.Images))
	for _, i := range s.Images {
		sb.WriteString(" " + encImage(i))
	}
	if s.Article != nil {
		sb.WriteString(" 1 " + encArticle(s.Article))
	} else {
		sb.WriteString(" 0")
	}
	sb.WriteString(" " + b01(s.OptOut))
	return sb.String()
}
func showInfo(i data.MarkupInfo) string {
	im := make([]string, len(i.Images))
	for k, x := range i.Images {
		im[k] = showImage(x)
	}
	return fmt.Sprintf("%s %s %s %s %s %s %s %s %s", hx(i.Title), hx(i.Type), hx(i.URL), hx(i.Description), hx(i.Publisher), hx(i.Copyright), hx(i.Author), showArticle(i.Article), leanList(im))
}

func randIntent(r *Rng, n int) metaIntent {
	opt := func(pct int, v string) string {
		if r.Chance(pct) {
			return v
		}
		return ""
	}
	t := func(s string) string { return fmt.Sprintf("%s %d", s, n) }
	m := metaIntent{Shuffle: r.next()}
	if r.Chance(75) {
		m.OGTitle, m.OGType, m.OGURL, m.OGImage = t("OG title"), r.Pick("article", "Article", "website", "profile"), "http://example.com/og", "http://example.com/og.png"
		// drop exactly one required property in a third of the pages
		switch r.Intn(12) {
		case 0:
			m.OGTitle = ""
		case 1:
			m.OGType = ""
		case 2:
			m.OGURL = ""
		case 3:
			m.OGImage = ""
		}
		m.OGDesc, m.OGSite = opt(60, t("OG description")), opt(50, t("OG site"))
		m.OGSection, m.OGPublished = opt(40, "og-section"), opt(40, "2020-01-01T00:00")
	}
	if r.Chance(65) {
		m.Schema = true
		m.SHeadline, m.SURL, m.SDesc = opt(80, t("Schema headline")), opt(50, "http://example.com/schema"), opt(50, t("Schema description"))
		m.SAuthor, m.SAuthorNested, m.SPublisher = opt(60, t("Schema Author")), r.Chance(50), opt(50, t("Schema Org"))
		m.SPublished, m.SModified, m.SSection = opt(50, "2021-02-02"), opt(50, "2021-03-05"), opt(40, "schema-section")
	}
	m.IETitle, m.IECopyright, m.IEByline = opt(50, t("IE title")), opt(50, t("(c) IE")), opt(40, t("IE Byline"))
	m.IEDateline, m.IEDisplayDate = opt(35, "March 3"), opt(35, "April 4")
	if r.Chance(15) {
		m.IEOptOut = r.Pick("true", "false", "TRUE", "True")
	}
	m.IEInBody = r.Chance(30)
	if (m.OGSection != "" || m.OGPublished != "") && r.Chance(35) {
		m.OGEarly = "2031-01-01"
	}
	return m
}

func runC14(ctx *Ctx) {
	rep := ctx.Rep
	rep.Rule = "pages carrying every combination of OpenGraph (complete / exactly one required property missing / article or other type), schema.org Article microdata (string and nested Person/Organization properties) and IE Reading View tags (in head or body, opt-out spellings), head order shuffled, in a third of the pages with an OpenGraph article record one article:* tag in front of og:type and the others after it; distinct by which fields each source provides; non-trivial = two sources provide the same field, or OpenGraph is disqualified by exactly one missing property, or opt-out present"
	corr := newCorr("markup")
	corrGate := newCorr("oggate")
	corrIE := newCorr("iereader")
	defer corrIE.run(ctx)
	corrOG := newCorr("opengraph")
	defer corrOG.run(ctx)
	corrSO := newCorr("schemaorg")
	defer corrSO.run(ctx)
	corrMP := newCorr("markuppage")
	defer corrMP.run(ctx)
	if ctx.Replay == "" {
		for i := 0; i < ctx.pick(300, 10000); i++ {
			r := newRng(ctx.Seed, fmt.Sprintf("C14/mp/%d", i))
			g := newPageGen(r)
			var src string
			switch i % 3 {
			case 0:
				src = ogPage(r, g)
			case 1:
				src = schemaPage(r, g)
			default:
				src = iePage(r, g)
			}
			addMarkupPageCase(corrMP, rep, src, map[string]interface{}{"html": src})
		}
		for i := 0; i < ctx.pick(800, 30000); i++ {
			r := newRng(ctx.Seed, fmt.Sprintf("C14/so/%d", i))
			src := schemaPage(r, newPageGen(r))
			addSchemaOrgCase(corrSO, rep, src, map[string]interface{}{"html": src})
		}
		for i := 0; i < ctx.pick(800, 30000); i++ {
			r := newRng(ctx.Seed, fmt.Sprintf("C14/og/%d", i))
			src := ogPage(r, newPageGen(r))
			addOpenGraphCase(corrOG, rep, src, map[string]interface{}{"html": src})
		}
		for i := 0; i < ctx.pick(600, 20000); i++ {
			r := newRng(ctx.Seed, fmt.Sprintf("C14/ie/%d", i))
			src := iePage(r, newPageGen(r))
			addIEReaderCase(corrIE, rep, src, map[string]interface{}{"html": src})
		}
	}
	run := func(m metaIntent, src string) {
		d := parseDoc(src)
		rep.Evaluations++
		replay := map[string]interface{}{"html": src, "intent": m}
		srcs, info := distiller.VerifMarkup(d.elementRoot())
		var sb strings.Builder
		fmt.Fprintf(&sb, "%d", len(srcs))
		for _, s := range srcs {
			sb.WriteString(" " + encSource(s))
		}
		corr.add(sb.String(), showInfo(info), replay)
		addIEReaderCase(corrIE, rep, src, replay)
		addOpenGraphCase(corrOG, rep, src, replay)
		addSchemaOrgCase(corrSO, rep, src, replay)
		addMarkupPageCase(corrMP, rep, src, replay)
		// the property, on the public result
		res, err := distiller.Apply(d.Root, &distiller.Options{SkipPagination: true})
		if err != nil {
			rep.hist("apply-error")
			return
		}
		got := res.MarkupInfo
		want, ogUsable := m.expectedInfo()
		ogSeen := len(srcs) == 3
		corrGate.add(fmt.Sprintf("%s %s %s %d", hx(m.OGTitle), hx(m.OGType), hx(m.OGURL), map[bool]int{true: 1, false: 0}[m.OGImage != ""]), "ok "+b01(ogSeen), replay)
		cmp := func(field, g, w string) {
			if g != w {
				rep.violate(map[string]string{"field": field, "ogUsable": b01(ogUsable), "optout": m.IEOptOut, "ieInBody": b01(m.IEInBody)},
					fmt.Sprintf("MarkupInfo.%s = %q, documented precedence over the page's markup gives %q", field, g, w), replay)
			}
		}
		cmp("Title", got.Title, want.Title)
		cmp("Type", got.Type, want.Type)
		cmp("URL", got.URL, want.URL)
		cmp("Description", got.Description, want.Description)
		cmp("Publisher", got.Publisher, want.Publisher)
		cmp("Copyright", got.Copyright, want.Copyright)
		cmp("Author", got.Author, want.Author)
		if m.OGEarly != "" && got.Article.ExpirationTime == m.OGEarly {
			// whether an article:* tag in front of og:type counts is not part of the property
			// (the parser's documented gate drops it); the rest of the record is
			got.Article.ExpirationTime = ""
		}
		cmp("Article", showArticle(got.Article), showArticle(want.Article))
		if strings.ToLower(m.IEOptOut) == "true" && len(got.Images) != 0 {
			cmp("Images", fmt.Sprint(len(got.Images)), "0")
		}
		// non-triviality / distinctness
		provided := 0
		if ogUsable {
			provided++
		}
		if m.Schema && m.SHeadline != "" {
			provided++
		}
		if m.IETitle != "" {
			provided++
		}
		missingOne := m.OGTitle+m.OGType+m.OGURL+m.OGImage != "" && !ogUsable
		if provided >= 2 || missingOne || m.IEOptOut != "" {
			rep.nontrivial(fmt.Sprintf("%v|%v|%v|%v|%v|%v|%v|%v|%v|%v|%v|%v", m.OGTitle != "", m.OGType, m.OGURL != "", m.OGImage != "", m.OGSection != "", m.OGEarly != "", m.Schema, m.SHeadline != "", m.SAuthor != "", m.IETitle != "", m.IEOptOut, m.IEInBody))
		}
		rep.hist(fmt.Sprintf("sources=%d", len(srcs)))
		rep.sample(map[string]interface{}{"intent": m, "info": fmt.Sprintf("%+v", got)})
	}
	if ctx.Replay != "" {
		var r struct {
			HTML   string     `json:"html"`
			Intent metaIntent `json:"intent"`
		}
		readReplay(ctx.Replay, &r)
		run(r.Intent, r.HTML)
	} else {
		n := ctx.pick(1500, 40000)
		for i := 0; i < n; i++ {
			r := newRng(ctx.Seed, fmt.Sprintf("C14/%d", i))
			m := randIntent(r, i)
			g := newPageGen(r)
			run(m, m.HTML("<p>"+g.words(30)+"</p><p>"+g.words(30)+"</p>"))
		}
	}
	corr.run(ctx)
	corrGate.run(ctx)
}
