package main

import (
	"encoding/json"
	"os"
	"path/filepath"
	"sort"
)

func readReplay(path string, v interface{}) {
	b, err := os.ReadFile(path)
	if err != nil {
		panic(err)
	}
	// a replay file written by bin/check wraps the harness replay under "replay"
	var wrap struct {
		Replay json.RawMessage `json:"replay"`
	}
	if json.Unmarshal(b, &wrap) == nil && len(wrap.Replay) > 0 {
		b = wrap.Replay
	}
	if err := json.Unmarshal(b, v); err != nil {
		panic(err)
	}
}

// corpusPages returns the HTML of every corpus/<id>/*.html file (minimised past failures
// and hand-picked seeds), sorted by name; they always run first.
func corpusPages(ctx *Ctx, id string) []string {
	files, _ := filepath.Glob(filepath.Join(ctx.VerifDir, "corpus", id, "*.html"))
	sort.Strings(files)
	var out []string
	for _, f := range files {
		if b, err := os.ReadFile(f); err == nil {
			out = append(out, string(b))
		}
	}
	return out
}

func sortStrings(s []string) { sort.Strings(s) }
