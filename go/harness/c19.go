package main

import (
	"fmt"
	nurl "net/url"
	"strings"

	distiller "github.com/markusmobius/go-domdistiller"
	"golang.org/x/net/html"
)

func init() { props["C19"] = runC19 }

type frameCase struct {
	Service string // youtube, youtube-nocookie, vimeo, twitter
	Family  string
	Tag     string // iframe, object-data, object-param, blockquote
	HTML    string // the frame element
	SrcURL  string
	Allowed bool // the true host of the source is allow-listed (or a sub-domain)
	May     bool // allow-listed host in an unusual spelling: recognition optional
	WantTyp string
	WantID  string // "" = no expectation on id
}

var svcDomain = map[string]string{"youtube": "youtube.com", "youtube-nocookie": "youtube-nocookie.com", "vimeo": "player.vimeo.com", "twitter": "twitter.com"}
var svcType = map[string]string{"youtube": "youtube", "youtube-nocookie": "youtube", "vimeo": "vimeo", "twitter": "twitter"}

var hostFamilies = []string{"exact", "sub", "deepsub", "suffix-lookalike", "prefix-lookalike", "prefix-lookalike2", "userinfo",
	"in-path", "in-query", "scheme-relative", "relative", "uppercase", "port", "dot-prefix-only", "empty"}

// hostFor returns (authority+prefix path, allowed, may)
func hostFor(fam, dom string) (auth string, pathPrefix string, scheme string, allowed, may bool) {
	scheme = "https://"
	switch fam {
	case "exact":
		return dom, "", scheme, true, false
	case "sub":
		return "www." + dom, "", scheme, true, false
	case "deepsub":
		return "a.b." + dom, "", scheme, true, false
	case "suffix-lookalike":
		return dom + ".evil.example", "", scheme, false, false
	case "prefix-lookalike":
		return "evil-" + dom, "", scheme, false, false
	case "prefix-lookalike2":
		return "not" + dom, "", scheme, false, false
	case "userinfo":
		return dom + "@evil.example", "", scheme, false, false
	case "in-path":
		return "evil.example", "/" + dom, scheme, false, false
	case "in-query":
		return "evil.example", "/frame?u=" + dom + "&p=", scheme, false, false
	case "scheme-relative":
		return "www." + dom, "", "//", true, false
	case "relative":
		return dom, "", "", false, false // resolves against the page: path on the page's host
	case "uppercase":
		return strings.ToUpper("www." + dom), "", scheme, true, true
	case "port":
		return dom + ":8080", "", scheme, true, true
	case "dot-prefix-only":
		return "." + dom, "", scheme, true, true
	}
	return "", "", "", false, false
}

func makeFrame(r *Rng, svc, fam, tagKind string, n int) frameCase {
	dom := svcDomain[svc]
	auth, pp, scheme, allowed, may := hostFor(fam, dom)
	id := fmt.Sprintf("Id%d", 1000+n)
	c := frameCase{Service: svc, Family: fam, Tag: tagKind, Allowed: allowed, May: may, WantTyp: svcType[svc]}
	if fam == "empty" {
		c.SrcURL = ""
	}
	path := ""
	wantID := id
	switch svc {
	case "youtube", "youtube-nocookie":
		switch r.Intn(10) {
		case 7: // query parameters named like id carriers: the id is the one in the path
			path = "/embed/" + id + "?v=Other" + fmt.Sprint(n) + "&rel=0"
		case 8:
			path = "/embed/" + id + "/?autoplay=0&v=2&id=9&video_id=7"
		case 9:
			path = "/v/" + id + "&v=3&vi=4"
		case 0:
			path = "/embed/" + id
		case 1:
			path = "/embed/" + id + "/"
		case 2:
			path = "/v/" + id
		case 3:
			path = "/embed/" + id + "?autoplay=1&rel=0"
		case 4:
			path = "/v/" + id + "&hl=en" // malformed query observed in the wild
		case 5:
			path = "/embed/"
			wantID = ""
		default:
			path = "/embed//" + id + "//"
		}
	case "vimeo":
		switch r.Intn(6) {
		case 4:
			path = "/video/" + id + "?id=77&video=88&clip_id=99"
		case 5:
			path = "/video/" + id + "/?v=66"
		case 0:
			path = "/video/" + id
		case 1:
			path = "/video/" + id + "/?title=0"
		case 2:
			path = "/video/"
			wantID = ""
		default:
			path = "/video/" + id + "/"
		}
	case "twitter":
		switch r.Intn(5) {
		case 3:
			path = "/user/status/" + id + "?id=55&status=44"
		case 4:
			path = "/user/status/" + id + "/?tweet_id=33&s=20"
		case 0:
			path = "/user/status/" + id
		case 1:
			path = "/user/status/" + id + "/"
		default:
			path = "/user/status/" + id + "?ref_src=twsrc%5Etfw"
		}
	}
	if fam != "empty" {
		c.SrcURL = scheme + auth + pp + path
	}
	c.WantID = wantID
	switch tagKind {
	case "iframe":
		extra := ""
		if svc == "twitter" {
			extra = ` data-tweet-id="` + id + `"`
		}
		c.HTML = `<iframe src="` + c.SrcURL + `"` + extra + `></iframe>`
	case "object-data":
		c.HTML = `<object type="application/x-shockwave-flash" data="` + c.SrcURL + `"></object>`
	case "object-param":
		c.HTML = `<object><param name="movie" value="` + c.SrcURL + `"><param name="x" value="y"></object>`
	case "blockquote":
		c.HTML = `<blockquote class="twitter-tweet"><p>tweet text here</p>&mdash; someone <a href="https://example.org/u">x</a> <a href="` + c.SrcURL + `">date</a></blockquote>`
	}
	// which services a tag kind can legally produce
	switch {
	case svc == "twitter" && (tagKind == "object-data" || tagKind == "object-param"):
		c.Allowed, c.May = false, false
	case svc == "vimeo" && tagKind != "iframe":
		c.Allowed, c.May = false, false
	case (svc == "youtube" || svc == "youtube-nocookie") && tagKind == "blockquote":
		c.Allowed, c.May = false, false
	case svc != "twitter" && tagKind == "blockquote":
		c.Allowed, c.May = false, false
	}
	return c
}

// urlPartsTokens: the atoms of one URL as the code computes them (`//` fix-up, then
// ParseRequestURI; segments = trimmed pieces of Path split on "/").
func urlPartsTokens(u string) string {
	empty := u == ""
	fixed := u
	if strings.HasPrefix(fixed, "//") {
		fixed = "http:" + fixed
	}
	p, err := nurl.ParseRequestURI(fixed)
	if err != nil || p == nil {
		return fmt.Sprintf("%s 1 %s 0", b01(empty), hx(""))
	}
	segs := strings.Split(p.Path, "/")
	var sb strings.Builder
	fmt.Fprintf(&sb, "%s 0 %s %d", b01(empty), hx(p.Host), len(segs))
	for _, s := range segs {
		sb.WriteString(" " + hx(strings.TrimSpace(s)))
	}
	return sb.String()
}

func frameAtoms(n *html.Node) string {
	tag := n.Data
	src := getAttr(n, "src")
	yt := src
	if tag == "object" {
		if getAttr(n, "type") == "application/x-shockwave-flash" {
			yt = getAttr(n, "data")
		} else {
			var ps []*html.Node
			findAll(n, func(x *html.Node) bool {
				return x != n && x.Type == html.ElementNode && x.Data == "param" && getAttr(x, "name") == "movie"
			}, &ps)
			if len(ps) > 0 {
				yt = getAttr(ps[0], "value")
			}
		}
	}
	if !strings.Contains(yt, "?") {
		yt = strings.Replace(yt, "&", "?", 1)
	}
	yt = distiller.VerifCreateAbsoluteURL(yt, pageURL)
	vm := distiller.VerifCreateAbsoluteURL(src, pageURL)
	var as []*html.Node
	findAll(n, func(x *html.Node) bool { return x != n && x.Type == html.ElementNode && x.Data == "a" }, &as)
	ta := ""
	if len(as) > 0 {
		ta = distiller.VerifCreateAbsoluteURL(getAttr(as[len(as)-1], "href"), pageURL)
	}
	return fmt.Sprintf("%s %s %s %s %s %s %d %s", hx(tag), urlPartsTokens(yt), urlPartsTokens(vm), urlPartsTokens(src),
		hx(getAttr(n, "data-tweet-id")), b01(strings.Contains(getAttr(n, "class"), "twitter-tweet")), len(as), urlPartsTokens(ta))
}

func fmtProbe(s string) string {
	if s == "" {
		return "-"
	}
	f := strings.SplitN(s, " ", 2)
	id := ""
	if len(f) > 1 {
		id = f[1]
	}
	return hx(f[0]) + ":" + hx(id)
}

func runC19(ctx *Ctx) {
	rep := ctx.Rep
	rep.Rule = "frames built from {service} x {host family: exact, sub-domain, suffix/prefix look-alike, userinfo, name in path/query, scheme-relative, relative, upper-case, port} x {id/path/query shapes, among them query parameters named like id carriers (v, id, video_id, clip_id, status, tweet_id) next to the id in the path} x {iframe, object data, object param, twitter blockquote}, probed on the extractors and distilled inside an article; distinct by (service, family, tag kind, path shape); non-trivial = host is a look-alike of an allow-listed one or an embed was recognised"
	corrRoot := newCorr("rootdomain")
	corrEmb := newCorr("embed")
	corrMedia := newCorr("mediarender")
	type job struct {
		c   frameCase
		src string
	}
	var jobs []job
	if ctx.Replay != "" {
		var r struct {
			HTML  string    `json:"html"`
			Frame frameCase `json:"frame"`
		}
		readReplay(ctx.Replay, &r)
		jobs = append(jobs, job{r.Frame, r.HTML})
	} else {
		reps := ctx.pick(2, 40)
		n := 0
		for rp := 0; rp < reps; rp++ {
			for _, svc := range []string{"youtube", "youtube-nocookie", "vimeo", "twitter"} {
				for _, fam := range hostFamilies {
					for _, tk := range []string{"iframe", "object-data", "object-param", "blockquote"} {
						n++
						r := newRng(ctx.Seed, fmt.Sprintf("C19/%d", n))
						c := makeFrame(r, svc, fam, tk, n)
						g := newPageGen(r)
						src := "<html><head><title>t</title></head><body><p>" + g.words(40) + "</p>\n" + c.HTML + "\n<p>" + g.words(40) + "</p></body></html>"
						jobs = append(jobs, job{c, src})
					}
				}
			}
		}
		rep.Exhaustive = true
	}
	for _, j := range jobs {
		c := j.c
		rep.Evaluations++
		d := parseDoc(j.src)
		var frames []*html.Node
		findAll(d.Root, func(x *html.Node) bool {
			return x.Type == html.ElementNode && (x.Data == "iframe" || x.Data == "object" || (x.Data == "blockquote" && strings.Contains(getAttr(x, "class"), "twitter-tweet")))
		}, &frames)
		replay := map[string]interface{}{"html": j.src, "frame": c}
		// --- correspondence: root-domain expression and the extractor decision lists
		for _, dom := range []string{"youtube.com", "youtube-nocookie.com", "player.vimeo.com", "twitter.com", ""} {
			u := c.SrcURL
			fixed := u
			if strings.HasPrefix(fixed, "//") {
				fixed = "http:" + fixed
			}
			p, err := nurl.ParseRequestURI(fixed)
			host := ""
			if err == nil {
				host = p.Host
			}
			impl := distiller.VerifHasRootDomain(u, dom)
			corrRoot.add(fmt.Sprintf("%s %s %s %s %s", b01(u == ""), b01(dom == ""), b01(err != nil), hx(host), hx(dom)),
				"ok "+b01(impl)+" "+b01(impl), map[string]string{"url": u, "root": dom})
		}
		decision := "-"
		for _, f := range frames {
			pr := distiller.VerifEmbedProbe(f, pageURL)
			dec := "-"
			for _, k := range []string{"twitter", "vimeo", "youtube"} {
				if pr[k] != "" {
					dec = fmtProbe(pr[k])
					break
				}
			}
			decision = dec
			corrEmb.add(frameAtoms(f), fmt.Sprintf("tw=%s vm=%s yt=%s dec=%s", fmtProbe(pr["twitter"]), fmtProbe(pr["vimeo"]), fmtProbe(pr["youtube"]), dec), replay)
		}
		// --- the rendering of the placeholders (Model/MediaRender.lean)
		addMediaRenderCases(corrMedia, rep, j.src, pageURL, replay)
		// --- oracle on the distilled page
		res, err := distiller.Apply(d.Root, &distiller.Options{OriginalURL: pageURL, SkipPagination: true})
		if err != nil {
			rep.hist("apply-error")
			continue
		}
		var phs, ifr []*html.Node
		findAll(res.Node, func(x *html.Node) bool {
			return x.Type == html.ElementNode && strings.Contains(getAttr(x, "class"), "embed-placeholder")
		}, &phs)
		findAll(res.Node, func(x *html.Node) bool {
			if x.Type != html.ElementNode || (x.Data != "iframe" && x.Data != "object") {
				return false
			}
			for p := x.Parent; p != nil; p = p.Parent {
				if p.Type == html.ElementNode && strings.Contains(getAttr(p, "class"), "embed-placeholder") {
					return false
				}
			}
			return true
		}, &ifr)
		rep.hist(fmt.Sprintf("family:%s placeholders=%d", c.Family, len(phs)))
		lookalike := strings.Contains(c.Family, "lookalike") || c.Family == "userinfo" || strings.HasPrefix(c.Family, "in-") || c.Family == "relative"
		if lookalike || len(phs) > 0 {
			rep.nontrivial(c.Service + "/" + c.Family + "/" + c.Tag + "/" + strings.SplitN(c.SrcURL, "Id", 2)[0])
		}
		sig := func(clause string) map[string]string {
			return map[string]string{"clause": clause, "family": c.Family, "tag": c.Tag, "service": svcType[c.Service]}
		}
		for _, ph := range phs {
			typ, id := getAttr(ph, "data-type"), getAttr(ph, "data-id")
			if !c.Allowed {
				rep.violate(sig("placeholder-for-non-allowlisted-host"),
					fmt.Sprintf("embed placeholder (type=%s id=%s) created for %s whose source host is not allow-listed (family %s)", typ, id, c.SrcURL, c.Family), replay)
				continue
			}
			if typ != c.WantTyp {
				rep.violate(sig("wrong-data-type"), fmt.Sprintf("placeholder data-type=%q for %s, want %q", typ, c.SrcURL, c.WantTyp), replay)
			}
			if c.WantID != "" && id != c.WantID {
				rep.violate(sig("wrong-data-id"), fmt.Sprintf("placeholder data-id=%q for %s, want %q", id, c.SrcURL, c.WantID), replay)
			}
		}
		if len(ifr) > 0 {
			rep.violate(sig("unrecognised-frame-in-output"), fmt.Sprintf("an %s outside any embed placeholder survives in the distilled HTML (%s)", ifr[0].Data, c.SrcURL), replay)
		}
		rep.sample(map[string]interface{}{"frame": c.HTML, "family": c.Family, "decision": decision, "placeholders": len(phs)})
	}
	corrRoot.run(ctx)
	corrEmb.run(ctx)
	corrMedia.run(ctx)
}
