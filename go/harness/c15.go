package main

import (
	"fmt"
	"regexp"
	"strings"
	"unicode/utf8"

	distiller "github.com/markusmobius/go-domdistiller"
)

func init() { props["C15"] = runC15 }

var rxSepPattern = regexp.MustCompile(` [\|\-\\/>»] `)

type titleCase struct {
	Title   string
	H1      string
	H2      string
	Markup  string // og:title (with the other required OpenGraph properties)
	Repeat  string // which element repeats the title inside the content: "", "h1", "h2", "p"
	NoTitle bool
}

func (c titleCase) html(g *PageGen) string {
	var sb strings.Builder
	sb.WriteString("<html><head>")
	if !c.NoTitle {
		sb.WriteString("<title>" + c.Title + "</title>")
	}
	if c.Markup != "" {
		sb.WriteString(`<meta property="og:title" content="` + c.Markup + `"><meta property="og:type" content="article"><meta property="og:url" content="http://example.com/x"><meta property="og:image" content="http://example.com/i.png">`)
	}
	sb.WriteString("</head><body>")
	if c.H1 != "" {
		sb.WriteString("<h1>" + c.H1 + "</h1>")
	}
	sb.WriteString("<p>" + g.words(50) + "</p>")
	if c.H2 != "" {
		sb.WriteString("<h2>" + c.H2 + "</h2>")
	}
	switch c.Repeat {
	case "h1":
		sb.WriteString("<h1>" + c.Title + "</h1>")
	case "h2":
		sb.WriteString("<h2>" + c.Title + "</h2>")
	case "p":
		sb.WriteString("<p>" + c.Title + "</p>")
	}
	sb.WriteString("<p>" + g.words(60) + "</p><p>" + g.words(45) + "</p></body></html>")
	return sb.String()
}

var titleWords = []string{"Alpha", "Beta", "Gamma", "Delta", "Epsilon", "Zeta", "Harbour", "Council", "Budget", "Schools", "Here's", "council’s", "Review", "2024", "Über", "naïve", "Ωmega", "Москва", "πολύ"}
var titleSepsGen = []string{" - ", " | ", " / ", " > ", " \\ ", ": ", " : ", ":", " -- ", "-", " » ", " – "}

func randTitle(r *Rng) string {
	vocab := titleWords[:11] // ASCII only: the List Char model is exact there
	if r.Chance(25) {
		vocab = titleWords
	}
	parts := r.Range(1, 4)
	var sb strings.Builder
	for p := 0; p < parts; p++ {
		if p > 0 {
			sb.WriteString(titleSepsGen[r.Intn(len(titleSepsGen))])
		}
		n := r.Range(1, 7)
		if r.Chance(10) {
			n = r.Range(20, 40) // long
		}
		for w := 0; w < n; w++ {
			if w > 0 {
				sb.WriteString(" ")
			}
			sb.WriteString(vocab[r.Intn(len(vocab))])
		}
	}
	return sb.String()
}

func isASCII(s string) bool {
	for i := 0; i < len(s); i++ {
		if s[i] >= 0x80 {
			return false
		}
	}
	return true
}

func normWS(s string) string { return strings.Join(strings.Fields(s), " ") }

func runC15(ctx *Ctx) {
	rep := ctx.Rep
	rep.Rule = "<title> strings built from words (ASCII and non-ASCII, apostrophes) joined by every separator (' - ', ' | ', ' / ', ' > ', ' » ', ' \\ ', ': ', ':' ...) with lengths around 15 and 150 characters (also > 150 bytes but < 150 characters), with / without h1, h2, OpenGraph title, and with a heading or paragraph that repeats the title inside the content; distinct by (separator shape, length class, heading/markup presence, repeat kind); non-trivial = the heuristic took a branch other than 'return the original' or a block equals the title"
	corr := newCorr("title")
	fl := newCorr("filters")
	run := func(c titleCase, src string) {
		rep.Evaluations++
		d := parseDoc(src)
		replay := map[string]interface{}{"html": src, "case": c}
		// the article extractor, stage by stage (title_block_labelled is about its model)
		addFiltersCase(fl, rep, src, nil, true, replay)
		addFiltersCase(fl, rep, src, nil, false, replay)
		ti := distiller.VerifTitle(d.elementRoot())
		// ---- correspondence (ASCII titles: the List Char model is exact there)
		if isASCII(ti.TitleText) && isASCII(ti.H1Text) && isASCII(ti.Markup) {
			hm := false
			for _, h := range ti.Headings {
				if h == strings.TrimSpace(ti.TitleText) {
					hm = true
				}
			}
			corr.add(fmt.Sprintf("%s %s %s %s %s", hx(ti.Markup), hx(ti.TitleText), b01(ti.HasH1), hx(ti.H1Text), b01(hm)), hx(ti.Document)+" "+hx(ti.Result), replay)
		}
		// ---- the property on the public result
		res, err := distiller.Apply(d.Root, &distiller.Options{SkipPagination: true})
		if err != nil {
			rep.hist("apply-error")
			return
		}
		title := res.Title
		sig := func(clause string) map[string]string {
			return map[string]string{"clause": clause, "markup": b01(c.Markup != ""), "repeat": c.Repeat}
		}
		tt := ti.TitleText
		switch {
		case res.MarkupInfo.Title != "":
			if title != res.MarkupInfo.Title {
				rep.violate(sig("markup-title-first"), fmt.Sprintf("Result.Title=%q but MarkupInfo.Title=%q", title, res.MarkupInfo.Title), replay)
			}
		default:
			nt := normWS(title)
			ok := nt == normWS(tt) || (nt != "" && strings.Contains(normWS(tt), nt)) || (ti.HasH1 && nt == normWS(ti.H1Text)) || (tt == "" && nt == "")
			if !ok {
				rep.violate(sig("never-invented"), fmt.Sprintf("Result.Title=%q is neither the <title> text %q, a contiguous part of it, nor the first h1 %q", title, tt, ti.H1Text), replay)
			}
			n := utf8.RuneCountInString(tt)
			if n >= 15 && n <= 150 && !rxSepPattern.MatchString(tt) && !strings.Contains(tt, ": ") && nt != normWS(tt) {
				rep.violate(sig("exact-when-plain"), fmt.Sprintf("<title> %q is plain (%d characters, no separator pattern) but Result.Title=%q", tt, n, title), replay)
			}
		}
		// a block whose text is the title is not emitted again
		if c.Repeat != "" && title != "" && normWS(title) == normWS(c.Title) {
			for _, line := range strings.Split(res.Text, "\n") {
				if normWS(line) == normWS(title) {
					rep.violate(sig("title-repeated"), fmt.Sprintf("the title %q is emitted again inside the distilled text (repeated in <%s>)", title, c.Repeat), replay)
					break
				}
			}
		}
		branch := "original"
		if normWS(title) != normWS(tt) {
			branch = "derived"
		}
		lenClass := "mid"
		if n := utf8.RuneCountInString(tt); n < 15 {
			lenClass = "short"
		} else if n > 150 {
			lenClass = "long"
		}
		rep.hist("branch:" + branch)
		if branch == "derived" || c.Repeat != "" {
			seps := strings.Join(rxSepPattern.FindAllString(tt, -1), "")
			rep.nontrivial(fmt.Sprintf("%s|%v|%s|%v|%v|%v|%s", seps, strings.Contains(tt, ":"), lenClass, c.H1 != "", c.H2 != "", c.Markup != "", c.Repeat))
		}
		rep.sample(map[string]interface{}{"title": tt, "result": title, "repeat": c.Repeat})
	}
	if ctx.Replay != "" {
		var r struct {
			HTML string    `json:"html"`
			Case titleCase `json:"case"`
		}
		readReplay(ctx.Replay, &r)
		run(r.Case, r.HTML)
		corr.run(ctx)
		fl.run(ctx)
		return
	}
	n := ctx.pick(1500, 40000)
	for i := 0; i < n; i++ {
		r := newRng(ctx.Seed, fmt.Sprintf("C15/%d", i))
		g := newPageGen(r)
		c := titleCase{Title: randTitle(r)}
		if r.Chance(8) {
			// many characters-few-bytes boundary: 15..150 characters but more than 150 bytes
			c.Title = strings.TrimSpace(strings.Repeat("Москва πολύ ", r.Range(7, 12)))
		}
		if r.Chance(45) {
			c.H1 = randTitle(r)
			if r.Chance(30) {
				c.H1 = "A section heading with more than four words in it"
			}
		}
		if r.Chance(25) {
			c.H2 = randTitle(r)
		}
		if r.Chance(15) {
			c.Markup = randTitle(r)
		}
		if r.Chance(5) {
			c.NoTitle = true
		}
		if r.Chance(45) {
			c.Repeat = r.Pick("h1", "h2", "p")
			if c.Repeat == "h1" {
				c.H1 = ""
			}
		}
		if r.Chance(10) && c.H1 != "" {
			c.H1 = c.Title // heading equal to the title (colon heuristic)
		}
		run(c, c.html(g))
	}
	corr.run(ctx)
	fl.run(ctx)
}
