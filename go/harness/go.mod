module verif/harness

go 1.20

require (
	github.com/go-shiori/dom v0.0.0-20230515143342-73569d674e1c
	github.com/markusmobius/go-domdistiller v0.0.0
	golang.org/x/net v0.10.0
)

require (
	github.com/andybalholm/cascadia v1.3.2 // indirect
	github.com/gogs/chardet v0.0.0-20211120154057-b7413eaefb8f // indirect
	github.com/sirupsen/logrus v1.9.0 // indirect
	golang.org/x/sys v0.8.0 // indirect
	golang.org/x/text v0.9.0 // indirect
)

replace github.com/markusmobius/go-domdistiller => /repo
