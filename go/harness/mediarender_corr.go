package main

import (
	"fmt"
	nurl "net/url"
	"reflect"
	"strings"

	distiller "github.com/markusmobius/go-domdistiller"
	"golang.org/x/net/html"
)

// Correspondence of the rendering of the non-text elements with the Lean model
// (Model/MediaRender.lean): for every image, figure, video, embed and data table of the real
// final document — its element subtree (and the figure's caption), the visibility atoms of its
// elements and the answers of CreateAbsoluteURL / the srcset regexp for every attribute value →
// both views of GenerateOutput and the element's contribution to ContentImages.

var mediaKindCode = map[string]int{"image": 3, "figure": 4, "video": 5, "embed": 6, "table": 7}

func fieldNode(e interface{}, name string) *html.Node {
	v := reflect.ValueOf(e)
	if v.Kind() == reflect.Ptr {
		v = v.Elem()
	}
	f := v.FieldByName(name)
	if !f.IsValid() || f.IsNil() {
		return nil
	}
	n, _ := f.Interface().(*html.Node)
	return n
}

func fieldString(e interface{}, name string) string {
	v := reflect.ValueOf(e)
	if v.Kind() == reflect.Ptr {
		v = v.Elem()
	}
	f := v.FieldByName(name)
	if !f.IsValid() || f.Kind() != reflect.String {
		return ""
	}
	return f.String()
}

func encodeOwn(ids map[*html.Node]int, n *html.Node, sb *strings.Builder) {
	ids[n] = len(ids)
	id := ids[n]
	switch n.Type {
	case html.TextNode:
		fmt.Fprintf(sb, " T %d %s", id, hx(n.Data))
	case html.ElementNode:
		fmt.Fprintf(sb, " E %d %s %d", id, hx(n.Data), len(n.Attr))
		for _, a := range n.Attr {
			k := a.Key
			if a.Namespace != "" {
				k = a.Namespace + ":" + a.Key
			}
			fmt.Fprintf(sb, " %s %s", hx(k), hx(a.Val))
		}
		nk := 0
		for c := n.FirstChild; c != nil; c = c.NextSibling {
			nk++
		}
		fmt.Fprintf(sb, " %d", nk)
		for c := n.FirstChild; c != nil; c = c.NextSibling {
			encodeOwn(ids, c, sb)
		}
	default:
		fmt.Fprintf(sb, " O %d %d", id, int(n.Type))
	}
}

func guardStr(f func() string) (s string) {
	defer func() {
		if recover() != nil {
			s = "P"
		}
	}()
	return hx(f())
}

func addMediaRenderCases(c *Corr, rep *Report, src string, pageURL *nurl.URL, replay interface{}) {
	d := parseDoc(src)
	root := d.elementRoot()
	if root == nil {
		return
	}
	res := distiller.VerifExtract(root, pageURL, 0)
	if res == nil || res.Doc == nil {
		return
	}
	for _, e := range res.Doc.Elements {
		o, ok := e.(interface {
			ElementType() string
			GenerateOutput(bool) string
		})
		if !ok {
			continue
		}
		kind := mediaKindCode[o.ElementType()]
		if kind == 0 {
			continue
		}
		el := fieldNode(e, "Element")
		if el == nil {
			continue
		}
		ids := map[*html.Node]int{}
		var sb strings.Builder
		fmt.Fprintf(&sb, "%d", kind)
		encodeOwn(ids, el, &sb)
		var capNode *html.Node
		if kind == 4 {
			capNode = fieldNode(e, "Caption")
		}
		if capNode != nil {
			sb.WriteString(" 1")
			encodeOwn(ids, capNode, &sb)
		} else {
			sb.WriteString(" 0")
		}
		var els []*html.Node
		findAll(el, func(n *html.Node) bool { return n.Type == html.ElementNode }, &els)
		if capNode != nil {
			findAll(capNode, func(n *html.Node) bool { return n.Type == html.ElementNode }, &els)
		}
		fmt.Fprintf(&sb, " %d", len(els))
		seen := map[string]bool{}
		var tbl []string
		var addVal func(v string, depth int)
		addVal = func(v string, depth int) {
			if seen[v] {
				return
			}
			seen[v] = true
			a := distiller.VerifCreateAbsoluteURL(v, pageURL)
			s := distiller.VerifSrcSetAbsolute(v, pageURL)
			us := distiller.VerifSrcSetURLs(v)
			row := hx(v) + " " + hx(a) + " " + hx(s) + " " + fmt.Sprint(len(us))
			for _, u := range us {
				row += " " + hx(u)
			}
			tbl = append(tbl, row)
			if depth < 2 {
				addVal(a, depth+1)
				addVal(s, depth+1)
			}
		}
		for _, x := range els {
			a := distiller.VerifElementAtoms(x)
			fmt.Fprintf(&sb, " %d %s %s 0 0 0 0 0 %s", ids[x], hx(a.StyleDisplay), b01(a.VisHidden), b01(distiller.VerifIsForeignRawText(x)))
			for _, at := range x.Attr {
				addVal(at.Val, 0)
			}
		}
		sb.WriteString(" 0")
		fmt.Fprintf(&sb, " %d", len(tbl))
		if len(tbl) > 0 {
			sb.WriteString(" " + strings.Join(tbl, " "))
		}
		fmt.Fprintf(&sb, " %s %s", hx(fieldString(e, "Type")), hx(fieldString(e, "ID")))
		// ---- implementation side (after the input has been encoded: Embed.GenerateOutput
		// rewrites and moves its element)
		var urls []string
		func() {
			defer func() { recover() }()
			switch x := e.(type) {
			case interface{ GetURLs() []string }:
				urls = x.GetURLs()
			case interface{ GetImageURLs() []string }:
				urls = x.GetImageURLs()
			}
		}()
		var us []string
		for _, u := range urls {
			us = append(us, hx(u))
		}
		h := guardStr(func() string { return o.GenerateOutput(false) })
		t := guardStr(func() string { return o.GenerateOutput(true) })
		c.add(sb.String(), fmt.Sprintf("H=%s T=%s U=%s", h, t, strings.Join(us, ",")), replay)
		rep.hist("mediarender:" + o.ElementType())
	}
}
