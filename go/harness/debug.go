package main

import (
	"fmt"
	"os"
)

// debug-render: run the textrender / mediarender / docoutput stages on one page (HTML file given
// with -replay) and print every mismatch in full
func init() {
	props["debug-render"] = func(ctx *Ctx) {
		b, err := os.ReadFile(ctx.Replay)
		if err != nil {
			panic(err)
		}
		tr, do, mr := newCorr("textrender"), newCorr("docoutput"), newCorr("mediarender")
		addRenderCases(tr, do, ctx.Rep, string(b), pageURL, nil, 0)
		addMediaRenderCases(mr, ctx.Rep, string(b), pageURL, nil)
		for _, c := range []*Corr{tr, do, mr} {
			ans, err := runDriver(ctx.Driver, c.lines)
			if err != nil {
				fmt.Println("driver:", err)
				continue
			}
			for i := 1; i <= c.n; i++ {
				k := fmt.Sprint(i)
				if ans[k] != c.impl[k] {
					fmt.Printf("MISMATCH %s case %d\n line : %s\n model: %s\n impl : %s\n", c.Stage, i, c.lines[i-1-c.first], ans[k], c.impl[k])
				}
			}
			fmt.Printf("%s: %d cases\n", c.Stage, c.n)
		}
	}
}
