package main

import (
	"fmt"
	"strings"

	distiller "github.com/markusmobius/go-domdistiller"
)

// wordcounter: the three word counters and their selection (Model/Words.lean) against the real
// SelectWordCounter / Count, on texts mixing ASCII, Latin-1, Greek / Cyrillic, kana, CJK
// ideographs, Hangul, punctuation and every kind of white space.

var wcPieces = []string{"word", "two words", "x", "naïve", "Ελληνικά", "русский", "日本語", "テキスト", "ひらがな", "漢字漢字漢字", "한국어", "한 글", "．", "、", "-", "--", "…", "_", "a_b",
	"1", "2.5", "(", "«»", "—", "€", "日", "本", "가", "ꓐ", "ぁ", "㍿", "𝔘", "🙂", "é", "İ", "ǅ"}
var wcSeps = []string{" ", " ", "  ", "\t", "\n", "\r\n", "\f", "\v", " ", "　", " ", "", "", ","}

func genWcText(r *Rng, n int) string {
	var sb strings.Builder
	for ; n > 0; n-- {
		sb.WriteString(wcPieces[r.Intn(len(wcPieces))])
		sb.WriteString(wcSeps[r.Intn(len(wcSeps))])
	}
	return sb.String()
}

func wordCounterCorr(ctx *Ctx, n int) *Corr {
	c := newCorr("wordcounter")
	for i := 0; i < n; i++ {
		r := newRng(ctx.Seed, fmt.Sprintf("wordcounter/%d", i))
		sample := genWcText(r, r.Range(0, 6))
		if r.Chance(50) {
			sample = r.Pick("plain ascii sample", "mit Umlauten äöü", "Ελληνικά", "")
		}
		text := genWcText(r, r.Range(0, 12))
		kind, cnt := distiller.VerifSelectAndCount(sample, text)
		name := "Fast"
		switch {
		case strings.Contains(kind, "Full"):
			name = "Full"
		case strings.Contains(kind, "Letter"):
			name = "Letter"
		}
		c.add(hx(sample)+" "+hx(text), fmt.Sprintf("%s %d", name, cnt), map[string]string{"sample": sample, "text": text})
		ctx.Rep.hist("wordcounter:" + name)
	}
	return c
}
