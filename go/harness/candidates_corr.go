package main

import (
	"fmt"
	"strings"

	distiller "github.com/markusmobius/go-domdistiller"
	"golang.org/x/net/html"
)

// candidates: the converter's unlikely / maybe / byline tests (Model/Candidates.lean: the word
// lists read from the regenerated patterns) against the real tests, on class / id values built
// from listed words in every case, near misses, separators and unrelated words, with rel /
// itemprop attributes and texts around the byline length limits.

var cdWords = []string{"-ad-", "ai2html", "banner", "breadcrumbs", "combx", "comment", "community", "cover-wrap", "disqus", "extra", "footer", "gdpr", "header", "legends", "menu", "related",
	"remark", "replies", "rss", "shoutbox", "sidebar", "skyscraper", "social", "sponsor", "supplemental", "ad-break", "agegate", "pagination", "pager", "popup", "yom-remote",
	"and", "article", "body", "column", "content", "main", "shadow", "byline", "author", "dateline", "writtenby", "p-author",
	"ad", "bann", "side bar", "foot", "men", "authr", "story", "text", "wrapper", "x", "post-12", "hero", "lead", "ſidebar", "K", "ranK", "BANNER", "Sidebar", "mAiN", "COMMENTs", "randomise"}
var cdSeps = []string{"", " ", "-", "_", "  ", "\t"}

func genClassish(r *Rng) string {
	var sb strings.Builder
	for n := r.Range(0, 3); n > 0; n-- {
		w := cdWords[r.Intn(len(cdWords))]
		if r.Chance(20) {
			w = strings.ToUpper(w)
		}
		sb.WriteString(w + cdSeps[r.Intn(len(cdSeps))])
	}
	return sb.String()
}

func candidatesCorr(ctx *Ctx, n int) *Corr {
	c := newCorr("candidates")
	for i := 0; i < n; i++ {
		r := newRng(ctx.Seed, fmt.Sprintf("candidates/%d", i))
		cls, id := genClassish(r), ""
		if r.Chance(40) {
			id = genClassish(r)
		}
		rel := r.Pick("", "", "", "author", "Author", "author nofollow", "tag")
		ip := r.Pick("", "", "", "author", "name author", "coauthor", "Author", "headline")
		text := ""
		switch r.Intn(8) {
		case 0:
		case 1:
			text = " \n\t "
		case 2:
			text = strings.Repeat("x", 99)
		case 3:
			text = strings.Repeat("x", 100)
		case 4:
			text = " " + strings.Repeat("é", 99) + " "
		case 5:
			text = strings.Repeat("日本", 50)
		default:
			text = "By Jane Doe"
		}
		node := &html.Node{Type: html.ElementNode, Data: "div"}
		add := func(k, v string, always bool) {
			if v != "" || always {
				node.Attr = append(node.Attr, html.Attribute{Key: k, Val: v})
			}
		}
		add("class", cls, r.Chance(50))
		add("id", id, false)
		add("rel", rel, false)
		add("itemprop", ip, false)
		if text != "" {
			sp := &html.Node{Type: html.ElementNode, Data: "span"}
			sp.AppendChild(&html.Node{Type: html.TextNode, Data: text})
			node.AppendChild(sp)
		}
		at := distiller.VerifElementAtoms(node)
		c.add(hx(cls)+" "+hx(id)+" "+hx(rel)+" "+hx(ip)+" "+hx(text), b01(at.Unlikely)+b01(at.Maybe)+b01(at.Byline),
			map[string]string{"class": cls, "id": id, "rel": rel, "itemprop": ip, "text": text})
		ctx.Rep.hist("candidates:" + b01(at.Unlikely) + b01(at.Maybe) + b01(at.Byline))
	}
	return c
}
