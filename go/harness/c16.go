package main

import (
	"fmt"
	nurl "net/url"
	"strings"

	distiller "github.com/markusmobius/go-domdistiller"
)

func init() { props["C16"] = runC16 }

// C16: whatever NextPage / PrevPage holds is an absolute http(s) URL on the page's host and the
// normalised target of an anchor of the document — for both algorithms, on pagers that mix
// every kind of anchor.  Correspondence: the page-number detection (groups → PageParamInfo →
// next/prev) and the prev/next selection against the Lean model.
func runC16(ctx *Ctx) {
	rep := ctx.Rep
	silenceStderr()
	rep.Rule = "pages with a numbered pager (8 URL families incl. escaped paths and extra query parameters; 2..14 pages; current page plain / decorated / self-link; windows with ellipsis; descending order) whose anchors mix relative, absolute, protocol-relative, off-site, javascript:, empty, '#', mailto: and malformed hrefs, with Prev/Next/First/Last anchors and numeric noise (comment counts, calendar, off-site numbers); page URLs with trailing slash, fragment, user info; distinct by (family, algorithm, which of next/prev is non-empty, junk kinds present); non-trivial = at least one of NextPage/PrevPage is non-empty"
	pn := newCorr("pagenum")
	pv := newCorr("prevnext")
	run := func(c pagerCase) {
		rep.Evaluations++
		page, err := nurl.ParseRequestURI(c.PageURL)
		if err != nil {
			rep.hist("page-url-unparseable")
			return
		}
		d := parseDoc(c.HTML)
		targets := anchorTargets(d.Root, page)
		for _, algo := range []distiller.PaginationAlgo{distiller.PrevNext, distiller.PageNumber} {
			name := "prevnext"
			if algo == distiller.PageNumber {
				name = "pagenumber"
			}
			d2 := parseDoc(c.HTML)
			res, err := distiller.Apply(d2.Root, &distiller.Options{OriginalURL: page, PaginationAlgo: algo})
			if err != nil {
				rep.hist("apply-error")
				continue
			}
			pi := res.PaginationInfo
			for _, lk := range []struct{ which, v string }{{"next", pi.NextPage}, {"prev", pi.PrevPage}} {
				if clause, what := checkPagingLink(lk.v, page, targets); clause != "" {
					rep.violate(map[string]string{"clause": clause, "algo": name, "which": lk.which},
						fmt.Sprintf("%s algorithm, %sPage: %s (page %s)", name, strings.Title(lk.which), what, c.PageURL), c)
				}
			}
			shape := fmt.Sprintf("%s|n%v|p%v", name, pi.NextPage != "", pi.PrevPage != "")
			rep.hist("result:" + shape)
			if pi.NextPage != "" || pi.PrevPage != "" {
				junk := []string{}
				for k := range c.Desc {
					if strings.HasPrefix(k, "junk:") || k == "nav-junk" || k == "page_url" || k == "current" || k == "order" {
						junk = append(junk, k+"="+c.Desc[k])
					}
				}
				sortStrings(junk)
				rep.nontrivial(c.Desc["family"] + "|" + shape + "|" + strings.Join(junk, ","))
			}
		}
		// ---- correspondence
		data := distiller.VerifPagination(d.Root, page)
		payload, impl := paginationCase(data)
		pn.add(payload, impl, c)
		if data.Param.IsPageNumber {
			rep.hist("pagenum:detected")
		}
		rep.histN("pagenum:groups", len(data.Groups))
		for _, next := range []bool{true, false} {
			payload, impl, nc := prevNextCase(d, d.Root, page, next)
			pv.add(payload, impl, c)
			rep.histN("prevnext:candidates", nc)
		}
		rep.hist("family:" + c.Desc["family"])
		rep.sample(map[string]string{"page_url": c.PageURL, "family": c.Desc["family"], "n": c.Desc["n"], "k": c.Desc["k"]})
	}
	if ctx.Replay != "" {
		var c pagerCase
		readReplay(ctx.Replay, &c)
		run(c)
		pn.run(ctx)
		pv.run(ctx)
		return
	}
	for _, c := range c16Corpus() {
		run(c)
	}
	n := ctx.pick(1500, 40000)
	for i := 0; i < n; i++ {
		r := newRng(ctx.Seed, fmt.Sprintf("C16/%d", i))
		run(genPager(r, newPageGen(r)))
	}
	pn.run(ctx)
	pv.run(ctx)
}

// c16Corpus: the layouts that once failed run first.
func c16Corpus() []pagerCase {
	body := "<p>" + strings.Repeat("word ", 80) + "</p>"
	mk := func(url, pager string) pagerCase {
		return pagerCase{PageURL: url, HTML: "<html><head><title>A paginated article</title></head><body>" + body + "<div>" + pager + "</div></body></html>", Desc: map[string]string{"family": "corpus"}}
	}
	return []pagerCase{
		// the first URL after the plain current-page number is a javascript: position holder
		mk("http://example.com/a?page=1", `1 <a href="javascript:void(0)">2</a> <a href="/a?page=3">3</a> <a href="/a?page=4">4</a>`),
		mk("http://example.com/a?page=3", `<a href="/a?page=1">1</a> <a href="/a?page=2">2</a> 3 <a href="javascript:go(4)">4</a>`),
		mk("http://example.com/a?page=3", `<a href="/a?page=1">1</a> <a href="javascript:/a?page=2">2</a> 3 <a href="/a?page=4">4</a>`),
		// more than one numeric query parameter: evaluation order of the patterns
		mk("http://example.com/a?page=2&id=7", `<a href="/a?page=1&amp;id=7">1</a> <a href="/a?page=3&amp;id=7">3</a> 5`),
		// escaped page URL
		mk("http://example.com/a%20b/c?page=2", `<a href="/a%20b/c?page=1">1</a> 2 <a href="/a%20b/c?page=3">3</a>`),
		mk("http://example.com/caf%C3%A9", `1 <a href="/caf%C3%A9?page=2">2</a> <a href="/caf%C3%A9?page=3">3</a>`),
	}
}
