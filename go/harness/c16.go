package main

import (
	"fmt"
	nurl "net/url"
	"strings"

	distiller "github.com/markusmobius/go-domdistiller"
	"golang.org/x/net/html"
)

func init() { props["C16"] = runC16 }

// C16: whatever NextPage / PrevPage holds is an absolute http(s) URL on the page's host and the
// normalised target of an anchor of the document — for both algorithms, on pagers that mix
// every kind of anchor.  Correspondence: the page-number detection (groups → PageParamInfo →
// next/prev) and the prev/next selection against the Lean model.
func runC16(ctx *Ctx) {
	rep := ctx.Rep
	silenceStderr()
	rep.Rule = "pages with a numbered pager (8 URL families incl. escaped paths and extra query parameters; 2..14 pages; current page plain / decorated / self-link; windows with ellipsis; descending order) whose anchors mix relative, absolute, protocol-relative, off-site, javascript:, empty, '#', mailto: and malformed hrefs, with Prev/Next/First/Last anchors and numeric noise (comment counts, calendar, off-site numbers); page URLs with trailing slash, fragment, user info; distinct by (family, algorithm, which of next/prev is non-empty, junk kinds present); non-trivial = at least one of NextPage/PrevPage is non-empty"
	pn := newCorr("pagenum")
	pv := newCorr("prevnext")
	ls := newCorr("linkscore")
	defer ls.run(ctx)
	fol := newCorr("findoutlink")
	defer fol.run(ctx)
	pgi := newCorr("pageinfo")
	defer pgi.run(ctx)
	nsc := newCorr("numberscan")
	defer nsc.run(ctx)
	run := func(c pagerCase) {
		defer func() {
			if r := recover(); r != nil {
				rep.violate(map[string]string{"clause": "panic", "algo": "stage-hooks"}, fmt.Sprintf("a pagination stage panicked on page %s: %v", c.PageURL, r), c)
			}
		}()
		rep.Evaluations++
		page, err := nurl.ParseRequestURI(c.PageURL)
		if err != nil {
			rep.hist("page-url-unparseable")
			return
		}
		d := parseDoc(c.HTML)
		targets := anchorTargets(d.Root, page)
		addLinkScoreCases(ls, fol, rep, c.HTML, page, c)
		addPageInfoCases(pgi, rep, c.HTML, page, c)
		addNumberScanCase(nsc, rep, c.HTML, page, c)
		for _, algo := range []distiller.PaginationAlgo{distiller.PrevNext, distiller.PageNumber} {
			name := "prevnext"
			if algo == distiller.PageNumber {
				name = "pagenumber"
			}
			d2 := parseDoc(c.HTML)
			res, err, pmsg := applyRecover(d2.Root, &distiller.Options{OriginalURL: page, PaginationAlgo: algo})
			if pmsg != "" {
				rep.violate(map[string]string{"clause": "panic", "algo": name}, fmt.Sprintf("%s algorithm panicked on page %s: %s", name, c.PageURL, pmsg), c)
				continue
			}
			if err != nil {
				rep.hist("apply-error")
				continue
			}
			pi := res.PaginationInfo
			for _, lk := range []struct{ which, v string }{{"next", pi.NextPage}, {"prev", pi.PrevPage}} {
				if clause, what := checkPagingLink(lk.v, page, targets); clause != "" {
					rep.violate(map[string]string{"clause": clause, "algo": name, "which": lk.which},
						fmt.Sprintf("%s algorithm, %sPage: %s (page %s)", name, strings.Title(lk.which), what, c.PageURL), c)
				}
			}
			shape := fmt.Sprintf("%s|n%v|p%v", name, pi.NextPage != "", pi.PrevPage != "")
			rep.hist("result:" + shape)
			if pi.NextPage != "" || pi.PrevPage != "" {
				junk := []string{}
				for k := range c.Desc {
					if strings.HasPrefix(k, "junk:") || k == "nav-junk" || k == "page_url" || k == "current" || k == "order" {
						junk = append(junk, k+"="+c.Desc[k])
					}
				}
				sortStrings(junk)
				rep.nontrivial(c.Desc["family"] + "|" + shape + "|" + strings.Join(junk, ","))
			}
		}
		// ---- correspondence
		data := distiller.VerifPagination(d.Root, page)
		payload, impl := paginationCase(data)
		pn.add(payload, impl, c)
		paginationPremises(pn, data)
		if data.Param.IsPageNumber {
			rep.hist("pagenum:detected")
		}
		rep.histN("pagenum:groups", len(data.Groups))
		for _, next := range []bool{true, false} {
			payload, impl, nc := prevNextCase(d, d.Root, page, next)
			pv.add(payload, impl, c)
			rep.histN("prevnext:candidates", nc)
		}
		rep.hist("family:" + c.Desc["family"])
		rep.sample(map[string]string{"page_url": c.PageURL, "family": c.Desc["family"], "n": c.Desc["n"], "k": c.Desc["k"]})
	}
	if ctx.Replay != "" {
		var c pagerCase
		readReplay(ctx.Replay, &c)
		for _, b := range c.Before {
			run(b)
		}
		run(c)
		pn.run(ctx)
		pv.run(ctx)
		return
	}
	for _, c := range c16Corpus() {
		run(c)
	}
	n := ctx.pick(1500, 40000)
	for i := 0; i < n; i++ {
		r := newRng(ctx.Seed, fmt.Sprintf("C16/%d", i))
		if r.Chance(4) {
			run(casefoldPager(r))
			continue
		}
		run(genPager(r, newPageGen(r)))
	}
	// ---- several articles of ONE directory in a row, their pagers written with query-only hrefs
	// (resolved against the full path of the page they are on): each answer must come from the
	// page at hand, not from an earlier call
	for i := 0; i < ctx.pick(30, 600); i++ {
		r := newRng(ctx.Seed, fmt.Sprintf("C16/series/%d", i))
		g := newPageGen(r)
		dir := r.Pick("http://example.com/news/", "https://www.example.org/a/b/", "http://example.com/")
		k, n := r.Range(2, 4), r.Range(5, 7)
		var before []pagerCase
		for a := 0; a < 3; a++ {
			slug := fmt.Sprintf("article-%d-%d", i, a)
			var sb strings.Builder
			sb.WriteString("<html><head><title>t</title></head><body><p>" + g.words(60) + "</p><div class=\"pager\">")
			fmt.Fprintf(&sb, `<a href="?page=%d">%s</a> `, k-1, r.Pick("Prev", "Previous", "‹ Prev"))
			for p := 1; p <= n; p++ {
				if p == k {
					fmt.Fprintf(&sb, "<strong>%d</strong> ", p)
				} else {
					fmt.Fprintf(&sb, `<a href="?page=%d">%d</a> `, p, p)
				}
			}
			fmt.Fprintf(&sb, `<a href="?page=%d">%s</a>`, k+1, r.Pick("Next", "Next ›", "next page"))
			sb.WriteString("</div></body></html>")
			pc := pagerCase{HTML: sb.String(), PageURL: fmt.Sprintf("%s%s?page=%d", dir, slug, k), Desc: map[string]string{"family": "series-query-only", "n": fmt.Sprint(n), "k": fmt.Sprint(k)}}
			pc.Before = append([]pagerCase{}, before...)
			run(pc)
			pc.Before = nil
			before = append(before, pc)
		}
	}
	createAbsCorr(ctx, ctx.pick(6000, 300000)).run(ctx)
	pageDiffCorr(ctx, ctx.pick(5000, 200000)).run(ctx)
	// ---- the groups of adjacent numbers as a state machine: random call sequences on the real
	// MonotonicPageInfoGroups against the model
	pg := newCorr("pagegroups")
	for i := 0; i < ctx.pick(3000, 60000); i++ {
		r := newRng(ctx.Seed, fmt.Sprintf("C16/groups/%d", i))
		var ops []distiller.VerifGroupOp
		var sb strings.Builder
		n := r.Range(0, 14)
		fmt.Fprintf(&sb, "%d", n)
		for j := 0; j < n; j++ {
			op := distiller.VerifGroupOp{Kind: 1, Num: r.Range(0, 5)}
			switch {
			case r.Chance(18):
				op = distiller.VerifGroupOp{Kind: 0}
			case j == n-1 && r.Chance(50):
				// CleanUp is the last call of the scan (FindOutlink); in the middle of a call
				// sequence it is outside the protocol (the real type would dereference nil)
				op = distiller.VerifGroupOp{Kind: 2}
			case r.Chance(60):
				op.URL = fmt.Sprintf("http://e.com/%d", r.Range(1, 9))
			}
			ops = append(ops, op)
			fmt.Fprintf(&sb, " %d %d %s", op.Kind, op.Num, hx(op.URL))
		}
		var parts []string
		for _, g := range distiller.VerifMonotonicGroups(ops) {
			var items []string
			for _, p := range g.List {
				items = append(items, fmt.Sprintf("%d:%s", p.Num, hx(p.URL)))
			}
			parts = append(parts, fmt.Sprintf("<%d:%s>", g.DeltaSign, strings.Join(items, ",")))
		}
		pg.add(sb.String(), strings.Join(parts, " "), map[string]interface{}{"ops": ops})
	}
	pp := pathPagingCorr(ctx, ctx.pick(1500, 40000))
	tc, lc := termsCorr(ctx, ctx.pick(4000, 100000))
	tc.run(ctx)
	lc.run(ctx)
	pn.run(ctx)
	pv.run(ctx)
	pg.run(ctx)
	pp.run(ctx)
}

// pathPagingCorr: IsPagingURL of path-component patterns, byte by byte: the patterns of
// generated URLs against probe URLs built around the pattern's own pieces (used by C16 and C01).
func pathPagingCorr(ctx *Ctx, n int) *Corr {
	rep := ctx.Rep
	pp := newCorr("pathpaging")
	for i := 0; i < n; i++ {
		r := newRng(ctx.Seed, fmt.Sprintf("C16/path/%d", i))
		u := pathProbeURL(r)
		// the probes depend on the pattern's fields: first call without probes to learn them
		for _, f0 := range distiller.VerifPathPatternProbe(u, nil) {
			probes := pathProbes(r, f0.Fields.StrURL, f0.Fields.Prefix, f0.Fields.Suffix, f0.Fields.PlaceholderStart)
			for _, f := range distiller.VerifPathPatternProbe(u, probes) {
				if f.Fields != f0.Fields {
					continue
				}
				var sb strings.Builder
				fmt.Fprintf(&sb, "%s %d %d %s %s %d %d", hx(f.Fields.StrURL), f.Fields.PlaceholderStart, f.Fields.PlaceholderSegmentStart, hx(f.Fields.Prefix), hx(f.Fields.Suffix), f.Fields.URLOrigin, len(probes))
				for _, p := range probes {
					sb.WriteString(" " + hx(p))
				}
				pp.add(sb.String(), f.Results+". 1", map[string]interface{}{"url": u, "probes": probes})
				rep.histN("pathpaging:accepted", strings.Count(f.Results, "1"))
				rep.histN("pathpaging:rejected", strings.Count(f.Results, "0"))
				rep.histN("pathpaging:panicked", strings.Count(f.Results, "P"))
			}
		}
	}
	return pp
}

func pathProbeURL(r *Rng) string {
	host := r.Pick("example.com", "www.example.com", "h.io")
	segs := []string{"news", "story", "a", "2024", "05", "page", "thread-77", "x_y", "caf%C3%A9", "tag", "p", "index.html", "gallery"}
	var parts []string
	for i := 0; i < r.Range(0, 3); i++ {
		parts = append(parts, segs[r.Intn(len(segs))])
	}
	num := fmt.Sprint(r.Range(0, 120))
	last := r.Pick(num, "page-"+num, "story_"+num+".html", "p"+num, num+".htm", "a-"+num+"-b", num+"/comments", "s"+num+"e"+fmt.Sprint(r.Range(1, 9)), "[*!]/"+num)
	parts = append(parts, last)
	u := "http://" + host + "/" + strings.Join(parts, "/")
	if r.Chance(15) {
		u += "?q=1"
	}
	if r.Chance(5) {
		u = "javascript:/" + strings.Join(parts, "/")
	}
	return u
}

func pathProbes(r *Rng, strURL, prefix, suffix string, pStart int) []string {
	with := func(v string) string { return strings.Replace(strURL, "[*!]", v, 1) }
	probes := []string{with("2"), with("0"), with("15"), with(""), with("+3"), with("-0"), with("-4"), with("99999999999999999999"), with("9223372036854775807"), with("9223372036854775808"),
		with("x"), with("2x"), prefix, prefix + suffix, prefix + "/" + suffix, prefix + "/7" + suffix, prefix + "/7", suffix, "", "/", strURL, with("٣")}
	if pStart > 0 && pStart <= len(strURL) {
		probes = append(probes, strURL[:pStart], strURL[:pStart-1], strURL[:pStart-1]+suffix, strURL[:pStart]+suffix, strURL[:pStart-1]+"8"+suffix)
	}
	if i := strings.LastIndex(prefix, "/"); i > 0 {
		probes = append(probes, prefix[:i]+suffix, prefix[:i], prefix[:i]+"/"+suffix)
	}
	for k := 0; k < 6; k++ {
		s := with(fmt.Sprint(r.Range(0, 30)))
		switch r.Intn(4) {
		case 0:
			s = s[:r.Intn(len(s)+1)]
		case 1:
			s = s[r.Intn(len(s)+1):]
		case 2:
			j := r.Intn(len(s) + 1)
			s = s[:j] + r.Pick("/", "-", "x", "1", ".html") + s[j:]
		default:
			if len(s) > 0 {
				j := r.Intn(len(s))
				s = s[:j] + s[j+1:]
			}
		}
		probes = append(probes, s)
	}
	return probes
}

// c16Corpus: the layouts that once failed run first.
func c16Corpus() []pagerCase {
	body := "<p>" + strings.Repeat("word ", 80) + "</p>"
	mk := func(url, pager string) pagerCase {
		return pagerCase{PageURL: url, HTML: "<html><head><title>A paginated article</title></head><body>" + body + "<div>" + pager + "</div></body></html>", Desc: map[string]string{"family": "corpus"}}
	}
	return []pagerCase{
		// the first URL after the plain current-page number is a javascript: position holder
		mk("http://example.com/a?page=1", `1 <a href="javascript:void(0)">2</a> <a href="/a?page=3">3</a> <a href="/a?page=4">4</a>`),
		mk("http://example.com/a?page=3", `<a href="/a?page=1">1</a> <a href="/a?page=2">2</a> 3 <a href="javascript:go(4)">4</a>`),
		mk("http://example.com/a?page=3", `<a href="/a?page=1">1</a> <a href="javascript:/a?page=2">2</a> 3 <a href="/a?page=4">4</a>`),
		// more than one numeric query parameter: evaluation order of the patterns
		mk("http://example.com/a?page=2&id=7", `<a href="/a?page=1&amp;id=7">1</a> <a href="/a?page=3&amp;id=7">3</a> 5`),
		// escaped page URL
		mk("http://example.com/a%20b/c?page=2", `<a href="/a%20b/c?page=1">1</a> 2 <a href="/a%20b/c?page=3">3</a>`),
		mk("http://example.com/caf%C3%A9", `1 <a href="/caf%C3%A9?page=2">2</a> <a href="/caf%C3%A9?page=3">3</a>`),
	}
}

// applyRecover: Apply, with a panic turned into a message (the finders are what is being tested)
func applyRecover(root *html.Node, o *distiller.Options) (res *distiller.Result, err error, pmsg string) {
	defer func() {
		if r := recover(); r != nil {
			pmsg = fmt.Sprint(r)
		}
	}()
	res, err = distiller.Apply(root, o)
	return
}
