package main

import (
	"fmt"
	"strings"

	distiller "github.com/markusmobius/go-domdistiller"
	"golang.org/x/net/html"
)

// opengraph: the OpenGraph parser (Model/OpenGraph.lean) against the real one: the tree of the
// document element, ToLower of every property / content value of its meta elements and the
// prefixes the real findPrefixes settles on → whether the parser is usable and what its accessor
// answers.

func addOpenGraphCase(c *Corr, rep *Report, src string, replay interface{}) {
	d := parseDoc(src)
	root := d.elementRoot()
	if root == nil {
		return
	}
	document := findFirstBelow(root, "html")
	if document == nil {
		document = root
	}
	var metas []*html.Node
	findAll(document, func(n *html.Node) bool { return n.Type == html.ElementNode && n.Data == "meta" }, &metas)
	for _, m := range metas {
		seen := map[string]bool{}
		for _, a := range m.Attr {
			if seen[a.Key] {
				rep.hist("opengraph:repeated-attribute(skipped)")
				return
			}
			seen[a.Key] = true
		}
	}
	srcs, _ := distiller.VerifMarkup(root)
	var sb strings.Builder
	d.encodeTree(document, &sb)
	seen := map[string]bool{}
	var tbl []string
	for _, m := range metas {
		for _, k := range []string{"property", "content"} {
			v := getAttr(m, k)
			if !seen[v] {
				seen[v] = true
				tbl = append(tbl, hx(v)+" "+hx(strings.ToLower(v)))
			}
		}
	}
	fmt.Fprintf(&sb, " %d", len(tbl))
	if len(tbl) > 0 {
		sb.WriteString(" " + strings.Join(tbl, " "))
	}
	og, pr, ar := distiller.VerifOGPrefixes(root)
	fmt.Fprintf(&sb, " %s %s %s", hx(og), hx(pr), hx(ar))
	impl := "unusable"
	if len(srcs) > 0 && strings.Contains(srcs[0].Kind, "opengraph") {
		s := srcs[0]
		art := "nil"
		if s.Article != nil {
			art = showArticle(*s.Article)
		}
		im := make([]string, len(s.Images))
		for k, x := range s.Images {
			im[k] = showImage(x)
		}
		impl = fmt.Sprintf("usable %s %s %s %s %s %s %s %s", hx(s.Title), hx(s.Type), hx(s.URL), hx(s.Description), hx(s.Publisher), hx(s.Author), art, leanList(im))
		rep.hist("opengraph:usable")
	} else {
		rep.hist("opengraph:unusable")
	}
	if og != "og" || pr != "profile" || ar != "article" {
		rep.hist("opengraph:custom-prefix")
	}
	c.add(sb.String(), impl, replay)
}

// ogPage: pages built around what the OpenGraph parser looks at
func ogPage(r *Rng, g *PageGen) string {
	pfx := "og"
	htmlAttr := ""
	switch r.Intn(8) {
	case 0:
		pfx = "opg"
		htmlAttr = ` prefix="opg: http://ogp.me/ns# prof: http://ogp.me/ns/profile# art: http://ogp.me/ns/article#"`
	case 1:
		htmlAttr = ` xmlns:og="http://ogp.me/ns#"`
	case 2:
		pfx = "x"
		htmlAttr = ` xmlns:x="http://ogp.me/ns#" xmlns:p="http://ogp.me/ns/profile#"`
	}
	profP, artP := "profile", "article"
	if strings.Contains(htmlAttr, "prof:") {
		profP, artP = "prof", "art"
	}
	if strings.Contains(htmlAttr, "xmlns:p=") {
		profP = "p"
	}
	var metas []string
	meta := func(prop, content string) {
		metas = append(metas, `<meta property="`+prop+`" content="`+content+`">`)
	}
	typ := r.Pick("article", "Article", "ARTICLE", "profile", "Profile", "website", "", "video.movie")
	req := map[string]string{"title": "OG title " + g.word(), "type": typ, "url": "http://example.com/og", "image": "http://example.com/" + g.word() + ".png"}
	order := []string{"title", "type", "url", "image"}
	for i := len(order) - 1; i > 0; i-- {
		j := r.Intn(i + 1)
		order[i], order[j] = order[j], order[i]
	}
	for _, k := range order {
		if r.Chance(12) {
			continue
		}
		v := req[k]
		if r.Chance(8) {
			v = ""
		}
		meta(r.Pick(pfx, pfx, pfx, "OG", strings.ToUpper(pfx))+":"+r.Pick(k, k, k, strings.ToUpper(k), k+"s"), v)
	}
	for n := r.Intn(10); n > 0; n-- {
		switch r.Intn(16) {
		case 0:
			meta(pfx+":description", g.words(3))
		case 1:
			meta(pfx+":site_name", g.words(1))
		case 2:
			meta(pfx+":image", "http://example.com/"+g.word()+".jpg")
		case 3:
			meta(pfx+":image:url", "http://example.com/u-"+g.word()+".jpg")
		case 4:
			meta(pfx+":image:secure_url", "https://example.com/s-"+g.word()+".jpg")
		case 5:
			meta(pfx+":image:"+r.Pick("width", "height"), r.Pick("640", "480", "x", "", "-5", "99999999999999999999"))
		case 6:
			meta(pfx+":image:type", "image/png")
		case 7:
			meta(profP+":first_name", g.word())
		case 8:
			meta(profP+":last_name", g.word())
		case 9:
			meta(artP+":section", g.word())
		case 10:
			meta(artP+":"+r.Pick("published_time", "modified_time", "expiration_time"), "2020-01-0"+fmt.Sprint(r.Range(1, 9)))
		case 11:
			meta(artP+":author", "http://example.com/"+g.word())
		case 12:
			meta(artP+":authors", g.word())
		case 13:
			meta(pfx+":type", r.Pick("article", "profile", "website"))
		case 14:
			meta(pfx+":titlefoo", g.word())
		default:
			meta(r.Pick("twitter:title", "fb:app_id", "article:tag", "profile:username", pfx+":locale"), g.word())
		}
	}
	if r.Chance(40) {
		for i := len(metas) - 1; i > 0; i-- {
			j := r.Intn(i + 1)
			metas[i], metas[j] = metas[j], metas[i]
		}
	}
	cut := len(metas)
	if r.Chance(25) && cut > 1 {
		cut = r.Intn(cut)
	}
	headAttr := ""
	if htmlAttr != "" && strings.HasPrefix(htmlAttr, " prefix") && r.Chance(40) {
		headAttr, htmlAttr = htmlAttr, ""
	}
	return "<html" + htmlAttr + "><head" + headAttr + "><title>t</title>" + strings.Join(metas[:cut], "\n") + "</head><body>" + strings.Join(metas[cut:], "\n") + "<p>" + g.words(40) + "</p></body></html>"
}
