package main

import (
	"fmt"
	"strings"

	distiller "github.com/markusmobius/go-domdistiller"
	"golang.org/x/net/html"
)

// Stage-wise correspondence of the content pipeline with the Lean model:
//   convert : tree + atoms            → builder calls        (Model.Convert)
//   builder : builder calls           → element list         (Model.Builder)
// The implementation side of both comes from one run of the real converter behind a
// recording document builder (hook VerifConvert).

var embedKindCode = map[string]int{"image": 3, "figure": 4, "video": 5, "embed": 6}

type pipeCorr struct {
	conv, build *Corr
}

func newPipeCorr() *pipeCorr { return &pipeCorr{conv: newCorr("convert"), build: newCorr("builder")} }

func (pc *pipeCorr) run(ctx *Ctx) {
	pc.conv.run(ctx)
	pc.build.run(ctx)
}

func (pc *pipeCorr) add(ctx *Ctx, d *Doc, root *html.Node, skipUnlikely bool, replay interface{}) {
	events, elems := distiller.VerifConvert(root, pageURL, skipUnlikely)
	textAtoms := distiller.VerifTextAtoms(root)

	// ---- atoms taken from the implementation's own answers
	embedOf := map[int]int{}  // element id → kind code
	tableOf := map[int]bool{} // element id → data table
	byVid := func(v string) *html.Node {
		var id int
		if _, err := fmt.Sscanf(v, "%d", &id); err != nil || id < 0 || id >= len(d.Nodes) {
			return nil
		}
		return d.Nodes[id]
	}
	unmodelled := false
	for _, ev := range events {
		switch ev.Op {
		case "embed":
			n := byVid(ev.Vid)
			if n == nil {
				unmodelled = true // synthesised element (lazy-image placeholder): outside the modelled alphabet
				continue
			}
			if ev.Kind == "figure" {
				// the figure the converter visited is the outermost figure around the image
				// (an inner one is consumed with it)
				for p := n; p != nil; p = p.Parent {
					if p.Type == html.ElementNode && p.Data == "figure" {
						n = p
					}
				}
			}
			if ev.Kind != "video" {
				embedOf[d.ID[n]] = embedKindCode[ev.Kind]
			}
		case "table":
			if n := byVid(ev.Vid); n != nil {
				tableOf[d.ID[n]] = true
			}
		}
	}
	if unmodelled {
		ctx.Rep.hist("convert:unmodelled-page")
		return
	}

	// ---- model input: tree + atoms
	var sb strings.Builder
	sb.WriteString(b01(skipUnlikely))
	d.encodeTree(root, &sb)
	var els, txts []*html.Node
	findAll(root, func(n *html.Node) bool { return n.Type == html.ElementNode }, &els)
	findAll(root, func(n *html.Node) bool { return n.Type == html.TextNode }, &txts)
	fmt.Fprintf(&sb, " %d", len(els))
	for _, e := range els {
		a := distiller.VerifElementAtoms(e)
		id := d.ID[e]
		fmt.Fprintf(&sb, " %d %s %s %s %s %s %d %s %s", id, hx(a.StyleDisplay), b01(a.VisHidden), b01(a.Byline), b01(a.Unlikely), b01(a.Maybe), embedOf[id], b01(tableOf[id]), b01(distiller.VerifIsForeignRawText(e)))
	}
	fmt.Fprintf(&sb, " %d", len(txts))
	for _, t := range txts {
		bl, w := textAtoms(t.Data)
		fmt.Fprintf(&sb, " %d %s %d", d.ID[t], b01(bl), w)
	}

	// ---- implementation side: the recorded calls
	var impl []string
	var bp strings.Builder
	fmt.Fprintf(&bp, "%d", len(events))
	k := 0
	for _, ev := range events {
		switch ev.Op {
		case "skip":
			impl = append(impl, "S")
			bp.WriteString(" S")
		case "start":
			impl = append(impl, "B"+b01(ev.Flush)+b01(ev.IsAnchor)+b01(ev.Changes))
			fmt.Fprintf(&bp, " B %s %s %s", b01(ev.Flush), b01(ev.IsAnchor), b01(ev.Changes))
		case "end":
			impl = append(impl, "E")
			bp.WriteString(" E")
		case "text":
			impl = append(impl, "T"+hx(ev.Data))
			bl, w := textAtoms(ev.Data)
			k++
			fmt.Fprintf(&bp, " T %d %s %s %d", k, b01(ev.Data == ""), b01(bl), w)
		case "br":
			impl = append(impl, "R"+ev.Vid)
			k++
			fmt.Fprintf(&bp, " R %d", k)
		case "table":
			impl = append(impl, "D"+ev.Vid)
			fmt.Fprintf(&bp, " D %s", ev.Vid)
		case "tag":
			pm := "G-"
			if ev.TagStart {
				pm = "G+"
			}
			impl = append(impl, pm+ev.TagName)
			fmt.Fprintf(&bp, " G %s %s", hx(ev.TagName), b01(ev.TagStart))
		case "embed":
			impl = append(impl, fmt.Sprintf("M%d", embedKindCode[ev.Kind]))
			fmt.Fprintf(&bp, " M %d 0", embedKindCode[ev.Kind])
		}
	}
	pc.conv.add(sb.String(), strings.Join(impl, " "), replay)

	var be []string
	for _, e := range elems {
		switch e.Kind {
		case "text":
			be = append(be, fmt.Sprintf("x%d-%d:f%d:l%d:g%d:w%d:a%d:t%d:o%d", e.Start, e.End, e.FirstWord, e.LastWord, e.Group, e.NumWords, e.NumLinked, e.TagLevel, e.Offset))
		case "tag":
			pm := "G-"
			if e.TagStart {
				pm = "G+"
			}
			be = append(be, pm+e.TagName)
		case "table":
			be = append(be, "D"+e.ElemVid)
		default:
			be = append(be, fmt.Sprintf("M%d", embedKindCode[e.Kind]))
		}
	}
	pc.build.add(bp.String(), strings.Join(be, " "), replay)
	for _, ev := range events {
		ctx.Rep.hist("event:" + ev.Op)
	}
}
