package main

import (
	"bufio"
	"bytes"
	"encoding/hex"
	"fmt"
	"os/exec"
	"regexp"
	"strconv"
	"strings"

	"golang.org/x/net/html"
)

// Doc is a parsed, annotated page: every node has a pre-order id; every element carries
// it in the inert attribute data-vid.
type Doc struct {
	HTML  string
	Root  *html.Node // document node
	Nodes []*html.Node
	ID    map[*html.Node]int
}

func parseDoc(src string) *Doc {
	root, err := html.Parse(strings.NewReader(src))
	if err != nil {
		panic(err)
	}
	return annotate(src, root)
}

func annotate(src string, root *html.Node) *Doc {
	d := &Doc{HTML: src, Root: root, ID: map[*html.Node]int{}}
	var walk func(n *html.Node)
	walk = func(n *html.Node) {
		id := len(d.Nodes)
		d.Nodes = append(d.Nodes, n)
		d.ID[n] = id
		if n.Type == html.ElementNode {
			setAttr(n, "data-vid", strconv.Itoa(id))
		}
		for c := n.FirstChild; c != nil; c = c.NextSibling {
			walk(c)
		}
	}
	walk(root)
	return d
}

func setAttr(n *html.Node, k, v string) {
	for i := range n.Attr {
		if n.Attr[i].Key == k {
			n.Attr[i].Val = v
			return
		}
	}
	n.Attr = append(n.Attr, html.Attribute{Key: k, Val: v})
}

func getAttr(n *html.Node, k string) string {
	for _, a := range n.Attr {
		if a.Key == k {
			return a.Val
		}
	}
	return ""
}
func hasAttr(n *html.Node, k string) bool {
	for _, a := range n.Attr {
		if a.Key == k {
			return true
		}
	}
	return false
}

func (d *Doc) elementRoot() *html.Node {
	for c := d.Root.FirstChild; c != nil; c = c.NextSibling {
		if c.Type == html.ElementNode {
			return c
		}
	}
	return nil
}

func findFirst(n *html.Node, tag string) *html.Node {
	if n.Type == html.ElementNode && n.Data == tag {
		return n
	}
	for c := n.FirstChild; c != nil; c = c.NextSibling {
		if r := findFirst(c, tag); r != nil {
			return r
		}
	}
	return nil
}

func findAll(n *html.Node, pred func(*html.Node) bool, out *[]*html.Node) {
	if pred(n) {
		*out = append(*out, n)
	}
	for c := n.FirstChild; c != nil; c = c.NextSibling {
		findAll(c, pred, out)
	}
}

func hasAncestorTag(n *html.Node, tags ...string) bool {
	for p := n.Parent; p != nil; p = p.Parent {
		if p.Type == html.ElementNode {
			for _, t := range tags {
				if p.Data == t {
					return true
				}
			}
		}
	}
	return false
}

var rxTok = regexp.MustCompile(`w\d+`)
var rxMedia = regexp.MustCompile(`m\d+\.[a-z0-9]+`)

func tokensOf(s string) []string { return rxTok.FindAllString(s, -1) }

// text tokens of a subtree in document order
func subtreeTokens(n *html.Node) []string {
	var out []string
	var walk func(*html.Node)
	walk = func(x *html.Node) {
		if x.Type == html.TextNode {
			out = append(out, tokensOf(x.Data)...)
		}
		for c := x.FirstChild; c != nil; c = c.NextSibling {
			walk(c)
		}
	}
	walk(n)
	return out
}

func renderNode(n *html.Node) string {
	var b bytes.Buffer
	html.Render(&b, n)
	return b.String()
}

// ---------- protocol encoding ----------

func hx(s string) string { return "_" + hex.EncodeToString([]byte(s)) }

func b01(b bool) string {
	if b {
		return "1"
	}
	return "0"
}

// encodeTree writes the pre-order token form the Lean driver parses.
func (d *Doc) encodeTree(n *html.Node, sb *strings.Builder) {
	id := d.ID[n]
	switch n.Type {
	case html.TextNode:
		fmt.Fprintf(sb, " T %d %s", id, hx(n.Data))
	case html.ElementNode:
		fmt.Fprintf(sb, " E %d %s %d", id, hx(n.Data), len(n.Attr))
		for _, a := range n.Attr {
			k := a.Key
			if a.Namespace != "" {
				k = a.Namespace + ":" + a.Key
			}
			fmt.Fprintf(sb, " %s %s", hx(k), hx(a.Val))
		}
		nk := 0
		for c := n.FirstChild; c != nil; c = c.NextSibling {
			nk++
		}
		fmt.Fprintf(sb, " %d", nk)
		for c := n.FirstChild; c != nil; c = c.NextSibling {
			d.encodeTree(c, sb)
		}
	default:
		fmt.Fprintf(sb, " O %d %d", id, int(n.Type))
	}
}

// ---------- driver ----------

// runDriver pipes the lines to the Lean driver and returns answers keyed by case number.
func runDriver(path string, lines []string) (map[string]string, error) {
	if path == "" {
		return nil, fmt.Errorf("no driver")
	}
	cmd := exec.Command(path)
	cmd.Stdin = strings.NewReader(strings.Join(lines, "\n") + "\n")
	var out, errb bytes.Buffer
	cmd.Stdout = &out
	cmd.Stderr = &errb
	if err := cmd.Run(); err != nil {
		return nil, fmt.Errorf("driver: %v: %s", err, errb.String())
	}
	res := map[string]string{}
	sc := bufio.NewScanner(&out)
	sc.Buffer(make([]byte, 1<<20), 1<<28)
	for sc.Scan() {
		l := sc.Text()
		i := strings.IndexByte(l, ' ')
		if i < 0 {
			continue
		}
		res[l[:i]] = l[i+1:]
	}
	return res, nil
}

// Corr batches correspondence cases for one stage.
type Corr struct {
	premiseFailures []string // premises of a theorem that failed on the implementation's data
	Stage           string
	lines           []string
	impl            map[string]string
	info            map[string]interface{}
	n               int
	first           int // case number of lines[0] minus one (cases before it were flushed)
	bytes           int
	keepAll         bool // the caller reads `lines` itself after the last add: never flush early
}

// corrFlushBytes: a stage hands its pending cases to the driver once they take this much memory
const corrFlushBytes = 96 << 20

// globalCtx is set by main; Corr.add uses it to flush large batches early
var globalCtx *Ctx

func newCorr(stage string) *Corr {
	return &Corr{Stage: stage, impl: map[string]string{}, info: map[string]interface{}{}}
}

// add registers a case: payload = tokens after the case number; impl = expected answer.
func (c *Corr) add(payload string, impl string, info interface{}) {
	c.n++
	k := strconv.Itoa(c.n)
	line := c.Stage + " " + k + " " + strings.TrimSpace(payload)
	c.lines = append(c.lines, line)
	c.impl[k] = impl
	c.info[k] = info
	c.bytes += len(line) + len(impl)
	if c.bytes > corrFlushBytes && globalCtx != nil && !c.keepAll {
		c.flush(globalCtx)
	}
}

// flush runs the model on the pending cases, records mismatches and forgets the cases
func (c *Corr) flush(ctx *Ctx) {
	if len(c.lines) == 0 {
		return
	}
	ans, err := runDriver(ctx.Driver, c.lines)
	if err != nil {
		ctx.Rep.mismatch(c.Stage, "driver-failed", err.Error(), "")
	} else {
		for i, line := range c.lines {
			k := strconv.Itoa(c.first + i + 1)
			if ans[k] != c.impl[k] {
				ctx.Rep.mismatch(c.Stage, map[string]interface{}{"info": c.info[k], "line": trunc(line, 4000)}, ans[k], c.impl[k])
			}
		}
	}
	c.first += len(c.lines)
	c.lines = nil
	c.impl = map[string]string{}
	c.info = map[string]interface{}{}
	c.bytes = 0
}

// run executes the model on all cases and records mismatches in the report.
func (c *Corr) run(ctx *Ctx) {
	for _, pf := range c.premiseFailures {
		ctx.Rep.mismatch(c.Stage+"-premise", nil, "premise holds", pf)
	}
	ctx.Rep.CorrCases[c.Stage] += c.n
	c.flush(ctx)
}

func trunc(s string, n int) string {
	if len(s) > n {
		return s[:n] + "…"
	}
	return s
}
