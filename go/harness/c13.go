package main

import (
	"fmt"
	"net/http"
	"net/http/httptest"
	nurl "net/url"
	"os"
	"reflect"
	"strings"
	"time"

	distiller "github.com/markusmobius/go-domdistiller"
)

func init() { props["C13"] = runC13 }

func silenceStderr() {
	if f, err := os.OpenFile(os.DevNull, os.O_WRONLY, 0); err == nil {
		os.Stderr = f
	}
}

// simplePager: a conventional numbered pager with Prev/Next anchors for page k of n.
func simplePager(r *Rng, base string, n, k int) string {
	var sb strings.Builder
	sb.WriteString(`<div class="pagination">`)
	if k > 1 {
		fmt.Fprintf(&sb, `<a href="%s?page=%d">Prev</a> `, base, k-1)
	}
	for i := 1; i <= n; i++ {
		if i == k {
			fmt.Fprintf(&sb, "%d ", i)
		} else {
			fmt.Fprintf(&sb, `<a href="%s?page=%d">%d</a> `, base, i, i)
		}
	}
	if k < n {
		fmt.Fprintf(&sb, `<a href="%s?page=%d">Next</a>`, base, k+1)
	}
	sb.WriteString(`</div>`)
	return sb.String()
}

type resultView struct {
	URL, Title, Text, HTML string
	WordCount              int
	Images                 []string
	Markup                 string
	Next, Prev             string
}

func viewOf(res *distiller.Result) resultView {
	return resultView{URL: res.URL, Title: res.Title, Text: res.Text, HTML: renderNode(res.Node), WordCount: res.WordCount,
		Images: res.ContentImages, Markup: fmt.Sprintf("%+v", res.MarkupInfo), Next: res.PaginationInfo.NextPage, Prev: res.PaginationInfo.PrevPage}
}

func (a resultView) sameExceptPagination(b resultView) (string, bool) {
	a.Next, a.Prev, b.Next, b.Prev = "", "", "", ""
	if reflect.DeepEqual(a, b) {
		return "", true
	}
	va, vb := reflect.ValueOf(a), reflect.ValueOf(b)
	for i := 0; i < va.NumField(); i++ {
		if !reflect.DeepEqual(va.Field(i).Interface(), vb.Field(i).Interface()) {
			return va.Type().Field(i).Name, false
		}
	}
	return "?", false
}

type optCase struct {
	Flags uint
	Algo  int
	Skip  bool
	URL   string // "" = nil
}

func (c optCase) options() *distiller.Options {
	o := &distiller.Options{LogFlags: distiller.LogFlag(c.Flags), SkipPagination: c.Skip, PaginationAlgo: distiller.PaginationAlgo(c.Algo)}
	if c.URL != "" {
		u, _ := nurl.Parse(c.URL)
		o.OriginalURL = u
	}
	return o
}

func runC13(ctx *Ctx) {
	silenceStderr()
	rep := ctx.Rep
	rep.Rule = "each generated page (articles with media, tables, embeds, hidden parts and a numbered pager with Prev/Next anchors) is distilled under all 16 log-flag sets x {PrevNext, PageNumber} x SkipPagination x URL nil / with and without trailing slash; results compared field-wise; distinct by page structure; non-trivial = pagination found a link under at least one configuration"
	corr := newCorr("applytail")
	run := func(src string) {
		rep.Evaluations++
		replay := map[string]interface{}{"html": src}
		urls := []string{"", "http://example.com/dir/story", "http://example.com/dir/story/"}
		found := false
		for _, u := range urls {
			base := optCase{Flags: 0, Algo: 0, Skip: false, URL: u}
			apply := func(c optCase) (resultView, bool) {
				d := parseDoc(src)
				res, err := distiller.Apply(d.Root, c.options())
				if err != nil || res == nil {
					rep.hist("apply-error")
					return resultView{}, false
				}
				return viewOf(res), true
			}
			b, ok := apply(base)
			if !ok {
				continue
			}
			// finder answers for the correspondence of the generated tail
			pv, _ := apply(optCase{Algo: 0, URL: u})
			pn, _ := apply(optCase{Algo: 1, URL: u})
			for algo := 0; algo < 2; algo++ {
				for _, skip := range []bool{false, true} {
					flagSets := []uint{0}
					if algo == 1 || !skip || ctx.thorough() {
						flagSets = []uint{0, 2, 4, 6, 8, 10, 12, 14, 16, 18, 20, 22, 24, 26, 28, 30}
					}
					var ref resultView
					for fi, fl := range flagSets {
						c := optCase{Flags: fl, Algo: algo, Skip: skip, URL: u}
						v, ok := apply(c)
						if !ok {
							continue
						}
						sig := func(clause, field string) map[string]string {
							return map[string]string{"clause": clause, "field": field, "algo": fmt.Sprint(algo), "skip": b01(skip), "url": map[bool]string{true: "nil", false: "set"}[u == ""]}
						}
						rp := map[string]interface{}{"html": src, "config": c, "baseline": base}
						if f, same := v.sameExceptPagination(b); !same {
							clause := "options-change-other-fields"
							if fl != 0 {
								clause = "log-flags-change-result"
							}
							rep.violate(sig(clause, f), fmt.Sprintf("field %s differs between %+v and %+v", f, c, base), rp)
						}
						if fi == 0 {
							ref = v
						} else if v.Next != ref.Next || v.Prev != ref.Prev {
							rep.violate(sig("log-flags-change-result", "PaginationInfo"), fmt.Sprintf("PaginationInfo differs between log flags %d and 0 under %+v", fl, c), rp)
						}
						if (skip || u == "") && (v.Next != "" || v.Prev != "") {
							rep.violate(sig("pagination-not-empty", "PaginationInfo"), fmt.Sprintf("PaginationInfo %q/%q although pagination is skipped or no URL given (%+v)", v.Next, v.Prev, c), rp)
						}
						if v.URL != u {
							rep.violate(sig("url-field", "URL"), fmt.Sprintf("Result.URL=%q, supplied %q (%+v)", v.URL, u, c), rp)
						}
						if v.Next != "" || v.Prev != "" {
							found = true
						}
						if fl == 0 {
							corr.add(fmt.Sprintf("%s %s %s %s %s %s %s %s", b01(u != ""), hx(u), b01(skip), b01(algo == 1), hx(pn.Next), hx(pn.Prev), hx(pv.Next), hx(pv.Prev)),
								fmt.Sprintf("ok %s %s %s", hx(v.URL), hx(v.Next), hx(v.Prev)), rp)
						}
					}
				}
			}
		}
		_ = replay
		if found {
			rep.nontrivial(fmt.Sprintf("%x", hashStr(src)))
		}
		rep.sample(map[string]interface{}{"html_len": len(src), "pagination_found": found})
	}
	if ctx.Replay != "" {
		var r struct {
			HTML string `json:"html"`
		}
		readReplay(ctx.Replay, &r)
		run(r.HTML)
	} else {
		for _, src := range corpusPages(ctx, "C13") {
			run(src)
		}
		n := ctx.pick(40, 600)
		for i := 0; i < n; i++ {
			r := newRng(ctx.Seed, fmt.Sprintf("C13/%d", i))
			g := newPageGen(r)
			body := g.blocks(g.R.Range(3, 10), 0)
			if r.Chance(85) {
				nn := r.Range(2, 6)
				body += simplePager(r, "http://example.com/dir/story", nn, r.Range(1, nn))
			}
			if r.Chance(30) {
				body += `<p>* * *</p>`
			}
			run("<html><head><title>An ordinary title for option tests</title></head><body>" + body + g.blocks(r.Range(0, 3), 0) + "</body></html>")
		}
	}
	corr.run(ctx)
	if ctx.Replay == "" {
		urlEntryPoint(ctx)
	}
}

// urlEntryPoint: ApplyForURL against a loopback server that serves pages directly and behind
// redirects (to a trailing-slash path, to another folder, through two hops, with a query).
// Result.URL must be the address the caller supplied, and every other field must equal what
// ApplyForReader gives for the served bytes with that address as page URL.
func urlEntryPoint(ctx *Ctx) {
	rep := ctx.Rep
	page := func(path string) string {
		key := strings.Trim(path, "/")
		if i := strings.LastIndex(key, "/"); i >= 0 {
			key = key[i+1:]
		}
		g := newPageGen(newRng(ctx.Seed, "C13srv/"+key))
		body := g.blocks(6, 0) + simplePager(g.R, "/plain/"+key, 4, 2)
		return "<html><head><title>A served page for the url entry point</title></head><body>" + body + "</body></html>"
	}
	srv := httptest.NewServer(http.HandlerFunc(func(w http.ResponseWriter, r *http.Request) {
		p := r.URL.Path
		switch {
		case strings.HasPrefix(p, "/redir/"):
			http.Redirect(w, r, "/plain/"+strings.TrimPrefix(p, "/redir/")+"/", http.StatusFound)
		case strings.HasPrefix(p, "/moved/"):
			http.Redirect(w, r, "/archive/2024/"+strings.TrimPrefix(p, "/moved/")+"?from=moved", http.StatusMovedPermanently)
		case strings.HasPrefix(p, "/hop/"):
			http.Redirect(w, r, "/redir/"+strings.TrimPrefix(p, "/hop/"), http.StatusTemporaryRedirect)
		default:
			w.Header().Set("Content-Type", "text/html; charset=utf-8")
			fmt.Fprint(w, page(p))
		}
	}))
	defer srv.Close()
	for k := 0; k < ctx.pick(8, 80); k++ {
		for _, route := range []string{"plain", "redir", "moved", "hop"} {
			for _, q := range []string{"", "?page=2"} {
				for algo := 0; algo < 2; algo++ {
					supplied := fmt.Sprintf("%s/%s/a%d%s", srv.URL, route, k, q)
					opts := &distiller.Options{PaginationAlgo: distiller.PaginationAlgo(algo)}
					if k%2 == 1 {
						opts.OriginalURL, _ = nurl.Parse("http://caller.example.org/own/url")
					}
					rep.Evaluations++
					rep.hist("url-entry:" + route)
					res, err := distiller.ApplyForURL(supplied, 5*time.Second, opts)
					if err != nil || res == nil {
						rep.hist("applyforurl-error")
						continue
					}
					rp := map[string]interface{}{"entry": "ApplyForURL", "route": route, "supplied": strings.Replace(supplied, srv.URL, "http://LOOPBACK", 1), "algo": algo}
					sig := map[string]string{"clause": "url-field", "field": "URL", "entry": "ApplyForURL", "route": route}
					if res.URL != supplied {
						rep.violate(sig, fmt.Sprintf("ApplyForURL: Result.URL=%q, supplied %q", strings.Replace(res.URL, srv.URL, "http://LOOPBACK", 1), rp["supplied"]), rp)
						continue
					}
					u, _ := nurl.Parse(supplied)
					ref, err := distiller.ApplyForReader(strings.NewReader(page("/a"+fmt.Sprint(k))), &distiller.Options{OriginalURL: u, PaginationAlgo: distiller.PaginationAlgo(algo)})
					if err != nil || ref == nil {
						continue
					}
					a, b := viewOf(res), viewOf(ref)
					if f, same := a.sameExceptPagination(b); !same || a.Next != b.Next || a.Prev != b.Prev {
						if same {
							f = "PaginationInfo"
						}
						rep.violate(map[string]string{"clause": "url-entry-differs", "field": f, "route": route}, fmt.Sprintf("ApplyForURL and ApplyForReader with the supplied address as page URL differ in %s", f), rp)
					}
				}
			}
		}
	}
}

func hashStr(s string) uint64 {
	var h uint64 = 1469598103934665603
	for i := 0; i < len(s); i++ {
		h ^= uint64(s[i])
		h *= 1099511628211
	}
	return h
}
