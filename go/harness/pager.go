package main

import (
	"fmt"
	nurl "net/url"
	"regexp"
	"strconv"
	"strings"

	distiller "github.com/markusmobius/go-domdistiller"
	"golang.org/x/net/html"
)

// ---------- pager pages (C16, C17; also reused by C11) ----------

// urlFamily: how page i of a paginated article is addressed.
type urlFamily struct {
	Name string
	Base string             // scheme://host + folder
	URL  func(i int) string // page i
	Bare string             // the article without page parameter
}

func famQuery(base, stem, param, extra string) urlFamily {
	return urlFamily{Name: "query:" + param, Base: base, Bare: base + stem + strings.TrimSuffix("?"+extra, "?"),
		URL: func(i int) string {
			if extra != "" {
				return fmt.Sprintf("%s%s?%s&%s=%d", base, stem, extra, param, i)
			}
			return fmt.Sprintf("%s%s?%s=%d", base, stem, param, i)
		}}
}

func famPath(base, stem, seg string) urlFamily {
	return urlFamily{Name: "path:" + seg, Base: base, Bare: base + stem,
		URL: func(i int) string { return fmt.Sprintf("%s%s/%s%d", base, stem, seg, i) }}
}

func famSuffix(base, stem, sep, ext string) urlFamily {
	return urlFamily{Name: "suffix:" + sep + ext, Base: base, Bare: base + stem + ext,
		URL: func(i int) string { return fmt.Sprintf("%s%s%s%d%s", base, stem, sep, i, ext) }}
}

func randFamily(r *Rng) urlFamily {
	host := r.Pick("example.com", "example.com", "www.example.com", "news.example.org:8080", "Example.COM")
	if r.Chance(6) {
		host = "\u212Aiosk.example.com" // KELVIN SIGN: lower-cases to an ASCII 'k', two bytes shorter
	}
	base := r.Pick("http", "https") + "://" + host
	stem := r.Pick("/news/story", "/a", "/blog/2024/05/a-long-post-title", "/article", "/caf%C3%A9/men%C3%BC", "/a%20b/c", "/x/y/z/w", "/forum/thread")
	switch r.Intn(8) {
	case 0, 1:
		return famQuery(base, stem, r.Pick("page", "p", "pg", "pagenum", "start", "PAGE"), "")
	case 2:
		return famQuery(base, stem, r.Pick("page", "p"), r.Pick("id=7", "sort=asc&id=12", "q=a%20b", "ref=home", "ref=/", "back=/news/", "u=http://example.com/"))
	case 3:
		return famPath(base, stem, r.Pick("page/", "page-", "p", ""))
	case 4:
		return famPath(base, stem, "")
	case 5:
		return famSuffix(base, stem, r.Pick("-", "_", "-page-", "."), r.Pick(".html", ".htm", ".php", ""))
	case 6:
		return famSuffix(base, stem, "-", ".html")
	default:
		return famQuery(base, stem+".html", "page", "")
	}
}

type pagerCase struct {
	PageURL string            `json:"page_url"`
	HTML    string            `json:"html"`
	Desc    map[string]string `json:"desc"`
	// Before: pages distilled earlier in the same process (a series); replayed first
	Before []pagerCase `json:"before,omitempty"`
}

var pagerSeps = []string{" ", " | ", "&nbsp;", " · ", "</li><li>", "</span> <span>", " - "}

// genPager: a page with a numbered pager that mixes every kind of anchor.
func genPager(r *Rng, g *PageGen) pagerCase {
	fam := randFamily(r)
	n := r.Range(2, 14)
	k := r.Range(1, n)
	desc := map[string]string{"family": fam.Name, "n": strconv.Itoa(n), "k": strconv.Itoa(k)}
	pageURL := fam.URL(k)
	firstBare := r.Chance(40)
	u := func(i int) string {
		if i == 1 && firstBare {
			return fam.Bare
		}
		return fam.URL(i)
	}
	if k == 1 && firstBare {
		pageURL = fam.Bare
	}
	switch r.Intn(12) {
	case 0:
		if !strings.Contains(pageURL, "?") {
			pageURL += "/"
			desc["page_url"] = "trailing-slash"
		}
	case 1:
		pageURL += "#comments"
		desc["page_url"] = "fragment"
	case 2:
		pageURL = strings.Replace(pageURL, "://", "://user:pw@", 1)
		desc["page_url"] = "userinfo"
	}
	rel := func(abs string) string {
		// relative spelling of an on-site URL, now and then with a fragment
		pu, err := nurl.Parse(abs)
		if err != nil {
			return abs
		}
		frag := ""
		if r.Chance(12) {
			frag = r.Pick("#top", "#article", "#page-2", "#comments", "#")
			desc["href-fragment"] = "1"
		}
		switch r.Intn(4) {
		case 0:
			return abs + frag
		case 1:
			return "//" + pu.Host + pu.RequestURI() + frag
		default:
			return pu.RequestURI() + frag
		}
	}
	junkHref := func() (string, string) {
		switch r.Intn(11) {
		case 0:
			return "javascript:void(0)", "js"
		case 1:
			return "javascript:goto(" + strconv.Itoa(r.Range(1, 9)) + ")", "js"
		case 2:
			return "", "empty"
		case 3:
			return "#", "hash"
		case 4:
			return "http://other.example.net/a?page=" + strconv.Itoa(r.Range(1, 9)), "offsite"
		case 5:
			return "mailto:editor@example.com", "mailto"
		case 6:
			return "http://[::1", "malformed"
		case 7:
			return "javascript:/a?page=" + strconv.Itoa(r.Range(1, 9)), "js-path"
		case 8:
			return "//evil.example.net" + "/news/story?page=" + strconv.Itoa(r.Range(1, 9)), "offsite"
		default:
			// hosts that merely start with, or smuggle in, the page's host
			pu, _ := nurl.Parse(fam.URL(r.Range(1, 9)))
			if pu == nil {
				return "#", "hash"
			}
			switch r.Intn(5) {
			case 3:
				// the host spelled with the other member of a case-folding pair (k / KELVIN SIGN)
				h := pu.Host
				if strings.Contains(h, "\u212A") {
					h = strings.ReplaceAll(h, "\u212A", "k")
				} else if strings.Contains(h, "k") {
					h = strings.Replace(h, "k", "\u212A", 1)
				} else {
					h = "\u212A" + h
				}
				return pu.Scheme + "://" + h + pu.RequestURI(), "casefold-host"
			case 4:
				// … and just its root: shorter than the page's own scheme://host/ prefix
				return pu.Scheme + "://" + strings.ReplaceAll(pu.Host, "\u212A", "k") + "/", "casefold-host-root"
			case 0:
				return pu.Scheme + "://" + pu.Host + ".mirror-cdn.net" + pu.RequestURI(), "lookalike-host"
			case 1:
				return pu.Scheme + "://" + pu.Host + "@tracker.example.net" + pu.RequestURI(), "userinfo-host"
			default:
				return pu.Scheme + "://" + pu.Hostname() + ":8443" + pu.RequestURI(), "other-port"
			}
		}
	}
	sep := pagerSeps[r.Intn(len(pagerSeps))]
	var items []string
	lo, hi := 1, n
	if n > 8 && r.Chance(40) {
		// window around k with first / last
		lo, hi = k-2, k+2
		if lo < 1 {
			lo = 1
		}
		if hi > n {
			hi = n
		}
	}
	curDeco := r.Pick("%d", "<strong>%d</strong>", `<span class="current">%d</span>`, "<b>%d</b>", "<em>%d</em>", `<a>%d</a>`)
	if r.Chance(8) {
		curDeco = `<a href="` + rel(u(k)) + `">%d</a>` // the current page links to itself
		desc["current"] = "self-link"
	}
	label := r.Pick("%d", "%d", "%d", "[%d]", "%d.", "Page %d")
	junkKinds := map[string]bool{}
	for i := lo; i <= hi; i++ {
		if i == k {
			items = append(items, fmt.Sprintf(curDeco, i))
			continue
		}
		if r.Chance(12) {
			h, kind := junkHref()
			junkKinds[kind] = true
			items = append(items, fmt.Sprintf(`<a href="%s">%d</a>`, h, i))
			continue
		}
		if r.Chance(4) {
			continue // a page number missing from the pager
		}
		items = append(items, fmt.Sprintf(`<a href="%s">`+label+`</a>`, rel(u(i)), i))
	}
	if lo > 1 {
		items = append([]string{fmt.Sprintf(`<a href="%s">1</a>`, rel(u(1))), "…"}, items...)
	}
	if hi < n {
		items = append(items, "…", fmt.Sprintf(`<a href="%s">%d</a>`, rel(u(n)), n))
	}
	if r.Chance(6) {
		for i, j := 0, len(items)-1; i < j; i, j = i+1, j-1 {
			items[i], items[j] = items[j], items[i]
		}
		desc["order"] = "descending"
	}
	for kind := range junkKinds {
		desc["junk:"+kind] = "1"
	}
	// prev / next anchors
	nav := func(labelText string, target int) string {
		href := ""
		switch {
		case r.Chance(12):
			href, _ = junkHref()
			desc["nav-junk"] = "1"
		case target < 1 || target > n:
			href = "#"
		default:
			href = rel(u(target))
		}
		cls := ""
		if r.Chance(30) {
			cls = ` class="` + r.Pick("next", "prev", "nav-link", "pager-item", "button", "first", "last", "page-next", "older-posts", "comment-nav", "Paging", "share", "new") + `"`
			if r.Chance(25) {
				cls += ` id="` + r.Pick("nextLink", "prev_page", "pagination-last", "footer-next", "p1", "continue") + `"`
			}
		}
		return fmt.Sprintf(`<a href="%s"%s>%s</a>`, href, cls, labelText)
	}
	var before, after string
	selfLink := ""
	if r.Chance(10) {
		// a labelled anchor to a place inside the page the reader is on
		selfLink = fmt.Sprintf(`<a class="%s" href="%s%s">%s</a> `, r.Pick("next", "prev", "nav"), rel(u(k)), r.Pick("#top", "#page-2", "#comments"), r.Pick("Next »", "« Previous", "next", "Back to top"))
		desc["self-link-with-fragment"] = "1"
	}
	if r.Chance(60) {
		before = nav(r.Pick("Prev", "Previous", "« Prev", "&lt;", "Newer", "First", "previous page"), k-1)
	}
	if r.Chance(60) {
		after = nav(r.Pick("Next", "Next »", "&gt;", "next page", "Older", "Last", "More", "Continue"), k+1)
	}
	open, close := "", ""
	switch r.Intn(6) {
	case 0:
		open, close = `<div class="pagination">`, `</div>`
	case 1:
		open, close = `<ul class="pager"><li>`, `</li></ul>`
	case 2:
		open, close = `<p>`, `</p>`
	case 3:
		open, close = `<nav><span>`, `</span></nav>`
	case 4:
		open, close = `<div id="footer-nav" class="footer">`, `</div>`
	default:
		open, close = `<table><tr><td>`, `</td></tr></table>`
	}
	if r.Chance(20) {
		// further ancestors with page-y, negative and negative-but-positive names
		w := r.Pick(`<div class="sidebar"><div id="page-links">`, `<div class="footer main"><div>`, `<div id="comments"><div class="Pagination">`,
			`<div class="widget"><div class="tool">`, `<section class="article-paging"><div class="meta">`)
		open, close = w+open, close+`</div></div>`
		if strings.HasPrefix(w, "<section") {
			close = close[:len(close)-len(`</div></div>`)] + `</div></section>`
		}
	}
	pager := open + selfLink + before + sep + strings.Join(items, sep) + sep + after + close
	var sb strings.Builder
	base := ""
	if r.Chance(12) {
		// a <base> element: the library resolves against the page URL the caller supplied
		base = `<base href="` + r.Pick("http://other.example.net/", "https://cdn.example.org/mirror/a/", fam.Base+"/", "//static.example.net/x/", "/elsewhere/") + `">`
		desc["base"] = "1"
	}
	sb.WriteString("<html><head><title>A paginated article about things</title>" + base + "</head><body>")
	sb.WriteString("<h1>A paginated article</h1>")
	if r.Chance(30) {
		sb.WriteString(pager)
	}
	sb.WriteString("<p>" + g.words(60) + "</p>")
	if r.Chance(40) {
		// numeric noise: comment counts, dates, footnotes
		switch r.Intn(6) {
		case 0:
			fmt.Fprintf(&sb, `<p>Comments <a href="%s/comments">%d</a> Shares <a href="%s/share">%d</a></p>`, fam.Bare, r.Range(1, 40), fam.Bare, r.Range(1, 40))
		case 1:
			sb.WriteString(`<p>Posted on 12 05 2024 at 10 30</p>`)
		case 2:
			sb.WriteString(`<div class="calendar"><a href="/2024/05/1">1</a> <a href="/2024/05/2">2</a> <a href="/2024/05/3">3</a> 4 <a href="/2024/05/5">5</a></div>`)
		case 3:
			fmt.Fprintf(&sb, `<p>See also <a href="http://other.example.net/x?page=2">2</a> and <a href="/unrelated/list?page=3">3</a></p>`)
		default:
			// the same article on a partner host: same path structure, other host
			sb.WriteString(`<div class="partner">Also on our partner site: `)
			for i := 1; i <= 3; i++ {
				mu := fam.URL(i)
				if pu, err := nurl.Parse(mu); err == nil {
					pu.Host = "partner.example.org"
					mu = pu.String()
				}
				fmt.Fprintf(&sb, `<a href="%s">%d</a> `, mu, i)
			}
			sb.WriteString(`</div>`)
			desc["noise-mirror"] = "1"
		}
		desc["noise"] = "1"
	}
	sb.WriteString("<p>" + g.words(70) + "</p>")
	if r.Chance(25) {
		// a second anchor to a neighbouring page: wordy (more than 25 bytes, ignored by the
		// prev/next scan) or short, with or without one of the loosely matched extraneous words
		t := k + 1 - 2*r.Intn(2)
		if t >= 1 && t <= n {
			txt := r.Pick("Continue reading: the fall of the Western empire", "Continue reading: the end of the Western empire", "Read on: how Augustus redesigned the state",
				"Print this part", "All parts", "next: the fall", "Continue reading the next part of the story", "more")
			fmt.Fprintf(&sb, `<p class="teaser"><a href="%s">%s</a></p>`, rel(u(t)), txt)
			desc["teaser"] = "1"
		}
	}
	sb.WriteString(pager)
	sb.WriteString(`<div class="footer"><a href="/about">About</a> <a href="/contact">Contact</a> <a href="http://other.example.net/">Partner</a></div>`)
	sb.WriteString("</body></html>")
	return pagerCase{PageURL: pageURL, HTML: sb.String(), Desc: desc}
}

// ---------- the oracle's own URL reading ----------

// canonURL: scheme, lower-case host, decoded path without trailing slash, decoded query.
func canonURL(s string) (string, bool) {
	u, err := nurl.Parse(s)
	if err != nil || (u.Scheme != "http" && u.Scheme != "https") || u.Host == "" || u.Opaque != "" {
		return "", false
	}
	q := u.RawQuery
	if d, err := nurl.QueryUnescape(strings.ReplaceAll(q, "+", "%2B")); err == nil {
		q = d
	}
	c := u.Scheme + "://" + strings.ToLower(u.Host) + strings.TrimSuffix(u.Path, "/")
	if q != "" {
		c += "?" + q
	}
	return c, true
}

// anchorTargets: canonical absolute targets of every anchor with an href in the document.
func anchorTargets(root *html.Node, page *nurl.URL) map[string]bool {
	out := map[string]bool{}
	var as []*html.Node
	findAll(root, func(n *html.Node) bool { return n.Type == html.ElementNode && n.Data == "a" && hasAttr(n, "href") }, &as)
	for _, a := range as {
		href := strings.TrimSpace(getAttr(a, "href"))
		ref, err := nurl.Parse(href)
		if err != nil {
			continue
		}
		abs := page.ResolveReference(ref)
		abs.Fragment = ""
		if c, ok := canonURL(abs.String()); ok {
			out[c] = true
		}
	}
	return out
}

// checkPagingLink: the C16 oracle for one returned link.
func checkPagingLink(link string, page *nurl.URL, targets map[string]bool) (clause, what string) {
	if link == "" {
		return "", ""
	}
	u, err := nurl.Parse(link)
	if err != nil {
		return "unparseable", fmt.Sprintf("%q does not parse as a URL: %v", link, err)
	}
	if u.Scheme != "http" && u.Scheme != "https" {
		return "scheme", fmt.Sprintf("%q is not an http(s) URL (scheme %q)", link, u.Scheme)
	}
	if u.Host == "" {
		return "empty-host", fmt.Sprintf("%q has no host", link)
	}
	if !strings.EqualFold(u.Host, page.Host) {
		return "off-site", fmt.Sprintf("%q is on host %q, the page is on %q", link, u.Host, page.Host)
	}
	if u.Fragment != "" || strings.HasSuffix(link, "#") {
		// "the normalised target": both finders strip the fragment when they clean an href
		return "not-normalised", fmt.Sprintf("%q still carries a fragment", link)
	}
	c, ok := canonURL(link)
	if !ok || !targets[c] {
		return "not-an-anchor", fmt.Sprintf("%q is not the target of any anchor in the document", link)
	}
	return "", ""
}

// ---------- correspondence payloads ----------

// trimPathSlash: the URL string without the trailing slash of its path (as Model/Pagination.lean)
func trimPathSlash(s string) string {
	i := strings.IndexAny(s, "?#")
	if i < 0 {
		i = len(s)
	}
	return strings.TrimSuffix(s[:i], "/") + s[i:]
}

// paginationPremises: the premises of C16.number_prev_is_anchor on the implementation's data —
// the document URL the detection works with, and its path-trimmed form that may be inserted as
// first page, are both among the two spellings FindPagination recognises as the current page
func paginationPremises(c *Corr, d distiller.VerifPaginationData) {
	if !d.DocParses {
		return
	}
	in := func(s string) bool { return s == d.StrPageURL || s == d.EscPageURL }
	if !in(d.DocURL) || !in(trimPathSlash(d.DocURL)) {
		c.premiseFailures = append(c.premiseFailures, fmt.Sprintf("document URL %q / path-trimmed %q is not one of the current-page spellings %q, %q", d.DocURL, trimPathSlash(d.DocURL), d.StrPageURL, d.EscPageURL))
	}
}

func paginationCase(d distiller.VerifPaginationData) (payload, impl string) {
	var sb strings.Builder
	fmt.Fprintf(&sb, "%s %s %s %s %s %d", b01(d.DocParses), hx(d.DocURL), hx(d.DocURLArg), hx(d.StrPageURL), hx(d.EscPageURL), len(d.Groups))
	for _, g := range d.Groups {
		fmt.Fprintf(&sb, " %d %d", g.DeltaSign, len(g.List))
		for _, p := range g.List {
			fmt.Fprintf(&sb, " %d %s", p.Num, hx(p.URL))
		}
	}
	pats := func(ps []distiller.VerifPattern) {
		fmt.Fprintf(&sb, " %d", len(ps))
		for _, p := range ps {
			fmt.Fprintf(&sb, " %s %d %s", hx(p.Key), p.Value, b01(p.ValidFor))
		}
	}
	fmt.Fprintf(&sb, " %d", len(d.URLs))
	for _, u := range d.URLs {
		fmt.Fprintf(&sb, " %s %s", hx(u.URL), b01(u.Parses))
		pats(u.Query)
		pats(u.Path)
	}
	fmt.Fprintf(&sb, " %d", len(d.PagingKeys))
	for _, k := range d.PagingKeys {
		sb.WriteString(" " + hx(k))
	}
	fmt.Fprintf(&sb, " %d", len(d.PagingURLs))
	for _, u := range d.PagingURLs {
		sb.WriteString(" " + hx(u))
	}
	for _, row := range d.IsPaging {
		s := ""
		for _, b := range row {
			s += b01(b)
		}
		if s == "" {
			s = "-"
		}
		sb.WriteString(" " + s)
	}
	var pages []string
	for _, p := range d.Param.Pages {
		pages = append(pages, fmt.Sprintf("%d:%s", p.Num, hx(p.URL)))
	}
	f := "f-"
	if d.Param.HasFormula {
		f = fmt.Sprintf("f%d,%d", d.Param.Coefficient, d.Param.Delta)
	}
	impl = fmt.Sprintf("%s %s [%s] %s %s | %s %s", b01(d.Param.IsPageNumber), hx(d.Param.Pattern), strings.Join(pages, " "), f, hx(d.Param.Next), hx(d.Next), hx(d.Prev))
	return sb.String(), impl
}

var rxScoreNote = regexp.MustCompile(`(?:^|; )score (-?\d+), `)

type pnCand struct {
	Href  string
	Score int
	Text  string
}

// prevNextCands: candidates, their scores and the banned URLs as the finder's own notes give
// them; the normalised href comes from the finder's clean-up steps (hook VerifNormaliseLink).
func prevNextCands(d *Doc, root *html.Node, page *nurl.URL, findNext bool) (cands []pnCand, banned []string, result string) {
	links, result := distiller.VerifPrevNext(root, page, findNext)
	for _, l := range links {
		var id int
		fmt.Sscanf(l.Vid, "%d", &id)
		n := d.Nodes[id]
		dbg := l.Debug
		if i := strings.Index(dbg, "found: score "); i >= 0 {
			dbg = strings.TrimSuffix(dbg[:i], "; ")
		}
		href, ok := distiller.VerifNormaliseLink(getAttr(n, "href"), page)
		if strings.Contains(dbg, "ignored: ") {
			if strings.Contains(dbg, "ignored: one of extra") && ok {
				banned = append(banned, href)
			}
			continue
		}
		score := 0
		if m := rxScoreNote.FindAllStringSubmatch(dbg, -1); len(m) > 0 {
			score, _ = strconv.Atoi(m[len(m)-1][1])
		}
		cands = append(cands, pnCand{Href: href, Score: score, Text: strings.TrimSpace(textOf(n))})
	}
	return cands, banned, result
}

func textOf(n *html.Node) string {
	if n.Type == html.TextNode {
		return n.Data
	}
	var sb strings.Builder
	for c := n.FirstChild; c != nil; c = c.NextSibling {
		sb.WriteString(textOf(c))
	}
	return sb.String()
}

func prevNextCase(d *Doc, root *html.Node, page *nurl.URL, findNext bool) (payload, impl string, ncand int) {
	cands, banned, result := prevNextCands(d, root, page, findNext)
	var bs, cs []string
	for _, b := range banned {
		bs = append(bs, hx(b))
	}
	for _, c := range cands {
		cs = append(cs, fmt.Sprintf("%s %d", hx(c.Href), c.Score))
	}
	payload = fmt.Sprintf("%d %s %d %s", len(bs), strings.Join(bs, " "), len(cs), strings.Join(cs, " "))
	return payload, hx(result), len(cands)
}

// casefoldPager: the page URL and the anchors spell the host with different members of a
// case-folding pair whose UTF-8 lengths differ (k / KELVIN SIGN U+212A), in both directions,
// including anchors that are shorter than the page's own scheme://host/ prefix.
func casefoldPager(r *Rng) pagerCase {
	kelvin, ascii := "\u212Aiosk.example.com", "kiosk.example.com"
	pageHost, linkHost := kelvin, ascii
	if r.Chance(40) {
		pageHost, linkHost = ascii, kelvin
	}
	k := r.Range(1, 5)
	var items []string
	for _, h := range []string{linkHost, pageHost} {
		items = append(items, fmt.Sprintf(`<a href="http://%s/">%s</a>`, h, r.Pick("next", "Next", "home", "2")))
		items = append(items, fmt.Sprintf(`<a href="http://%s/a?page=%d">%s</a>`, h, k+1, r.Pick("next", "Next »", "3")))
		items = append(items, fmt.Sprintf(`<a href="http://%s/a?page=%d">%s</a>`, h, k-1, r.Pick("prev", "Previous", "1")))
		items = append(items, fmt.Sprintf(`<a href="http://%s">%s</a>`, h, r.Pick("next", "more")))
	}
	body := "<p>" + strings.Repeat("word ", 80) + "</p>"
	return pagerCase{PageURL: fmt.Sprintf("http://%s/a?page=%d", pageHost, k),
		HTML: "<html><head><title>A paginated article</title></head><body>" + body + `<div class="pagination">` + strings.Join(items, " ") + "</div></body></html>",
		Desc: map[string]string{"family": "casefold-host"}}
}
