package main

import (
	"fmt"
	nurl "net/url"
	"os"
	"sort"
	"strings"

	distiller "github.com/markusmobius/go-domdistiller"
)

func init() {
	props["C17"] = runC17
	props["C17emit"] = emitC17
}

// ---------- the enumerated space ----------

func c17Families() []urlFamily {
	b := "http://example.com"
	return []urlFamily{
		famQuery(b, "/news/story", "page", ""),
		famQuery(b, "/story.php", "p", ""),
		famQuery(b, "/news/story", "page", "id=7"),
		famPath(b, "/news/story", "page/"),
		famPath(b, "/news/story", ""),
		famSuffix(b, "/news/story", "-", ".html"),
		famSuffix(b, "/news/story", "_", ".html"),
		// file-name suffix pagers below a dated (year / month) directory
		famSuffix(b, "/story/2014/07/title", "_Page", ".html"),
		famSuffix(b, "/2019/11/a-long-read", "-", ""),
	}
}

const c17MaxN = 12

type pagerMarkup struct {
	Sep, Open, Close, Cur string
	Nav                   string // "", "Prev/Next", "Previous/Next"
	// Teaser: a second, wordy anchor (more than 25 bytes of text) to the next page below the
	// pager: "" none, "plain", or "banned" (its text contains one of the loosely matched words
	// of the extraneous-link filter: f-all, rede-sign-ed)
	Teaser string
}

func (m pagerMarkup) String() string {
	return fmt.Sprintf("sep=%q wrap=%q cur=%q nav=%q teaser=%q", m.Sep, m.Open, m.Cur, m.Nav, m.Teaser)
}

func c17Markups(all bool) []pagerMarkup {
	seps := []string{" ", " | ", "</li><li>"}
	wraps := [][2]string{{`<div class="pagination">`, `</div>`}, {`<ul class="pager"><li>`, `</li></ul>`}, {`<p>`, `</p>`}, {`<nav><span>`, `</span></nav>`}}
	curs := []string{"%d", "<strong>%d</strong>", `<span class="current">%d</span>`, "<b>%d</b>", "<em>%d</em>",
		"[%d]", "(%d)", "-%d-", "%d.", "«%d»", "*%d*", "#%d", `<span class="current">- %d -</span>`,
		// the current page padded with characters that are neither ASCII white space nor punctuation
		"&nbsp;%d&nbsp;", "&nbsp;|&nbsp;%d&nbsp;|&nbsp;", "\u2009%d\u2009", "\u3000%d\u3000", "\u7b2c%d\u9875"}
	navs := []string{"", "Prev/Next", "Previous/Next"}
	var out []pagerMarkup
	for si, s := range seps {
		for wi, w := range wraps {
			for ci, c := range curs {
				for ni, nv := range navs {
					// quick tier: every decoration of the current page once, with varying
					// separator, wrapper and navigation anchors
					if !all && !(si == ci%3 && wi == (ci/3)%4 && ni == (ci+1)%3) {
						continue
					}
					// one teaser variant per markup, rotating (the full product would triple the grid)
					teasers := []string{"", "plain", "banned"}
					teasers = teasers[(ci+si+wi+ni)%3 : (ci+si+wi+ni)%3+1]
					for _, ts := range teasers {
						out = append(out, pagerMarkup{Sep: s, Open: w[0], Close: w[1], Cur: c, Nav: nv, Teaser: ts})
					}
				}
			}
		}
	}
	return out
}

// pagerLink: the href of page i as the pager shows it (bare = the first page has no parameter)
func pagerLink(f urlFamily, bare bool, i int) string {
	if i == 1 && bare {
		return f.Bare
	}
	return f.URL(i)
}

func c17Page(f urlFamily, bare bool, n, k int, m pagerMarkup) (pageURL, src string) {
	var items []string
	for i := 1; i <= n; i++ {
		if i == k {
			items = append(items, fmt.Sprintf(m.Cur, i))
		} else {
			items = append(items, fmt.Sprintf(`<a href="%s">%d</a>`, pagerLink(f, bare, i), i))
		}
	}
	var before, after string
	if m.Nav != "" {
		labels := strings.Split(m.Nav, "/")
		if k > 1 {
			before = fmt.Sprintf(`<a href="%s">%s</a>`, pagerLink(f, bare, k-1), labels[0]) + m.Sep
		}
		if k < n {
			after = m.Sep + fmt.Sprintf(`<a href="%s">%s</a>`, pagerLink(f, bare, k+1), labels[1])
		}
	}
	body := "<p>" + strings.Repeat("lorem ipsum dolor sit amet ", 16) + "</p>"
	teaser := ""
	if m.Teaser != "" && (k < n || k > 1) {
		to, txt := k+1, "Continue reading: the fall of the Western empire"
		if m.Teaser == "plain" {
			txt = "Continue reading: the end of the Western empire"
		}
		if k == n || (k > 1 && (n+k)%2 == 0) {
			to, txt = k-1, "Go back: how Augustus redesigned the Roman state"
			if m.Teaser == "plain" {
				txt = "Go back: how Augustus changed the Roman state"
			}
		}
		teaser = fmt.Sprintf(`<p class="teaser"><a href="%s">%s</a></p>`, pagerLink(f, bare, to), txt)
	}
	src = "<html><head><title>A paginated article about things</title></head><body><h1>A paginated article</h1>" + body + body +
		m.Open + before + strings.Join(items, m.Sep) + after + m.Close + teaser + "</body></html>"
	return pagerLink(f, bare, k), src
}

// canonical groups of a conventional pager: 1..N ascending, the current page without URL
func c17Groups(f urlFamily, bare bool, n, k int) []distiller.VerifPageGroup {
	g := distiller.VerifPageGroup{DeltaSign: 1}
	for i := 1; i <= n; i++ {
		u := ""
		if i != k {
			u = pagerLink(f, bare, i)
		}
		g.List = append(g.List, distiller.VerifPageInfo{Num: i, URL: u})
	}
	return []distiller.VerifPageGroup{g}
}

func sameGroups(a, b []distiller.VerifPageGroup) bool {
	if len(a) != len(b) {
		return false
	}
	for i := range a {
		if a[i].DeltaSign != b[i].DeltaSign || len(a[i].List) != len(b[i].List) {
			return false
		}
		for j := range a[i].List {
			if a[i].List[j] != b[i].List[j] {
				return false
			}
		}
	}
	return true
}

func runC17(ctx *Ctx) {
	rep := ctx.Rep
	silenceStderr()
	rep.Exhaustive = true
	fams := c17Families()
	markups := c17Markups(ctx.thorough())
	rep.Rule = fmt.Sprintf("exhaustive: %d URL families (query parameter, query parameter with a second parameter, path component 'page/N' and bare 'N', file-name suffix '-N.html' and '_N.html') x first page linked with / without the parameter x N in 2..%d x k in 1..N x %d pager markups (separator, wrapper, decoration of the current page, with/without Prev/Next or Previous/Next anchors); every cell is distinct and non-trivial (the expected answer has a next or a previous page)", len(fams), c17MaxN, len(markups))
	pn := newCorr("pagenum")
	ls := newCorr("linkscore")
	defer ls.run(ctx)
	fol := newCorr("findoutlink")
	defer fol.run(ctx)
	pgi := newCorr("pageinfo")
	defer pgi.run(ctx)
	nsc := newCorr("numberscan")
	defer nsc.run(ctx)
	cellNo := 0
	for _, f := range fams {
		for _, bare := range []bool{false, true} {
			// the property's pager has links that ALL follow the pattern; a first page linked
			// without the parameter is outside it: explored in the thorough tier, counted, and
			// never reported
			if bare && !ctx.thorough() {
				continue
			}
			for n := 2; n <= c17MaxN; n++ {
				for k := 1; k <= n; k++ {
					wantNext, wantPrev := "", ""
					if k < n {
						wantNext = pagerLink(f, bare, k+1)
					}
					if k > 1 {
						wantPrev = pagerLink(f, bare, k-1)
					}
					for mi, m := range markups {
						rep.Evaluations++
						rep.nontrivial(fmt.Sprintf("%s|%v|%d|%d|%d", f.Name, bare, n, k, mi))
						pageURL, src := c17Page(f, bare, n, k, m)
						if strings.HasPrefix(f.Name, "path:") && mi%2 == 1 {
							pageURL += "/" // the same page, addressed with a trailing slash
						}
						if !bare && k == 1 && mi%3 == 2 {
							// page 1 addressed without the page parameter: the links (2 … N) still all
							// follow the pattern, so this is inside the property
							pageURL = f.Bare
							rep.hist("first-page-addressed-without-parameter")
						}
						page, _ := nurl.ParseRequestURI(pageURL)
						replay := map[string]interface{}{"page_url": pageURL, "html": src, "family": f.Name, "first_page_bare": bare, "n": n, "k": k, "markup": m.String()}
						cellNo++
						if cellNo%16 == 3 && page != nil && ctx.Replay == "" {
							// the per-anchor decisions of the prev/next finder on a sample of the cells
							addLinkScoreCases(ls, fol, rep, src, page, replay)
							addPageInfoCases(pgi, rep, src, page, replay)
						}
						if cellNo%4 == 1 && page != nil && ctx.Replay == "" {
							// the DOM scan on a quarter of the cells: tree in, groups out
							addNumberScanCase(nsc, rep, src, page, replay)
						}
						cell := map[string]string{"family": f.Name, "bare": b01(bare), "n": fmt.Sprint(n), "k": fmt.Sprint(k)}
						sig := func(clause string) map[string]string {
							s := map[string]string{"clause": clause}
							for a, b := range cell {
								s[a] = b
							}
							return s
						}
						// page-number algorithm
						d := parseDoc(src)
						res, err := distiller.Apply(d.Root, &distiller.Options{OriginalURL: page, PaginationAlgo: distiller.PageNumber})
						if err != nil {
							rep.hist("apply-error")
							continue
						}
						if got := res.PaginationInfo; bare {
							if got.NextPage != wantNext || got.PrevPage != wantPrev {
								rep.hist("outside-property:first-page-without-parameter:pagenumber-differs")
							}
						} else if got.NextPage != wantNext || got.PrevPage != wantPrev {
							rep.violate(sig("pagenumber"), fmt.Sprintf("page-number algorithm on page %d of %d (%s, %s): got next=%q prev=%q, the pager links next=%q prev=%q", k, n, f.Name, m, got.NextPage, got.PrevPage, wantNext, wantPrev), replay)
						}
						// prev/next algorithm: only when the pager has the labelled anchors
						if m.Nav != "" {
							d2 := parseDoc(src)
							res2, err := distiller.Apply(d2.Root, &distiller.Options{OriginalURL: page, PaginationAlgo: distiller.PrevNext})
							if err == nil {
								// the property speaks about the labelled anchors that exist: Next when
								// k < N, Prev/Previous when k > 1
								got := res2.PaginationInfo
								if bare {
									if (k < n && got.NextPage != wantNext) || (k > 1 && got.PrevPage != wantPrev) {
										rep.hist("outside-property:first-page-without-parameter:prevnext-differs")
									}
								} else if k < n && got.NextPage != wantNext {
									rep.violate(sig("prevnext-next"), fmt.Sprintf("prev/next algorithm on page %d of %d (%s, %s): NextPage=%q, the anchor labelled Next points to %q", k, n, f.Name, m, got.NextPage, wantNext), replay)
								}
								if !bare && k > 1 && got.PrevPage != wantPrev {
									rep.violate(sig("prevnext-prev"), fmt.Sprintf("prev/next algorithm on page %d of %d (%s, %s): PrevPage=%q, the anchor labelled %s points to %q", k, n, f.Name, m, got.PrevPage, strings.Split(m.Nav, "/")[0], wantPrev), replay)
								}
							}
						}
						// premises of theorem prevnext_labelled on the scores the implementation gave
						if m.Nav != "" && !bare {
							labels := strings.Split(m.Nav, "/")
							d4 := parseDoc(src)
							for _, next := range []bool{true, false} {
								if (next && k == n) || (!next && k == 1) {
									continue
								}
								label := labels[0]
								if next {
									label = labels[1]
								}
								cands, banned, _ := prevNextCands(d4, d4.Root, page, next)
								isBanned := func(h string) bool {
									for _, b := range banned {
										if b == h {
											return true
										}
									}
									return false
								}
								var lab *pnCand
								for i := range cands {
									if cands[i].Text == label {
										lab = &cands[i]
									}
								}
								ok := lab != nil && !isBanned(lab.Href) && lab.Score >= 50
								if ok {
									for _, c := range cands {
										if c.Href != lab.Href && !isBanned(c.Href) && c.Score >= lab.Score {
											ok = false
										}
									}
								}
								rep.CorrCases["prevnext-premises"]++
								if !ok {
									rep.mismatch("prevnext-premises", replay, "the labelled anchor is an unbanned candidate with score >= 50 and strictly the best", fmt.Sprintf("label=%q candidates=%+v banned=%v", label, cands, banned))
								}
							}
						}
						// the DOM scan yields the canonical group the theorem is about
						d3 := parseDoc(src)
						data := distiller.VerifPagination(d3.Root, page)
						numeric := []distiller.VerifPageGroup{}
						for _, g := range data.Groups {
							if len(g.List) >= 2 {
								numeric = append(numeric, g)
							}
						}
						if !sameGroups(numeric, c17Groups(f, bare, n, k)) {
							rep.mismatch("scan-groups", replay, fmt.Sprintf("%+v", c17Groups(f, bare, n, k)), fmt.Sprintf("%+v", data.Groups))
						}
						if mi == 0 {
							payload, impl := paginationCase(data)
							paginationPremises(pn, data)
							pn.add(payload, impl, replay)
						}
					}
				}
			}
		}
	}
	pn.run(ctx)
	tc, lc := termsCorr(ctx, ctx.pick(3000, 100000))
	tc.run(ctx)
	lc.run(ctx)
	rep.CorrCases["scan-groups"] = rep.Evaluations
}

// ---------- Gen/PagerFamily.lean: the page-pattern answers of the real code for the families ----------

func leanStr(s string) string {
	return `"` + strings.NewReplacer(`\`, `\\`, `"`, `\"`).Replace(s) + `"`
}

func emitC17(ctx *Ctx) {
	var sb strings.Builder
	sb.WriteString("/-\n  GENERATED by go/harness (C17emit) from the implementation's own page-pattern answers\n  (QueryParamPagePatternsFromURL, PathComponentPagePatternsFromURL, IsValidFor, IsPagingURL)\n  for the URL families of the conventional pagers.  Do not edit.\n-/\nimport Distill.Model.Pagination\nnamespace Distill.Gen\nopen Distill.Pg\n\n")
	sb.WriteString("structure FamDoc where\n  docParses : Bool\n  docURL : String\n  docArg : String\n  strPage : String\n  escPage : String\n  urls : List UrlAtoms\n  paging : List (String × List String)   -- pattern key ↦ the URLs it accepts as paging URLs\n\n")
	sb.WriteString("structure PagerFamily where\n  name : String\n  bare : String\n  pages : List String            -- page 1 … page 12\n  docBare : FamDoc               -- atoms when the document is the bare first page\n  docs : List FamDoc             -- atoms when the document is page k (k = 1 … 12)\n\n")
	fams := c17Families()
	famDoc := func(f urlFamily, doc string) string {
		page, _ := nurl.ParseRequestURI(doc)
		// a document holding every URL of the family, so the hook reports the atoms of all of them
		var links []string
		links = append(links, fmt.Sprintf(`<a href="%s">1</a>`, f.Bare))
		for i := 1; i <= c17MaxN; i++ {
			links = append(links, fmt.Sprintf(`<a href="%s">%d</a>`, f.URL(i), i))
		}
		d := parseDoc("<html><body><p>" + strings.Join(links, " x ") + "</p></body></html>")
		data := distiller.VerifPagination(d.Root, page)
		var us []string
		for _, u := range data.URLs {
			pats := func(ps []distiller.VerifPattern) string {
				var out []string
				for _, p := range ps {
					out = append(out, fmt.Sprintf("{ key := %s, value := %d, validFor := %v }", leanStr(p.Key), p.Value, p.ValidFor))
				}
				return "[" + strings.Join(out, ", ") + "]"
			}
			us = append(us, fmt.Sprintf("      { url := %s, parses := %v, query := %s, path := %s }", leanStr(u.URL), u.Parses, pats(u.Query), pats(u.Path)))
		}
		var pg []string
		for ki, key := range data.PagingKeys {
			var acc []string
			for ui, u := range data.PagingURLs {
				if data.IsPaging[ki][ui] {
					acc = append(acc, leanStr(u))
				}
			}
			pg = append(pg, fmt.Sprintf("      (%s, [%s])", leanStr(key), strings.Join(acc, ", ")))
		}
		return fmt.Sprintf("{ docParses := %v, docURL := %s, docArg := %s, strPage := %s, escPage := %s,\n    urls := [\n%s],\n    paging := [\n%s] }",
			data.DocParses, leanStr(data.DocURL), leanStr(data.DocURLArg), leanStr(data.StrPageURL), leanStr(data.EscPageURL), strings.Join(us, ",\n"), strings.Join(pg, ",\n"))
	}
	var names []string
	for fi, f := range fams {
		var pages []string
		for i := 1; i <= c17MaxN; i++ {
			pages = append(pages, leanStr(f.URL(i)))
		}
		fmt.Fprintf(&sb, "def fam%dBare : FamDoc :=\n  %s\n\n", fi, famDoc(f, f.Bare))
		var docNames []string
		for k := 1; k <= c17MaxN; k++ {
			fmt.Fprintf(&sb, "def fam%dDoc%d : FamDoc :=\n  %s\n\n", fi, k, famDoc(f, f.URL(k)))
			docNames = append(docNames, fmt.Sprintf("fam%dDoc%d", fi, k))
		}
		fmt.Fprintf(&sb, "def fam%d : PagerFamily :=\n  { name := %s, bare := %s,\n    pages := [%s],\n    docBare := fam%dBare,\n    docs := [%s] }\n\n", fi, leanStr(f.Name), leanStr(f.Bare), strings.Join(pages, ", "), fi, strings.Join(docNames, ", "))
		names = append(names, fmt.Sprintf("fam%d", fi))
	}
	fmt.Fprintf(&sb, "def pagerFamilies : List PagerFamily := [%s]\n\nend Distill.Gen\n", strings.Join(names, ", "))
	out := ctx.Work
	if out == "" {
		fmt.Fprintln(os.Stderr, "C17emit: -work <output file> required")
		os.Exit(2)
	}
	old, _ := os.ReadFile(out)
	if string(old) != sb.String() {
		if err := os.WriteFile(out, []byte(sb.String()), 0o644); err != nil {
			fmt.Fprintln(os.Stderr, err)
			os.Exit(2)
		}
	}
	ctx.Rep.Notes = append(ctx.Rep.Notes, "wrote "+out)
	_ = sort.Strings
}
