package main

import (
	"fmt"
	nurl "net/url"
	"strings"

	distiller "github.com/markusmobius/go-domdistiller"
	"golang.org/x/net/html"
)

// linkscore: what PrevNextFinder.FindOutlink decides about every single anchor of a page — ignored
// (and why), banned, or a candidate with a score — (Model/LinkScore.lean) against the finder's own
// notes, in both directions.  The URL-level facts about the anchor are computed here with net/url
// and strings, independently of the finder.

var linkIgnoreReasons = []string{"can't converted to abs url", "not prefix + number", "not prefix", "can't be cleaned", "same as current or folder url", "link text too long", "no number beyond folder url"}

func addLinkScoreCases(c *Corr, fo *Corr, rep *Report, src string, page *nurl.URL, replay interface{}) {
	d := parseDoc(src)
	cur, folder, prefix, ok := distiller.VerifPrevNextContext(page)
	if !ok {
		rep.hist("linkscore:page-url-rejected")
		return
	}
	for _, findNext := range []bool{true, false} {
		links, result := distiller.VerifPrevNext(d.Root, page, findNext)
		var all []string
		for _, l := range links {
			var id int
			fmt.Sscanf(l.Vid, "%d", &id)
			n := d.Nodes[id]
			// ---- the finder's verdict, from its notes
			dbg := l.Debug
			if i := strings.Index(dbg, "found: score "); i >= 0 {
				dbg = strings.TrimSuffix(dbg[:i], "; ")
			}
			impl := ""
			switch {
			case strings.Contains(dbg, "ignored: one of extra"):
				impl = "B"
			case strings.Contains(dbg, "ignored: "):
				why := dbg[strings.Index(dbg, "ignored: ")+len("ignored: "):]
				for _, r := range linkIgnoreReasons {
					if strings.HasPrefix(why, r) {
						why = r
						break
					}
				}
				impl = "I:" + why
			default:
				score := 0
				if m := rxScoreNote.FindAllStringSubmatch(dbg, -1); len(m) > 0 {
					fmt.Sscanf(m[len(m)-1][1], "%d", &score)
				}
				impl = fmt.Sprintf("C:%d", score)
			}
			// ---- the facts
			raw := getAttr(n, "href")
			abs := distiller.VerifCreateAbsoluteURL(raw, page)
			_, err1 := nurl.ParseRequestURI(abs)
			hasPrefix := len(abs) >= len(prefix) && strings.EqualFold(abs[:len(prefix)], prefix)
			restDigit := hasPrefix && strings.ContainsAny(abs[len(prefix):], "0123456789")
			_, err2 := nurl.Parse(abs)
			href, _ := distiller.VerifNormaliseLink(raw, page)
			inFolder := strings.HasPrefix(href, folder)
			rem := href
			if inFolder {
				rem = href[len(folder):]
			}
			text := strings.TrimSpace(distiller.VerifInnerText(n))
			var ps []string
			for p := n.Parent; p != nil; p = p.Parent {
				if p.Type == html.ElementNode {
					ps = append(ps, hx(getAttr(p, "class"))+" "+hx(getAttr(p, "id")))
				}
			}
			facts := fmt.Sprintf("%s %s %s %s %s %s %s %s %s %s %s %s %d %s %s %d", b01(err1 == nil), b01(hasPrefix), b01(restDigit), b01(err2 == nil),
				hx(href), b01(strings.ToLower(href) == strings.ToLower(cur)), b01(strings.ToLower(href) == strings.ToLower(folder)), b01(inFolder), hx(rem), hx(text),
				hx(getAttr(n, "class")), hx(getAttr(n, "id")), len(ps), strings.Join(ps, " "), hx(cur), len(prefix))
			all = append(all, facts)
			c.add(b01(findNext)+" "+facts, impl, replay)
			kind := impl
			if strings.HasPrefix(impl, "C:") {
				kind = "candidate"
			}
			rep.hist("linkscore:" + kind)
		}
		if fo != nil {
			// the whole finder: the facts about every anchor in, the link it returns out
			fo.add(fmt.Sprintf("%s %d %s", b01(findNext), len(all), strings.Join(all, " ")), hx(result), replay)
		}
	}
}

// pageDiffCorr: getPageDiff on pairs of URL-like strings (common prefixes of every length, numbers
// at and after the first difference, one string a prefix of the other, skip beyond the length)
func pageDiffCorr(ctx *Ctx, n int) *Corr {
	c := newCorr("pagediff")
	pieces := []string{"http://example.com/", "a/", "page/", "p", "?page=", "-", "12", "3", "0", "007", "x", "é", ".html", "/", "9", "10", "&id=7"}
	for i := 0; i < n; i++ {
		r := newRng(ctx.Seed, fmt.Sprintf("pagediff/%d", i))
		common := ""
		for k := r.Range(0, 4); k > 0; k-- {
			common += pieces[r.Intn(len(pieces))]
		}
		a, b := common, common
		for k := r.Range(0, 3); k > 0; k-- {
			a += pieces[r.Intn(len(pieces))]
		}
		for k := r.Range(0, 3); k > 0; k-- {
			b += pieces[r.Intn(len(pieces))]
		}
		skip := r.Pick3(0, len("http://example.com/"), r.Range(0, 30))
		if skip > len(a) || skip > len(b) {
			// the finder only calls it with the length of a prefix both strings start with
			skip = 0
		}
		diff, valid := distiller.VerifPageDiff(a, b, skip)
		impl := "-"
		if valid {
			impl = fmt.Sprint(diff)
		}
		c.add(hx(a)+" "+hx(b)+" "+fmt.Sprint(skip), impl, map[string]string{"page": a, "href": b, "skip": fmt.Sprint(skip)})
		ctx.Rep.hist("pagediff-valid:" + b01(valid))
	}
	return c
}

// addPageInfoCases: PageNumberFinder.getPageInfoAndText (Model/PageInfo.lean) for every anchor of
// the page; what net/url says about the resolved href is computed here.
func addPageInfoCases(c *Corr, rep *Report, src string, page *nurl.URL, replay interface{}) {
	d := parseDoc(src)
	var as []*html.Node
	findAll(d.Root, func(n *html.Node) bool { return n.Type == html.ElementNode && n.Data == "a" }, &as)
	for _, n := range as {
		num, u, _, ok := distiller.VerifPageInfoOf(n, page)
		impl := "-"
		if ok {
			impl = fmt.Sprintf("%d %s", num, hx(u))
		}
		text := strings.TrimSpace(distiller.VerifInnerText(n))
		resolved := distiller.VerifCreateAbsoluteURL(getAttr(n, "href"), page)
		ru, err1 := nurl.ParseRequestURI(resolved)
		same := err1 == nil && ru.Host == page.Host
		cleaned := ""
		pu, err2 := nurl.Parse(resolved)
		if err2 == nil {
			pu.Path = strings.TrimSuffix(pu.Path, "/")
			pu.RawPath = pu.Path
			pu.Fragment = ""
			pu.RawFragment = ""
			cleaned = pu.String()
		}
		c.add(hx(text)+" "+hx(resolved)+" "+b01(err1 == nil)+" "+b01(same)+" "+b01(err2 == nil)+" "+hx(cleaned), impl, replay)
		if ok {
			rep.hist("pageinfo:number-link")
		} else {
			rep.hist("pageinfo:none")
		}
	}
}

// addNumberScanCase: the DOM half of the page-number algorithm (Model/Scan.lean: the loop over the
// anchors and the walk to the neighbouring leaves) — tree in, groups of adjacent numbers out —
// against the groups the real scan leaves.  Per-anchor page infos come from the real
// getPageInfoAndText (modelled separately, stage pageinfo), word counts from the real counter.
func addNumberScanCase(c *Corr, rep *Report, src string, page *nurl.URL, replay interface{}) {
	d := parseDoc(src)
	root := d.elementRoot()
	if root == nil {
		return
	}
	data := distiller.VerifPagination(d.Root, page)
	var parts []string
	for _, g := range data.Groups {
		var items []string
		for _, p := range g.List {
			items = append(items, fmt.Sprintf("%d:%s", p.Num, hx(p.URL)))
		}
		parts = append(parts, fmt.Sprintf("<%d:%s>", g.DeltaSign, strings.Join(items, ",")))
	}
	trimmed, err := nurl.Parse(data.DocURLArg)
	if err != nil {
		rep.hist("numberscan:page-url-unparseable")
		return
	}
	var sb strings.Builder
	d.encodeTree(root, &sb)
	var infos, blanks []string
	sample := textOf(d.Root)
	for _, n := range d.Nodes {
		switch {
		case n.Type == html.ElementNode && n.Data == "a":
			if num, u, _, ok := distiller.VerifPageInfoOf(n, trimmed); ok {
				infos = append(infos, fmt.Sprintf("%d %d %s", d.ID[n], num, hx(u)))
			}
		case n.Type == html.TextNode:
			if n.Data == "" {
				blanks = append(blanks, fmt.Sprint(d.ID[n]))
			} else if _, cnt := distiller.VerifSelectAndCount(sample, n.Data); cnt == 0 {
				blanks = append(blanks, fmt.Sprint(d.ID[n]))
			}
		}
	}
	fmt.Fprintf(&sb, " %d %s %d %s", len(infos), strings.Join(infos, " "), len(blanks), strings.Join(blanks, " "))
	c.add(sb.String(), strings.Join(parts, " "), replay)
	rep.histN("numberscan-groups", len(data.Groups))
}
