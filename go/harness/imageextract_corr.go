package main

import (
	"fmt"
	nurl "net/url"
	"strings"

	"github.com/go-shiori/dom"
	distiller "github.com/markusmobius/go-domdistiller"
	"golang.org/x/net/html"
)

// imageextract: the image extractor (Model/ImageExtract.lean) against the real one, on every
// img / picture / figure / span of a page (after the removal of repeated attributes, as in the
// converter's clone): the element subtree, the visibility atoms and the answers of the extractor's
// regexps for every attribute value → the kind of element produced, the image node and the caption.

// outerNoComments: serialisation without comment nodes (the model's trees carry no comment data;
// what happens to comments on the way to the output is the business of GetOutputNodes)
func outerNoComments(n *html.Node) string {
	c := cloneTree(n)
	var drop []*html.Node
	findAll(c, func(x *html.Node) bool { return x.Type == html.CommentNode }, &drop)
	for _, x := range drop {
		if x.Parent != nil {
			x.Parent.RemoveChild(x)
		}
	}
	return dom.OuterHTML(c)
}

func addImageExtractCases(c *Corr, rep *Report, src string, pageURL *nurl.URL, replay interface{}) {
	d := parseDoc(src)
	body := findFirst(d.Root, "body")
	if body == nil {
		return
	}
	distiller.VerifRemoveDuplicateAttributes(body)
	var cands []*html.Node
	findAll(body, func(n *html.Node) bool {
		if n.Type != html.ElementNode {
			return false
		}
		switch n.Data {
		case "img", "picture", "figure", "span":
			// as the converter: an element inside an accepted one is not visited
			for p := n.Parent; p != nil; p = p.Parent {
				if p.Type == html.ElementNode && (p.Data == "picture" || p.Data == "figure") {
					return false
				}
			}
			return true
		}
		return false
	}, &cands)
	for _, el := range cands {
		if el.Data == "span" && !strings.Contains(getAttr(el, "class"), "lazy-image") {
			continue
		}
		var sb strings.Builder
		ids := map[*html.Node]int{}
		encodeOwn(ids, el, &sb)
		var els []*html.Node
		findAll(el, func(n *html.Node) bool { return n.Type == html.ElementNode }, &els)
		fmt.Fprintf(&sb, " %d", len(els))
		seen := map[string]bool{}
		var tbl []string
		for _, e := range els {
			a := distiller.VerifElementAtoms(e)
			fmt.Fprintf(&sb, " %d %s %s 0 0 0 0 0 %s", ids[e], hx(a.StyleDisplay), b01(a.VisHidden), b01(distiller.VerifIsForeignRawText(e)))
			for _, at := range e.Attr {
				if !seen[at.Val] {
					seen[at.Val] = true
					s1, s2, s3 := distiller.VerifLazyAtoms(at.Val)
					tbl = append(tbl, hx(at.Val)+" "+b01(s1)+" "+b01(s2)+" "+b01(s3))
				}
			}
		}
		sb.WriteString(" 0")
		fmt.Fprintf(&sb, " %d", len(tbl))
		if len(tbl) > 0 {
			sb.WriteString(" " + strings.Join(tbl, " "))
		}
		hasNoscript := el.Data == "figure" && findFirstBelow(el, "noscript") != nil
		kind, img, cap := distiller.VerifImageExtract(el, pageURL)
		rep.hist("imageextract:" + el.Data + "->" + kind)
		if hasNoscript {
			rep.hist("imageextract:figure-with-noscript(outside-the-model)")
			c.add(sb.String(), "unmodelled", replay)
			continue
		}
		switch kind {
		case "":
			c.add(sb.String(), "none", replay)
		case "image":
			c.add(sb.String(), "image "+hx(outerNoComments(img)), replay)
		case "figure":
			if t := dom.TextContent(cap); strings.ContainsAny(t, "<&") {
				rep.hist("imageextract:caption-text-reparsed(skipped)")
				continue
			}
			c.add(sb.String(), "figure "+hx(outerNoComments(img))+" "+hx(outerNoComments(cap)), replay)
		}
	}
}

// imagePage: pages built around what the image extractor looks at
func imagePage(r *Rng, g *PageGen) string {
	tiny := "data:image/gif;base64,R0lGODlhAQABAIAAAAAAAP///yH5BAEAAAAALAAAAAABAAEAAAIBRAA7"
	big := "data:image/png;base64," + strings.Repeat("iVBORw0KGgo", 14)
	svg := "data:image/svg+xml;base64,PHN2Zz48L3N2Zz4="
	srcVal := func() string {
		return r.Pick(g.mediaURL("jpg"), g.mediaURL("png"), tiny, big, svg, "", "data:text/plain;base64,QQ==", " "+g.mediaURL("webp")+" ", g.mediaURL("gif"), "photo.JPG?x=1", "no-extension")
	}
	attrs := func() string {
		var as []string
		for _, k := range []string{"src", "data-src", "data-original", "datasrc", "data-url", "data-lazy", "srcset", "data-srcset", "datasrcset", "data-set", "alt", "class"} {
			if !r.Chance(22) {
				continue
			}
			v := srcVal()
			switch k {
			case "srcset", "data-srcset", "datasrcset", "data-set":
				v = r.Pick(g.mediaURL("jpg")+" 1x, "+g.mediaURL("jpg")+" 2x", g.mediaURL("png")+" 640w", "", "x.jpg 2x")
			case "alt":
				v = r.Pick("alt text", "photo.jpg", "a.png 2x")
			case "class":
				v = r.Pick("lazy", "fallback-image", "c")
			}
			as = append(as, k+`="`+v+`"`)
		}
		r2 := as
		for i := len(r2) - 1; i > 0; i-- {
			j := r.Intn(i + 1)
			r2[i], r2[j] = r2[j], r2[i]
		}
		return strings.Join(r2, " ")
	}
	img := func() string { return "<img " + attrs() + ">" }
	picture := func() string {
		var kids []string
		for k := r.Range(0, 3); k > 0; k-- {
			kids = append(kids, r.Pick(`<source `+attrs()+`>`, `<source srcset="`+g.mediaURL("webp")+` 1x" media="(min-width:1px)">`, "<span>"+g.words(1)+"</span>", g.words(1), "<div><img "+attrs()+"></div>", "<!-- c -->", "<figcaption>"+g.words(2)+"</figcaption>"))
		}
		if r.Chance(60) {
			kids = append(kids, img())
		}
		for i := len(kids) - 1; i > 0; i-- {
			j := r.Intn(i + 1)
			kids[i], kids[j] = kids[j], kids[i]
		}
		return "<picture " + attrs() + ">" + strings.Join(kids, "") + "</picture>"
	}
	caption := func() string {
		inner := r.Pick(g.words(3), g.words(2)+` <a href="`+g.linkURL()+`">`+g.words(1)+"</a>", g.words(1)+" , "+g.words(1)+" . "+g.words(1), g.words(1)+"<br>"+g.words(1), "<b>"+g.words(1)+"</b><i>"+g.words(1)+"</i>",
			`<span hidden>`+g.words(1)+`</span>`+g.words(1), `<a name="x">`+g.words(1)+"</a>", "", " ", g.words(1)+`<a href="">`+g.words(1)+"</a>", "<p>"+g.words(2)+"</p><p>"+g.words(1)+"</p>")
		return r.Pick("<figcaption>"+inner+"</figcaption>", `<figcaption hidden>`+inner+"</figcaption>", `<figcaption style="display:none">`+inner+"</figcaption>",
			`<div style="visibility:hidden"><figcaption>`+inner+"</figcaption></div><figcaption>"+g.words(1)+"</figcaption>", "<div><figcaption>"+inner+"</figcaption></div>",
			"", `<figcaption aria-hidden="true">`+inner+"</figcaption>", "<figcaption>"+inner+"</figcaption><figcaption>"+g.words(1)+"</figcaption>")
	}
	var body []string
	for k := r.Range(2, 6); k > 0; k-- {
		switch r.Intn(7) {
		case 0:
			body = append(body, img())
		case 1:
			body = append(body, picture())
		case 2:
			body = append(body, "<figure>"+r.Pick(img(), picture(), "<a href=\"x\">"+img()+"</a>", "<div>"+picture()+"</div>"+img(), g.words(2), img()+img())+caption()+"</figure>")
		case 3:
			body = append(body, "<figure>"+caption()+r.Pick(img(), picture())+g.words(2)+"</figure>")
		case 4:
			body = append(body, `<span class="`+r.Pick("lazy-image-placeholder", "x lazy-image-placeholder y", "lazy-image")+`" data-src="`+g.mediaURL("jpg")+`"`+r.Pick("", ` data-srcset="`+g.mediaURL("jpg")+` 2x"`)+`>`+g.words(1)+`</span>`)
		case 5:
			body = append(body, "<figure><noscript>"+img()+"</noscript>"+caption()+"</figure>")
		default:
			body = append(body, "<figure "+r.Pick("", "hidden", `class="c"`)+">"+picture()+img()+caption()+"</figure>")
		}
		body = append(body, "<p>"+g.words(30)+"</p>")
	}
	return "<html><head><title>t</title></head><body><p>" + g.words(60) + "</p>" + strings.Join(body, "\n") + "</body></html>"
}
