package main

import (
	"encoding/json"
	"fmt"
	nurl "net/url"
	"os"
	"os/exec"
	"path/filepath"
	"reflect"
	"strings"
	"sync"
	"time"

	distiller "github.com/markusmobius/go-domdistiller"
)

func init() {
	props["C12"] = runC12
	props["C12worker"] = runC12Worker
}

type c12Result struct {
	Rounds     int      `json:"rounds"`
	Calls      int      `json:"calls"`
	Overlapped int      `json:"overlapped"`
	Diffs      []string `json:"diffs"`
	Panics     []string `json:"panics"`
}

func c12Pages(seed int64, n int) []string {
	var out []string
	for i := 0; i < n; i++ {
		r := newRng(seed, fmt.Sprintf("C12/%d", i))
		g := newPageGen(r)
		g.RelURLs = r.Chance(50)
		body := g.blocks(r.Range(3, 9), 0)
		nn := r.Range(2, 6)
		body += simplePager(r, "http://example.com/dir/story", nn, r.Range(1, nn))
		if i%3 == 0 {
			m := randIntent(r, i)
			if i%6 == 0 {
				// a page that declares its own OpenGraph prefixes
				out = append(out, strings.Replace(m.HTML(body), "<html>", `<html prefix="news: http://ogp.me/ns#">`, 1))
				continue
			}
			out = append(out, m.HTML(body))
			continue
		}
		out = append(out, "<html><head><title>Concurrent page title number "+fmt.Sprint(i)+"</title></head><body>"+body+"</body></html>")
	}
	return out
}

// runC12Worker: executed in a child process built with -race.
func runC12Worker(ctx *Ctx) {
	silenceStderr()
	pages := c12Pages(ctx.Seed, 24)
	G := ctx.pick(8, 32)
	rounds := ctx.pick(40, 600)
	res := c12Result{}
	mkOpts := func(k int) *distiller.Options {
		u, _ := nurl.Parse([]string{"http://example.com/dir/story", "http://example.com/dir/story/"}[k%2])
		return &distiller.Options{OriginalURL: u, LogFlags: distiller.LogFlag((k % 16) * 2), PaginationAlgo: distiller.PaginationAlgo((k / 2) % 2)}
	}
	// sequential reference results, per (page, option shape)
	refKey := func(p, k int) string { return fmt.Sprintf("%d/%d", p, k%4) }
	ref := map[string]resultView{}
	for p := range pages {
		for k := 0; k < 4; k++ {
			d := parseDoc(pages[p])
			if r, err := distiller.Apply(d.Root, mkOpts(k)); err == nil {
				ref[refKey(p, k)] = viewOf(r)
			}
		}
	}
	var mu sync.Mutex
	for round := 0; round < rounds; round++ {
		mode := round % 3 // 0: distinct docs, 1: one shared doc, 2: shared doc and shared Options
		sharedDoc := parseDoc(pages[round%len(pages)])
		sharedOpts := mkOpts(round)
		var wg sync.WaitGroup
		starts := make([]time.Time, G)
		ends := make([]time.Time, G)
		for gi := 0; gi < G; gi++ {
			wg.Add(1)
			go func(gi int) {
				defer wg.Done()
				defer func() {
					if r := recover(); r != nil {
						mu.Lock()
						res.Panics = append(res.Panics, fmt.Sprint(r))
						mu.Unlock()
					}
				}()
				p, k := (round+gi)%len(pages), round+gi
				root := parseDoc(pages[p]).Root
				opts := mkOpts(k)
				if mode >= 1 {
					p, root = round%len(pages), sharedDoc.Root
				}
				if mode == 2 {
					k, opts = round, sharedOpts
				}
				starts[gi] = time.Now()
				r, err := distiller.Apply(root, opts)
				ends[gi] = time.Now()
				if err != nil {
					return
				}
				want, ok := ref[refKey(p, k)]
				if ok && !reflect.DeepEqual(viewOf(r), want) {
					mu.Lock()
					if len(res.Diffs) < 5 {
						res.Diffs = append(res.Diffs, fmt.Sprintf("round %d mode %d goroutine %d page %d: concurrent result differs from the sequential one", round, mode, gi, p))
					}
					mu.Unlock()
				}
			}(gi)
		}
		wg.Wait()
		res.Rounds++
		res.Calls += G
		for a := 0; a < G; a++ {
			for b := a + 1; b < G; b++ {
				if starts[a].Before(ends[b]) && starts[b].Before(ends[a]) {
					res.Overlapped++
					b = G
				}
			}
		}
	}
	b, _ := json.Marshal(res)
	os.WriteFile(filepath.Join(ctx.Work, "c12-worker.json"), b, 0o644)
}

func runC12(ctx *Ctx) {
	rep := ctx.Rep
	rep.Rule = "G goroutines call Apply at once (race-detector build) on distinct documents / one shared document / shared document and shared Options, all 16 log-flag sets, both algorithms, URLs with and without trailing slash, pages declaring their own OpenGraph prefixes; every result compared with the sequential result; distinct by (round mode, page); non-trivial = at least two calls of a round overlapped in time (measured)"
	self, _ := os.Executable()
	raceLog := filepath.Join(ctx.Work, "c12-race")
	old, _ := filepath.Glob(raceLog + ".*")
	for _, f := range old {
		os.Remove(f)
	}
	os.Remove(filepath.Join(ctx.Work, "c12-worker.json"))
	cmd := exec.Command(self, "C12worker", "-tier", ctx.Tier, "-seed", fmt.Sprint(ctx.Seed), "-work", ctx.Work, "-verif", ctx.VerifDir)
	cmd.Env = append(os.Environ(), "GORACE=log_path="+raceLog+" halt_on_error=0 history_size=3")
	out, err := cmd.CombinedOutput()
	var res c12Result
	if b, e := os.ReadFile(filepath.Join(ctx.Work, "c12-worker.json")); e == nil {
		json.Unmarshal(b, &res)
	}
	rep.Evaluations = res.Calls
	rep.histN("rounds", res.Rounds)
	rep.histN("rounds-with-overlap", res.Overlapped)
	for i := 0; i < res.Overlapped && i < res.Rounds; i++ {
		rep.nontrivial(fmt.Sprintf("round-%d", i))
	}
	replayBase := map[string]interface{}{"seed": ctx.Seed, "tier": ctx.Tier, "how": "re-run `bin/check C12`: the worker regenerates the same pages and rounds from the seed"}
	races, _ := filepath.Glob(raceLog + ".*")
	for _, f := range races {
		b, _ := os.ReadFile(f)
		txt := string(b)
		if strings.Contains(txt, "DATA RACE") {
			site := ""
			for _, l := range strings.Split(txt, "\n") {
				l = strings.TrimSpace(l)
				if strings.HasPrefix(l, "github.com/markusmobius/go-domdistiller") {
					site = strings.TrimPrefix(strings.SplitN(l, "(", 2)[0], "github.com/markusmobius/go-domdistiller/")
					break
				}
			}
			r := map[string]interface{}{"race_report": trunc(txt, 6000)}
			for k, v := range replayBase {
				r[k] = v
			}
			rep.violate(map[string]string{"clause": "data-race", "site": site}, "the race detector reported a data race at "+site, r)
		}
	}
	for _, d := range res.Diffs {
		rep.violate(map[string]string{"clause": "concurrent-result-differs"}, d, replayBase)
	}
	for _, p := range res.Panics {
		rep.violate(map[string]string{"clause": "panic-under-concurrency"}, trunc(p, 300), replayBase)
	}
	if err != nil && res.Calls == 0 {
		rep.violate(map[string]string{"clause": "worker-crashed"}, "concurrent worker crashed: "+trunc(string(out), 1500), replayBase)
	}
	rep.sample(map[string]interface{}{"goroutines": ctx.pick(8, 32), "rounds": res.Rounds, "calls": res.Calls, "rounds_with_overlap": res.Overlapped})
}
