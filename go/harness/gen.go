package main

import (
	"fmt"
	"strings"
)

// ---------- PRNG: splitmix64, the only source of randomness ----------

type Rng struct{ s uint64 }

func newRng(seed int64, stream string) *Rng {
	r := &Rng{s: uint64(seed)*0x9E3779B97F4A7C15 + 0x1234567}
	for _, c := range []byte(stream) {
		r.s = r.s*31 + uint64(c)
		r.next()
	}
	return r
}

func (r *Rng) next() uint64 {
	r.s += 0x9E3779B97F4A7C15
	z := r.s
	z = (z ^ (z >> 30)) * 0xBF58476D1CE4E5B9
	z = (z ^ (z >> 27)) * 0x94D049BB133111EB
	return z ^ (z >> 31)
}

func (r *Rng) Intn(n int) int {
	if n <= 0 {
		return 0
	}
	return int(r.next() % uint64(n))
}
func (r *Rng) Range(lo, hi int) int { return lo + r.Intn(hi-lo+1) } // inclusive
func (r *Rng) Chance(pct int) bool  { return r.Intn(100) < pct }
func (r *Rng) Pick(xs ...string) string {
	return xs[r.Intn(len(xs))]
}

// weighted choice over a map-free ordered list (deterministic)
type W struct {
	K string
	W int
}

func (r *Rng) Weighted(ws []W) string {
	tot := 0
	for _, w := range ws {
		tot += w.W
	}
	if tot == 0 {
		return ws[0].K
	}
	x := r.Intn(tot)
	for _, w := range ws {
		if x < w.W {
			return w.K
		}
		x -= w.W
	}
	return ws[len(ws)-1].K
}

// ---------- article-like page generator ----------

// PageGen builds HTML text. Every word is a unique token w<n>; every media URL carries a
// unique token too (m<n>), so oracles can recognise provenance in the output.
type PageGen struct {
	R       *Rng
	tok     int
	media   int
	Weights []W
	// decoration: add forbidden/odd attributes on elements (C05)
	Decorate bool
	// RelURLs: use relative URL forms (C06)
	RelURLs bool
	Kinds   []string // block kinds emitted, in order (for histograms)
	// MarkMode: how "unlikely"-marked subtrees are emitted: 0 as marked, 1 deleted, 2 markers renamed to neutral values
	MarkMode int
	// DupAttrs: now and then an attribute is written twice on one element (the parser keeps both)
	DupAttrs bool
	// MathVoid: paragraphs and table cells now and then hold a MathML element named like a void
	// HTML element (with children, which only foreign content allows)
	MathVoid bool
	// RepeatMedia: a media URL is now and then one the page has used before (the same picture as
	// mast and in the body, the same poster twice)
	RepeatMedia bool
	mediaSeen   []string
	// BaseHref: a <base href> element in the head (the library resolves content URLs against the
	// page URL the caller supplied, whatever the document says)
	BaseHref string
	// SafeMarkers: only marker words without a second documented meaning; marked wrappers hold only block content
	SafeMarkers bool
}

func defaultWeights() []W {
	return []W{
		{"para", 30}, {"shortpara", 8}, {"heading", 6}, {"list", 8}, {"quote", 4}, {"pre", 2},
		{"datatable", 4}, {"layouttable", 2}, {"figure", 5}, {"img", 5}, {"video", 2},
		{"embed", 3}, {"hidden", 4}, {"script", 3}, {"form", 2}, {"links", 5}, {"unlikely", 3},
		{"byline", 1}, {"social", 1}, {"divwrap", 6}, {"baretext", 3}, {"oddtext", 2}, {"inlinenest", 1},
	}
}

func newPageGen(r *Rng) *PageGen { return &PageGen{R: r, Weights: defaultWeights()} }

func (g *PageGen) word() string { g.tok++; return fmt.Sprintf("w%d", g.tok) }
func (g *PageGen) words(n int) string {
	ws := make([]string, n)
	for i := range ws {
		ws[i] = g.word()
	}
	return strings.Join(ws, " ")
}
func (g *PageGen) mediaURL(ext string) string {
	if g.RepeatMedia && len(g.mediaSeen) > 0 && g.R.Chance(35) {
		return g.mediaSeen[g.R.Intn(len(g.mediaSeen))]
	}
	u := g.freshMediaURL(ext)
	if g.RepeatMedia {
		g.mediaSeen = append(g.mediaSeen, u)
	}
	return u
}

func (g *PageGen) freshMediaURL(ext string) string {
	g.media++
	base := fmt.Sprintf("m%d.%s", g.media, ext)
	if !g.RelURLs {
		return "http://example.com/img/" + base
	}
	switch g.R.Intn(8) {
	case 6:
		return "/wiki/Special:FilePath/" + base
	case 7:
		return "pics/set:2/" + base
	case 0:
		return "img/" + base
	case 1:
		return "/abs/" + base
	case 2:
		return "//cdn.example.org/" + base
	case 3:
		return "../up/" + base
	case 4:
		return "./a/../" + base
	default:
		return "http://other.example.net/" + base
	}
}

// dupURL: a second copy of a URL attribute (another value), when DupAttrs is on
func (g *PageGen) dupURL(key string, val func() string) string {
	if !g.DupAttrs || !g.R.Chance(12) {
		return ""
	}
	return " " + key + `="` + val() + `"`
}

func (g *PageGen) deco() string {
	if !g.Decorate {
		return ""
	}
	s := ""
	if g.DupAttrs && g.R.Chance(10) {
		s += fmt.Sprintf(` class="c%d" id="i%d" class="d%d" style="x:y" id="j%d"`, g.R.Intn(100), g.R.Intn(100), g.R.Intn(100), g.R.Intn(100))
	}
	if g.R.Chance(40) {
		s += fmt.Sprintf(` id="i%d"`, g.R.Intn(1000))
	}
	if g.R.Chance(40) {
		s += fmt.Sprintf(` class="c%d"`, g.R.Intn(1000))
	}
	if g.R.Chance(30) {
		s += ` onclick="alert(1)"`
	}
	if g.R.Chance(30) {
		s += ` style="color:red"`
	}
	if g.R.Chance(20) {
		s += ` data-x="y"`
	}
	if g.R.Chance(20) {
		s += ` onmouseover="x()"`
	}
	if g.R.Chance(15) {
		s += ` foo="bar"`
	}
	if g.R.Chance(15) {
		s += ` title="t"`
	}
	return s
}

var inlineTags = []string{"b", "i", "em", "strong", "span", "u", "code", "font"}

// inline emits an inline mix with about n words.
func (g *PageGen) inline(n int, depth int) string {
	var sb strings.Builder
	for n > 0 {
		k := g.R.Range(1, 6)
		if k > n {
			k = n
		}
		n -= k
		switch c := g.R.Intn(14); {
		case c < 6 || depth > 2:
			sb.WriteString(g.words(k))
		case c < 9:
			t := inlineTags[g.R.Intn(len(inlineTags))]
			sb.WriteString("<" + t + g.deco() + ">" + g.inline(k, depth+1) + "</" + t + ">")
		case c < 11:
			sb.WriteString(`<a href="` + g.linkURL() + `"` + g.deco() + g.dupURL("href", g.linkURL) + `>` + g.inline(k, depth+1) + "</a>")
		case c < 12:
			if g.R.Chance(40) {
				// a paragraph break inside the paragraph, followed by a link-heavy line
				sb.WriteString(g.words(k) + "<br><br>")
				for j := g.R.Range(1, 3); j > 0; j-- {
					sb.WriteString(`<a href="` + g.linkURL() + `">` + g.words(2) + "</a> ")
				}
			} else {
				sb.WriteString(g.words(k) + "<br>")
			}
		case c < 13:
			switch g.R.Intn(4) {
			case 0:
				sb.WriteString(`<a href="javascript:void(0)">` + g.words(1) + " <b>" + g.words(k) + "</b> " + g.words(1) + "</a>")
			case 1:
				sb.WriteString(`<a href="javascript:void(0)"><i>` + g.words(k) + "</i></a>")
			default:
				sb.WriteString(`<a href="javascript:void(0)">` + g.words(k) + "</a>")
			}
		default:
			sb.WriteString(g.words(k) + " , " + g.word() + " . ")
		}
		if g.R.Chance(85) {
			sb.WriteString(" ")
		}
	}
	return sb.String()
}

func (g *PageGen) linkURL() string {
	g.media++
	if !g.RelURLs {
		return fmt.Sprintf("http://example.com/l%d.html", g.media)
	}
	switch g.R.Intn(10) {
	case 7:
		return fmt.Sprintf("/wiki/Help:l%d", g.media)
	case 8:
		return fmt.Sprintf("notes/ch:l%d.html", g.media)
	case 9:
		return fmt.Sprintf("../talk/Topic:l%d?x=1", g.media)
	case 0:
		return fmt.Sprintf("l%d.html", g.media)
	case 1:
		return fmt.Sprintf("/root/l%d.html", g.media)
	case 2:
		return fmt.Sprintf("//other.example.org/l%d", g.media)
	case 3:
		return fmt.Sprintf("?q=l%d", g.media)
	case 4:
		return fmt.Sprintf("../l%d.html", g.media)
	case 5:
		return fmt.Sprintf("#frag%d", g.media)
	default:
		return fmt.Sprintf("http://abs.example.net/l%d", g.media)
	}
}

func (g *PageGen) para() string {
	if g.MathVoid && g.R.Chance(12) {
		return "<p" + g.deco() + ">" + g.inline(g.R.Range(10, 30), 0) + " " + g.mathVoid() + " " + g.inline(g.R.Range(8, 30), 0) + "</p>\n"
	}
	return "<p" + g.deco() + ">" + g.inline(g.R.Range(18, 60), 0) + "</p>\n"
}

// mathVoid: running text inside a MathML element that carries the name of a void HTML element
// (only in foreign content can such an element have children), or inside an ordinary MathML element
func (g *PageGen) mathVoid() string {
	v := g.R.Pick("wbr", "area", "col", "source", "track", "param", "mi", "mtext")
	return "<math><" + v + ">" + g.words(g.R.Range(1, 5)) + "</" + v + "></math>"
}
func (g *PageGen) shortPara() string {
	return "<p" + g.deco() + ">" + g.inline(g.R.Range(1, 6), 0) + "</p>\n"
}

func (g *PageGen) list(depth int) string {
	t := g.R.Pick("ul", "ol")
	var sb strings.Builder
	sb.WriteString("<" + t + g.deco() + ">")
	n := g.R.Range(1, 4)
	for i := 0; i < n; i++ {
		sb.WriteString("<li" + g.deco() + ">")
		switch c := g.R.Intn(10); {
		case c < 5:
			sb.WriteString(g.inline(g.R.Range(2, 30), 0))
		case c < 7:
			sb.WriteString("<p>" + g.inline(g.R.Range(5, 30), 0) + "</p>")
		case c < 9 && depth < 3:
			sb.WriteString(g.inline(g.R.Range(1, 12), 0))
			sb.WriteString(g.list(depth + 1))
			if g.R.Chance(40) {
				sb.WriteString(g.inline(g.R.Range(1, 8), 0))
			}
		default:
			switch g.R.Intn(4) {
			case 0:
				sb.WriteString(g.img())
			case 1:
				sb.WriteString(g.table(true))
			case 2:
				sb.WriteString(g.embed())
			default:
				sb.WriteString(g.inline(g.R.Range(1, 5), 0))
			}
		}
		sb.WriteString("</li>")
	}
	sb.WriteString("</" + t + ">\n")
	return sb.String()
}

func (g *PageGen) quote(depth int) string {
	var sb strings.Builder
	sb.WriteString("<blockquote" + g.deco() + ">")
	n := g.R.Range(1, 3)
	for i := 0; i < n; i++ {
		switch c := g.R.Intn(10); {
		case c < 6:
			sb.WriteString(g.para())
		case c < 8 && depth < 2:
			sb.WriteString(g.list(depth + 1))
		case c < 9 && depth < 2:
			sb.WriteString(g.quote(depth + 1))
		default:
			if g.R.Chance(30) {
				sb.WriteString(g.table(true))
			} else {
				sb.WriteString(g.inline(g.R.Range(5, 25), 0))
			}
		}
	}
	sb.WriteString("</blockquote>\n")
	return sb.String()
}

// commaURL: an image-CDN style URL with a transformation list (commas) in its path
func (g *PageGen) commaURL(ext string) string {
	u := g.mediaURL(ext)
	i := strings.LastIndex(u, "/")
	return u[:i] + "/w_400,h_300,c_fill" + u[i:]
}

func (g *PageGen) img() string {
	switch g.R.Intn(10) {
	case 8:
		// candidates with a width AND a height descriptor (browsers accept the pair)
		return `<img src="` + g.mediaURL("jpg") + `" srcset="` + g.mediaURL("jpg") + ` 400w 300h, ` + g.mediaURL("jpg") + ` 800w 600h"` + g.deco() + `>`
	case 9:
		// pixel densities written as floating-point numbers with an exponent; tab / newline separators
		return `<img src="` + g.mediaURL("jpg") + `" srcset="` + g.mediaURL("jpg") + " 1e0x,\n\t" + g.mediaURL("jpg") + ` 1.5E0x , ` + g.mediaURL("jpg") + ` 2x"` + g.deco() + `>`
	case 7:
		// a picture whose only URL is the src of its img
		return `<picture` + g.deco() + `><img src="` + g.mediaURL("jpg") + `" alt="alt"></picture>`
	case 5:
		// srcset candidates whose URLs contain commas (never at the end of the URL)
		return `<img src="` + g.mediaURL("jpg") + `" srcset="` + g.commaURL("jpg") + ` 400w, ` + g.commaURL("jpg") + ` 800w"` + g.deco() + `>`
	case 6:
		return `<picture` + g.deco() + `><source srcset="` + g.commaURL("webp") + ` 1x,` + g.mediaURL("webp") + ` 2x"><img src="` + g.mediaURL("jpg") + `" srcset="data:image/gif;base64,R0lGODlhAQABAAAAACw= 1x, ` + g.mediaURL("jpg") + ` 2x"></picture>`
	case 0:
		return `<img data-src="` + g.mediaURL("jpg") + `"` + g.deco() + `>`
	case 1:
		return `<img src="` + g.mediaURL("png") + `" srcset="` + g.mediaURL("png") + ` 1x, ` + g.mediaURL("png") + ` 2x"` + g.deco() + `>`
	case 2:
		return `<picture` + g.deco() + `><source srcset="` + g.mediaURL("webp") + ` 1x"><img src="` + g.mediaURL("jpg") + `"></picture>`
	default:
		return `<img src="` + g.mediaURL("jpg") + `" alt="` + "alt" + `"` + g.deco() + g.dupURL("src", func() string { return g.mediaURL("jpg") }) + g.dupURL("srcset", func() string { return g.mediaURL("png") + " 2x" }) + `>`
	}
}

func (g *PageGen) figure() string {
	var sb strings.Builder
	sb.WriteString("<figure" + g.deco() + ">")
	capFirst := g.R.Chance(15)
	cap := ""
	switch g.R.Intn(4) {
	case 0:
	case 1:
		cap = "<figcaption" + g.deco() + ">" + g.words(g.R.Range(2, 10)) + "</figcaption>"
	case 2:
		cap = "<figcaption>" + g.words(g.R.Range(1, 6)) + ` <a href="` + g.linkURL() + `">` + g.words(2) + "</a></figcaption>"
	default:
		cap = "<figcaption><b>" + g.words(2) + "</b> " + g.words(3) + "</figcaption>"
	}
	if capFirst {
		sb.WriteString(cap)
	}
	sb.WriteString(g.img())
	if !capFirst {
		sb.WriteString(cap)
	}
	sb.WriteString("</figure>\n")
	return sb.String()
}

func (g *PageGen) video() string {
	return `<video src="` + g.mediaURL("mp4") + `" poster="` + g.mediaURL("jpg") + `"` + g.deco() + `><source src="` + g.mediaURL("webm") + `" srcset="` + g.mediaURL("webm") + ` 1x, ` + g.mediaURL("webm") + ` 2x"><track src="` + g.mediaURL("vtt") + `">` + g.words(2) + `</video>` + "\n"
}

func (g *PageGen) embed() string {
	g.media++
	id := fmt.Sprintf("vid%d", g.media)
	switch g.R.Intn(6) {
	case 0:
		return `<iframe src="http://www.youtube.com/embed/` + id + `"` + g.deco() + `></iframe>` + "\n"
	case 1:
		return `<iframe src="https://player.vimeo.com/video/` + fmt.Sprint(100000+g.media) + `"></iframe>` + "\n"
	case 2:
		return `<blockquote class="twitter-tweet"><p>` + g.words(5) + `</p><a href="https://twitter.com/u/status/` + fmt.Sprint(900000+g.media) + `">` + g.words(2) + `</a></blockquote>` + "\n"
	case 3:
		return `<iframe src="http://evil-youtube.com/embed/` + id + `"></iframe>` + "\n"
	case 4:
		return `<iframe src="http://ads.example.com/frame?x=` + id + `">` + g.words(2) + `</iframe>` + "\n"
	default:
		return `<iframe src="https://platform.twitter.com/embed/index.html" data-tweet-id="` + fmt.Sprint(700000+g.media) + `"></iframe>` + "\n"
	}
}

func (g *PageGen) table(data bool) string {
	var sb strings.Builder
	rows, cols := g.R.Range(2, 4), g.R.Range(2, 3)
	if data {
		cols = g.R.Range(5, 6)
	}
	sb.WriteString("<table" + g.deco() + ">")
	if data && g.R.Chance(50) {
		sb.WriteString("<caption>" + g.words(3) + "</caption>")
	}
	for i := 0; i < rows; i++ {
		sb.WriteString("<tr>")
		for j := 0; j < cols; j++ {
			cell := "td"
			if data && i == 0 && g.R.Chance(50) {
				cell = "th"
			}
			sb.WriteString("<" + cell + g.deco() + ">")
			switch c := g.R.Intn(14); {
			case g.MathVoid && c < 8 && g.R.Chance(10):
				sb.WriteString(g.words(1) + " " + g.mathVoid() + " " + g.words(1))
			case c == 12:
				// a cell without any output of its own: a comment, a script, a hidden element or nothing
				sb.WriteString(g.R.Pick("<!-- "+g.word()+" -->", "<script>var "+g.word()+"</script>", `<span hidden>`+g.word()+`</span>`, "", " ", `<style>.`+g.word()+`{}</style>`))
			case c == 13:
				sb.WriteString(g.words(1) + g.hidden())
			case c < 8:
				sb.WriteString(g.words(g.R.Range(1, 4)))
			case c < 9:
				sb.WriteString(`<a href="` + g.linkURL() + `">` + g.words(1) + `</a>`)
			case c < 10:
				sb.WriteString(g.img())
			case c < 11:
				sb.WriteString("<p>" + g.inline(g.R.Range(2, 20), 0) + "</p>")
			default:
				sb.WriteString(g.words(1) + "<br>" + g.words(1))
			}
			sb.WriteString("</" + cell + ">")
		}
		sb.WriteString("</tr>")
	}
	sb.WriteString("</table>\n")
	return sb.String()
}

// hideAttrs: every attribute-level hiding technique; hideTags: elements that may carry it,
// among them the ones the converter rewrites while walking (font, javascript: anchors)
var hideAttrs = []string{`hidden`, `hidden="hidden"`, `style="display:none"`, `style="DISPLAY:NONE"`, `style="display: none !important"`,
	`style="color:red; display :none;"`, `style="visibility:hidden"`, `style="margin:0;visibility: collapse"`, `aria-hidden="true"`,
	`style="visibility : hidden"`, `style="VISIBILITY :collapse;"`, `style="display:block;display:none"`, `style="display:none!important;display:block"`,
	`style="display:inline; color:red; display: none"`, `style="visibility:visible;visibility:hidden"`}
var hideTags = []string{"div", "span", "p", "section", "article", "font", "b", "i", "em", "strong", "u", "code", "a", "h2", "h4",
	"ul", "ol", "li", "blockquote", "pre", "center", "small", "label", "aside", "details", "dl", "address"}

func (g *PageGen) hidden() string {
	inner := g.words(g.R.Range(1, 8))
	if g.R.Chance(45) {
		t := hideTags[g.R.Intn(len(hideTags))]
		a := hideAttrs[g.R.Intn(len(hideAttrs))]
		extra := ""
		switch {
		case t == "a" && g.R.Chance(50):
			extra = ` href="javascript:void(0)"`
		case t == "a":
			extra = ` href="` + g.linkURL() + `"`
		case t == "font":
			extra = ` color="red"`
		case t == "ul" || t == "ol":
			inner = "<li>" + inner + "</li>"
		}
		if g.R.Chance(50) {
			return "<" + t + extra + " " + a + ">" + inner + "</" + t + ">"
		}
		return "<" + t + " " + a + extra + ">" + inner + "</" + t + ">"
	}
	switch g.R.Intn(19) {
	case 15:
		return `<figure hidden>` + g.img() + `<figcaption>` + inner + `</figcaption></figure>`
	case 16:
		return `<figure style="display:none">` + g.img() + `<figcaption>` + inner + ` <a href="` + g.linkURL() + `">` + g.words(1) + `</a></figcaption></figure>`
	case 17:
		return `<figure aria-hidden="true">` + g.img() + `<figcaption>` + inner + `</figcaption></figure>`
	case 18:
		return `<blockquote class="twitter-tweet" style="visibility:hidden"><p>` + inner + `</p><a href="https://twitter.com/u/status/55">x</a></blockquote>`
	case 12:
		return `<div style="display:none !important">` + inner + `</div>`
	case 13:
		return `<span style="display: none!important;color:red">` + inner + `</span>`
	case 14:
		return `<div style="display :none">` + inner + `</div>`
	case 7:
		return `<span style="color:#c00;visibility:hidden">` + inner + `</span>`
	case 8:
		return `<div style="height:0;visibility:collapse">` + inner + `</div>`
	case 9:
		return `<div style="DISPLAY:NONE">` + inner + `</div>`
	case 10:
		return `<div style="margin:0;display:none">` + inner + `</div>`
	case 11:
		return `<p aria-hidden="true">` + inner + `</p>`
	case 0:
		return `<div hidden>` + inner + `</div>`
	case 1:
		return `<div style="display:none">` + inner + `</div>`
	case 2:
		return `<p style="visibility:hidden">` + inner + `</p>`
	case 3:
		return `<span aria-hidden="true">` + inner + `</span>`
	case 4:
		return `<div style="color:red; display: none;">` + inner + `</div>`
	case 5:
		return `<p style="visibility: collapse">` + inner + `</p>`
	default:
		return `<section hidden="hidden"><p>` + inner + `</p></section>`
	}
}

func (g *PageGen) scriptish() string {
	switch g.R.Intn(5) {
	case 0:
		return `<script>var ` + g.word() + ` = 1;</script>`
	case 1:
		return `<style>.` + g.word() + `{color:red}</style>`
	case 2:
		return `<!-- ` + g.words(3) + ` -->`
	case 3:
		return `<noscript>` + g.words(3) + `</noscript>`
	default:
		return `<svg><text>` + g.words(2) + `</text></svg>`
	}
}

func (g *PageGen) form() string {
	switch g.R.Intn(5) {
	case 0:
		return `<form action="/s"><input type="text" value="` + g.word() + `"><button>` + g.words(2) + `</button></form>`
	case 1:
		return `<select><option>` + g.words(1) + `</option><option>` + g.words(1) + `</option></select>`
	case 2:
		return `<textarea>` + g.words(3) + `</textarea>`
	case 3:
		return `<button>` + g.words(2) + `</button>`
	default:
		return `<object data="x.swf">` + g.words(2) + `</object>`
	}
}

func (g *PageGen) links() string {
	var sb strings.Builder
	open := g.R.Pick("<div>", "<nav>", `<div class="menu">`, "<ul>")
	if g.SafeMarkers && open == `<div class="menu">` {
		open = "<div>" // every marker on the page must come from unlikely(), so that it can be deleted / renamed
	}
	sb.WriteString(open)
	ul := strings.HasPrefix(sb.String(), "<ul")
	n := g.R.Range(3, 8)
	for i := 0; i < n; i++ {
		a := `<a href="` + g.linkURL() + `">` + g.words(g.R.Range(1, 3)) + `</a> `
		if ul {
			a = "<li>" + a + "</li>"
		}
		sb.WriteString(a)
	}
	switch {
	case ul:
		sb.WriteString("</ul>\n")
	case strings.HasPrefix(sb.String(), "<nav"):
		sb.WriteString("</nav>\n")
	default:
		sb.WriteString("</div>\n")
	}
	return sb.String()
}

var unlikelyWords = []string{"sidebar", "footer", "menu", "banner", "related", "sponsor", "popup", "social", "pagination", "breadcrumbs", "disqus", "rss", "shoutbox", "skyscraper", "supplemental", "ad-break", "agegate", "extra", "legends", "gdpr", "combx", "community", "remark", "replies", "yom-remote", "cover-wrap", "ai2html", "pager", "header"}

var safeMarkerWords = []string{"sidebar", "footer", "menu", "banner", "related", "sponsor", "popup", "breadcrumbs", "disqus", "rss", "shoutbox", "skyscraper", "supplemental", "ad-break", "agegate", "extra", "legends", "gdpr", "combx", "remark", "replies", "yom-remote", "cover-wrap", "ai2html"}

func (g *PageGen) unlikely(depth int) string {
	words := unlikelyWords
	if g.SafeMarkers {
		words = safeMarkerWords
	}
	w := words[g.R.Intn(len(words))]
	how := g.R.Intn(4)
	role := g.R.Pick("menu", "menubar", "complementary", "navigation", "alert", "alertdialog", "dialog")
	tag := "div"
	if g.SafeMarkers {
		tag = g.R.Pick("div", "div", "section", "aside", "ul")
	}
	if g.SafeMarkers && g.R.Chance(22) {
		// a marked inline element between the words of one paragraph (a share counter, a comment
		// bubble): skipping it must be the same as its absence — no block boundary in its place
		w1, w2, in := g.words(g.R.Range(12, 40)), g.words(g.R.Range(12, 40)), g.words(g.R.Range(0, 4))
		itag := g.R.Pick("span", "span", "b", "small", "button")
		attr, neutral := `class="`+w+`"`, `class="zzneutral"`
		if how == 0 {
			attr, neutral = `id="`+w+`"`, `id="zzneutral"`
		}
		switch g.MarkMode {
		case 1:
			return "<p>" + w1 + "  " + w2 + "</p>\n"
		case 2:
			return "<p>" + w1 + " <" + itag + " " + neutral + ">" + in + "</" + itag + "> " + w2 + "</p>\n"
		}
		return "<p>" + w1 + " <" + itag + " " + attr + ">" + in + "</" + itag + "> " + w2 + "</p>\n"
	}
	inner := g.blocks(g.R.Range(1, 3), depth+1)
	inTable := g.SafeMarkers && how == 1 && g.R.Chance(35)
	if inTable {
		// a role that is not an ARIA landmark (those turn the table into a data table)
		role = g.R.Pick("menu", "menubar", "alert", "alertdialog", "dialog")
		tag = "div"
		inner = "<p>" + g.words(g.R.Range(10, 40)) + "</p>"
	}
	if tag == "ul" {
		inner = "<li>" + inner + "</li>"
	}
	attr := `class="` + w + `"`
	neutral := `class="zzneutral"`
	switch how {
	case 0:
		attr, neutral = `id="`+w+`"`, `id="zzneutral"`
	case 1:
		attr, neutral = `role="`+role+`"`, `role="note"`
	}
	pre, post := "", ""
	if inTable {
		pre, post = "<table><tr><td><p>"+g.words(30)+"</p>", "</td></tr></table>\n"
	}
	switch g.MarkMode {
	case 1:
		return pre + post
	case 2:
		return pre + "<" + tag + " " + neutral + ">" + inner + "</" + tag + ">\n" + post
	}
	return pre + "<" + tag + " " + attr + ">" + inner + "</" + tag + ">\n" + post
}

func (g *PageGen) block(depth int) string {
	k := g.R.Weighted(g.Weights)
	g.Kinds = append(g.Kinds, k)
	switch k {
	case "para":
		return g.para()
	case "shortpara":
		return g.shortPara()
	case "heading":
		h := fmt.Sprintf("h%d", g.R.Range(1, 6))
		return "<" + h + g.deco() + ">" + g.inline(g.R.Range(2, 8), 1) + "</" + h + ">\n"
	case "list":
		return g.list(0)
	case "quote":
		return g.quote(0)
	case "pre":
		return "<pre" + g.deco() + ">" + g.words(g.R.Range(3, 20)) + "\n" + g.words(3) + "</pre>\n"
	case "datatable":
		return g.table(true)
	case "layouttable":
		return g.table(false)
	case "figure":
		return g.figure()
	case "img":
		return g.img() + "\n"
	case "video":
		return g.video()
	case "embed":
		return g.embed()
	case "hidden":
		return g.hidden() + "\n"
	case "script":
		return g.scriptish() + "\n"
	case "form":
		return g.form() + "\n"
	case "links":
		return g.links()
	case "unlikely":
		if depth < 2 {
			return g.unlikely(depth)
		}
		return g.para()
	case "byline":
		return `<div class="byline">` + g.words(3) + `</div>` + "\n"
	case "social":
		return `<div class="sharing">` + g.words(3) + `</div>` + "\n"
	case "divwrap":
		if depth < 3 {
			t := g.R.Pick("div", "section", "article", "div")
			return "<" + t + g.deco() + ">" + g.blocks(g.R.Range(1, 4), depth+1) + "</" + t + ">\n"
		}
		return g.para()
	case "baretext":
		return g.words(g.R.Range(3, 25)) + "\n"
	case "exotic":
		return g.exotic(depth)
	case "oddtext":
		return g.oddText()
	case "inlinenest":
		return g.inlineNest()
	}
	return g.para()
}

// exoticTags: element names outside the article vocabulary of the other block kinds — obsolete,
// rare, sectioning, interactive, ruby, definition lists, custom and unknown elements
var exoticTags = []string{"menu", "dir", "dl", "dt", "dd", "details", "summary", "dialog", "address", "aside", "main", "nav",
	"header", "footer", "hgroup", "center", "marquee", "blink", "big", "small", "tt", "strike", "s", "del", "ins", "mark", "q", "cite",
	"abbr", "acronym", "dfn", "kbd", "samp", "var", "sub", "sup", "time", "data", "output", "meter", "progress", "ruby", "rt", "rp",
	"bdi", "bdo", "wbr", "fieldset", "legend", "label", "optgroup", "datalist", "map", "area", "canvas", "audio", "track", "slot",
	"template", "nobr", "listing", "xmp", "plaintext", "noembed", "noframes", "frameset", "frame", "basefont", "bgsound", "isindex",
	"multicol", "spacer", "keygen", "command", "content", "shadow", "image", "math", "mi", "svg", "g", "text", "foreignobject",
	"my-element", "x-card", "o:p", "fb:like", "unknowntag", "h7", "article", "section", "figure", "figcaption", "caption", "th", "tr"}

// exotic: one of those elements around text, inline content, list items or nested blocks
func (g *PageGen) exotic(depth int) string {
	if g.R.Chance(8) {
		// a MathML element that carries the name of a void HTML element: only there can such an
		// element have children (the running text inside it is collected; its rendering copy refuses
		// children, so the words are lost from both views)
		v := g.R.Pick("area", "wbr", "col", "source", "track", "param")
		w := g.R.Pick("", "", "wbr", "area")
		in := g.words(g.R.Range(2, 8))
		if w != "" {
			in = "<" + w + ">" + in + "</" + w + ">"
		}
		return "<p>" + g.words(g.R.Range(3, 20)) + " <math><" + v + ">" + in + "</" + v + "></math> " + g.words(g.R.Range(0, 6)) + "</p>\n"
	}
	t := exoticTags[g.R.Intn(len(exoticTags))]
	var in string
	switch g.R.Intn(6) {
	case 0:
		in = g.words(g.R.Range(1, 30))
	case 1:
		in = g.inline(g.R.Range(3, 20), 0)
	case 2:
		for i := g.R.Range(1, 4); i > 0; i-- {
			in += "<li>" + g.words(g.R.Range(1, 12)) + "</li>"
		}
	case 3:
		if depth < 3 {
			in = g.blocks(g.R.Range(1, 3), depth+1)
		} else {
			in = g.para()
		}
	case 4:
		in = "<" + exoticTags[g.R.Intn(len(exoticTags))] + ">" + g.words(g.R.Range(1, 8)) + "</p>" + g.words(3)
	default:
		in = ""
	}
	if g.R.Chance(15) {
		return "<" + t + g.deco() + ">" + in + "\n" // left open
	}
	return "<" + t + g.deco() + ">" + in + "</" + t + ">\n"
}

// oddText: a block holding nothing but a very short or unusual text — one capital letter (a drop
// cap, an A–Z glossary heading), one digit, a bullet, a dash, white space of several kinds — placed
// directly before a list, a quote, preformatted text or a paragraph
func (g *PageGen) oddText() string {
	t := g.R.Pick("A", "Q", "Z", "I", "a", "x", "7", "•", "—", "©", "&nbsp;", "\u3000", "A.", "É", "Ω", "w", "AB", "…")
	tag := g.R.Pick("p", "div", "h2", "h3", "span", "b", "strong")
	odd := "<" + tag + g.deco() + ">" + t + "</" + tag + ">"
	if g.R.Chance(15) {
		odd = t // bare text in the container
	}
	var next string
	switch g.R.Intn(5) {
	case 0:
		next = g.list(0)
	case 1:
		next = g.quote(0)
	case 2:
		next = "<pre>" + g.words(g.R.Range(3, 15)) + "</pre>\n"
	case 3:
		next = "<ol><li>" + g.words(g.R.Range(20, 60)) + "</li><li>" + g.words(g.R.Range(5, 30)) + "</li></ol>\n"
	default:
		next = g.para()
	}
	return odd + "\n" + next
}

// inlineNest: a list, quote or pre that an inline style turns into an inline(-block) box, with
// nothing but inline content between it and its text, inside a block container
func (g *PageGen) inlineNest() string {
	st := ` style="` + g.R.Pick("display:inline", "display: inline;", "display:inline-block", "display:inline-flex", "color:red;display:inline") + `"`
	inl := func() string { return "<" + g.R.Pick("em", "b", "code", "span") + ">" + g.words(g.R.Range(3, 40)) + "</" + "em>" }
	wrap := g.R.Pick("div", "section", "article")
	var inner string
	switch g.R.Intn(4) {
	case 0:
		inner = "<blockquote" + st + ">" + inl() + "</blockquote>"
	case 1:
		inner = "<pre" + st + "><code>" + g.words(g.R.Range(3, 30)) + "</code></pre>"
	case 2:
		inner = "<ul" + st + "><li" + st + "><b>" + g.words(g.R.Range(3, 30)) + "</b></li><li>" + g.words(5) + "</li></ul>"
	default:
		inner = "<ol><li" + st + ">" + g.words(g.R.Range(3, 30)) + " <i>" + g.words(3) + "</i></li></ol>"
	}
	return "<" + wrap + ">" + inner + "</" + wrap + ">\n"
}

func (g *PageGen) blocks(n, depth int) string {
	var sb strings.Builder
	for i := 0; i < n; i++ {
		sb.WriteString(g.block(depth))
	}
	return sb.String()
}

// Page returns a whole document with n top-level blocks.
func (g *PageGen) Page(n int, title string) string {
	base := ""
	if g.BaseHref != "" {
		base = `<base href="` + g.BaseHref + `">`
	}
	return "<html><head>" + base + "<title>" + title + "</title></head><body>\n" + g.blocks(n, 0) + "</body></html>"
}
