package main

import (
	"fmt"
	"strings"

	distiller "github.com/markusmobius/go-domdistiller"
	"golang.org/x/net/html"
)

// style: what GetDisplayStyle / IsProbablyVisible read from an inline style attribute
// (Model/Style.lean: rxDisplay and rxVisibilityHidden with Go's matching spelled out, all matches,
// the cascade) against the real functions, on declaration lists and on token soup.

var stProps = []string{"display", "DISPLAY", "Display", "diſplay", "visibility", "VISIBILITY", "viſibility", "visibiKity", "color", "margin", "x-display", "displayx", "-webkit-box-orient", "font-family"}
var stVals = []string{"none", "NONE", "None", "block", "inline", "inline-block", "list-item", "hidden", "HIDDEN", "collapse", "collapſe", "visible", "red", "0", "0 auto", "-", "_x", "none none", ":hidden", ":collapse", "hiddenish", "\"a;b\""}
var stImp = []string{"", "", "", "!important", " !important", " ! important ", "!IMPORTANT", "!importan", "! important x", "!ımportant"}
var stWS = []string{"", "", " ", "  ", "\t", "\n", "\r\n", "\f", "\v", " "}
var stSoup = []string{"display", "visibility", ":", ":", ";", ";", " ", "\t", "none", "hidden", "collapse", "block", "!", "important", "!important", "x", "-", "_", "::", "/**/", "DISPLAY", "ſ", "K", "é", "1", "display:", "visibility:", ";;"}

func genStyle(r *Rng) (string, string) {
	var sb strings.Builder
	ws := func() string { return stWS[r.Intn(len(stWS))] }
	if r.Chance(70) {
		n := r.Range(1, 5)
		for i := 0; i < n; i++ {
			p := stProps[r.Intn(len(stProps))]
			if r.Chance(55) {
				p = stProps[r.Intn(7)] // mostly display / visibility
			}
			sb.WriteString(ws() + p + ws() + ":" + ws() + stVals[r.Intn(len(stVals))] + ws() + stImp[r.Intn(len(stImp))] + ws())
			if i < n-1 || r.Chance(50) {
				sb.WriteString(";")
			}
		}
		return sb.String(), "declarations"
	}
	for n := r.Range(1, 10); n > 0; n-- {
		sb.WriteString(stSoup[r.Intn(len(stSoup))])
	}
	return sb.String(), "soup"
}

func styleCorr(ctx *Ctx, n int) *Corr {
	c := newCorr("style")
	for i := 0; i < n; i++ {
		r := newRng(ctx.Seed, fmt.Sprintf("style/%d", i))
		v, kind := genStyle(r)
		node := &html.Node{Type: html.ElementNode, Data: "div", Attr: []html.Attribute{{Key: "style", Val: v}}}
		at := distiller.VerifElementAtoms(node)
		d := at.StyleDisplay
		ds := "-"
		if d != "" {
			ds = hx(d)
		}
		vis := at.VisHidden
		c.add(hx(v), ds+" "+b01(vis), map[string]string{"style": v})
		ctx.Rep.hist("style:" + kind)
		if d != "" {
			ctx.Rep.hist("style-display:" + d)
		}
		if vis {
			ctx.Rep.hist("style-visibility-hidden")
		}
		// the oracle's own declaration reader against the library, where both claim to read CSS:
		// a disagreement on a well-formed declaration list is reported by the C04 oracle on pages;
		// here it is only counted
		if kind == "declarations" {
			if styleDisplayNone(v) != (d == "none") {
				ctx.Rep.hist("style-oracle-differs:display")
			}
			if styleVisHidden(v) != vis {
				ctx.Rep.hist("style-oracle-differs:visibility")
			}
		}
	}
	return c
}
