package main

import (
	"fmt"
	nurl "net/url"
	"regexp"
	"strings"

	distiller "github.com/markusmobius/go-domdistiller"
	"golang.org/x/net/html"
)

// Black-box oracles for the content pipeline (C02–C07, C09): they look only at the source
// page and at the public Result (plus, for C09's word-count clause, the element dump).

type distilled struct {
	D    *Doc
	Src  string
	Res  *distiller.Result
	URL  *nurl.URL
	Root *html.Node // element root the extractor works on
}

func distill(src string, u *nurl.URL) (*distilled, error) {
	d := parseDoc(src)
	res, err := distiller.Apply(d.Root, &distiller.Options{OriginalURL: u, SkipPagination: true})
	if err != nil {
		return nil, err
	}
	return &distilled{D: d, Src: src, Res: res, URL: u, Root: d.elementRoot()}, nil
}

func inPlaceholder(n *html.Node) bool {
	for p := n; p != nil; p = p.Parent {
		if p.Type == html.ElementNode && strings.Contains(getAttr(p, "class"), "embed-placeholder") {
			return true
		}
	}
	return false
}

// output tokens of Result.Node in document order (optionally outside placeholders)
func outputNodeTokens(root *html.Node, skipPlaceholders bool) []string {
	var out []string
	var walk func(*html.Node)
	walk = func(n *html.Node) {
		if skipPlaceholders && n.Type == html.ElementNode && strings.Contains(getAttr(n, "class"), "embed-placeholder") {
			return
		}
		if n.Type == html.TextNode || n.Type == html.CommentNode {
			out = append(out, tokensOf(n.Data)...)
		}
		for c := n.FirstChild; c != nil; c = c.NextSibling {
			walk(c)
		}
	}
	walk(root)
	return out
}

func isSubsequence(xs, of []string) (bool, string) {
	j := 0
	for _, x := range xs {
		for j < len(of) && of[j] != x {
			j++
		}
		if j == len(of) {
			return false, x
		}
		j++
	}
	return true, ""
}

// ---------- C02 ----------

func oracleC02(rep *Report, x *distilled, replay interface{}) {
	srcToks := subtreeTokens(x.D.Root)
	// the visible text of the source: words of text nodes that are not inside a non-rendered
	// element (a word may also occur in <title> or another hidden place and still be visible)
	srcSet := map[string]bool{}
	var tw func(*html.Node)
	tw = func(n *html.Node) {
		if n.Type == html.TextNode {
			if cls, _ := hiddenClass(n); !strings.HasPrefix(cls, "hidden:") {
				for _, t := range tokensOf(n.Data) {
					srcSet[t] = true
				}
			}
		}
		for c := n.FirstChild; c != nil; c = c.NextSibling {
			tw(c)
		}
	}
	tw(x.D.Root)
	check := func(view string, toks []string) {
		seen := map[string]bool{}
		for _, t := range toks {
			if !srcSet[t] {
				rep.violate(map[string]string{"clause": "invented", "view": view}, fmt.Sprintf("%s contains word %s that is not in the visible text of the source", view, t), replay)
				return
			}
			if seen[t] {
				rep.violate(map[string]string{"clause": "duplicated", "view": view}, fmt.Sprintf("%s emits source word %s more than once", view, t), replay)
				return
			}
			seen[t] = true
		}
		if ok, at := isSubsequence(toks, srcToks); !ok {
			rep.violate(map[string]string{"clause": "reordered", "view": view, "shape": reorderShape(x, at)}, fmt.Sprintf("%s does not keep source order (at word %s)", view, at), replay)
		}
	}
	check("text", tokensOf(x.Res.Text))
	check("html", outputNodeTokens(x.Res.Node, false))
}

// reorderShape names the kind of source construct the out-of-order word sits in.
func reorderShape(x *distilled, tok string) string {
	var found *html.Node
	var walk func(*html.Node)
	walk = func(n *html.Node) {
		if found != nil {
			return
		}
		if n.Type == html.TextNode && strings.Contains(" "+n.Data+" ", tok) {
			for _, t := range tokensOf(n.Data) {
				if t == tok {
					found = n
				}
			}
		}
		for c := n.FirstChild; c != nil; c = c.NextSibling {
			walk(c)
		}
	}
	walk(x.D.Root)
	if found == nil {
		return "?"
	}
	var chain []string
	for p := found.Parent; p != nil; p = p.Parent {
		if p.Type == html.ElementNode {
			switch p.Data {
			case "figure", "figcaption", "picture", "table", "noscript", "video":
				chain = append(chain, p.Data)
			}
		}
	}
	if len(chain) == 0 {
		return "plain"
	}
	return strings.Join(chain, "<")
}

// ---------- C03 ----------

var plainInline = map[string]bool{"b": true, "i": true, "em": true, "strong": true, "span": true, "u": true, "code": true, "font": true, "a": true}

func isSimplePara(p *html.Node) bool {
	ok := true
	var walk func(*html.Node)
	walk = func(n *html.Node) {
		for c := n.FirstChild; c != nil && ok; c = c.NextSibling {
			switch c.Type {
			case html.TextNode:
			case html.ElementNode:
				if c.Data == "br" {
					continue
				}
				if !plainInline[c.Data] {
					ok = false
					return
				}
				for _, a := range c.Attr {
					if a.Key == "data-vid" || (c.Data == "a" && a.Key == "href") {
						continue
					}
					ok = false
				}
				if c.Data == "a" && strings.Contains(getAttr(c, "href"), "action=edit&section=") {
					ok = false
				}
				walk(c)
			default:
				ok = false
			}
		}
	}
	walk(p)
	return ok
}

func oracleC03(rep *Report, x *distilled, replay interface{}) (nSimple, nKept, nDropped int) {
	out := map[string]bool{}
	for _, t := range tokensOf(x.Res.Text) {
		out[t] = true
	}
	var ps []*html.Node
	findAll(x.D.Root, func(n *html.Node) bool { return n.Type == html.ElementNode && n.Data == "p" }, &ps)
	for _, p := range ps {
		if !isSimplePara(p) {
			continue
		}
		toks := subtreeTokens(p)
		if len(toks) == 0 {
			continue
		}
		nSimple++
		k := 0
		for _, t := range toks {
			if out[t] {
				k++
			}
		}
		switch {
		case k == 0:
			nDropped++
		case k == len(toks):
			nKept++
		default:
			shape := "other"
			var js []*html.Node
			findAll(p, func(n *html.Node) bool {
				return n.Type == html.ElementNode && n.Data == "a" && strings.HasPrefix(getAttr(n, "href"), "javascript:")
			}, &js)
			if len(js) > 0 {
				shape = "has-javascript-anchor"
			}
			where := "body"
			if hasAncestorTag(p, "li") {
				where = "li"
			} else if hasAncestorTag(p, "td", "th") {
				where = "cell"
			} else if hasAncestorTag(p, "blockquote") {
				where = "blockquote"
			}
			rep.violate(map[string]string{"clause": "paragraph-cut", "shape": shape, "where": where},
				fmt.Sprintf("simple paragraph (vid %s) has %d of its %d words in the distilled text", getAttr(p, "data-vid"), k, len(toks)), replay)
		}
	}
	return
}

// ---------- C04 ----------

// cssValue: the value an inline style gives a property, read the way a browser's declaration
// parser does for the simple declarations the generators write (independent of the library's
// regular expressions): declarations separated by ';', name and value separated by the first ':',
// white space around both ignored, names and keywords case-insensitive, a trailing `!important`
// taken off; the last important declaration wins, else the last one.
func cssValue(style, prop string) (string, bool) {
	val, found, important := "", false, false
	for _, decl := range strings.Split(style, ";") {
		k := strings.IndexByte(decl, ':')
		if k < 0 {
			continue
		}
		name := strings.ToLower(strings.TrimSpace(decl[:k]))
		if name != prop {
			continue
		}
		v := strings.ToLower(strings.TrimSpace(decl[k+1:]))
		imp := false
		if i := strings.LastIndexByte(v, '!'); i >= 0 && strings.TrimSpace(v[i+1:]) == "important" {
			imp = true
			v = strings.TrimSpace(v[:i])
		}
		if imp || !important {
			val, found = v, true
			important = important || imp
		}
	}
	return val, found
}

func styleDisplayNone(style string) bool {
	v, ok := cssValue(style, "display")
	return ok && v == "none"
}

func styleVisHidden(style string) bool {
	v, ok := cssValue(style, "visibility")
	return ok && (v == "hidden" || v == "collapse")
}

var nonReadingTags = map[string]bool{"form": true, "input": true, "button": true, "select": true, "option": true, "textarea": true,
	"noscript": true, "svg": true, "object": true, "embed": true, "applet": true, "iframe": true}

// hiddenClass: "" visible; "hidden:<how>" for non-rendered; "nonreading:<tag>" for form controls etc.
func hiddenClass(n *html.Node) (string, bool) { return hiddenClassFrom(n.Parent) }

// hiddenClassFrom: the same for a node whose innermost enclosing element is `from`
func hiddenClassFrom(from *html.Node) (string, bool) {
	insideTableOrFigure := false
	cls := ""
	for p := from; p != nil; p = p.Parent {
		if p.Type != html.ElementNode {
			continue
		}
		switch {
		case p.Data == "script" || p.Data == "style" || p.Data == "head":
			cls = "hidden:" + p.Data
		case hasAttr(p, "hidden"):
			cls = "hidden:hidden-attr"
		case styleDisplayNone(getAttr(p, "style")):
			cls = "hidden:display-none"
		case styleVisHidden(getAttr(p, "style")):
			cls = "hidden:visibility"
		case getAttr(p, "aria-hidden") == "true" && !strings.Contains(getAttr(p, "class"), "fallback-image"):
			cls = "hidden:aria-hidden"
		case nonReadingTags[p.Data] && !strings.HasPrefix(cls, "hidden:"):
			cls = "nonreading:" + p.Data
		}
		if p.Data == "table" || p.Data == "figure" {
			insideTableOrFigure = true
		}
	}
	return cls, insideTableOrFigure
}

func oracleC04(rep *Report, x *distilled, replay interface{}) (nHidden int) {
	outText := map[string]bool{}
	for _, t := range tokensOf(x.Res.Text) {
		outText[t] = true
	}
	outHTML := map[string]bool{}
	for _, t := range outputNodeTokens(x.Res.Node, true) {
		outHTML[t] = true
	}
	var walk func(*html.Node)
	walk = func(n *html.Node) {
		if n.Type == html.TextNode {
			toks := tokensOf(n.Data)
			if len(toks) > 0 {
				cls, inTF := hiddenClass(n)
				if cls != "" {
					nHidden++
					exempt := strings.HasPrefix(cls, "nonreading:") && inTF
					if !exempt {
						for _, t := range toks {
							carrier := "plain"
							if inTF {
								carrier = "table-or-figure"
							}
							if outText[t] {
								rep.violate(map[string]string{"clause": "leak-text", "class": cls, "carrier": carrier}, fmt.Sprintf("word %s from %s content appears in the distilled text", t, cls), replay)
							}
							if outHTML[t] {
								rep.violate(map[string]string{"clause": "leak-html", "class": cls, "carrier": carrier}, fmt.Sprintf("word %s from %s content appears in the distilled HTML", t, cls), replay)
							}
						}
					}
				}
			}
		}
		if n.Type == html.CommentNode {
			for _, t := range tokensOf(n.Data) {
				if outText[t] || outHTML[t] {
					rep.violate(map[string]string{"clause": "leak", "class": "comment"}, fmt.Sprintf("word %s from a comment appears in the output", t), replay)
				}
			}
		}
		for c := n.FirstChild; c != nil; c = c.NextSibling {
			walk(c)
		}
	}
	walk(x.D.Root)
	return
}

// ---------- C05 ----------

func oracleC05(rep *Report, x *distilled, replay interface{}) {
	var all []*html.Node
	findAll(x.Res.Node, func(n *html.Node) bool { return n.Type == html.ElementNode }, &all)
	for _, e := range all {
		if e == x.Res.Node {
			continue
		}
		where := "content"
		if inPlaceholder(e) {
			where = "inside-placeholder"
		}
		if e.Data == "script" || e.Data == "style" {
			rep.violate(map[string]string{"clause": "script-or-style-element", "tag": e.Data, "where": where, "carrier": carrierOf(e)}, fmt.Sprintf("<%s> element in the distilled HTML (%s)", e.Data, where), replay)
		}
		isWrapper := e.Data == "div" && getAttr(e, "class") == "embed-placeholder"
		for _, a := range e.Attr {
			k := strings.ToLower(a.Key)
			bad := ""
			switch {
			case strings.HasPrefix(k, "on"):
				bad = "event-handler"
			case k == "id" || k == "style":
				bad = k
			case k == "class":
				if !isWrapper {
					bad = "class"
				}
			case strings.HasPrefix(k, "data-"):
				if !(isWrapper && (k == "data-type" || k == "data-id")) {
					bad = "data-attr"
				}
			}
			if bad != "" {
				rep.violate(map[string]string{"clause": "forbidden-attribute", "kind": bad, "tag": e.Data, "where": where, "carrier": carrierOf(e)},
					fmt.Sprintf("attribute %s=%q on <%s> in the distilled HTML (%s)", a.Key, a.Val, e.Data, where), replay)
			}
		}
	}
}

func carrierOf(e *html.Node) string {
	for p := e.Parent; p != nil; p = p.Parent {
		if p.Type == html.ElementNode {
			switch p.Data {
			case "table", "figure", "figcaption", "video", "picture":
				return p.Data
			}
		}
	}
	return "plain"
}

// ---------- C06 ----------

// srcsetCandidates: the image candidate URLs of a srcset value, as the HTML standard's "parse a
// srcset attribute" finds them (independent of the library's regular expression): skip white
// space and commas; the URL is the run of non-white-space characters; if it ends in commas they
// are stripped and the candidate has no descriptors; otherwise descriptors run up to the next
// comma outside parentheses.  Candidates whose descriptors a browser would reject are still
// returned: the oracle asks about URLs only.
func srcsetCandidates(v string) []string {
	isWS := func(c byte) bool { return c == ' ' || c == '\t' || c == '\n' || c == '\f' || c == '\r' }
	var out []string
	i := 0
	for {
		for i < len(v) && (isWS(v[i]) || v[i] == ',') {
			i++
		}
		if i >= len(v) {
			return out
		}
		j := i
		for j < len(v) && !isWS(v[j]) {
			j++
		}
		u := v[i:j]
		i = j
		if strings.HasSuffix(u, ",") {
			u = strings.TrimRight(u, ",")
		} else {
			depth := 0
			for i < len(v) {
				c := v[i]
				if c == '(' {
					depth++
				} else if c == ')' && depth > 0 {
					depth--
				} else if c == ',' && depth == 0 {
					i++
					break
				}
				i++
			}
		}
		out = append(out, u)
	}
}
var rxURLTok = regexp.MustCompile(`[ml]\d+`)

func passThrough(v string) bool {
	return strings.HasPrefix(v, "#") || strings.HasPrefix(v, "data:") || strings.HasPrefix(v, "javascript:") || v == ""
}

func oracleC06(rep *Report, x *distilled, replay interface{}) (nRel int) {
	if x.URL == nil {
		return
	}
	// original values by unique token
	orig := map[string][]string{}
	var els []*html.Node
	findAll(x.D.Root, func(n *html.Node) bool { return n.Type == html.ElementNode }, &els)
	addOrig := func(v string) {
		for _, t := range rxURLTok.FindAllString(v, -1) {
			orig[t] = append(orig[t], v)
		}
	}
	for _, e := range els {
		for _, a := range e.Attr {
			switch a.Key {
			case "href", "src", "poster", "data-src", "data-original", "data-url", "datasrc":
				addOrig(a.Val)
			case "srcset", "data-srcset", "datasrcset":
				for _, c := range srcsetCandidates(a.Val) {
					addOrig(c)
				}
			}
		}
	}
	check := func(kind, tag, v string) {
		if passThrough(v) {
			return
		}
		u, err := nurl.Parse(v)
		sig := map[string]string{"clause": "not-absolute", "attr": kind, "tag": tag}
		if err != nil {
			return // unparseable values are passed through unchanged
		}
		if !u.IsAbs() || u.Host == "" {
			rep.violate(sig, fmt.Sprintf("%s on <%s> is not absolute: %q", kind, tag, v), replay)
			return
		}
		for _, t := range rxURLTok.FindAllString(v, -1) {
			ok := len(orig[t]) == 0
			for _, o := range orig[t] {
				if ou, err := nurl.Parse(o); err == nil {
					if o != v {
						nRel++
					}
					if x.URL.ResolveReference(ou).String() == v || o == v {
						ok = true
					}
				} else if o == v {
					ok = true
				}
			}
			if !ok {
				sig["clause"] = "not-resolved-against-page-url"
				rep.violate(sig, fmt.Sprintf("%s on <%s> is %q, which is not the original value %q resolved against %s", kind, tag, v, orig[t], x.URL), replay)
			}
			break
		}
	}
	var outEls []*html.Node
	findAll(x.Res.Node, func(n *html.Node) bool { return n.Type == html.ElementNode && !inPlaceholder(n) }, &outEls)
	for _, e := range outEls {
		for _, a := range e.Attr {
			switch {
			case a.Key == "href" && e.Data == "a":
				check("href", e.Data, a.Val)
			case a.Key == "src" && (e.Data == "img" || e.Data == "source" || e.Data == "track" || e.Data == "video"):
				check("src", e.Data, a.Val)
			case a.Key == "poster" && e.Data == "video":
				check("poster", e.Data, a.Val)
			case a.Key == "srcset":
				for _, c := range srcsetCandidates(a.Val) {
					check("srcset", e.Data, c)
				}
			}
		}
	}
	for _, v := range x.Res.ContentImages {
		check("ContentImages", "-", v)
	}
	return
}

// ---------- C07 ----------

var nestable = map[string]bool{"ul": true, "ol": true, "li": true, "blockquote": true, "pre": true}

func chainOf(n *html.Node, stop *html.Node) string {
	var c []string
	for p := n.Parent; p != nil && p != stop; p = p.Parent {
		if p.Type == html.ElementNode && nestable[p.Data] {
			c = append(c, p.Data)
		}
	}
	// outermost first
	for i, j := 0, len(c)-1; i < j; i, j = i+1, j-1 {
		c[i], c[j] = c[j], c[i]
	}
	return strings.Join(c, ">")
}

func tokenChains(root *html.Node, skipPlaceholders bool) map[string]string {
	out := map[string]string{}
	var walk func(*html.Node)
	walk = func(n *html.Node) {
		if skipPlaceholders && n.Type == html.ElementNode && strings.Contains(getAttr(n, "class"), "embed-placeholder") {
			return
		}
		if n.Type == html.TextNode {
			for _, t := range tokensOf(n.Data) {
				out[t] = chainOf(n, root)
			}
		}
		for c := n.FirstChild; c != nil; c = c.NextSibling {
			walk(c)
		}
	}
	walk(root)
	return out
}

func oracleC07(rep *Report, x *distilled, replay interface{}) (deep int, partial bool) {
	src := tokenChains(x.D.Root, false)
	out := tokenChains(x.Res.Node, true)
	for t, oc := range out {
		sc, ok := src[t]
		if !ok {
			continue
		}
		if strings.Count(sc, ">") >= 1 {
			deep++
		}
		if oc != sc {
			rep.violate(map[string]string{"clause": "chain-changed", "src_depth": fmt.Sprint(strings.Count(sc, ">") + b2i(sc != "")), "out_depth": fmt.Sprint(strings.Count(oc, ">") + b2i(oc != ""))},
				fmt.Sprintf("word %s: chain in source %q, in distilled HTML %q", t, sc, oc), replay)
			break
		}
	}
	// partially retained lists: some li of a list kept and some dropped
	var lis []*html.Node
	findAll(x.D.Root, func(n *html.Node) bool { return n.Type == html.ElementNode && n.Data == "li" }, &lis)
	kept, dropped := 0, 0
	for _, li := range lis {
		ts := subtreeTokens(li)
		if len(ts) == 0 {
			continue
		}
		if _, ok := out[ts[0]]; ok {
			kept++
		} else {
			dropped++
		}
	}
	partial = kept > 0 && dropped > 0
	// retained data tables keep all rows and cells
	var tables []*html.Node
	findAll(x.Res.Node, func(n *html.Node) bool {
		return n.Type == html.ElementNode && n.Data == "table" && !hasAncestorTag(n, "table")
	}, &tables)
	var srcTables []*html.Node
	findAll(x.D.Root, func(n *html.Node) bool { return n.Type == html.ElementNode && n.Data == "table" }, &srcTables)
	for _, ot := range tables {
		ots := subtreeTokens(ot)
		if len(ots) == 0 {
			continue
		}
		for _, st := range srcTables {
			sts := subtreeTokens(st)
			if len(sts) == 0 || sts[0] != ots[0] {
				continue
			}
			count := func(root *html.Node, visibleOnly bool) (rows, cells int) {
				var es []*html.Node
				findAll(root, func(n *html.Node) bool {
					return n.Type == html.ElementNode && (n.Data == "tr" || n.Data == "td" || n.Data == "th")
				}, &es)
				for _, e := range es {
					if visibleOnly {
						if c, _ := hiddenClassFrom(e); strings.HasPrefix(c, "hidden:") {
							continue
						}
					}
					if e.Data == "tr" {
						rows++
					} else {
						cells++
					}
				}
				return
			}
			sr, sc := count(st, true)
			or, oc := count(ot, false)
			if or < sr || oc < sc {
				rep.violate(map[string]string{"clause": "table-not-whole"}, fmt.Sprintf("retained data table has %d rows/%d cells, source has %d/%d", or, oc, sr, sc), replay)
			}
		}
	}
	return
}

func b2i(b bool) int {
	if b {
		return 1
	}
	return 0
}

// ---------- C09 ----------

var rxWord = regexp.MustCompile(`\S*[\w\x{00C0}-\x{1FFF}]\S*`)

func visibleOutputTokens(root *html.Node) []string {
	var out []string
	var walk func(*html.Node)
	walk = func(n *html.Node) {
		if n.Type == html.ElementNode {
			if strings.Contains(getAttr(n, "class"), "embed-placeholder") {
				return
			}
			if hasAttr(n, "hidden") || styleDisplayNone(getAttr(n, "style")) || styleVisHidden(getAttr(n, "style")) || getAttr(n, "aria-hidden") == "true" ||
				n.Data == "script" || n.Data == "style" {
				return
			}
		}
		if n.Type == html.TextNode {
			out = append(out, tokensOf(n.Data)...)
		}
		for c := n.FirstChild; c != nil; c = c.NextSibling {
			walk(c)
		}
	}
	walk(root)
	return out
}

func oracleC09(rep *Report, x *distilled, dump *distiller.VerifExtractResult, replay interface{}) (textOnly bool) {
	tt := tokensOf(x.Res.Text)
	ht := visibleOutputTokens(x.Res.Node)
	if strings.Join(tt, " ") != strings.Join(ht, " ") {
		// first difference
		i := 0
		for i < len(tt) && i < len(ht) && tt[i] == ht[i] {
			i++
		}
		at := "end"
		if i < len(ht) {
			at = ht[i]
		} else if i < len(tt) {
			at = tt[i]
		}
		rep.violate(map[string]string{"clause": "text-vs-html", "shape": reorderShape(x, at)},
			fmt.Sprintf("word sequence of Result.Text and of the visible text of Result.Node differ at word %d (%s): text has %d words, html %d", i, at, len(tt), len(ht)), replay)
	}
	// ContentImages: in order, each the src or a srcset candidate of an img/source in the output
	var cands []string
	var els []*html.Node
	findAll(x.Res.Node, func(n *html.Node) bool {
		return n.Type == html.ElementNode && (n.Data == "img" || n.Data == "source") && !inPlaceholder(n)
	}, &els)
	for _, e := range els {
		if s := getAttr(e, "src"); s != "" {
			cands = append(cands, s)
		}
		cands = append(cands, srcsetCandidates(getAttr(e, "srcset"))...)
	}
	if ok, at := isSubsequence(x.Res.ContentImages, cands); !ok {
		rep.violate(map[string]string{"clause": "content-images"}, fmt.Sprintf("ContentImages entry %q is not, in order, the src/srcset of an image in the distilled HTML", at), replay)
	}
	// word count, when only text blocks are retained and no title block is detected
	if dump != nil {
		textOnly = true
		for _, e := range dump.Elems {
			if e.IsContent && e.Kind != "text" && e.Kind != "tag" {
				textOnly = false
			}
			if e.Kind == "text" && e.Title {
				textOnly = false
			}
		}
		if textOnly {
			n := len(rxWord.FindAllString(x.Res.Text, -1))
			if n != x.Res.WordCount {
				rep.violate(map[string]string{"clause": "word-count"}, fmt.Sprintf("WordCount=%d but the distilled text has %d words", x.Res.WordCount, n), replay)
			}
		}
	}
	return
}
