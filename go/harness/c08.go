package main

import (
	"fmt"
	nurl "net/url"
	"regexp"
	"strconv"
	"strings"

	distiller "github.com/markusmobius/go-domdistiller"
	"golang.org/x/net/html"
)

func init() { props["C08"] = runC08 }

var pageURL, _ = nurl.Parse("http://example.com/dir/page.html")

var rxScore = regexp.MustCompile(`^Final image score: (-?\d+) : `)

func kindCode(e distiller.VerifElem) int {
	switch e.Kind {
	case "text":
		return 0
	case "tag":
		if e.TagStart {
			return 1
		}
		return 2
	case "image":
		return 3
	case "figure":
		return 4
	case "video":
		return 5
	case "embed":
		return 6
	case "table":
		return 7
	}
	return 9
}

func isMediaKind(k string) bool {
	return k == "image" || k == "figure" || k == "video" || k == "embed" || k == "table"
}

func flagsOf(es []distiller.VerifElem) string {
	var sb strings.Builder
	for _, e := range es {
		sb.WriteString(b01(e.IsContent))
	}
	return sb.String()
}

func scoresOf(vis []string) []string {
	var out []string
	for _, l := range vis {
		if m := rxScore.FindStringSubmatch(l); m != nil {
			out = append(out, m[1])
		}
	}
	return out
}

// docfiltersCase builds the model input for the three document filters from the final dump:
// Text flags as they are (the filters never change them), all other flags cleared (fresh
// document), plus the candidate scores captured from the implementation's own log.
func docfiltersCase(d *Doc, res *distiller.VerifExtractResult) (payload, impl string) {
	var sb strings.Builder
	fmt.Fprintf(&sb, "%d", len(res.Elems))
	for _, e := range res.Elems {
		f := e.IsContent && e.Kind == "text"
		fmt.Fprintf(&sb, " %d %s", kindCode(e), b01(f))
	}
	sc := scoresOf(res.Visibility)
	fmt.Fprintf(&sb, " %d", len(sc))
	for _, s := range sc {
		sb.WriteString(" " + s)
	}
	sb.WriteString(imageGeometry(d, res))
	return sb.String(), "ok " + flagsOf(res.Elems)
}

// sourceOrder lists, in document order, the word tokens and the element vids of the page.
// imageGeometry: for every image / figure element the harness can place in the SOURCE tree, what
// the two lead-image scorers look at, computed here on the source tree: depth of the first content
// text node minus depth of its nearest common ancestor-or-self with the image element, and whether
// the element or an ancestor is a <figure>.  " k (index depthDiff figure)*"
func imageGeometry(d *Doc, res *distiller.VerifExtractResult) string {
	var first *html.Node
	for _, e := range res.Elems {
		if e.Kind != "text" || !e.IsContent {
			continue
		}
		// Text.FirstNonWhitespaceTextNode: TextNodes[FirstWordNode]; the dump holds the window [Start, End)
		if k := e.FirstWord - e.Start; k >= 0 && k < len(e.Nodes) {
			for _, t := range tokensOf(e.Nodes[k].Data) {
				for _, n := range d.Nodes {
					if n.Type == html.TextNode && n.Data == e.Nodes[k].Data && containsTok(n.Data, t) {
						first = n
						break
					}
				}
				break
			}
		}
		break
	}
	if first == nil {
		return " 0"
	}
	depth := func(n *html.Node) int {
		k := 0
		for p := n.Parent; p != nil; p = p.Parent {
			k++
		}
		return k
	}
	// the converter replaces a javascript: anchor whose only child is a text node by that text
	// node in its working copy: there the node is one level higher than in the source
	lifted := 0
	if a := first.Parent; a != nil && a.Type == html.ElementNode && a.Data == "a" && strings.HasPrefix(getAttr(a, "href"), "javascript:") &&
		a.FirstChild == first && first.NextSibling == nil && a.Parent != nil {
		lifted = 1
	}
	anc := map[*html.Node]bool{}
	for p := first; p != nil; p = p.Parent {
		anc[p] = true
	}
	var parts []string
	for i, e := range res.Elems {
		if (e.Kind != "image" && e.Kind != "figure") || e.ElemVid == "" {
			continue
		}
		id, err := strconv.Atoi(e.ElemVid)
		if err != nil || id < 0 || id >= len(d.Nodes) {
			continue
		}
		n := d.Nodes[id]
		fig := false
		var nca *html.Node
		for p := n; p != nil; p = p.Parent {
			if p.Type == html.ElementNode && p.Data == "figure" {
				fig = true
			}
			if nca == nil && anc[p] {
				nca = p
			}
		}
		if nca == nil {
			continue
		}
		parts = append(parts, fmt.Sprintf("%d %d %s", i, depth(first)-lifted-depth(nca), b01(fig)))
	}
	return fmt.Sprintf(" %d %s", len(parts), strings.Join(parts, " "))
}

func containsTok(data, t string) bool {
	for _, x := range tokensOf(data) {
		if x == t {
			return true
		}
	}
	return false
}

type srcEvent struct {
	tok string
	vid string
}

func sourceEvents(root *html.Node) []srcEvent {
	var out []srcEvent
	var walk func(*html.Node)
	walk = func(n *html.Node) {
		switch n.Type {
		case html.TextNode:
			for _, t := range tokensOf(n.Data) {
				out = append(out, srcEvent{tok: t})
			}
		case html.ElementNode:
			out = append(out, srcEvent{vid: getAttr(n, "data-vid")})
		}
		for c := n.FirstChild; c != nil; c = c.NextSibling {
			walk(c)
		}
	}
	walk(root)
	return out
}

// c08Oracle checks the property on the implementation's own final element dump, with
// "nearest preceding text" taken from the *source* order of the page.
func c08Oracle(ctx *Ctx, d *Doc, root *html.Node, res *distiller.VerifExtractResult, replay interface{}) (nontrivial bool) {
	tokText := map[string]int{}
	for i, e := range res.Elems {
		if e.Kind != "text" {
			continue
		}
		for _, n := range e.Nodes {
			for _, t := range tokensOf(n.Data) {
				tokText[t] = i
			}
		}
	}
	evs := sourceEvents(root)
	pos := map[string]int{}
	for i, ev := range evs {
		if ev.vid != "" {
			pos[ev.vid] = i
		}
	}
	promoted := 0
	afterKept, afterDropped := false, false
	for _, e := range res.Elems {
		if !isMediaKind(e.Kind) {
			continue
		}
		if e.ElemVid == "" {
			ctx.Rep.hist("media-unlocated")
			continue
		}
		p, ok := pos[e.ElemVid]
		if !ok {
			ctx.Rep.hist("media-unlocated")
			continue
		}
		expected := false
		for j := p - 1; j >= 0; j-- {
			if evs[j].tok == "" {
				continue
			}
			if ti, ok := tokText[evs[j].tok]; ok {
				expected = res.Elems[ti].IsContent
				break
			}
		}
		if expected {
			afterKept = true
		} else {
			afterDropped = true
		}
		ctx.Rep.hist("media:" + e.Kind + ":" + b01(e.IsContent))
		if e.IsContent == expected {
			continue
		}
		if e.IsContent && !expected && (e.Kind == "image" || e.Kind == "figure") {
			promoted++
			if promoted == 1 {
				ctx.Rep.hist("lead-image-promoted")
				continue
			}
			ctx.Rep.violate(map[string]string{"clause": "at-most-one-lead", "kind": e.Kind},
				"more than one image/figure retained after dropped text", replay)
			continue
		}
		ctx.Rep.violate(map[string]string{"clause": "media-iff-preceding-text", "kind": e.Kind, "retained": b01(e.IsContent), "preceding_text_retained": b01(expected)},
			fmt.Sprintf("%s element (vid %s) retained=%v but nearest preceding text retained=%v", e.Kind, e.ElemVid, e.IsContent, expected), replay)
	}
	return afterKept && afterDropped
}

func structHash(es []distiller.VerifElem) string {
	var sb strings.Builder
	for _, e := range es {
		sb.WriteString(strconv.Itoa(kindCode(e)))
		sb.WriteString(b01(e.IsContent))
	}
	return sb.String()
}

type pageReplay struct {
	HTML string `json:"html"`
	URL  string `json:"url"`
}

func runC08(ctx *Ctx) {
	rep := ctx.Rep
	rep.Rule = "generated article-like pages (unique word tokens, media of every kind between kept and dropped text); distinct by sequence of element kinds+flags; non-trivial = at least one media element after retained text and one after dropped text (per source order)"
	corr := newCorr("docfilters")
	run := func(src string) {
		d := parseDoc(src)
		root := d.elementRoot()
		res := distiller.VerifExtract(root, pageURL, distiller.LogVisibility)
		rep.Evaluations++
		replay := pageReplay{HTML: src, URL: pageURL.String()}
		// FreshMedia premise of the theorem, checked on a single real pass
		payload, impl := docfiltersCase(d, res)
		corr.add(payload, impl, replay)
		if c08Oracle(ctx, d, root, res, replay) {
			rep.nontrivial(structHash(res.Elems))
		}
		rep.sample(map[string]interface{}{"kinds_flags": structHash(res.Elems), "html_len": len(src)})
	}
	if ctx.Replay != "" {
		var r pageReplay
		readReplay(ctx.Replay, &r)
		run(r.HTML)
		corr.run(ctx)
		return
	}
	for _, src := range corpusPages(ctx, "C08") {
		run(src)
	}
	n := ctx.pick(400, 20000)
	for i := 0; i < n; i++ {
		g := newPageGen(newRng(ctx.Seed, fmt.Sprintf("C08/%d", i)))
		g.Weights = []W{{"para", 30}, {"shortpara", 10}, {"heading", 4}, {"list", 5}, {"quote", 2}, {"datatable", 8},
			{"figure", 10}, {"img", 10}, {"video", 6}, {"embed", 8}, {"links", 8}, {"unlikely", 3}, {"divwrap", 6}, {"baretext", 4}, {"hidden", 2}}
		g.RepeatMedia = i%2 == 1
		if g.RepeatMedia {
			rep.hist("pages-with-repeated-media-urls")
		}
		run(g.Page(g.R.Range(4, 14), "t"))
	}
	corr.run(ctx)
}
