package main

import (
	"bytes"
	"fmt"
	nurl "net/url"
	"os"
	"path/filepath"
	"runtime/debug"
	"strings"
	"time"

	distiller "github.com/markusmobius/go-domdistiller"
	"golang.org/x/net/html"
	"golang.org/x/net/html/atom"
)

func init() { props["C01"] = runC01 }

type callOutcome struct {
	Class string // ok, err, panic, hang, bad-result
	Site  string // top frames of a panic
	Msg   string
}

// guarded runs f under recover and a watchdog.
func guarded(f func() (*distiller.Result, error), limit time.Duration) callOutcome {
	done := make(chan callOutcome, 1)
	go func() {
		defer func() {
			if r := recover(); r != nil {
				done <- callOutcome{Class: "panic", Msg: fmt.Sprint(r), Site: panicSite(string(debug.Stack()))}
			}
		}()
		res, err := f()
		switch {
		case err != nil:
			done <- callOutcome{Class: "err", Msg: err.Error()}
		case res == nil || res.Node == nil || res.Node.Type != html.ElementNode || res.Node.Data != "div":
			done <- callOutcome{Class: "bad-result", Msg: "nil error but content node is not a div element"}
		default:
			done <- callOutcome{Class: "ok"}
		}
	}()
	select {
	case o := <-done:
		return o
	case <-time.After(limit):
		return callOutcome{Class: "hang", Msg: fmt.Sprintf("no answer within %s", limit)}
	}
}

// panicSite: the first two frames inside the library, without addresses.
func panicSite(stack string) string {
	var frames []string
	for _, l := range strings.Split(stack, "\n") {
		l = strings.TrimSpace(l)
		if strings.HasPrefix(l, "github.com/markusmobius/go-domdistiller") && !strings.Contains(l, "verif") {
			if i := strings.Index(l, "("); i > 0 {
				l = l[:i]
			}
			l = strings.TrimPrefix(l, "github.com/markusmobius/go-domdistiller/")
			frames = append(frames, l)
			if len(frames) == 2 {
				break
			}
		}
	}
	return strings.Join(frames, " <- ")
}

type optSpec struct {
	Nil   bool
	Flags uint
	URL   string // "" nil
	Skip  bool
	Algo  int
}

func (o optSpec) build() *distiller.Options {
	if o.Nil {
		return nil
	}
	opts := &distiller.Options{LogFlags: distiller.LogFlag(o.Flags), SkipPagination: o.Skip, PaginationAlgo: distiller.PaginationAlgo(o.Algo)}
	switch o.URL {
	case "":
	case "EMPTY":
		opts.OriginalURL = &nurl.URL{}
	default:
		if u, err := nurl.Parse(o.URL); err == nil {
			opts.OriginalURL = u
		}
	}
	return opts
}

var c01URLs = []string{"", "http://example.com/dir/story?page=2", "http://example.com/dir/story/", "mailto:someone@example.com", "relative/path", "EMPTY",
	"http://example.com/caf%C3%A9/p%20q/3", "https://user:pw@example.com:8443/a/b/c.html#frag", "http://example.com", "file:///tmp/x.html", "http://[::1]/x/2"}

func randOpts(r *Rng) optSpec {
	return optSpec{Nil: r.Chance(8), Flags: uint(r.Intn(16)) * 2, URL: c01URLs[r.Intn(len(c01URLs))], Skip: r.Chance(20), Algo: r.Intn(2)}
}

func cloneTree(n *html.Node) *html.Node {
	c := &html.Node{Type: n.Type, DataAtom: n.DataAtom, Data: n.Data, Namespace: n.Namespace, Attr: append([]html.Attribute{}, n.Attr...)}
	for k := n.FirstChild; k != nil; k = k.NextSibling {
		c.AppendChild(cloneTree(k))
	}
	return c
}

// odd hand-built roots
func handBuilt(r *Rng, g *PageGen) (*html.Node, string) {
	mkText := func(s string) *html.Node { return &html.Node{Type: html.TextNode, Data: s} }
	mkEl := func(tag string, kids ...*html.Node) *html.Node {
		n := &html.Node{Type: html.ElementNode, Data: tag, DataAtom: atom.Lookup([]byte(tag))}
		for _, k := range kids {
			n.AppendChild(k)
		}
		return n
	}
	long := g.words(40)
	switch r.Intn(24) {
	case 22:
		cap := mkEl("figcaption", mkText("cap"), mkEl("a", mkText("l")))
		cap.Attr = []html.Attribute{{Key: "hidden", Val: ""}}
		return mkEl("div", mkEl("p", mkText(long)), mkEl("figure", mkEl("img"), cap), mkEl("p", mkText(long))), "figure-with-hidden-caption"
	case 23:
		t := mkEl("table", mkEl("tr", mkEl("th", mkText("h")), mkEl("th", mkText("h"))), mkEl("tr", mkEl("td", mkText(long)), mkEl("td", mkText(long))))
		t.Attr = []html.Attribute{{Key: "style", Val: "visibility:hidden"}}
		return mkEl("div", mkEl("p", mkText(long)), t, mkEl("p", mkText(long))), "hidden-data-table"
	case 0:
		return mkText(long), "text-root"
	case 1:
		return &html.Node{Type: html.CommentNode, Data: long}, "comment-root"
	case 2:
		return &html.Node{Type: html.DoctypeNode, Data: "html"}, "doctype-root"
	case 3:
		return &html.Node{Type: html.DocumentNode}, "empty-document"
	case 4:
		d := &html.Node{Type: html.DocumentNode}
		d.AppendChild(&html.Node{Type: html.CommentNode, Data: "c"})
		d.AppendChild(mkText(long))
		return d, "document-without-element"
	case 5:
		return mkEl("span", mkText(long)), "inline-root:span"
	case 6:
		a := mkEl("a", mkText(long))
		a.Attr = []html.Attribute{{Key: "href", Val: "javascript:void(0)"}}
		return a, "javascript-anchor-root"
	case 7:
		return mkEl("b", mkEl("i", mkText(long))), "inline-root:b"
	case 8:
		return mkEl("li", mkText(long)), "li-root"
	case 9:
		return mkEl("td", mkText(long)), "td-root"
	case 10:
		t := mkEl("table", mkEl("tr", mkEl("td", mkText(long)), mkEl("td", mkText(long))), mkEl("tr", mkEl("th", mkText("h")), mkEl("td", mkText(long))))
		return t, "table-root"
	case 11:
		return mkEl("img"), "img-root"
	case 12:
		f := mkEl("figure", mkEl("img"), mkEl("figcaption", mkText(long)))
		return f, "figure-root"
	case 13:
		return mkEl("br"), "br-root"
	case 14:
		return mkEl("ul", mkEl("li", mkText(long)), mkEl("li", mkText(long))), "ul-root"
	case 15:
		return mkEl("body", mkText(long)), "body-root"
	case 16:
		n := mkEl("div", mkText(long))
		n.Attr = []html.Attribute{{Key: "", Val: ""}, {Key: "style", Val: "display:"}, {Key: "style", Val: "x"}, {Key: "\x00", Val: "\xff"}}
		return n, "odd-attributes"
	case 17:
		n := mkEl("font", mkText(long))
		return n, "font-root"
	case 18:
		n := mkEl("div")
		cur := n
		for i := 0; i < 3000; i++ {
			c := mkEl("div")
			cur.AppendChild(c)
			cur = c
		}
		cur.AppendChild(mkText(long))
		return n, "deep-nesting"
	case 19:
		n := mkEl("video", mkEl("source"), mkText(long))
		return n, "video-root"
	case 20:
		n := mkEl("picture", mkEl("span", mkEl("em", mkText("x"))), mkEl("img"))
		return mkEl("div", mkEl("p", mkText(long)), n, mkEl("p", mkText(long))), "picture-nested-junk"
	default:
		n := mkEl("p", mkText(long), &html.Node{Type: html.RawNode, Data: "<raw>"}, &html.Node{Type: html.NodeType(99), Data: "?"})
		return n, "raw-and-unknown-node-types"
	}
}

func mutateBytes(r *Rng, b []byte) []byte {
	out := append([]byte{}, b...)
	for k := r.Range(1, 6); k > 0 && len(out) > 0; k-- {
		i := r.Intn(len(out))
		switch r.Intn(6) {
		case 0:
			out = out[:i]
		case 1:
			out[i] = byte(r.Intn(256))
		case 2:
			out = append(out[:i], append([]byte{0xff, 0xfe, 0x00}, out[i:]...)...)
		case 3:
			j := r.Intn(len(out))
			if i > j {
				i, j = j, i
			}
			out = append(out[:i], out[j:]...)
		case 4:
			out = append(out[:i], append([]byte("<table><td><a href=javascript:1>1</a><picture><x><y>"), out[i:]...)...)
		default:
			out = append(out[:i], append(bytes.Repeat([]byte("<div><b><li>"), 50), out[i:]...)...)
		}
	}
	return out
}

func runC01(ctx *Ctx) {
	silenceStderr()
	rep := ctx.Rep
	rep.Rule = "every entry point (Apply on documents, attached/detached sub-elements and hand-built nodes of every node type; ApplyForReader on generated and byte-mutated pages; ApplyForFile) under nil / random options (16 flag sets, 11 URL shapes, skip, both algorithms), each call under recover and a 10 s watchdog; distinct by (outcome class, root kind, option shape); non-trivial = the call reached rendering or took an error/edge path"
	limit := 10 * time.Second
	report := func(o callOutcome, kind string, opts optSpec, replay interface{}) {
		rep.Evaluations++
		rep.hist("outcome:" + o.Class)
		rep.nontrivial(fmt.Sprintf("%s|%s|nil=%v|url=%v|algo=%d|skip=%v", o.Class, kind, opts.Nil, opts.URL != "", opts.Algo, opts.Skip))
		switch o.Class {
		case "panic":
			rep.violate(map[string]string{"clause": "panic", "panic_site": o.Site, "root": kind}, fmt.Sprintf("panic in %s (root %s): %s", o.Site, kind, trunc(o.Msg, 200)), replay)
		case "hang":
			rep.violate(map[string]string{"clause": "hang", "root": kind}, "call did not return: "+o.Msg, replay)
		case "bad-result":
			rep.violate(map[string]string{"clause": "malformed-result", "root": kind}, o.Msg, replay)
		}
	}
	if ctx.Replay != "" {
		var r struct {
			HTML string  `json:"html"`
			Kind string  `json:"kind"`
			Opts optSpec `json:"opts"`
			Hex  string  `json:"bytes_hex"`
			Page string  `json:"page_url"`
			Algo int     `json:"algo"`
		}
		readReplay(ctx.Replay, &r)
		src := r.HTML
		o := guarded(func() (*distiller.Result, error) {
			if r.Kind == "pager" {
				page, _ := nurl.Parse(r.Page)
				return distiller.Apply(parseDoc(src).Root, &distiller.Options{OriginalURL: page, PaginationAlgo: distiller.PaginationAlgo(r.Algo)})
			}
			return distiller.ApplyForReader(strings.NewReader(src), r.Opts.build())
		}, limit)
		report(o, "replay:"+r.Kind, r.Opts, r)
		return
	}
	n := ctx.pick(500, 40000)
	for i := 0; i < n; i++ {
		r := newRng(ctx.Seed, fmt.Sprintf("C01/%d", i))
		g := newPageGen(r)
		g.Decorate = r.Chance(30)
		g.RelURLs = r.Chance(50)
		if i%2 == 1 {
			g.Weights = append(defaultWeights(), W{"exotic", 25})
		}
		body := g.blocks(r.Range(2, 10), 0)
		if r.Chance(60) {
			nn := r.Range(2, 8)
			body += simplePager(r, "http://example.com/dir/story", nn, r.Range(1, nn))
		}
		src := "<html><head><title>" + r.Pick("T", "A : B", "A - B - C | D", "x » y › z", strings.Repeat("long ", 40), "a:b:c: d") + "</title></head><body>" + body + "</body></html>"
		// 1. whole document through Apply and ApplyForReader
		for k := 0; k < 3; k++ {
			o := randOpts(r)
			d := parseDoc(src)
			report(guarded(func() (*distiller.Result, error) { return distiller.Apply(d.Root, o.build()) }, limit), "document", o, map[string]interface{}{"html": src, "kind": "document", "opts": o})
		}
		// 2. a sub-element, attached and detached
		{
			d := parseDoc(src)
			var els []*html.Node
			findAll(d.Root, func(x *html.Node) bool { return x.Type == html.ElementNode }, &els)
			for k := 0; k < 3 && len(els) > 0; k++ {
				e := els[r.Intn(len(els))]
				o := randOpts(r)
				sub := renderNode(e)
				report(guarded(func() (*distiller.Result, error) { return distiller.Apply(e, o.build()) }, limit), "attached:"+e.Data, o, map[string]interface{}{"html": src, "kind": "attached-element <" + e.Data + ">", "element": trunc(sub, 2000), "opts": o})
				c := cloneTree(e)
				report(guarded(func() (*distiller.Result, error) { return distiller.Apply(c, o.build()) }, limit), "detached:"+e.Data, o, map[string]interface{}{"html": sub, "kind": "detached-element <" + e.Data + ">", "opts": o})
			}
		}
		// 3. hand-built roots
		{
			root, kind := handBuilt(r, g)
			o := randOpts(r)
			report(guarded(func() (*distiller.Result, error) { return distiller.Apply(root, o.build()) }, limit), kind, o, map[string]interface{}{"html": renderNodeSafe(root), "kind": kind, "opts": o})
		}
		// 4. byte-level mutation through ApplyForReader
		{
			b := mutateBytes(r, []byte(src))
			o := randOpts(r)
			report(guarded(func() (*distiller.Result, error) { return distiller.ApplyForReader(bytes.NewReader(b), o.build()) }, limit), "mutated-bytes", o, map[string]interface{}{"html": string(b), "kind": "mutated-bytes", "opts": o})
		}
		// 5. file entry point
		if i%25 == 0 && ctx.Work != "" {
			p := filepath.Join(ctx.Work, "c01-input.html")
			os.WriteFile(p, []byte(src), 0o644)
			o := randOpts(r)
			report(guarded(func() (*distiller.Result, error) { return distiller.ApplyForFile(p, o.build()) }, limit), "file", o, map[string]interface{}{"html": src, "kind": "file", "opts": o})
			report(guarded(func() (*distiller.Result, error) { return distiller.ApplyForFile(p+".missing", o.build()) }, limit), "missing-file", o, map[string]interface{}{"html": "", "kind": "missing-file", "opts": o})
			os.Remove(p)
		}
	}
	// 6. pagers that mix every kind of anchor, on their own page URL, both algorithms
	for i := 0; i < ctx.pick(400, 12000); i++ {
		r := newRng(ctx.Seed, fmt.Sprintf("C01/pager/%d", i))
		c := genPager(r, newPageGen(r))
		if r.Chance(30) {
			c = sparsePager(r)
		} else if r.Chance(15) {
			c = casefoldPager(r)
		}
		page, err := nurl.Parse(c.PageURL)
		if err != nil {
			continue
		}
		for algo := 0; algo < 2; algo++ {
			a := distiller.PaginationAlgo(algo)
			src := c.HTML
			out := guarded(func() (*distiller.Result, error) {
				return distiller.Apply(parseDoc(src).Root, &distiller.Options{OriginalURL: page, PaginationAlgo: a})
			}, limit)
			report(out, "pager", optSpec{}, map[string]interface{}{"html": src, "kind": "pager", "page_url": c.PageURL, "algo": algo})
		}
	}
	// 8. the article extractor on pages shaped after its filters' thresholds: through Apply
	// (fuzz), and stage by stage against the model whose totality theorem (filters_total) covers
	// the index arithmetic of SimilarSiblingContent; a panic of the real filters is a violation
	// 9. which element the distiller works on (theorems root_is_element / root_error_iff)
	rootSelectCorr(ctx, ctx.pick(60, 3000))
	fl := newCorr("filters")
	tr := newCorr("textrender")
	for i := 0; i < ctx.pick(150, 6000); i++ {
		// the rendering of Text elements (theorem text_render_total is about its model): the real
		// Text.GenerateOutput against the model on article-like pages; a panic of the real code
		// is a violation
		src := newPageGen(newRng(ctx.Seed, fmt.Sprintf("C01/tr/%d", i))).Page(6, "t")
		func() {
			defer func() {
				if e := recover(); e != nil {
					rep.violate(map[string]string{"clause": "panic", "panic_site": "text-render", "root": "document"}, fmt.Sprintf("panic while rendering the document: %v", e), map[string]interface{}{"html": src, "kind": "document"})
				}
			}()
			addRenderCases(tr, nil, rep, src, pageURL, map[string]interface{}{"html": src, "kind": "document"}, 6)
		}()
	}
	tr.run(ctx)
	for i := 0; i < ctx.pick(300, 20000); i++ {
		src := newPageGen(newRng(ctx.Seed, fmt.Sprintf("C01/fs/%d", i))).FilterStressPage()
		o := optSpec{URL: "http://example.com/dir/story"}
		report(guarded(func() (*distiller.Result, error) { return distiller.Apply(parseDoc(src).Root, o.build()) }, limit), "filter-stress", o, map[string]interface{}{"html": src, "kind": "document", "opts": o})
		for _, skip := range []bool{true, false} {
			func() {
				defer func() {
					if e := recover(); e != nil {
						rep.violate(map[string]string{"clause": "panic", "panic_site": "article-extractor", "root": "filter-stress"}, fmt.Sprintf("panic in the article extractor: %v", e), map[string]interface{}{"html": src, "kind": "document", "opts": o})
					}
				}()
				addFiltersCase(fl, rep, src, pageURL, skip, map[string]interface{}{"html": src, "kind": "document", "opts": o})
			}()
		}
	}
	fl.run(ctx)
	// 7. the byte-level model of PathComponentPagePattern.IsPagingURL (theorem
	// paging_url_total is about it) against the real method on probe URLs; a panic of the real
	// method shows up as 'P' in its answer
	pathPagingCorr(ctx, ctx.pick(800, 20000)).run(ctx)
}

func renderNodeSafe(n *html.Node) (s string) {
	defer func() {
		if recover() != nil {
			s = "<unrenderable>"
		}
	}()
	var b bytes.Buffer
	html.Render(&b, n)
	return trunc(b.String(), 4000)
}
