package main

import (
	"fmt"
	nurl "net/url"
	"strings"

	distiller "github.com/markusmobius/go-domdistiller"
)

// srcset: what rxSrcsetURL finds in a srcset value and what makeSrcSetAbsolute writes back
// (Model/Srcset.lean: the regular expression's backtracking spelled out) against the real
// GetSrcSetURLs / MakeAllSrcSetAbsolute.  Two streams: well-formed candidate lists (URL forms x
// descriptor forms x separators) and token soup.  CreateAbsoluteURL is an atom: every question the
// model can ask (a run of non-space characters, or its part before a comma, with and without that
// comma) is answered by the real function.

var ssURLs = []string{"img/a.jpg", "../b.png", "/c/d.webp", "//cdn.example.net/e.gif", "http://abs.example.org/f.jpg", "?w=2", "g,h.jpg", "2020/i.jpg", "./j.jpg",
	"2x.jpg", "k.jpg?x=1,2", "data:image/gif;base64,R0lGOD", "l%20m.jpg", "n.jpg#frag", "é.jpg", "o p.jpg", "1e5", "q", ".5x/r.jpg", "s.jpg,"}
var ssDescs = []string{"", "", " 1x", " 2x", " 1.5x", " 400w", " 800W", " 400w 300h", " 300h 400w", "  2x", "\t2x", " 1e0x", " 1.5E+2w", " 2e-1x", " .5x", " 3.x", " 10w 20h 30h"}
var ssSeps = []string{", ", ", ", ",", " , ", ",\n\t", " ,", ",  ", ", , "}
var ssSoup = []string{"a.jpg", "b", ",", ",", " ", " ", "\t", "\n", "2x", "1.5x", "400w", "300h", "1e0x", "e", "x", "w", "h", ".", "1", "+", "-", "foo", "(", ")", "http://h/p", "é", " ", "\v", "\f", "\r", ",,", "2xfoo", "1e", "1e+", "1e+5", "1e+5x"}

func genSrcset(r *Rng) (string, string) {
	var sb strings.Builder
	if r.Chance(70) {
		n := r.Range(1, 4)
		if r.Chance(10) {
			sb.WriteString(r.Pick(" ", "\n  ", ", "))
		}
		for i := 0; i < n; i++ {
			sb.WriteString(ssURLs[r.Intn(len(ssURLs))])
			sb.WriteString(ssDescs[r.Intn(len(ssDescs))])
			if i < n-1 {
				sb.WriteString(ssSeps[r.Intn(len(ssSeps))])
			}
		}
		if r.Chance(15) {
			sb.WriteString(r.Pick(" ", ",", ", ", "\n"))
		}
		return sb.String(), "candidates"
	}
	for n := r.Range(1, 9); n > 0; n-- {
		sb.WriteString(ssSoup[r.Intn(len(ssSoup))])
	}
	return sb.String(), "soup"
}

func isGoReWS(c rune) bool { return c == ' ' || c == '\t' || c == '\n' || c == '\f' || c == '\r' }

func srcsetCorr(ctx *Ctx, n int, pages []*nurl.URL) *Corr {
	c := newCorr("srcset")
	for i := 0; i < n; i++ {
		r := newRng(ctx.Seed, fmt.Sprintf("srcset/%d", i))
		v, kind := genSrcset(r)
		if v == "" {
			continue
		}
		u := pages[r.Intn(len(pages))]
		// the atom table
		qs := map[string]bool{}
		var order []string
		ask := func(q string) {
			if q != "" && !qs[q] {
				qs[q] = true
				order = append(order, q)
			}
		}
		for _, run := range strings.FieldsFunc(v, isGoReWS) {
			// every stretch of the run between two of its commas (or its ends), with and without
			// the comma that follows it
			cuts := []int{-1}
			for j := 0; j < len(run); j++ {
				if run[j] == ',' {
					cuts = append(cuts, j)
				}
			}
			cuts = append(cuts, len(run))
			for a := 0; a < len(cuts); a++ {
				for b := a + 1; b < len(cuts); b++ {
					ask(run[cuts[a]+1 : cuts[b]])
					ask(run[cuts[a]+1:cuts[b]] + ",")
				}
			}
		}
		var sb strings.Builder
		sb.WriteString(hx(v) + fmt.Sprintf(" %d", len(order)))
		for _, q := range order {
			sb.WriteString(" " + hx(q) + " " + hx(distiller.VerifCreateAbsoluteURL(q, u)))
		}
		urls := distiller.VerifSrcSetURLs(v)
		hs := make([]string, len(urls))
		for k, s := range urls {
			hs[k] = hx(s)
		}
		out := distiller.VerifSrcSetAbsolute(v, u)
		c.add(sb.String(), strings.Join(hs, " ")+" | "+hx(out), map[string]string{"srcset": v, "url": u.String()})
		ctx.Rep.hist("srcset:" + kind)
		ctx.Rep.histN("srcset-urls", len(urls))
		// premise of the theorem `rewrite_render`: a comma after a URL stays a comma after the resolved URL
		for _, s := range urls {
			a, b := distiller.VerifCreateAbsoluteURL(s+",", u), distiller.VerifCreateAbsoluteURL(s, u)+","
			if a == b {
				ctx.Rep.hist("srcset-premise:comma-commutes")
			} else {
				ctx.Rep.hist("srcset-premise:comma-does-not-commute")
			}
		}
	}
	return c
}
