package main

import (
	"fmt"
	"strings"

	distiller "github.com/markusmobius/go-domdistiller"
	"golang.org/x/net/html"
)

// schemaorg: the schema.org microdata accessor (Model/SchemaOrg.lean) against the real one: the
// tree of the document element and ToLower of the values it lower-cases → every answer.

func addSchemaOrgCase(c *Corr, rep *Report, src string, replay interface{}) {
	d := parseDoc(src)
	root := d.elementRoot()
	if root == nil {
		return
	}
	document := findFirstBelow(root, "html")
	if document == nil {
		document = root
	}
	var els []*html.Node
	findAll(document, func(n *html.Node) bool { return n.Type == html.ElementNode }, &els)
	for _, e := range els {
		seen := map[string]bool{}
		for _, a := range e.Attr {
			if seen[a.Key] {
				rep.hist("schemaorg:repeated-attribute(skipped)")
				return
			}
			seen[a.Key] = true
		}
	}
	srcs, _ := distiller.VerifMarkup(root)
	var so *distiller.VerifSource
	for i := range srcs {
		if strings.Contains(srcs[i].Kind, "schemaorg") {
			so = &srcs[i]
		}
	}
	if so == nil {
		return
	}
	var sb strings.Builder
	d.encodeTree(document, &sb)
	seen := map[string]bool{}
	var tbl []string
	add := func(v string) {
		if !seen[v] {
			seen[v] = true
			tbl = append(tbl, hx(v)+" "+hx(strings.ToLower(v)))
		}
	}
	for _, e := range els {
		add(getAttr(e, "rel"))
		if hasAttr(e, "itemprop") {
			add(getAttr(e, "content"))
			add(strings.TrimSpace(textContentOf(e)))
		}
	}
	fmt.Fprintf(&sb, " %d", len(tbl))
	if len(tbl) > 0 {
		sb.WriteString(" " + strings.Join(tbl, " "))
	}
	art := "nil"
	if so.Article != nil {
		art = showArticle(*so.Article)
		rep.hist("schemaorg:article")
	}
	im := make([]string, len(so.Images))
	for k, x := range so.Images {
		im[k] = showImage(x)
	}
	if len(im) > 0 {
		rep.hist("schemaorg:images")
	}
	c.add(sb.String(), fmt.Sprintf("%s %s %s %s %s %s %s %s %s", hx(so.Title), hx(so.Type), hx(so.URL), hx(so.Description), hx(so.Publisher), hx(so.Copyright), hx(so.Author), art, leanList(im)), replay)
}

func textContentOf(n *html.Node) string {
	var sb strings.Builder
	var walk func(*html.Node)
	walk = func(x *html.Node) {
		if x.Type == html.TextNode {
			sb.WriteString(x.Data)
		}
		for c := x.FirstChild; c != nil; c = c.NextSibling {
			walk(c)
		}
	}
	walk(n)
	return sb.String()
}

// schemaPage: pages built around what the schema.org accessor looks at
func schemaPage(r *Rng, g *PageGen) string {
	types := []string{"http://schema.org/Article", "http://schema.org/NewsArticle", "http://schema.org/BlogPosting", "http://schema.org/ImageObject", "http://schema.org/Person",
		"http://schema.org/Organization", "http://schema.org/NGO", "http://schema.org/Recipe", "https://schema.org/Article", "http://schema.org/article", ""}
	var item func(depth int, prop string) string
	strProp := func() string {
		name := r.Pick("headline", "name", "url", "description", "image", "publisher", "copyrightHolder", "copyrightYear", "datePublished", "dateModified", "author", "creator",
			"articleSection", "contentUrl", "encodingFormat", "caption", "representativeOfPage", "width", "height", "familyName", "givenName", "legalName", "unknownProp", "name headline", " author  creator ")
		val := r.Pick(g.words(2), " "+g.words(1)+" ", "", "true", "TRUE", "640", "http://example.com/"+g.word()+".png", "2020-01-02")
		switch r.Intn(8) {
		case 0:
			return `<meta itemprop="` + name + `" content="` + val + `">`
		case 1:
			return `<a itemprop="` + name + `" href="http://example.com/` + g.word() + `">` + val + `</a>`
		case 2:
			return `<img itemprop="` + name + `" src="` + r.Pick("http://example.com/"+g.word()+".jpg", "") + `" alt="` + val + `">`
		case 3:
			return `<time itemprop="` + name + `" datetime="` + r.Pick("2021-03-04", "") + `">` + val + `</time>`
		case 4:
			return `<span itemprop="` + name + `"><b>` + val + `</b> ` + g.words(1) + `</span>`
		case 5:
			return `<span itemprop>` + val + `</span>`
		default:
			return `<span itemprop="` + name + `">` + val + `</span>`
		}
	}
	item = func(depth int, prop string) string {
		t := types[r.Intn(len(types))]
		attrs := ` itemscope`
		if t != "" || r.Chance(50) {
			attrs += ` itemtype="` + t + `"`
		}
		if prop != "" {
			attrs += ` itemprop="` + prop + `"`
		}
		var sb strings.Builder
		sb.WriteString("<div" + attrs + ">")
		for k := r.Range(0, 6); k > 0; k-- {
			switch {
			case depth < 2 && r.Chance(25):
				sb.WriteString(item(depth+1, r.Pick("author", "publisher", "creator", "copyrightHolder", "associatedMedia", "encoding", "image", "", "author creator")))
			case r.Chance(10):
				sb.WriteString("<div>" + strProp() + "</div>")
			default:
				sb.WriteString(strProp())
			}
		}
		sb.WriteString("</div>")
		return sb.String()
	}
	var body []string
	for k := r.Range(1, 4); k > 0; k-- {
		body = append(body, item(0, r.Pick("", "", "orphan")))
	}
	if r.Chance(40) {
		body = append(body, strProp()) // a property outside any item
	}
	for k := r.Intn(3); k > 0; k-- {
		body = append(body, r.Pick(`<a rel="author" href="/a">`+r.Pick(g.words(2), " ", "")+`</a>`, `<a rel="Author" href="/a">`+g.words(1)+`</a>`, `<link rel="author" href="/x">`, `<a rel="author nofollow" href="/a">`+g.words(1)+`</a>`))
	}
	for i := len(body) - 1; i > 0; i-- {
		j := r.Intn(i + 1)
		body[i], body[j] = body[j], body[i]
	}
	htmlAttr := ""
	if r.Chance(10) {
		htmlAttr = ` itemscope itemtype="http://schema.org/Article"`
	}
	return "<html" + htmlAttr + "><head><title>t</title></head><body>" + strings.Join(body, "\n") + "<p>" + g.words(30) + "</p></body></html>"
}

// markuppage: Result.MarkupInfo end to end — the model builds the three accessors from the tree of
// the document element and combines them; the implementation side is the MarkupInfo of the real
// markup.Parser.
func addMarkupPageCase(c *Corr, rep *Report, src string, replay interface{}) {
	d := parseDoc(src)
	root := d.elementRoot()
	if root == nil {
		return
	}
	document := findFirstBelow(root, "html")
	if document == nil {
		document = root
	}
	var els []*html.Node
	findAll(document, func(n *html.Node) bool { return n.Type == html.ElementNode }, &els)
	for _, e := range els {
		seen := map[string]bool{}
		for _, a := range e.Attr {
			if seen[a.Key] {
				rep.hist("markuppage:repeated-attribute(skipped)")
				return
			}
			seen[a.Key] = true
		}
	}
	_, info := distiller.VerifMarkup(root)
	var sb strings.Builder
	d.encodeTree(document, &sb)
	fmt.Fprintf(&sb, " %d", len(els))
	seen := map[string]bool{}
	var tbl []string
	add := func(v string) {
		if !seen[v] {
			seen[v] = true
			tbl = append(tbl, hx(v)+" "+hx(strings.ToLower(v))+" "+hx(strings.ToUpper(v)))
		}
	}
	for _, e := range els {
		a := distiller.VerifElementAtoms(e)
		fmt.Fprintf(&sb, " %d %s %s 0 0 0 0 0 %s", d.ID[e], hx(a.StyleDisplay), b01(a.VisHidden), b01(distiller.VerifIsForeignRawText(e)))
		add(getAttr(e, "rel"))
		if e.Data == "meta" {
			add(getAttr(e, "name"))
			add(getAttr(e, "content"))
			add(getAttr(e, "property"))
		}
		if hasAttr(e, "itemprop") {
			add(getAttr(e, "content"))
			add(strings.TrimSpace(textContentOf(e)))
		}
	}
	sb.WriteString(" 0")
	fmt.Fprintf(&sb, " %d", len(tbl))
	if len(tbl) > 0 {
		sb.WriteString(" " + strings.Join(tbl, " "))
	}
	og, pr, ar := distiller.VerifOGPrefixes(root)
	fmt.Fprintf(&sb, " %s %s %s", hx(og), hx(pr), hx(ar))
	c.add(sb.String(), showInfo(info), replay)
}
