package main

import (
	"fmt"
	nurl "net/url"
	"strings"

	"github.com/go-shiori/dom"
	distiller "github.com/markusmobius/go-domdistiller"
	"golang.org/x/net/html"
)

// Correspondence of the rendering of the final document with the Lean model (Model/TextRender.lean):
//   textrender : the converter's tree (only the chain of ancestors above the window's common
//                ancestor and everything below it), the window of one Text element, display /
//                visibility atoms, CreateAbsoluteURL answers → Text.GenerateOutput(false|true)
//   docoutput  : content flag and the two renderings of every element → Document.GenerateOutput
// The implementation side is the real final document of ContentExtractor.ExtractContent.

const titleLabel = "de.l3s.boilerpipe/TITLE"

type textLike interface {
	GetTextNodes() []*html.Node
	HasLabel(string) bool
}

type outputter interface {
	IsContent() bool
	GenerateOutput(bool) string
}

type docOutputter interface {
	GenerateOutput(bool) string
}

// encodePruned writes `top` restricted to the chain down to `lca`, and the whole subtree of `lca`
func encodePruned(ids map[*html.Node]int, n *html.Node, onChain map[*html.Node]bool, lca *html.Node, below bool, sb *strings.Builder) {
	id := ids[n]
	switch n.Type {
	case html.TextNode:
		fmt.Fprintf(sb, " T %d %s", id, hx(n.Data))
	case html.ElementNode:
		fmt.Fprintf(sb, " E %d %s %d", id, hx(n.Data), len(n.Attr))
		for _, a := range n.Attr {
			k := a.Key
			if a.Namespace != "" {
				k = a.Namespace + ":" + a.Key
			}
			fmt.Fprintf(sb, " %s %s", hx(k), hx(a.Val))
		}
		var kids []*html.Node
		for c := n.FirstChild; c != nil; c = c.NextSibling {
			if below || n == lca || onChain[c] {
				kids = append(kids, c)
			}
		}
		fmt.Fprintf(sb, " %d", len(kids))
		for _, c := range kids {
			encodePruned(ids, c, onChain, lca, below || n == lca, sb)
		}
	default:
		fmt.Fprintf(sb, " O %d %d", id, int(n.Type))
	}
}

func addRenderCases(tr, do *Corr, rep *Report, src string, pageURL *nurl.URL, replay interface{}, maxTexts int) {
	d := parseDoc(src)
	root := d.elementRoot()
	if root == nil {
		return
	}
	res := distiller.VerifExtract(root, pageURL, 0)
	if res == nil || res.Doc == nil {
		return
	}
	// ---- docoutput
	if do != nil {
		for _, textOnly := range []bool{false, true} {
			var sb strings.Builder
			fmt.Fprintf(&sb, "%s %d", b01(textOnly), len(res.Doc.Elements))
			for _, e := range res.Doc.Elements {
				o := e.(outputter)
				fmt.Fprintf(&sb, " %s %s %s", b01(o.IsContent()), hx(o.GenerateOutput(false)), hx(o.GenerateOutput(true)))
			}
			do.add(sb.String(), hx(docOutputter(res.Doc).GenerateOutput(textOnly)), replay)
		}
	}
	if tr == nil {
		return
	}
	// ---- textrender
	var texts []textLike
	for _, e := range res.Doc.Elements {
		if t, ok := e.(textLike); ok {
			texts = append(texts, t)
		}
	}
	if len(texts) == 0 {
		return
	}
	// the converter's tree: climb from any text node
	top := texts[0].GetTextNodes()[0]
	for top.Parent != nil {
		top = top.Parent
	}
	ids := map[*html.Node]int{}
	var all []*html.Node
	var walk func(*html.Node)
	walk = func(n *html.Node) {
		ids[n] = len(all)
		all = append(all, n)
		for c := n.FirstChild; c != nil; c = c.NextSibling {
			walk(c)
		}
	}
	walk(top)
	step := 1
	if maxTexts > 0 && len(texts) > maxTexts {
		step = (len(texts) + maxTexts - 1) / maxTexts
	}
	for ti := 0; ti < len(texts); ti += step {
		t := texts[ti]
		nodes := t.GetTextNodes()
		if len(nodes) == 0 {
			continue
		}
		foreign := false
		for _, n := range nodes {
			if _, ok := ids[n]; !ok {
				foreign = true
			}
		}
		if foreign {
			rep.hist("textrender:node-outside-the-converter-tree")
			continue
		}
		// lowest common ancestor by parent chains
		depthChain := func(n *html.Node) []*html.Node {
			var ch []*html.Node
			for p := n; p != nil; p = p.Parent {
				ch = append([]*html.Node{p}, ch...)
			}
			return ch
		}
		common := depthChain(nodes[0])
		for _, n := range nodes[1:] {
			ch := depthChain(n)
			k := 0
			for k < len(common) && k < len(ch) && common[k] == ch[k] {
				k++
			}
			common = common[:k]
		}
		if len(common) == 0 {
			continue
		}
		lca := common[len(common)-1]
		if lca.Type != html.ElementNode && len(common) >= 2 {
			lca = common[len(common)-2]
			common = common[:len(common)-1]
		}
		if lca.Data == "body" {
			// the body → div step re-parses the serialised children; the model assumes that this
			// gives the same tree back (up to merged text nodes and trimmed ends), which holds when
			// serialise → parse → serialise is the identity on this clone; otherwise the HTML parser
			// restructured it (nested anchors, misplaced table parts, ...) and the case is outside
			// what the model describes
			if c := distiller.VerifTreeClone(nodes); c != nil && c.Type == html.ElementNode {
				inner := dom.InnerHTML(c)
				div := dom.CreateElement("div")
				dom.SetInnerHTML(div, inner)
				if dom.InnerHTML(div) != inner {
					rep.hist("textrender:body-reparse-restructures(skipped)")
					continue
				}
			}
		}
		onChain := map[*html.Node]bool{}
		for _, c := range common {
			onChain[c] = true
		}
		var sb strings.Builder
		encodePruned(ids, top, onChain, lca, false, &sb)
		// atoms of the encoded elements
		var els []*html.Node
		for _, c := range common {
			if c.Type == html.ElementNode && c != lca {
				els = append(els, c)
			}
		}
		findAll(lca, func(n *html.Node) bool { return n.Type == html.ElementNode }, &els)
		fmt.Fprintf(&sb, " %d", len(els))
		seen := map[string]bool{}
		var tbl []string
		for _, e := range els {
			a := distiller.VerifElementAtoms(e)
			fmt.Fprintf(&sb, " %d %s %s 0 0 0 0 0 %s", ids[e], hx(a.StyleDisplay), b01(a.VisHidden), b01(distiller.VerifIsForeignRawText(e)))
			for _, at := range e.Attr {
				if seen[at.Val] {
					continue
				}
				seen[at.Val] = true
				tbl = append(tbl, hx(at.Val)+" "+hx(distiller.VerifCreateAbsoluteURL(at.Val, pageURL))+" "+hx(distiller.VerifSrcSetAbsolute(at.Val, pageURL)))
			}
		}
		sb.WriteString(" 0") // no text atoms
		fmt.Fprintf(&sb, " %d", len(nodes))
		for _, n := range nodes {
			fmt.Fprintf(&sb, " %d", ids[n])
		}
		fmt.Fprintf(&sb, " %d", len(tbl))
		if len(tbl) > 0 {
			sb.WriteString(" " + strings.Join(tbl, " "))
		}
		title := t.HasLabel(titleLabel)
		o := t.(outputter)
		for _, textOnly := range []bool{false, true} {
			tr.add(sb.String()+" "+b01(title)+" "+b01(textOnly), hx(o.GenerateOutput(textOnly)), replay)
		}
		ws := len(nodes)
		if ws > 5 {
			ws = 5
		}
		rep.hist(fmt.Sprintf("textrender:window-size-%d", ws))
		rep.hist("textrender:root-" + lca.Data)
	}
}
