package main

import (
	"fmt"
	"strings"
)

// Pages shaped after what the article extractor's filters look at: word counts on both sides
// of every threshold (4, 15..18, 40, 100), link densities around 1/3, 1/2 and 5/9, headings
// before content and before boilerplate, comment sections (STRICTLY_NOT_CONTENT), the texts the
// terminating-block test knows, a heading that repeats the <title>, lists after the main text,
// several nesting depths, sibling and non-sibling containers, bare text and line breaks.

var fsWordCounts = []int{0, 1, 2, 3, 4, 5, 6, 9, 14, 15, 16, 17, 18, 19, 25, 39, 40, 41, 42, 60, 99, 100, 101, 130}

var fsTerminating = []string{"Comments", "3 comments", "12 Comments so far", "Add your comment", "Add comment", "Shares",
	"Reader views", "Have your say", "Reader comments", "Please rate this", "Post a comment", "what you think...",
	"Thanks for your comments - this feedback is now closed", "4 users responded in this thread", "© Reuters 2011"}

// mixed emits n words of which about num/den are inside anchors
func (g *PageGen) fsMixed(n int) string {
	if n == 0 {
		return g.R.Pick("", " ", "&nbsp;")
	}
	mode := g.R.Intn(10)
	linked := 0
	switch {
	case mode < 4:
		linked = 0
	case mode < 5:
		linked = n
	case mode < 6:
		linked = (n + 2) / 3 // just above / at a third
	case mode < 7:
		linked = n / 3
	case mode < 8:
		linked = n / 2
	case mode < 9:
		linked = (5*n + 8) / 9
	default:
		linked = g.R.Intn(n + 1)
	}
	var sb strings.Builder
	plain := n - linked
	for plain > 0 || linked > 0 {
		if linked > 0 && (plain == 0 || g.R.Chance(50)) {
			k := g.R.Range(1, linked)
			sb.WriteString(`<a href="` + g.linkURL() + `">` + g.words(k) + "</a> ")
			linked -= k
		} else {
			k := g.R.Range(1, plain)
			if g.R.Chance(15) {
				t := inlineTags[g.R.Intn(len(inlineTags))]
				sb.WriteString("<" + t + ">" + g.words(k) + "</" + t + "> ")
			} else {
				sb.WriteString(g.words(k) + " ")
			}
			plain -= k
		}
		if g.R.Chance(4) {
			sb.WriteString("<br>")
		}
	}
	return sb.String()
}

func (g *PageGen) fsCount() int {
	if g.R.Chance(70) {
		return fsWordCounts[g.R.Intn(len(fsWordCounts))]
	}
	return g.R.Range(0, 60)
}

func (g *PageGen) fsLeaf(titleWords string, usedTitle *bool) string {
	switch c := g.R.Intn(100); {
	case c < 40:
		return "<p>" + g.fsMixed(g.fsCount()) + "</p>\n"
	case c < 50:
		h := fmt.Sprintf("h%d", g.R.Range(1, 6))
		return "<" + h + ">" + g.fsMixed(g.R.Range(1, 9)) + "</" + h + ">\n"
	case c < 54:
		if !*usedTitle && titleWords != "" {
			*usedTitle = true
			t := g.R.Pick("h1", "h2", "p", "div")
			return "<" + t + ">" + titleWords + "</" + t + ">\n"
		}
		return "<p>" + g.fsMixed(g.fsCount()) + "</p>\n"
	case c < 62:
		t := g.R.Pick("ul", "ol")
		var sb strings.Builder
		sb.WriteString("<" + t + ">")
		for i := g.R.Range(1, 5); i > 0; i-- {
			sb.WriteString("<li>" + g.fsMixed(g.R.Pick3(g.R.Range(1, 8), g.fsCount(), g.R.Range(10, 30))) + "</li>")
		}
		sb.WriteString("</" + t + ">\n")
		return sb.String()
	case c < 68:
		txt := fsTerminating[g.R.Intn(len(fsTerminating))]
		switch g.R.Intn(4) {
		case 0:
			return `<p><a href="` + g.linkURL() + `">Comment</a></p>` + "\n"
		case 1:
			return "<div>" + txt + " " + g.words(g.R.Range(0, 3)) + "</div>\n"
		default:
			return "<" + g.R.Pick("p", "div", "h3", "span") + ">" + txt + "</" + "p>\n"
		}
	case c < 73:
		return g.words(g.fsCount()) + "\n"
	case c < 76:
		return "<br>" + g.R.Pick("", "<br>") + "\n"
	case c < 80:
		return "<blockquote>" + g.fsMixed(g.fsCount()) + "</blockquote>\n"
	case c < 84:
		return "<span>" + g.fsMixed(g.R.Range(1, 20)) + "</span>\n"
	case c < 87:
		return g.img() + "\n"
	case c < 90:
		return "<pre>" + g.words(g.R.Range(1, 30)) + "</pre>\n"
	default:
		return "<div>" + g.fsMixed(g.fsCount()) + "</div>\n"
	}
}

func (r *Rng) Pick3(a, b, c int) int {
	switch r.Intn(3) {
	case 0:
		return a
	case 1:
		return b
	}
	return c
}

func (g *PageGen) fsTree(depth int, titleWords string, usedTitle *bool) string {
	var sb strings.Builder
	for i := g.R.Range(1, 5); i > 0; i-- {
		if depth < 4 && g.R.Chance(28) {
			tag := g.R.Pick("div", "div", "section", "article", "aside", "nav", "div", "main", "td")
			attr := ""
			switch g.R.Intn(12) {
			case 0:
				attr = ` class="comment"`
			case 1:
				attr = ` id="comments"`
			case 2:
				attr = ` class="user-comments box"`
			case 3:
				attr = ` class="comment a b"` // three classes: not labelled
			case 4:
				attr = ` class="` + g.R.Pick("sidebar", "footer", "menu", "related") + `"`
			}
			if tag == "td" {
				sb.WriteString("<table><tr><td" + attr + ">" + g.fsTree(depth+1, titleWords, usedTitle) + "</td></tr></table>\n")
			} else {
				sb.WriteString("<" + tag + attr + ">" + g.fsTree(depth+1, titleWords, usedTitle) + "</" + tag + ">\n")
			}
		} else {
			sb.WriteString(g.fsLeaf(titleWords, usedTitle))
		}
	}
	return sb.String()
}

// FilterStressPage returns a page for the filters correspondence.
func (g *PageGen) FilterStressPage() string {
	titleWords := ""
	title := g.words(3)
	switch g.R.Intn(5) {
	case 0:
		titleWords = g.words(g.R.Range(4, 8))
		title = titleWords + " - " + g.words(2)
	case 1:
		titleWords = g.words(g.R.Range(2, 6))
		title = titleWords
	case 2:
		titleWords = g.words(g.R.Range(4, 7))
		title = g.words(1) + " | " + titleWords
	}
	used := false
	return "<html><head><title>" + title + "</title></head><body>\n" + g.fsTree(0, titleWords, &used) + "</body></html>"
}
