package main

import (
	"fmt"
	nurl "net/url"
	"strings"

	"golang.org/x/net/html"

	distiller "github.com/markusmobius/go-domdistiller"
)

func init() {
	props["C02"] = runC02
	props["C03"] = runC03
	props["C04"] = runC04
	props["C05"] = runC05
	props["C06"] = runC06
	props["C07"] = runC07
	props["C09"] = runC09
}

type contentRun struct {
	id      string
	n       [2]int // quick, thorough
	weights []W
	setup   func(g *PageGen)
	url     *nurl.URL
	extra   func(ctx *Ctx, i int, r *Rng) []string // additional hand-shaped pages
	oracle  func(ctx *Ctx, x *distilled, replay interface{}) (nontrivial bool)
	// stage-wise correspondence with the Lean model (optional)
	corr func(ctx *Ctx, x *distilled, replay interface{})
	done func(ctx *Ctx)
}

func (cr contentRun) run(ctx *Ctx) {
	rep := ctx.Rep
	one := func(src string) {
		x, err := distill(src, cr.url)
		rep.Evaluations++
		if err != nil {
			rep.hist("apply-error")
			return
		}
		u := ""
		if cr.url != nil {
			u = cr.url.String()
		}
		replay := pageReplay{HTML: src, URL: u}
		if cr.oracle(ctx, x, replay) {
			rep.nontrivial(fmt.Sprintf("%x", hashStr(structureOf(x))))
		}
		if cr.corr != nil {
			cr.corr(ctx, x, replay)
		}
		rep.sample(map[string]interface{}{"html_len": len(src), "text_words": len(tokensOf(x.Res.Text))})
	}
	if ctx.Replay != "" {
		var r pageReplay
		readReplay(ctx.Replay, &r)
		one(r.HTML)
	} else {
		for _, src := range corpusPages(ctx, cr.id) {
			one(src)
		}
		n := ctx.pick(cr.n[0], cr.n[1])
		for i := 0; i < n; i++ {
			r := newRng(ctx.Seed, fmt.Sprintf("%s/%d", cr.id, i))
			g := newPageGen(r)
			if cr.weights != nil {
				g.Weights = cr.weights
			}
			if cr.setup != nil {
				cr.setup(g)
			}
			one(g.Page(r.Range(4, 14), "t"))
			if cr.extra != nil {
				for _, s := range cr.extra(ctx, i, r) {
					one(s)
				}
			}
		}
	}
	if cr.done != nil {
		cr.done(ctx)
	}
}

// structureOf: tags of the distilled HTML (token values ignored) - the distinctness key
func structureOf(x *distilled) string {
	s := rxTok.ReplaceAllString(renderNode(x.Res.Node), "w")
	return rxMedia.ReplaceAllString(s, "m")
}

func runC02(ctx *Ctx) {
	pc := newPipeCorr()
	defer pc.run(ctx)
	ctx.Rep.Rule = "article-like pages in which every word is a unique token, over all block kinds (paragraphs, headings, nested lists, quotes, pre, data/layout tables, figures with captions before/after the image, pictures, link clusters, hidden blocks, embeds); distinct by tag structure of the distilled HTML; non-trivial = at least two retained words and at least one source word dropped"
	fl := newCorr("filters")
	defer fl.run(ctx)
	tr, do := newCorr("textrender"), newCorr("docoutput")
	defer tr.run(ctx)
	defer do.run(ctx)
	contentRun{id: "C02", n: [2]int{400, 20000}, url: pageURL,
		corr: func(ctx *Ctx, x *distilled, replay interface{}) {
			addRenderCases(tr, do, ctx.Rep, x.Src, pageURL, replay, 6)
			pc.add(ctx, x.D, x.Root, true, replay)
			pc.add(ctx, x.D, x.Root, false, replay)
			addFiltersCase(fl, ctx.Rep, x.Src, pageURL, true, replay)
			addFiltersCase(fl, ctx.Rep, x.Src, pageURL, false, replay)
		},
		extra: func(ctx *Ctx, i int, r *Rng) []string {
			if i%2 == 1 {
				return nil
			}
			return []string{newPageGen(newRng(ctx.Seed, fmt.Sprintf("C02/fs/%d", i))).FilterStressPage()}
		},
		oracle: func(ctx *Ctx, x *distilled, replay interface{}) bool {
			oracleC02(ctx.Rep, x, replay)
			out := len(tokensOf(x.Res.Text))
			return out >= 2 && out < len(subtreeTokens(x.D.Root))
		}}.run(ctx)
	// the converter, the builder and the renderer on element names outside the article
	// vocabulary (obsolete, rare, custom, unknown): model against implementation only
	if ctx.Replay == "" {
		for i := 0; i < ctx.pick(250, 10000); i++ {
			g := newPageGen(newRng(ctx.Seed, fmt.Sprintf("C02/exotic/%d", i)))
			g.Weights = append(defaultWeights(), W{"exotic", 60})
			src := g.Page(g.R.Range(3, 9), "t")
			d := parseDoc(src)
			replay := pageReplay{HTML: src, URL: pageURL.String()}
			ctx.Rep.hist("exotic-pages")
			pc.add(ctx, d, d.elementRoot(), true, replay)
			addRenderCases(tr, do, ctx.Rep, src, pageURL, replay, 6)
		}
	}
}

func runC03(ctx *Ctx) {
	pc := newPipeCorr()
	defer pc.run(ctx)
	tb := newCorr("textblocks")
	defer tb.run(ctx)
	fl := newCorr("filters")
	defer fl.run(ctx)
	ctx.Rep.Rule = "pages with many simple paragraphs (text, br, b/i/em/strong/span/u/code/font/a incl. javascript: anchors) in body, list items, blockquotes and table cells, between other block kinds; distinct by structure; non-trivial = at least one simple paragraph kept and one dropped in the same page"
	contentRun{id: "C03", n: [2]int{500, 20000}, url: pageURL,
		corr: func(ctx *Ctx, x *distilled, replay interface{}) {
			pc.add(ctx, x.D, x.Root, true, replay)
			checkPlainAtoms(ctx, x, replay)
			addTextBlocksCase(tb, x.Src, pageURL, true, replay)
			addTextBlocksCase(tb, x.Src, pageURL, false, replay)
			addFiltersCase(fl, ctx.Rep, x.Src, pageURL, true, replay)
			addFiltersCase(fl, ctx.Rep, x.Src, pageURL, false, replay)
		},
		weights: []W{{"para", 40}, {"shortpara", 20}, {"heading", 4}, {"list", 10}, {"quote", 8}, {"datatable", 5}, {"layouttable", 5}, {"links", 6}, {"figure", 2}, {"img", 2}, {"divwrap", 8}, {"unlikely", 3}, {"form", 2}, {"hidden", 2}},
		extra: func(ctx *Ctx, i int, r *Rng) []string {
			out := []string{newPageGen(newRng(ctx.Seed, fmt.Sprintf("C03/fs/%d", i))).FilterStressPage()}
			if i%40 == 7 {
				out = append(out, deepNestPage(newPageGen(newRng(ctx.Seed, fmt.Sprintf("C03/deep/%d", i)))))
				ctx.Rep.hist("deep-nest-pages")
			}
			return out
		},
		oracle: func(ctx *Ctx, x *distilled, replay interface{}) bool {
			n, k, d := oracleC03(ctx.Rep, x, replay)
			ctx.Rep.histN("simple-paragraphs", n)
			ctx.Rep.histN("simple-kept", k)
			ctx.Rep.histN("simple-dropped", d)
			return k > 0 && d > 0
		}}.run(ctx)
}

// deepNestPage: a simple paragraph whose inline elements nest a few hundred to a few thousand
// levels deep (the parser builds such trees as they are written), with words at the shallow and
// at the deepest levels, between ordinary paragraphs.
func deepNestPage(g *PageGen) string {
	depth := []int{40, 300, 505, 520, 700, 1100}[g.R.Intn(6)]
	tags := []string{"b", "i", "em", "strong", "span", "u", "code"}
	var open strings.Builder
	close := ""
	for k := 0; k < depth; k++ {
		t := tags[g.R.Intn(len(tags))]
		open.WriteString("<" + t + ">")
		if k%97 == 0 {
			open.WriteString(g.word() + " ")
		}
		close = "</" + t + ">" + close
	}
	deep := "<p>" + g.words(25) + " " + open.String() + g.words(25) + close + " " + g.words(25) + "</p>"
	return "<html><head><title>t</title></head><body><p>" + g.words(40) + "</p>" + deep + "<p>" + g.words(40) + "</p><div><p>" + g.words(3) + "</p></div></body></html>"
}

func hiddenCarriers(g *PageGen) []string {
	var out []string
	hid := func() string { return g.hidden() }
	scr := func() string { return g.scriptish() }
	frm := func() string { return g.form() }
	for _, mk := range []func() string{hid, scr, frm} {
		out = append(out,
			"<p>"+g.words(25)+" "+mk()+" "+g.words(25)+"</p>",
			"<ul><li>"+g.words(20)+mk()+"</li><li>"+g.words(20)+"</li></ul>",
			"<table><caption>"+g.words(3)+"</caption><tr><th>"+g.words(1)+"</th><th>"+g.words(1)+"</th></tr><tr><td>"+g.words(2)+mk()+"</td><td>"+g.words(2)+"</td></tr><tr><td>"+g.words(2)+"</td><td>"+g.words(2)+"</td></tr></table>",
			"<figure>"+g.img()+"<figcaption>"+g.words(4)+" "+mk()+` <a href="`+g.linkURL()+`">`+g.words(1)+"</a></figcaption></figure>",
			"<figure>"+g.img()+mk()+"<figcaption>"+g.words(4)+"</figcaption></figure>",
			"<blockquote><p>"+g.words(25)+"</p>"+mk()+"</blockquote>",
			"<figure>"+g.img()+mk()+"</figure>",
			"<figure>"+g.img()+"<figcaption>"+g.words(3)+mk()+"</figcaption></figure>",
			`<picture><source srcset="`+g.mediaURL("webp")+` 1x">`+mk()+`<img src="`+g.mediaURL("jpg")+`">`+mk()+"</picture>",
			"<figure><picture>"+mk()+`<img src="`+g.mediaURL("jpg")+`"></picture><figcaption>`+g.words(3)+"</figcaption></figure>",
			"<div>"+g.words(25)+mk()+g.words(10)+"</div>",
		)
	}
	return out
}

func runC04(ctx *Ctx) {
	pc := newPipeCorr()
	defer pc.run(ctx)
	on := newCorr("outputnodes")
	defer on.run(ctx)
	mr := newCorr("mediarender")
	defer mr.run(ctx)
	ix := newCorr("imageextract")
	defer ix.run(ctx)
	if ctx.Replay == "" {
		styleCorr(ctx, ctx.pick(6000, 300000)).run(ctx)
	}
	ctx.Rep.Rule = "each hiding technique (script, style, head, comment, hidden attribute, display:none, visibility:hidden/collapse, aria-hidden, form controls, noscript, svg, object, unrecognised iframe) in each carrier (top level, paragraph, list item, data-table cell, figure, figcaption, blockquote, bare div) between long retained paragraphs; distinct by structure; non-trivial = the page contains hidden words and retains visible ones"
	contentRun{id: "C04", n: [2]int{150, 6000}, url: pageURL,
		corr: func(ctx *Ctx, x *distilled, replay interface{}) {
			pc.add(ctx, x.D, x.Root, true, replay)
			addOutputNodesCase(on, x.Src, replay)
			addMediaRenderCases(mr, ctx.Rep, x.Src, pageURL, replay)
			addImageExtractCases(ix, ctx.Rep, x.Src, pageURL, replay)
		},
		weights: []W{{"para", 30}, {"hidden", 15}, {"script", 12}, {"form", 10}, {"list", 6}, {"datatable", 8}, {"figure", 8}, {"embed", 4}, {"quote", 4}, {"divwrap", 6}, {"links", 3}},
		extra: func(ctx *Ctx, i int, r *Rng) []string {
			g := newPageGen(r)
			cs := hiddenCarriers(g)
			body := "<p>" + g.words(40) + "</p>"
			for k := 0; k < 3; k++ {
				body += cs[r.Intn(len(cs))] + "<p>" + g.words(30) + "</p>"
			}
			return []string{"<html><head><title>t</title><script>var " + g.word() + "</script><style>." + g.word() + "{}</style></head><body>" + body + "</body></html>"}
		},
		oracle: func(ctx *Ctx, x *distilled, replay interface{}) bool {
			n := oracleC04(ctx.Rep, x, replay)
			ctx.Rep.histN("hidden-text-nodes", n)
			return n > 0 && len(tokensOf(x.Res.Text)) > 0
		}}.run(ctx)
}

func runC05(ctx *Ctx) {
	corrStrip := newCorr("strip")
	defer corrStrip.run(ctx)
	on := newCorr("outputnodes")
	defer on.run(ctx)
	tr := newCorr("textrender")
	defer tr.run(ctx)
	dd := newCorr("dedupe")
	defer dd.run(ctx)
	mr := newCorr("mediarender")
	defer mr.run(ctx)
	pc := newPipeCorr()
	defer pc.run(ctx)
	ctx.Rep.Rule = "pages whose every element may carry on*, id, class, style, data-* and unknown attributes, over all retained kinds (paragraphs, lists, images, figures+captions, videos, data tables, embeds) and with script/style children inside tables, captions and tweets; distinct by structure; non-trivial = at least one retained element carried a forbidden attribute in the source"
	contentRun{id: "C05", n: [2]int{300, 12000}, url: pageURL,
		weights: []W{{"para", 30}, {"heading", 4}, {"list", 8}, {"quote", 4}, {"datatable", 8}, {"figure", 8}, {"img", 8}, {"video", 6}, {"embed", 8}, {"script", 4}, {"divwrap", 6}, {"pre", 2}},
		setup:   func(g *PageGen) { g.Decorate = true; g.DupAttrs = true },
		corr: func(ctx *Ctx, x *distilled, replay interface{}) {
			// model of StripAttributes vs the real one, on a private copy of the page body
			d := parseDoc(x.Src)
			body := findFirst(d.Root, "body")
			if body == nil {
				return
			}
			distiller.VerifRemoveDuplicateAttributes(body) // as the converter does with its clone
			var sb strings.Builder
			d.encodeTree(body, &sb)
			distiller.VerifStripAttributes(body)
			var els []*html.Node
			findAll(body, func(n *html.Node) bool { return n.Type == html.ElementNode }, &els)
			var parts []string
			for _, e := range els {
				var as []string
				for _, a := range e.Attr {
					as = append(as, hx(a.Key)+"="+hx(a.Val))
				}
				parts = append(parts, e.Data+":"+strings.Join(as, " "))
			}
			corrStrip.add(sb.String(), strings.Join(parts, "|"), replay)
			addOutputNodesCase(on, x.Src, replay)
			addRenderCases(tr, nil, ctx.Rep, x.Src, pageURL, replay, 6)
			addDedupeCase(dd, x.Src, replay)
			addMediaRenderCases(mr, ctx.Rep, x.Src, pageURL, replay)
			pc.add(ctx, x.D, x.Root, true, replay)
		},
		extra: func(ctx *Ctx, i int, r *Rng) []string {
			g := newPageGen(r)
			g.Decorate = true
			scr := g.scriptish()
			if r.Chance(30) {
				scr = `<script style="display:block">var ` + g.word() + `</script><style style="display:inline">.` + g.word() + `{}</style>`
			}
			body := "<p>" + g.words(40) + "</p>" +
				"<table><tr><th>" + g.words(1) + "</th><th>" + g.words(1) + "</th></tr><tr><td>" + g.words(2) + scr + "</td><td onclick=\"x()\">" + g.words(2) + "</td></tr></table>" +
				"<p>" + g.words(40) + "</p>" +
				`<blockquote class="twitter-tweet"><p>` + g.words(4) + `</p><script async src="//platform.twitter.com/widgets.js"></script><a href="https://twitter.com/u/status/123">d</a></blockquote>` +
				"<p>" + g.words(40) + "</p><figure>" + g.img() + "<figcaption>" + g.words(3) + scr + ` <a href="x" class="c" onclick="y()">` + g.words(1) + "</a></figcaption></figure><p>" + g.words(30) + "</p>"
			// character data of SVG / MathML elements that carry the name of an HTML raw text
			// element: harmless text in the source, markup if it is written out unescaped
			foreign := func() string {
				raw := r.Pick("xmp", "noembed", "noframes", "iframe", "noscript", "plaintext", "style", "script")
				payload := r.Pick(`&lt;script&gt;alert(1)&lt;/script&gt;`, `&lt;img src=x onerror=alert(2)&gt;`, `&lt;p id=injected class=c style=color:red onclick=x()&gt;`+g.word()+`&lt;/p&gt;`)
				if r.Chance(50) {
					// character data that first "closes" the element it sits in
					payload = "&lt;/" + raw + "&gt;" + r.Pick("", "&lt;/li&gt;&lt;/ul&gt;", "&lt;/math&gt;", "&lt;/svg&gt;") + payload
				}
				return r.Pick("<svg>", "<math>", "<svg><g>", "<math><mrow>", "<math><mi>") + "<" + raw + ">" + payload + "</" + raw + ">" + r.Pick("</svg>", "</math>", "")
			}
			body2 := "<p>" + g.words(40) + "</p>" +
				"<table><caption>" + g.words(2) + foreign() + "</caption><tr><th>" + g.words(1) + "</th><th>" + g.words(1) + "</th></tr><tr><td>" + g.words(2) + foreign() + "</td><td>" + g.words(2) + "</td></tr><tr><td>" + g.words(1) + "</td><td>" + g.words(1) + "</td></tr></table>" +
				"<p>" + g.words(40) + "</p>" +
				`<blockquote class="twitter-tweet"><p>` + g.words(4) + `</p>` + foreign() + `<a href="https://twitter.com/u/status/124">d</a></blockquote>` +
				"<p>" + g.words(40) + "</p><figure>" + g.img() + "<figcaption>" + g.words(3) + foreign() + ` <a href="x">` + g.words(1) + "</a></figcaption></figure><p>" + g.words(30) + " " + foreign() + "</p><ul><li>" + g.words(25) + " " + foreign() + " " + g.words(5) + "</li><li>" + g.words(20) + "</li></ul><p>" + g.words(30) + "</p>"
			return []string{"<html><head><title>t</title></head><body>" + body + "</body></html>", "<html><head><title>t</title></head><body>" + body2 + "</body></html>"}
		},
		oracle: func(ctx *Ctx, x *distilled, replay interface{}) bool {
			oracleC05(ctx.Rep, x, replay)
			return len(tokensOf(x.Res.Text)) > 0
		}}.run(ctx)
}

func runC06(ctx *Ctx) {
	ctx.Rep.Rule = "pages in which every link/media URL uses a relative-reference form (path-relative, root-relative, scheme-relative, query-only, dot segments, fragment, absolute) on every URL-bearing attribute of every kind (a, img, picture/source, srcset, video src/poster, track, lazy attributes), under several page URLs; distinct by structure; non-trivial = at least one retained URL whose source value was relative"
	urls := []string{"http://example.com/dir/page.html", "https://sub.example.org/a/b/c?x=1", "http://example.com/"}
	ab := newCorr("absurl")
	defer ab.run(ctx)
	tr := newCorr("textrender")
	defer tr.run(ctx)
	dd := newCorr("dedupe")
	defer dd.run(ctx)
	mr := newCorr("mediarender")
	defer mr.run(ctx)
	for k, us := range urls {
		u, _ := nurl.Parse(us)
		cr := contentRun{id: "C06", n: [2]int{120, 4000}, url: u,
			corr: func(ctx *Ctx, x *distilled, replay interface{}) {
				addAbsURLCase(ab, x.Src, u, replay)
				addRenderCases(tr, nil, ctx.Rep, x.Src, u, replay, 6)
				addDedupeCase(dd, x.Src, replay)
				addMediaRenderCases(mr, ctx.Rep, x.Src, u, replay)
			},
			weights: []W{{"para", 35}, {"list", 6}, {"datatable", 8}, {"figure", 10}, {"img", 10}, {"video", 8}, {"quote", 4}, {"divwrap", 5}, {"links", 4}},
			setup: func(g *PageGen) {
				g.RelURLs = true
				g.DupAttrs = true
				if g.R.Chance(30) {
					g.BaseHref = g.R.Pick("/", "https://cdn.other.example/", "../", "assets/", "//static.example.net/x/", "?v=2")
				}
			},
			oracle: func(ctx *Ctx, x *distilled, replay interface{}) bool {
				n := oracleC06(ctx.Rep, x, replay)
				ctx.Rep.histN("retained-relative-urls", n)
				return n > 0
			}}
		if k > 0 && ctx.Replay != "" {
			break
		}
		cr.run(ctx)
	}
	if ctx.Replay == "" {
		var pages []*nurl.URL
		for _, us := range urls {
			u, _ := nurl.Parse(us)
			pages = append(pages, u)
		}
		srcsetCorr(ctx, ctx.pick(4000, 200000), pages).run(ctx)
		createAbsCorr(ctx, ctx.pick(6000, 300000)).run(ctx)
	}
	if ctx.Replay == "" {
		// one Options value (and so one page URL object) reused for a series of pages, with
		// pagination switched on and both algorithms: every page must be resolved against the page
		// URL the caller supplied, not against whatever an earlier call left behind
		for _, us := range []string{"http://example.com/dir/sub/", "https://sub.example.org/a/b/c/?x=1", "http://example.com/dir/page.html"} {
			for algo := 0; algo < 2; algo++ {
				shared, _ := nurl.Parse(us)
				opts := &distiller.Options{OriginalURL: shared, PaginationAlgo: distiller.PaginationAlgo(algo)}
				for i := 0; i < ctx.pick(6, 200); i++ {
					r := newRng(ctx.Seed, fmt.Sprintf("C06/reuse/%s/%d/%d", us, algo, i))
					g := newPageGen(r)
					g.RelURLs = true
					src := "<html><head><title>t</title></head><body>" + g.blocks(r.Range(3, 8), 0) + simplePager(r, strings.TrimSuffix(us, "/"), 4, 2) + "</body></html>"
					d := parseDoc(src)
					res, err := distiller.Apply(d.Root, opts)
					ctx.Rep.Evaluations++
					if err != nil {
						continue
					}
					fresh, _ := nurl.Parse(us)
					x := &distilled{D: d, Src: src, Res: res, URL: fresh, Root: d.elementRoot()}
					oracleC06(ctx.Rep, x, map[string]interface{}{"html": src, "url": us, "algo": algo, "call": i + 1, "note": "the same Options value is reused for every call of the series"})
					ctx.Rep.hist("reused-options-calls")
				}
			}
		}
	}
}

func runC07(ctx *Ctx) {
	pc := newPipeCorr()
	defer pc.run(ctx)
	on := newCorr("outputnodes")
	defer on.run(ctx)
	tr, do := newCorr("textrender"), newCorr("docoutput")
	defer tr.run(ctx)
	defer do.run(ctx)
	ctx.Rep.Rule = "pages with nested ul/ol/li/blockquote/pre to depth 5, partially retained lists, content only in inner lists, media and data tables inside lists and quotes; distinct by structure; non-trivial = a retained word with chain length >= 2 and a list with both kept and dropped items"
	contentRun{id: "C07", n: [2]int{500, 20000}, url: pageURL,
		setup: func(g *PageGen) { g.MathVoid = true },
		corr: func(ctx *Ctx, x *distilled, replay interface{}) {
			pc.add(ctx, x.D, x.Root, true, replay)
			addRenderCases(tr, do, ctx.Rep, x.Src, pageURL, replay, 6)
			addOutputNodesCase(on, x.Src, replay)
		},
		weights: []W{{"para", 25}, {"shortpara", 8}, {"list", 25}, {"quote", 15}, {"pre", 6}, {"datatable", 6}, {"img", 4}, {"figure", 3}, {"links", 6}, {"divwrap", 6}, {"embed", 3}, {"heading", 3}, {"oddtext", 8}, {"inlinenest", 8}},
		oracle: func(ctx *Ctx, x *distilled, replay interface{}) bool {
			deep, partial := oracleC07(ctx.Rep, x, replay)
			ctx.Rep.histN("retained-words-depth>=2", deep)
			return deep > 0 && partial
		}}.run(ctx)
}

func runC09(ctx *Ctx) {
	corrWords := newCorr("countwords")
	defer corrWords.run(ctx)
	ctx.Rep.Rule = "article-like pages over all block kinds, plus text-only pages (inline mixes, anchors, br, detached punctuation) for the word-count clause; distinct by structure; non-trivial = a retained table or figure, or a text-only page with at least two retained blocks"
	fl := newCorr("filters")
	defer fl.run(ctx)
	tr, do := newCorr("textrender"), newCorr("docoutput")
	defer tr.run(ctx)
	defer do.run(ctx)
	mr := newCorr("mediarender")
	defer mr.run(ctx)
	ix := newCorr("imageextract")
	defer ix.run(ctx)
	if ctx.Replay == "" {
		wordCounterCorr(ctx, ctx.pick(3000, 100000)).run(ctx)
	}
	if ctx.Replay == "" {
		// the image extractor and the rendering of what it produces, on pages built around the
		// extractor's cases (model against implementation only)
		for i := 0; i < ctx.pick(300, 10000); i++ {
			r := newRng(ctx.Seed, fmt.Sprintf("C09/img/%d", i))
			src := imagePage(r, newPageGen(r))
			replay := pageReplay{HTML: src, URL: pageURL.String()}
			addImageExtractCases(ix, ctx.Rep, src, pageURL, replay)
			addMediaRenderCases(mr, ctx.Rep, src, pageURL, replay)
		}
	}
	contentRun{id: "C09", n: [2]int{300, 12000}, url: pageURL,
		setup: func(g *PageGen) { g.MathVoid = true },
		extra: func(ctx *Ctx, i int, r *Rng) []string {
			g := newPageGen(r)
			g.MathVoid = true
			g.Weights = []W{{"para", 50}, {"shortpara", 10}, {"heading", 5}, {"list", 10}, {"quote", 8}, {"pre", 3}, {"links", 6}, {"divwrap", 8}, {"baretext", 5}}
			return []string{g.Page(r.Range(3, 12), ""), newPageGen(newRng(ctx.Seed, fmt.Sprintf("C09/fs/%d", i))).FilterStressPage()}
		},
		corr: func(ctx *Ctx, x *distilled, replay interface{}) {
			addFiltersCase(fl, ctx.Rep, x.Src, pageURL, true, replay)
			addFiltersCase(fl, ctx.Rep, x.Src, pageURL, false, replay)
			addRenderCases(tr, do, ctx.Rep, x.Src, pageURL, replay, 8)
			addMediaRenderCases(mr, ctx.Rep, x.Src, pageURL, replay)
			addImageExtractCases(ix, ctx.Rep, x.Src, pageURL, replay)
		},
		oracle: func(ctx *Ctx, x *distilled, replay interface{}) bool {
			for _, l := range strings.Split(x.Res.Text, "\n") {
				if len(l) > 0 && len(l) < 400 {
					corrWords.add(hx(l), fmt.Sprint(distiller.VerifFastWordCount(l)), l)
				}
			}
			dump := distiller.VerifExtract(parseDoc(x.Src).elementRoot(), x.URL, 0)
			textOnly := oracleC09(ctx.Rep, x, dump, replay)
			if textOnly {
				ctx.Rep.hist("text-only-pages")
			}
			return len(tokensOf(x.Res.Text)) > 0
		}}.run(ctx)
}

// checkPlainAtoms: the premise `PlainAtoms` of the C03 theorem, on the real regexps: for every
// attribute-free inline element of a simple paragraph none of the converter's tests fires.
func checkPlainAtoms(ctx *Ctx, x *distilled, replay interface{}) {
	var ps []*html.Node
	findAll(x.D.Root, func(n *html.Node) bool { return n.Type == html.ElementNode && n.Data == "p" && isSimplePara(n) }, &ps)
	for _, p := range ps {
		var els []*html.Node
		findAll(p, func(n *html.Node) bool { return n != p && n.Type == html.ElementNode }, &els)
		for _, e := range els {
			a := distiller.VerifElementAtoms(e)
			ctx.Rep.hist("plain-atoms-checked")
			if a.StyleDisplay != "" || a.VisHidden || a.Byline || a.Unlikely || !a.Visible || distiller.VerifIsForeignRawText(e) {
				ctx.Rep.mismatch("premise:PlainAtoms", replay, "all tests false on an attribute-free inline element", fmt.Sprintf("<%s>: %+v", e.Data, a))
			}
		}
	}
}
