package main

import (
	"bytes"
	"fmt"
	nurl "net/url"
	"os"
	"path/filepath"
	"reflect"
	"strings"

	"github.com/go-shiori/dom"
	distiller "github.com/markusmobius/go-domdistiller"
)

func init() { props["C11"] = runC11 }

// richPager: pagers that give the detectors several candidate patterns and ties.
func richPager(r *Rng, n, k int) string {
	var sb strings.Builder
	base := "http://example.com/dir/story"
	kind := r.Intn(5)
	sb.WriteString(`<div class="pagination">`)
	for i := 1; i <= n; i++ {
		href := ""
		switch kind {
		case 0: // two numeric query parameters: two candidate patterns
			href = fmt.Sprintf("%s?page=%d&amp;pg=%d", base, i, i)
		case 1: // different parameter per link: single-link patterns
			href = fmt.Sprintf("%s?%s=%d", base, []string{"page", "pg", "p", "idx"}[i%4], i)
		case 2:
			href = fmt.Sprintf("%s/%d/part/%d", base, i, i)
		case 3:
			href = fmt.Sprintf("%s?page=%d&amp;sort=%d", base, i, 10-i)
		default:
			href = fmt.Sprintf("%s?page=%d", base, i)
		}
		if i == k {
			fmt.Fprintf(&sb, "%d ", i)
		} else {
			fmt.Fprintf(&sb, `<a href="%s">%d</a> `, href, i)
		}
	}
	sb.WriteString(`</div>`)
	if r.Chance(50) {
		// two equally good "Next" anchors to different URLs
		fmt.Fprintf(&sb, `<p><a href="%s/page/%d">Next</a></p><div><a href="%s-photos/page/%d">Next</a></div>`, base, k+1, base, k+1)
	}
	return sb.String()
}

func runC11(ctx *Ctx) {
	silenceStderr()
	rep := ctx.Rep
	reps := ctx.pick(20, 200)
	rep.Rule = fmt.Sprintf("each input distilled %d times in one process (Go re-randomises map order on every range) with fresh and with reused Options values, both algorithms, plus ApplyForReader / ApplyForFile against Apply(dom.Parse(bytes)); every field but TimingInfo compared; inputs weighted to pagers with several numeric parameters, single-link patterns and tied Next anchors; distinct by page structure; non-trivial = the page has a pager that offers at least two candidate patterns or two tied anchors", reps)
	run := func(src string, urls ...string) {
		if len(urls) == 0 {
			urls = []string{"http://example.com/dir/story", "http://example.com/dir/story/"}
		}
		nontrivial := len(urls) == 1 || strings.Contains(src, "&amp;pg=") || strings.Contains(src, "?pg=") || strings.Contains(src, "-photos/page/") || strings.Contains(src, "/part/")
		for algo := 0; algo < 2; algo++ {
			for _, us := range urls {
				u, _ := nurl.Parse(us)
				shared := &distiller.Options{OriginalURL: u, PaginationAlgo: distiller.PaginationAlgo(algo)}
				var first resultView
				for k := 0; k < reps; k++ {
					rep.Evaluations++
					opts := shared // reused Options value ("any sequence of earlier calls")
					if k%2 == 1 {
						uu, _ := nurl.Parse(us)
						opts = &distiller.Options{OriginalURL: uu, PaginationAlgo: distiller.PaginationAlgo(algo)}
					}
					d := parseDoc(src)
					res, err := distiller.Apply(d.Root, opts)
					if err != nil {
						rep.hist("apply-error")
						break
					}
					v := viewOf(res)
					if k == 0 {
						first = v
						continue
					}
					if !reflect.DeepEqual(v, first) {
						f := "?"
						va, vb := reflect.ValueOf(v), reflect.ValueOf(first)
						for i := 0; i < va.NumField(); i++ {
							if !reflect.DeepEqual(va.Field(i).Interface(), vb.Field(i).Interface()) {
								f = va.Type().Field(i).Name
								break
							}
						}
						cause := "map-order-or-state"
						if k%2 == 0 {
							cause = "reused-options"
						}
						fld := f
						if f == "Next" || f == "Prev" {
							fld = "PaginationInfo"
						}
						rep.violate(map[string]string{"field": fld, "algo": fmt.Sprint(algo), "cause": cause},
							fmt.Sprintf("run %d differs from run 1 in %s (algo %d, url %s): %q vs %q", k+1, f, algo, us, trunc(fmt.Sprint(reflect.ValueOf(v).FieldByName(f).Interface()), 120), trunc(fmt.Sprint(reflect.ValueOf(first).FieldByName(f).Interface()), 120)),
							map[string]interface{}{"html": src, "url": us, "algo": algo, "runs": reps})
						break
					}
				}
			}
		}
		// reader / file entry points against Apply on the parsed bytes
		u, _ := nurl.Parse("http://example.com/dir/story")
		doc, err := dom.Parse(strings.NewReader(src))
		if err == nil {
			a, e1 := distiller.Apply(doc, &distiller.Options{OriginalURL: u})
			b, e2 := distiller.ApplyForReader(bytes.NewReader([]byte(src)), &distiller.Options{OriginalURL: u})
			rep.Evaluations++
			if e1 == nil && e2 == nil && !reflect.DeepEqual(viewOf(a), viewOf(b)) {
				rep.violate(map[string]string{"field": "any", "cause": "reader-vs-apply"}, "ApplyForReader differs from Apply(dom.Parse(bytes))", map[string]interface{}{"html": src})
			}
			if ctx.Work != "" {
				p := filepath.Join(ctx.Work, "c11-input.html")
				os.WriteFile(p, []byte(src), 0o644)
				c, e3 := distiller.ApplyForFile(p, &distiller.Options{OriginalURL: u})
				os.Remove(p)
				if e1 == nil && e3 == nil && !reflect.DeepEqual(viewOf(a), viewOf(c)) {
					rep.violate(map[string]string{"field": "any", "cause": "file-vs-apply"}, "ApplyForFile differs from Apply(dom.Parse(bytes))", map[string]interface{}{"html": src})
				}
			}
		}
		if nontrivial {
			rep.nontrivial(fmt.Sprintf("%x", hashStr(rxTok.ReplaceAllString(src, "w"))))
		}
		rep.sample(map[string]interface{}{"html_len": len(src), "rich_pager": nontrivial})
	}
	if ctx.Replay != "" {
		var r struct {
			HTML string `json:"html"`
		}
		readReplay(ctx.Replay, &r)
		run(r.HTML)
		return
	}
	for _, src := range corpusPages(ctx, "C11") {
		run(src)
	}
	// pagers on their own page URL (mixed anchors, several numeric query parameters, gaps):
	// the layouts in which the order of evaluating the page patterns mattered run first
	for _, c := range c16Corpus() {
		run(c.HTML, c.PageURL)
	}
	for i := 0; i < ctx.pick(150, 4000); i++ {
		r := newRng(ctx.Seed, fmt.Sprintf("C11/pager/%d", i))
		c := genPager(r, newPageGen(r))
		if r.Chance(50) {
			// a second numeric parameter on every pager link, some page numbers missing
			c = sparsePager(r)
		}
		run(c.HTML, c.PageURL)
	}
	n := ctx.pick(60, 1500)
	for i := 0; i < n; i++ {
		r := newRng(ctx.Seed, fmt.Sprintf("C11/%d", i))
		g := newPageGen(r)
		body := g.blocks(r.Range(2, 7), 0)
		nn := r.Range(2, 7)
		body += richPager(r, nn, r.Range(1, nn))
		if r.Chance(40) {
			m := randIntent(r, i)
			run(m.HTML(body))
		} else {
			run("<html><head><title>Some page title - Section - Site</title></head><body>" + body + "</body></html>")
		}
	}
}

// sparsePager: links "?page=N&id=7" (two numeric parameters each) for an ascending subset of
// page numbers, with plain numbers in between: single-link patterns and multi-link patterns
// are both candidates, so the order of evaluation is observable.
func sparsePager(r *Rng) pagerCase {
	extra := r.Pick("id=7", "id=7&v=2", "y=2024", "a=1&b=2")
	var items []string
	num := 0
	k := r.Range(1, 6)
	for i := 0; i < r.Range(2, 6); i++ {
		num += r.Range(1, 3)
		if r.Chance(30) {
			items = append(items, fmt.Sprint(num))
		} else {
			items = append(items, fmt.Sprintf(`<a href="/a?page=%d&amp;%s">%d</a>`, num, strings.ReplaceAll(extra, "&", "&amp;"), num))
		}
	}
	body := "<p>" + strings.Repeat("word ", 80) + "</p>"
	return pagerCase{PageURL: fmt.Sprintf("http://example.com/a?page=%d&%s", k, extra),
		HTML: "<html><head><title>A paginated article</title></head><body>" + body + "<div>" + strings.Join(items, " ") + "</div></body></html>", Desc: map[string]string{"family": "sparse"}}
}
