package main

import (
	"fmt"
	"net/http"
	"net/http/httptest"
	nurl "net/url"
	"strings"
	"time"

	distiller "github.com/markusmobius/go-domdistiller"
	"golang.org/x/net/html"
)

func init() { props["C10"] = runC10 }

// treeSnapshot: everything observable about a node tree, including identity and links.
func treeSnapshot(root *html.Node) []string {
	idx := map[*html.Node]int{}
	var order []*html.Node
	var walk func(*html.Node)
	walk = func(n *html.Node) {
		idx[n] = len(order)
		order = append(order, n)
		for c := n.FirstChild; c != nil; c = c.NextSibling {
			walk(c)
		}
	}
	walk(root)
	ref := func(n *html.Node) string {
		if n == nil {
			return "nil"
		}
		if i, ok := idx[n]; ok {
			return fmt.Sprint(i)
		}
		return "foreign"
	}
	out := make([]string, len(order))
	for i, n := range order {
		var as []string
		for _, a := range n.Attr {
			as = append(as, a.Namespace+":"+a.Key+"="+a.Val)
		}
		par := ref(n.Parent)
		if n == root {
			par = "root"
		}
		out[i] = fmt.Sprintf("%p|%d|%q|%d|%q|%s|p%s f%s l%s <%s >%s", n, n.Type, n.Data, n.DataAtom, n.Namespace, strings.Join(as, ","), par, ref(n.FirstChild), ref(n.LastChild), ref(n.PrevSibling), ref(n.NextSibling))
	}
	return out
}

func optsSnapshot(o *distiller.Options) string {
	if o == nil {
		return "nil"
	}
	u := "nil"
	if o.OriginalURL != nil {
		x := o.OriginalURL
		u = fmt.Sprintf("%p{%q %q %v %q %q %q %v %q %q %q}", x, x.Scheme, x.Opaque, x.User, x.Host, x.Path, x.RawPath, x.ForceQuery, x.RawQuery, x.Fragment, x.RawFragment)
	}
	return fmt.Sprintf("flags=%d skip=%v algo=%d url=%s", o.LogFlags, o.SkipPagination, o.PaginationAlgo, u)
}

func firstDiff(a, b []string) string {
	for i := 0; i < len(a) && i < len(b); i++ {
		if a[i] != b[i] {
			return fmt.Sprintf("node %d: before %s | after %s", i, trunc(a[i], 160), trunc(b[i], 160))
		}
	}
	return fmt.Sprintf("node count %d -> %d", len(a), len(b))
}

func runC10(ctx *Ctx) {
	silenceStderr()
	rep := ctx.Rep
	rep.Rule = "deep snapshot (node identity, links, type, data, atom, namespace, attributes; Options; URL fields) before and after every entry point: Apply on documents and sub-elements, repeated calls with the same tree and the same Options value, both algorithms, URLs with trailing slash / escaped path, ApplyForReader, ApplyForURL against a loopback server; distinct by page structure and configuration; non-trivial = the page makes the converter rewrite its private clone (font, javascript: anchor, figure/picture, lazy image, embed)"
	srv := httptest.NewServer(http.HandlerFunc(func(w http.ResponseWriter, r *http.Request) {
		w.Header().Set("Content-Type", "text/html; charset=utf-8")
		g := newPageGen(newRng(ctx.Seed, "C10srv"+r.URL.Path))
		fmt.Fprint(w, g.Page(6, "served page title for url entry point"))
	}))
	defer srv.Close()
	urls := []string{"", "http://example.com/dir/story/", "http://example.com/caf%C3%A9/p%20q/page/2", "http://example.com/dir/story?page=2"}
	check := func(src string, i int, r *Rng) {
		d := parseDoc(src)
		rewrites := strings.Contains(src, "<font") || strings.Contains(src, "javascript:") || strings.Contains(src, "<figure") || strings.Contains(src, "<picture") || strings.Contains(src, "data-src") || strings.Contains(src, "twitter-tweet") || strings.Contains(src, "<iframe")
		for _, us := range urls {
			for algo := 0; algo < 2; algo++ {
				opts := &distiller.Options{LogFlags: distiller.LogFlag(r.Intn(16) * 2), PaginationAlgo: distiller.PaginationAlgo(algo)}
				if us != "" {
					opts.OriginalURL, _ = nurl.Parse(us)
				}
				roots := []*html.Node{d.Root}
				var els []*html.Node
				findAll(d.Root, func(x *html.Node) bool { return x.Type == html.ElementNode }, &els)
				if len(els) > 0 {
					roots = append(roots, els[r.Intn(len(els))])
				}
				for _, root := range roots {
					for call := 0; call < 2; call++ { // the second call reuses tree and Options
						rep.Evaluations++
						before, ob := treeSnapshot(d.Root), optsSnapshot(opts)
						o := guarded(func() (*distiller.Result, error) { return distiller.Apply(root, opts) }, 20*time.Second)
						after, oa := treeSnapshot(d.Root), optsSnapshot(opts)
						replay := map[string]interface{}{"html": src, "url": us, "algo": algo, "call": call + 1}
						if o.Class == "panic" || o.Class == "hang" {
							rep.hist("c01:" + o.Class)
						}
						if strings.Join(before, "\n") != strings.Join(after, "\n") {
							rep.violate(map[string]string{"entry": "Apply", "what": "tree", "algo": fmt.Sprint(algo)}, "the caller's node tree changed: "+firstDiff(before, after), replay)
						}
						if ob != oa {
							rep.violate(map[string]string{"entry": "Apply", "field": "Options/URL", "algo": fmt.Sprint(algo), "url": us}, "the caller's Options/URL changed: "+ob+" -> "+oa, replay)
						}
					}
				}
			}
		}
		if rewrites {
			rep.nontrivial(fmt.Sprintf("%x", hashStr(rxTok.ReplaceAllString(src, "w"))))
		}
		rep.sample(map[string]interface{}{"html_len": len(src), "rewrites_clone": rewrites})
	}
	if ctx.Replay != "" {
		var r struct {
			HTML string `json:"html"`
		}
		readReplay(ctx.Replay, &r)
		check(r.HTML, 0, newRng(ctx.Seed, "replay"))
		return
	}
	n := ctx.pick(60, 2000)
	for i := 0; i < n; i++ {
		r := newRng(ctx.Seed, fmt.Sprintf("C10/%d", i))
		g := newPageGen(r)
		g.RelURLs = r.Chance(50)
		g.Decorate = r.Chance(40)
		g.DupAttrs = r.Chance(50)
		body := g.blocks(r.Range(3, 10), 0)
		if r.Chance(70) {
			nn := r.Range(2, 6)
			body += simplePager(r, "http://example.com/dir/story", nn, r.Range(1, nn))
		}
		if r.Chance(40) { // a page without anything that forces a clone, but with an embed
			body = "<p>" + g.words(40) + "</p>" + g.embed() + "<p>" + g.words(40) + "</p>"
		}
		// metadata the markup parsers read, and attributes (repeated ones too) on html / head / body
		htmlAttrs := r.Pick("", ` lang="en"`, ` lang="en" class="a" lang="de" data-x="1"`, ` xmlns:og="http://ogp.me/ns#" xmlns:og="http://ogp.me/ns#" id="top"`,
			` prefix="og: http://ogp.me/ns#" class="x" class="y" dir="ltr"`, ` itemscope itemtype="http://schema.org/Article" itemscope id="a"`)
		headExtra := ""
		if r.Chance(60) {
			headExtra = `<meta property="og:title" content="OG title"><meta property="og:type" content="article"><meta property="og:url" content="http://example.com/og"><meta property="og:image" content="http://example.com/i.png">` +
				`<meta name="title" content="IE title"><meta name="copyright" content="c" name="x">`
		}
		bodyAttrs := r.Pick("", ` class="b" class="c" onload="x()"`, ` id="b" style="margin:0" id="c"`)
		check("<html"+htmlAttrs+"><head"+r.Pick("", ` profile="p" profile="q" id="h"`)+"><title>A page title for the argument tests</title>"+headExtra+"</head><body"+bodyAttrs+">"+body+"</body></html>", i, r)
	}
	// ApplyForURL: the Options value handed in must come back unchanged
	for k := 0; k < ctx.pick(6, 60); k++ {
		for _, nilOpts := range []bool{false, true} {
			var opts *distiller.Options
			if !nilOpts {
				opts = &distiller.Options{LogFlags: distiller.LogFlag((k % 16) * 2), PaginationAlgo: distiller.PaginationAlgo(k % 2)}
				if k%3 == 0 {
					opts.OriginalURL, _ = nurl.Parse("http://caller.example.org/own/url")
				}
			}
			rep.Evaluations++
			ob := optsSnapshot(opts)
			_, err := distiller.ApplyForURL(fmt.Sprintf("%s/p%d", srv.URL, k), 5*time.Second, opts)
			if err != nil {
				rep.hist("applyforurl-error")
			}
			if oa := optsSnapshot(opts); ob != oa {
				rep.violate(map[string]string{"entry": "ApplyForURL", "field": "Options.OriginalURL"}, "ApplyForURL changed the caller's Options: "+ob+" -> "+oa, map[string]interface{}{"entry": "ApplyForURL", "k": k})
			}
		}
	}
}
