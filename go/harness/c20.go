package main

import (
	"fmt"
	"regexp"
	"strings"

	"golang.org/x/net/html"
)

func init() { props["C20"] = runC20 }

var rxRoleAttr = regexp.MustCompile(`role="[^"]*"`)

func markedElements(d *Doc) []*html.Node {
	var out []*html.Node
	findAll(d.Root, func(n *html.Node) bool {
		if n.Type != html.ElementNode {
			return false
		}
		v := getAttr(n, "class") + " " + getAttr(n, "id")
		for _, w := range safeMarkerWords {
			if strings.Contains(v, w) {
				return true
			}
		}
		switch getAttr(n, "role") {
		case "menu", "menubar", "complementary", "navigation", "alert", "alertdialog", "dialog":
			return true
		}
		return false
	}, &out)
	return out
}

// emptiesWrapper: deleting m leaves its parent, an "empty container" kind of element, without
// any text and without element children other than br/hr (the converter then skips the parent).
func emptiesWrapper(m *html.Node) bool {
	p := m.Parent
	if p == nil || p.Type != html.ElementNode {
		return false
	}
	switch p.Data {
	case "div", "section", "header", "h1", "h2", "h3", "h4", "h5", "h6":
	default:
		return false
	}
	for c := p.FirstChild; c != nil; c = c.NextSibling {
		if c == m {
			continue
		}
		switch c.Type {
		case html.TextNode:
			if strings.TrimSpace(c.Data) != "" {
				return false
			}
		case html.ElementNode:
			if c.Data == "br" || c.Data == "hr" {
				continue
			}
			// another marked sibling is deleted as well
			marked := false
			v := getAttr(c, "class") + " " + getAttr(c, "id")
			for _, w := range safeMarkerWords {
				if strings.Contains(v, w) {
					marked = true
				}
			}
			if !marked {
				return false
			}
		}
	}
	return true
}

func runC20(ctx *Ctx) {
	rep := ctx.Rep
	rep.Rule = "metamorphic triples (page, page with the marked subtrees deleted, page with the markers renamed to neutral values); remaining content 250-800 words; markers = unlikely vocabulary without a second documented meaning on class / id / role, on div/section/aside/ul wrappers placed between blocks and inside wrappers (never inside a, body or tables); distinct by structure; non-trivial = a marked subtree is present and the remaining page's word count is within 250 of the threshold"
	pc := newPipeCorr()
	defer pc.run(ctx)
	if ctx.Replay == "" {
		candidatesCorr(ctx, ctx.pick(5000, 200000)).run(ctx)
	}
	type triple struct{ P, Del, Neu string }
	run := func(t triple) {
		rep.Evaluations++
		replay := map[string]interface{}{"html": t.P, "deleted": t.Del, "neutral": t.Neu}
		xp, e1 := distill(t.P, pageURL)
		xd, e2 := distill(t.Del, pageURL)
		xn, e3 := distill(t.Neu, pageURL)
		if e1 != nil || e2 != nil || e3 != nil {
			rep.hist("apply-error")
			return
		}
		vp, vd, vn := viewOf(xp.Res), viewOf(xd.Res), viewOf(xn.Res)
		marks := markedElements(xp.D)
		shape := "other"
		for _, m := range marks {
			if emptiesWrapper(m) {
				shape = "pruned-subtree-empties-wrapper"
			}
		}
		wcRest := xd.Res.WordCount
		branch := "enough"
		want, wantName := vd, "page with the marked subtrees deleted"
		if wcRest < 500 {
			branch, want, wantName = "fallback", vn, "page with the markers renamed"
		}
		rep.hist("branch:" + branch)
		// the renamed marker itself may be visible in the output (role is an allowed attribute)
		vp.HTML, want.HTML = rxRoleAttr.ReplaceAllString(vp.HTML, `role=""`), rxRoleAttr.ReplaceAllString(want.HTML, `role=""`)
		vp.Markup, want.Markup, vp.Title, want.Title = "", "", "", "" // metadata is read from the whole document by design; the property speaks of Text/Node/WordCount
		if f, same := vp.sameExceptPagination(want); !same {
			rep.violate(map[string]string{"branch": branch, "field": f, "shape": shape},
				fmt.Sprintf("%d words remain without the marked subtrees (%s): result differs from that of the %s in field %s", wcRest, branch, wantName, f), replay)
		}
		if len(marks) > 0 && wcRest >= 250 && wcRest <= 750 {
			rep.nontrivial(fmt.Sprintf("%x", hashStr(structureOf(xp)+branch)))
		}
		pc.add(ctx, xp.D, xp.Root, true, replay)
		pc.add(ctx, xp.D, xp.Root, false, replay)
		rep.sample(map[string]interface{}{"marked": len(marks), "rest_words": wcRest, "branch": branch, "shape": shape})
	}
	if ctx.Replay != "" {
		var r struct{ HTML, Deleted, Neutral string }
		readReplay(ctx.Replay, &r)
		run(triple{r.HTML, r.Deleted, r.Neutral})
		return
	}
	n := ctx.pick(250, 10000)
	for i := 0; i < n; i++ {
		var t [3]string
		for mode := 0; mode < 3; mode++ {
			r := newRng(ctx.Seed, fmt.Sprintf("C20/%d", i))
			g := newPageGen(r)
			g.MarkMode, g.SafeMarkers = mode, true
			g.Weights = []W{{"para", 40}, {"shortpara", 6}, {"heading", 4}, {"list", 6}, {"quote", 3}, {"unlikely", 14}, {"divwrap", 10}, {"img", 3}, {"figure", 2}, {"links", 4}, {"datatable", 2}}
			t[mode] = "<html><head><title>An ordinary page title used for pruning tests</title></head><body>\n" + g.blocks(r.Range(6, 18), 0) + "</body></html>"
		}
		run(triple{t[0], t[1], t[2]})
		if i%10 == 0 {
			// the shape the proof's stability hypothesis excludes: a marked subtree that is the
			// only content of a wrapper, with bare text on both sides of the wrapper
			r := newRng(ctx.Seed, fmt.Sprintf("C20w/%d", i))
			g := newPageGen(r)
			wrap := r.Pick("div", "section", "header")
			w := safeMarkerWords[r.Intn(len(safeMarkerWords))]
			before, after, inner := g.words(r.Range(20, 60)), g.words(r.Range(20, 60)), g.words(r.Range(5, 20))
			long := ""
			for k := r.Range(6, 12); k > 0; k-- {
				long += "<p>" + g.words(r.Range(40, 70)) + "</p>\n"
			}
			mk := func(mode int) string {
				m := `<div class="` + w + `"><p>` + inner + `</p></div>`
				switch mode {
				case 1:
					m = ""
				case 2:
					m = `<div class="zzneutral"><p>` + inner + `</p></div>`
				}
				return "<html><head><title>An ordinary page title used for pruning tests</title></head><body>\n" + long +
					"<div>" + before + "<" + wrap + ">" + m + "</" + wrap + ">" + after + "</div>\n</body></html>"
			}
			run(triple{mk(0), mk(1), mk(2)})
		}
	}
}
