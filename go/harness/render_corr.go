package main

import (
	"fmt"
	nurl "net/url"
	"strings"

	distiller "github.com/markusmobius/go-domdistiller"
	"golang.org/x/net/html"
)

// Correspondence of the secondary rendering paths with the Lean model (Model/Render.lean):
//   outputnodes : tree + visibility atoms → what GetOutputNodes collects
//   absurl      : tree + CreateAbsoluteURL / srcset answers → attributes after MakeAllLinksAbsolute
// Both run on the <body> of a private parse of the page.

func elemAttrsLine(root *html.Node) string {
	var els []*html.Node
	findAll(root, func(n *html.Node) bool { return n.Type == html.ElementNode }, &els)
	var parts []string
	for _, e := range els {
		var as []string
		for _, a := range e.Attr {
			as = append(as, hx(a.Key)+"="+hx(a.Val))
		}
		parts = append(parts, e.Data+":"+strings.Join(as, " "))
	}
	return strings.Join(parts, "|")
}

func addOutputNodesCase(c *Corr, src string, replay interface{}) {
	d := parseDoc(src)
	body := findFirst(d.Root, "body")
	if body == nil {
		return
	}
	textAtoms := distiller.VerifTextAtoms(body)
	var sb strings.Builder
	d.encodeTree(body, &sb)
	var els, txts []*html.Node
	findAll(body, func(n *html.Node) bool { return n.Type == html.ElementNode }, &els)
	findAll(body, func(n *html.Node) bool { return n.Type == html.TextNode }, &txts)
	fmt.Fprintf(&sb, " %d", len(els))
	for _, e := range els {
		a := distiller.VerifElementAtoms(e)
		fmt.Fprintf(&sb, " %d %s %s %s %s %s 0 0", d.ID[e], hx(a.StyleDisplay), b01(a.VisHidden), b01(a.Byline), b01(a.Unlikely), b01(a.Maybe))
	}
	fmt.Fprintf(&sb, " %d", len(txts))
	for _, t := range txts {
		bl, w := textAtoms(t.Data)
		fmt.Fprintf(&sb, " %d %s %d", d.ID[t], b01(bl), w)
	}
	var ids, tags []string
	for _, n := range distiller.VerifGetOutputNodes(body) {
		if n.Type == html.TextNode {
			ids = append(ids, fmt.Sprint(d.ID[n]))
		} else {
			tags = append(tags, n.Data)
		}
	}
	c.add(sb.String(), strings.Join(ids, ",")+" | "+strings.Join(tags, ","), replay)
}

func addAbsURLCase(c *Corr, src string, pageURL *nurl.URL, replay interface{}) {
	d := parseDoc(src)
	body := findFirst(d.Root, "body")
	if body == nil {
		return
	}
	var sb strings.Builder
	d.encodeTree(body, &sb)
	seen := map[string]bool{}
	var tbl []string
	var els []*html.Node
	findAll(body, func(n *html.Node) bool { return n.Type == html.ElementNode }, &els)
	for _, e := range els {
		for _, a := range e.Attr {
			if seen[a.Val] {
				continue
			}
			seen[a.Val] = true
			tbl = append(tbl, hx(a.Val)+" "+hx(distiller.VerifCreateAbsoluteURL(a.Val, pageURL))+" "+hx(distiller.VerifSrcSetAbsolute(a.Val, pageURL)))
		}
	}
	fmt.Fprintf(&sb, " %d %s", len(tbl), strings.Join(tbl, " "))
	distiller.VerifMakeAllLinksAbsolute(body, pageURL)
	c.add(sb.String(), elemAttrsLine(body), replay)
}

// textblocks: grouping of Text elements into blocks, and the flags ApplyToModel writes back for
// the blocks the real article extractor ended with (Model/TextDoc.lean)
func addTextBlocksCase(c *Corr, src string, pageURL *nurl.URL, skipUnlikely bool, replay interface{}) {
	d := parseDoc(src)
	root := d.elementRoot()
	if root == nil {
		return
	}
	b := distiller.VerifBlocks(root, pageURL, skipUnlikely)
	var sb strings.Builder
	fmt.Fprintf(&sb, "%d", len(b.Groups))
	for _, g := range b.Groups {
		fmt.Fprintf(&sb, " %d", g)
	}
	fmt.Fprintf(&sb, " %d", len(b.Final))
	for _, f := range b.Final {
		fmt.Fprintf(&sb, " %d", len(f.Members))
		for _, m := range f.Members {
			fmt.Fprintf(&sb, " %d", m)
		}
		fmt.Fprintf(&sb, " %s %s", b01(f.IsContent), b01(f.Title))
	}
	var init, flags []string
	for _, blk := range b.Initial {
		var ms []string
		for _, m := range blk {
			ms = append(ms, fmt.Sprint(m))
		}
		init = append(init, strings.Join(ms, ","))
	}
	for i := range b.Flags {
		flags = append(flags, b01(b.Flags[i])+b01(b.Titles[i]))
	}
	c.add(sb.String(), strings.Join(init, ";")+" | "+strings.Join(flags, " "), replay)
	// premise of C03.flag_per_block: the filters only merge adjacent blocks or drop whole
	// blocks — the final blocks hold Text elements in document order, each at most once, and
	// every initial block lies inside one final block or is dropped as a whole
	owner := map[int]int{}
	last := -1
	ordered := true
	for bi, f := range b.Final {
		for _, m := range f.Members {
			if m <= last {
				ordered = false
			}
			last = m
			owner[m] = bi + 1
		}
	}
	split := false
	for _, blk := range b.Initial {
		for _, m := range blk {
			if owner[m] != owner[blk[0]] {
				split = true
			}
		}
	}
	next := len(b.Groups)
	if !ordered || split || next != len(b.Groups) {
		c.premiseFailures = append(c.premiseFailures, fmt.Sprintf("final blocks are not merges of initial blocks in document order (ordered=%v split=%v)", ordered, split))
	}
}
