package main

import (
	"fmt"
	nurl "net/url"
	"sort"
	"strconv"
	"strings"

	distiller "github.com/markusmobius/go-domdistiller"
	"golang.org/x/net/html"
)

// Correspondence of the secondary rendering paths with the Lean model (Model/Render.lean):
//   outputnodes : tree + visibility atoms → what GetOutputNodes collects
//   absurl      : tree + CreateAbsoluteURL / srcset answers → attributes after MakeAllLinksAbsolute
// Both run on the <body> of a private parse of the page.

func elemAttrsLine(root *html.Node) string {
	var els []*html.Node
	findAll(root, func(n *html.Node) bool { return n.Type == html.ElementNode }, &els)
	var parts []string
	for _, e := range els {
		var as []string
		for _, a := range e.Attr {
			as = append(as, hx(a.Key)+"="+hx(a.Val))
		}
		parts = append(parts, e.Data+":"+strings.Join(as, " "))
	}
	return strings.Join(parts, "|")
}

func addOutputNodesCase(c *Corr, src string, replay interface{}) {
	d := parseDoc(src)
	body := findFirst(d.Root, "body")
	if body == nil {
		return
	}
	textAtoms := distiller.VerifTextAtoms(body)
	var sb strings.Builder
	d.encodeTree(body, &sb)
	var els, txts []*html.Node
	findAll(body, func(n *html.Node) bool { return n.Type == html.ElementNode }, &els)
	findAll(body, func(n *html.Node) bool { return n.Type == html.TextNode }, &txts)
	fmt.Fprintf(&sb, " %d", len(els))
	for _, e := range els {
		a := distiller.VerifElementAtoms(e)
		fmt.Fprintf(&sb, " %d %s %s %s %s %s 0 0 %s", d.ID[e], hx(a.StyleDisplay), b01(a.VisHidden), b01(a.Byline), b01(a.Unlikely), b01(a.Maybe), b01(distiller.VerifIsForeignRawText(e)))
	}
	fmt.Fprintf(&sb, " %d", len(txts))
	for _, t := range txts {
		bl, w := textAtoms(t.Data)
		fmt.Fprintf(&sb, " %d %s %d", d.ID[t], b01(bl), w)
	}
	var ids, tags []string
	for _, n := range distiller.VerifGetOutputNodes(body) {
		if n.Type == html.TextNode {
			ids = append(ids, fmt.Sprint(d.ID[n]))
		} else {
			tags = append(tags, n.Data)
		}
	}
	c.add(sb.String(), strings.Join(ids, ",")+" | "+strings.Join(tags, ","), replay)
}

// addDedupeCase: RemoveDuplicateAttributes (the converter applies it to its clone first)
func addDedupeCase(c *Corr, src string, replay interface{}) {
	d := parseDoc(src)
	body := findFirst(d.Root, "body")
	if body == nil {
		return
	}
	var sb strings.Builder
	d.encodeTree(body, &sb)
	distiller.VerifRemoveDuplicateAttributes(body)
	c.add(sb.String(), elemAttrsLine(body), replay)
}

func addAbsURLCase(c *Corr, src string, pageURL *nurl.URL, replay interface{}) {
	d := parseDoc(src)
	body := findFirst(d.Root, "body")
	if body == nil {
		return
	}
	// as in the pipeline: the absolutising passes only ever see the converter's clone, from
	// which repeated attributes have been removed
	distiller.VerifRemoveDuplicateAttributes(body)
	var sb strings.Builder
	d.encodeTree(body, &sb)
	seen := map[string]bool{}
	var tbl []string
	var els []*html.Node
	findAll(body, func(n *html.Node) bool { return n.Type == html.ElementNode }, &els)
	for _, e := range els {
		for _, a := range e.Attr {
			if seen[a.Val] {
				continue
			}
			seen[a.Val] = true
			tbl = append(tbl, hx(a.Val)+" "+hx(distiller.VerifCreateAbsoluteURL(a.Val, pageURL))+" "+hx(distiller.VerifSrcSetAbsolute(a.Val, pageURL)))
		}
	}
	fmt.Fprintf(&sb, " %d %s", len(tbl), strings.Join(tbl, " "))
	distiller.VerifMakeAllLinksAbsolute(body, pageURL)
	c.add(sb.String(), elemAttrsLine(body), replay)
}

// textblocks: grouping of Text elements into blocks, and the flags ApplyToModel writes back for
// the blocks the real article extractor ended with (Model/TextDoc.lean)
func addTextBlocksCase(c *Corr, src string, pageURL *nurl.URL, skipUnlikely bool, replay interface{}) {
	d := parseDoc(src)
	root := d.elementRoot()
	if root == nil {
		return
	}
	b := distiller.VerifBlocks(root, pageURL, skipUnlikely)
	var sb strings.Builder
	fmt.Fprintf(&sb, "%d", len(b.Groups))
	for _, g := range b.Groups {
		fmt.Fprintf(&sb, " %d", g)
	}
	fmt.Fprintf(&sb, " %d", len(b.Final))
	for _, f := range b.Final {
		fmt.Fprintf(&sb, " %d", len(f.Members))
		for _, m := range f.Members {
			fmt.Fprintf(&sb, " %d", m)
		}
		fmt.Fprintf(&sb, " %s %s", b01(f.IsContent), b01(f.Title))
	}
	var init, flags []string
	for _, blk := range b.Initial {
		var ms []string
		for _, m := range blk {
			ms = append(ms, fmt.Sprint(m))
		}
		init = append(init, strings.Join(ms, ","))
	}
	for i := range b.Flags {
		flags = append(flags, b01(b.Flags[i])+b01(b.Titles[i]))
	}
	c.add(sb.String(), strings.Join(init, ";")+" | "+strings.Join(flags, " "), replay)
	// premise of C03.flag_per_block: every final block is a union of whole initial blocks and
	// no Text element is in two final blocks.  (Order is not part of it: BlockProximityFusion can
	// merge a block into an older one across a block that stays — Model/Filters.lean, pfStep —
	// and the output is generated from the element list, not from the blocks.)
	owner := map[int]int{}
	twice := false
	for bi, f := range b.Final {
		for _, m := range f.Members {
			if owner[m] != 0 {
				twice = true
			}
			owner[m] = bi + 1
		}
	}
	split := false
	for _, blk := range b.Initial {
		for _, m := range blk {
			if owner[m] != owner[blk[0]] {
				split = true
			}
		}
	}
	if twice || split {
		c.premiseFailures = append(c.premiseFailures, fmt.Sprintf("final blocks are not unions of whole initial blocks (twice=%v split=%v)", twice, split))
	}
}

// filters: the article extractor — the block list after each of its filters, the word count and
// the flags ApplyToModel writes (Model/Filters.lean).  Inputs are the initial blocks of the
// real CreateTextDocument; the atoms are the real answers of the two text tests (read off the
// labels after the first logged stage) and the DOM answers two filters read.
var filterLabelOrder = []string{
	"de.l3s.boilerpipe/TITLE", "de.l3s.boilerpipe/MIGHT_BE_CONTENT", "de.l3s.boilerpipe/VERY_LIKELY_CONTENT",
	"de.l3s.boilerpipe/LI", "de.l3s.boilerpipe/HEADING", "de.l3s.boilerpipe/H1", "de.l3s.boilerpipe/H2", "de.l3s.boilerpipe/H3",
	"BOILERPLATE_HEADING_FUSED", "STRICTLY_NOT_CONTENT", "SIBLING_OF_MAIN_CONTENT"}

func filterLabels(ls []string) (string, bool) {
	out := []byte("00000000000")
	for _, l := range ls {
		found := false
		for i, n := range filterLabelOrder {
			if n == l {
				out[i] = '1'
				found = true
			}
		}
		if !found {
			return "", false
		}
	}
	return string(out), true
}

func traceBlockStr(b distiller.VerifTraceBlockT) string {
	var ms []string
	for _, m := range b.Members {
		ms = append(ms, fmt.Sprint(m))
	}
	ls, _ := filterLabels(b.Labels)
	return fmt.Sprintf("%s/%d/%d/%d/%d/%d/%s/%s", strings.Join(ms, ","), b.NumWords, b.NumAnchor, b.TagLevel, b.OffStart, b.OffEnd, ls, b01(b.IsContent))
}

func addFiltersCase(c *Corr, rep *Report, src string, pageURL *nurl.URL, skipUnlikely bool, replay interface{}) {
	d := parseDoc(src)
	root := d.elementRoot()
	if root == nil {
		return
	}
	t := distiller.VerifFilterTrace(root, pageURL, skipUnlikely)
	if len(t.Stages) != 13 {
		c.premiseFailures = append(c.premiseFailures, fmt.Sprintf("the article extractor logged %d stages, 13 expected", len(t.Stages)))
		return
	}
	init := t.Stages[0].Blocks
	first := t.Stages[1].Blocks // after TerminatingBlocksFinder, DocumentTitleMatch, NumWordsRulesClassifier
	if len(first) != len(init) || len(t.Atoms) != len(init) {
		c.premiseFailures = append(c.premiseFailures, "the first three filters changed the number of blocks")
		return
	}
	// premises of the FltProps theorems on the real initial blocks: every Text element is in at
	// most one block, and a block's word count is the sum over its Text elements
	seenMember := map[int]bool{}
	for _, b := range init {
		sum := 0
		for _, m := range b.Members {
			if seenMember[m] {
				c.premiseFailures = append(c.premiseFailures, fmt.Sprintf("Text element %d is in two initial blocks", m))
			}
			seenMember[m] = true
			if m < len(t.NumWords) {
				sum += t.NumWords[m]
			}
		}
		if sum != b.NumWords {
			c.premiseFailures = append(c.premiseFailures, fmt.Sprintf("initial block word count %d is not the sum %d over its Text elements", b.NumWords, sum))
		}
	}
	var sb strings.Builder
	fmt.Fprintf(&sb, "%d", len(init))
	for _, b := range init {
		ls, ok := filterLabels(b.Labels)
		if !ok {
			c.premiseFailures = append(c.premiseFailures, fmt.Sprintf("a label outside the modelled set: %v", b.Labels))
			return
		}
		fmt.Fprintf(&sb, " %d", len(b.Members))
		for _, m := range b.Members {
			fmt.Fprintf(&sb, " %d", m)
		}
		fmt.Fprintf(&sb, " %d %d %d %d %d %s %s", b.NumWords, b.NumAnchor, b.TagLevel, b.OffStart, b.OffEnd, ls, b01(b.IsContent))
	}
	has := func(b distiller.VerifTraceBlockT, l string) bool {
		for _, x := range b.Labels {
			if x == l {
				return true
			}
		}
		return false
	}
	for i, a := range t.Atoms {
		fmt.Fprintf(&sb, " %d %s %d %d %s %s", a.RepParent, hx(a.RepKind), a.GpFirst, a.GpLast,
			b01(has(first[i], "STRICTLY_NOT_CONTENT")), b01(has(first[i], "de.l3s.boilerpipe/TITLE")))
	}
	var stages []string
	merges := 0
	for _, s := range t.Stages[1:] {
		var bs []string
		for _, b := range s.Blocks {
			bs = append(bs, traceBlockStr(b))
		}
		stages = append(stages, b01(s.Changed)+":"+strings.Join(bs, ";"))
	}
	final := t.Stages[len(t.Stages)-1].Blocks
	for _, b := range final {
		if len(b.Members) > 1 {
			merges++
		}
	}
	var cm, tm []string
	for i := range t.Flags {
		if t.Flags[i] {
			cm = append(cm, fmt.Sprint(i))
		}
		if t.Titles[i] {
			tm = append(tm, fmt.Sprint(i))
		}
	}
	// ApplyToModel writes per block, in block order: compare as the model lists them
	var cm2, tm2 []string
	for _, b := range final {
		if b.IsContent {
			for _, m := range b.Members {
				cm2 = append(cm2, fmt.Sprint(m))
				if has(b, "de.l3s.boilerpipe/TITLE") {
					tm2 = append(tm2, fmt.Sprint(m))
				}
			}
		}
	}
	sortNumStrings(cm2)
	sortNumStrings(tm2)
	if strings.Join(cm, ",") != strings.Join(cm2, ",") || strings.Join(tm, ",") != strings.Join(tm2, ",") {
		c.premiseFailures = append(c.premiseFailures, fmt.Sprintf("ApplyToModel flags %v/%v differ from the content blocks' members %v/%v", cm, tm, cm2, tm2))
	}
	if rep != nil {
		rep.histN("filters-initial-blocks", len(init))
		rep.histN("filters-final-blocks", len(final))
		rep.histN("filters-merged-final-blocks", merges)
		for k, s := range t.Stages[1:] {
			if s.Changed {
				rep.hist(fmt.Sprintf("filters-stage-%02d-changed", k+3))
			}
		}
	}
	impl := strings.Join(stages, " | ") + fmt.Sprintf(" | wc=%d c=%s t=%s", t.WordCount, strings.Join(unsortedMembers(final, false, has), ","), strings.Join(unsortedMembers(final, true, has), ","))
	c.add(sb.String(), impl, replay)
}

func unsortedMembers(final []distiller.VerifTraceBlockT, title bool, has func(distiller.VerifTraceBlockT, string) bool) []string {
	var out []string
	for _, b := range final {
		if b.IsContent && (!title || has(b, "de.l3s.boilerpipe/TITLE")) {
			for _, m := range b.Members {
				out = append(out, fmt.Sprint(m))
			}
		}
	}
	return out
}

func sortNumStrings(s []string) {
	sort.Slice(s, func(i, j int) bool {
		a, _ := strconv.Atoi(s[i])
		b, _ := strconv.Atoi(s[j])
		return a < b
	})
}
