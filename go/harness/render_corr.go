package main

import (
	"fmt"
	nurl "net/url"
	"strings"

	distiller "github.com/markusmobius/go-domdistiller"
	"golang.org/x/net/html"
)

// Correspondence of the secondary rendering paths with the Lean model (Model/Render.lean):
//   outputnodes : tree + visibility atoms → what GetOutputNodes collects
//   absurl      : tree + CreateAbsoluteURL / srcset answers → attributes after MakeAllLinksAbsolute
// Both run on the <body> of a private parse of the page.

func elemAttrsLine(root *html.Node) string {
	var els []*html.Node
	findAll(root, func(n *html.Node) bool { return n.Type == html.ElementNode }, &els)
	var parts []string
	for _, e := range els {
		var as []string
		for _, a := range e.Attr {
			as = append(as, hx(a.Key)+"="+hx(a.Val))
		}
		parts = append(parts, e.Data+":"+strings.Join(as, " "))
	}
	return strings.Join(parts, "|")
}

func addOutputNodesCase(c *Corr, src string, replay interface{}) {
	d := parseDoc(src)
	body := findFirst(d.Root, "body")
	if body == nil {
		return
	}
	textAtoms := distiller.VerifTextAtoms(body)
	var sb strings.Builder
	d.encodeTree(body, &sb)
	var els, txts []*html.Node
	findAll(body, func(n *html.Node) bool { return n.Type == html.ElementNode }, &els)
	findAll(body, func(n *html.Node) bool { return n.Type == html.TextNode }, &txts)
	fmt.Fprintf(&sb, " %d", len(els))
	for _, e := range els {
		a := distiller.VerifElementAtoms(e)
		fmt.Fprintf(&sb, " %d %s %s %s %s %s 0 0", d.ID[e], hx(a.StyleDisplay), b01(a.VisHidden), b01(a.Byline), b01(a.Unlikely), b01(a.Maybe))
	}
	fmt.Fprintf(&sb, " %d", len(txts))
	for _, t := range txts {
		bl, w := textAtoms(t.Data)
		fmt.Fprintf(&sb, " %d %s %d", d.ID[t], b01(bl), w)
	}
	var ids, tags []string
	for _, n := range distiller.VerifGetOutputNodes(body) {
		if n.Type == html.TextNode {
			ids = append(ids, fmt.Sprint(d.ID[n]))
		} else {
			tags = append(tags, n.Data)
		}
	}
	c.add(sb.String(), strings.Join(ids, ",")+" | "+strings.Join(tags, ","), replay)
}

func addAbsURLCase(c *Corr, src string, pageURL *nurl.URL, replay interface{}) {
	d := parseDoc(src)
	body := findFirst(d.Root, "body")
	if body == nil {
		return
	}
	var sb strings.Builder
	d.encodeTree(body, &sb)
	seen := map[string]bool{}
	var tbl []string
	var els []*html.Node
	findAll(body, func(n *html.Node) bool { return n.Type == html.ElementNode }, &els)
	for _, e := range els {
		for _, a := range e.Attr {
			if seen[a.Val] {
				continue
			}
			seen[a.Val] = true
			tbl = append(tbl, hx(a.Val)+" "+hx(distiller.VerifCreateAbsoluteURL(a.Val, pageURL))+" "+hx(distiller.VerifSrcSetAbsolute(a.Val, pageURL)))
		}
	}
	fmt.Fprintf(&sb, " %d %s", len(tbl), strings.Join(tbl, " "))
	distiller.VerifMakeAllLinksAbsolute(body, pageURL)
	c.add(sb.String(), elemAttrsLine(body), replay)
}
