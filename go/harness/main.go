// Harness: generators, implementation runner, property oracles and correspondence with
// the Lean driver for go-domdistiller. Built against $VERIF_REPO (default /repo) with
// -tags verif. One sub-command per property id.
package main

import (
	"encoding/json"
	"flag"
	"fmt"
	"os"
	"sort"
	"time"
)

type Violation struct {
	Signature map[string]string `json:"signature"`
	What      string            `json:"what"`
	Replay    interface{}       `json:"replay"`
}

type Mismatch struct {
	Stage string      `json:"stage"`
	Case  interface{} `json:"case"`
	Model string      `json:"model"`
	Impl  string      `json:"impl"`
}

type Report struct {
	Property    string         `json:"property"`
	Tier        string         `json:"tier"`
	Seed        int64          `json:"seed"`
	Evaluations int            `json:"evaluations"`
	Nontrivial  int            `json:"distinct_nontrivial"`
	Rule        string         `json:"rule"`
	Samples     []interface{}  `json:"samples"`
	Histogram   map[string]int `json:"histogram"`
	CorrCases   map[string]int `json:"correspondence_cases"`
	Mismatches  []Mismatch     `json:"mismatches"`
	Violations  []Violation    `json:"violations"`
	Notes       []string       `json:"notes"`
	Exhaustive  bool           `json:"exhaustive"`
	WallS       float64        `json:"wall_s"`
	distinct    map[string]bool
}

func newReport(id, tier string, seed int64) *Report {
	return &Report{Property: id, Tier: tier, Seed: seed, Histogram: map[string]int{}, CorrCases: map[string]int{},
		distinct: map[string]bool{}, Samples: []interface{}{}, Mismatches: []Mismatch{}, Violations: []Violation{}, Notes: []string{}}
}

func (r *Report) hist(k string)         { r.Histogram[k]++ }
func (r *Report) histN(k string, n int) { r.Histogram[k] += n }
func (r *Report) sample(s interface{}) {
	if len(r.Samples) < 3 {
		r.Samples = append(r.Samples, s)
	}
}

// nontrivial records a structurally distinct non-trivial case.
func (r *Report) nontrivial(structHash string) {
	if !r.distinct[structHash] {
		r.distinct[structHash] = true
		r.Nontrivial = len(r.distinct)
	}
}

func (r *Report) violate(sig map[string]string, what string, replay interface{}) {
	// keep one violation per signature (the first = usually the smallest seed order)
	key := sigKey(sig)
	for _, v := range r.Violations {
		if sigKey(v.Signature) == key {
			r.hist("violation-dup:" + key)
			return
		}
	}
	r.Violations = append(r.Violations, Violation{Signature: sig, What: what, Replay: replay})
}

func (r *Report) mismatch(stage string, c interface{}, model, impl string) {
	r.hist("mismatch:" + stage)
	if len(r.Mismatches) < 5 {
		r.Mismatches = append(r.Mismatches, Mismatch{Stage: stage, Case: c, Model: model, Impl: impl})
	}
}

func sigKey(sig map[string]string) string {
	ks := make([]string, 0, len(sig))
	for k := range sig {
		ks = append(ks, k)
	}
	sort.Strings(ks)
	s := ""
	for _, k := range ks {
		s += k + "=" + sig[k] + ";"
	}
	return s
}

type Ctx struct {
	Tier     string
	Seed     int64
	Driver   string
	Replay   string
	Work     string
	VerifDir string
	Rep      *Report
}

func (c *Ctx) thorough() bool { return c.Tier == "thorough" }

// pick returns q for quick tier, t for thorough.
func (c *Ctx) pick(q, t int) int {
	if c.thorough() {
		return t
	}
	return q
}

var props = map[string]func(*Ctx){}

func main() {
	if len(os.Args) < 2 {
		fmt.Fprintln(os.Stderr, "usage: harness <Cxx> [-tier quick|thorough] [-seed n] [-driver path] [-out file] [-replay file]")
		os.Exit(2)
	}
	id := os.Args[1]
	fs := flag.NewFlagSet("harness", flag.ExitOnError)
	tier := fs.String("tier", "quick", "")
	seed := fs.Int64("seed", 1, "")
	driver := fs.String("driver", "", "")
	out := fs.String("out", "", "")
	replay := fs.String("replay", "", "")
	work := fs.String("work", "", "")
	vdir := fs.String("verif", "/verif", "")
	fs.Parse(os.Args[2:])
	f, ok := props[id]
	if !ok {
		fmt.Fprintln(os.Stderr, "unknown property", id)
		os.Exit(2)
	}
	ctx := &Ctx{Tier: *tier, Seed: *seed, Driver: *driver, Replay: *replay, Work: *work, VerifDir: *vdir, Rep: newReport(id, *tier, *seed)}
	globalCtx = ctx
	start := time.Now()
	f(ctx)
	ctx.Rep.WallS = time.Since(start).Seconds()
	b, _ := json.MarshalIndent(ctx.Rep, "", " ")
	if *out != "" {
		os.WriteFile(*out, b, 0o644)
	} else {
		os.Stdout.Write(b)
	}
}
