package main

import (
	"fmt"
	"strings"

	distiller "github.com/markusmobius/go-domdistiller"
	"golang.org/x/net/html"
)

// iereader: the IE Reading View accessor (Model/IEReader.lean) against the real one: the tree of
// the document element, the visibility atoms of its elements, ToLower / ToUpper of every meta
// name and content → every answer of the accessor, the opt-out among them.

func addIEReaderCase(c *Corr, rep *Report, src string, replay interface{}) {
	d := parseDoc(src)
	root := d.elementRoot()
	if root == nil {
		return
	}
	document := findFirstBelow(root, "html")
	if document == nil {
		document = root
	}
	srcs, _ := distiller.VerifMarkup(root)
	if len(srcs) == 0 {
		return
	}
	ie := srcs[len(srcs)-1]
	if !strings.Contains(ie.Kind, "iereader") {
		rep.hist("iereader:last-accessor-is-not-iereader")
		return
	}
	var sb strings.Builder
	d.encodeTree(document, &sb)
	var els []*html.Node
	findAll(document, func(n *html.Node) bool { return n.Type == html.ElementNode }, &els)
	fmt.Fprintf(&sb, " %d", len(els))
	seen := map[string]bool{}
	var tbl []string
	for _, e := range els {
		a := distiller.VerifElementAtoms(e)
		fmt.Fprintf(&sb, " %d %s %s 0 0 0 0 0 %s", d.ID[e], hx(a.StyleDisplay), b01(a.VisHidden), b01(distiller.VerifIsForeignRawText(e)))
		if e.Data == "meta" {
			for _, k := range []string{"name", "content"} {
				v := getAttr(e, k)
				if !seen[v] {
					seen[v] = true
					tbl = append(tbl, hx(v)+" "+hx(strings.ToLower(v))+" "+hx(strings.ToUpper(v)))
				}
			}
		}
	}
	sb.WriteString(" 0")
	fmt.Fprintf(&sb, " %d", len(tbl))
	if len(tbl) > 0 {
		sb.WriteString(" " + strings.Join(tbl, " "))
	}
	art := "nil"
	if ie.Article != nil {
		art = showArticle(*ie.Article)
	}
	im := make([]string, len(ie.Images))
	for k, x := range ie.Images {
		im[k] = showImage(x)
	}
	c.add(sb.String(), fmt.Sprintf("%s %s %s %s %s %s %s", hx(ie.Title), hx(ie.Publisher), hx(ie.Copyright), hx(ie.Author), b01(ie.OptOut), art, leanList(im)), replay)
	if ie.OptOut {
		rep.hist("iereader:opt-out")
	}
	if len(ie.Images) > 0 {
		rep.hist("iereader:images")
	}
}

func findFirstBelow(n *html.Node, tag string) *html.Node {
	for c := n.FirstChild; c != nil; c = c.NextSibling {
		if r := findFirst(c, tag); r != nil {
			return r
		}
	}
	return nil
}

// iePage: pages built around what the IE Reading View accessor looks at
func iePage(r *Rng, g *PageGen) string {
	var head, body []string
	meta := func(n, v string) string { return `<meta name="` + n + `" content="` + v + `">` }
	put := func(s string) {
		if r.Chance(65) {
			head = append(head, s)
		} else {
			body = append(body, s)
		}
	}
	if r.Chance(85) {
		head = append(head, "<title>"+g.words(3)+"</title>")
	} else if r.Chance(50) {
		body = append(body, "<svg><title>"+g.words(1)+"</title></svg>")
	}
	for k := r.Intn(3); k > 0; k-- {
		put(meta(r.Pick("title", "Title", "TITLE", "tıtle", "tİtle", "title ", "subtitle"), g.words(2)))
	}
	for k := r.Intn(3); k > 0; k-- {
		put(meta(r.Pick("copyright", "Copyright", "COPYRIGHT", "copyrights"), r.Pick("(c) "+g.words(1), "")))
	}
	for k := r.Intn(3); k > 0; k-- {
		put(meta(r.Pick("IE_RM_OFF", "ie_rm_off", "Ie_Rm_Off", "IE_RM_OFF ", "IE-RM-OFF", "ıe_rm_off"), r.Pick("true", "TRUE", "True", "false", "", "yes", "true ", "tRuE")))
	}
	if r.Chance(40) {
		put(meta(r.Pick("displaydate", "DisplayDate"), r.Pick("April 4", "")))
	}
	if r.Chance(30) {
		put(`<meta content="no name">`)
	}
	cls := func(c string) string {
		return r.Pick(c, "x "+c, c+" y", "x\t"+c+"\ny", c+"s", "a-"+c, strings.ToUpper(c))
	}
	for k := r.Intn(3); k > 0; k-- {
		body = append(body, `<div class="`+cls("byline-name")+`"> `+r.Pick(g.words(2), "<b>"+g.words(1)+"</b> "+g.words(1), " ", " "+g.words(1)+" ")+` </div>`)
	}
	for k := r.Intn(3); k > 0; k-- {
		body = append(body, `<span class="`+cls("dateline")+`">`+r.Pick("March 3", "", "<script>x</script>May 5")+`</span>`)
	}
	for k := r.Intn(3); k > 0; k-- {
		body = append(body, `<div `+r.Pick(`publisher="`+g.words(1)+`"`, `source_organization="`+g.words(1)+`"`, `publisher="" source_organization="`+g.words(1)+`"`, `publisher=""`, `data-publisher="x"`)+`>`+g.words(2)+`</div>`)
	}
	size := func() string {
		return r.Pick(`width="400" height="300"`, `width="399" height="200"`, `width="520" height="400"`, `width="1300" height="1000"`, `width="1299" height="1000"`,
			`width="900" height="300"`, `width="901" height="300"`, `width="600" height="0"`, `width="600"`, `width="600px" height="300"`, `width="+600" height="300"`,
			`width="99999999999999999999" height="300"`, `width="-600" height="-300"`, ``, `width="640" height="480"`)
	}
	capt := func() string {
		return r.Pick("<figcaption>"+g.words(3)+"</figcaption>", "<figcaption></figcaption><figcaption>"+g.words(2)+"</figcaption>", `<figcaption style="display:none">`+g.words(2)+"</figcaption>",
			`<figcaption><span hidden>`+g.words(1)+`</span> `+g.words(1)+" , "+g.words(1)+`<br>`+g.words(1)+`</figcaption>`, "", "<figcaption>a</figcaption><figcaption>b</figcaption><figcaption>c</figcaption>",
			"<div><figcaption>"+g.words(2)+"</figcaption></div>")
	}
	for k := r.Intn(4); k > 0; k-- {
		img := `<img src="` + g.mediaURL("jpg") + `" ` + size() + `>`
		switch r.Intn(4) {
		case 0:
			body = append(body, img)
		case 1:
			body = append(body, "<figure>"+img+capt()+"</figure>")
		case 2:
			body = append(body, "<figure><a href=\"x\">"+img+"</a>"+capt()+"</figure>")
		default:
			body = append(body, "<figure>"+capt()+img+img+"</figure>")
		}
	}
	body = append(body, "<p>"+g.words(40)+"</p>")
	// shuffle the body
	for i := len(body) - 1; i > 0; i-- {
		j := r.Intn(i + 1)
		body[i], body[j] = body[j], body[i]
	}
	return "<html><head>" + strings.Join(head, "\n") + "</head><body>" + strings.Join(body, "\n") + "</body></html>"
}
