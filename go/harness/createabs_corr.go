package main

import (
	"fmt"
	nurl "net/url"

	distiller "github.com/markusmobius/go-domdistiller"
)

// createabs: stringutil.CreateAbsoluteURL (Model/AbsURL.lean) on a long series of (reference, base)
// pairs in one process: the same references under bases that share scheme, host and directory but
// differ in the last path segment or the query (query-only references resolve against the FULL base
// path), under bases in other directories / hosts, and again under the first base.  What net/url says
// about a reference is computed here, independently of the library.

var caRefs = []string{"?page=3", "?page=2", "?", "", "#top", "#", "data:text/plain,x", "javascript:void(0)", "JAVASCRIPT:void(0)", "http://abs.example.org/x?y#z", "https://example.com", "//cdn.example.net/a.js",
	"a.html", "./a.html", "../a.html", "../../../a.html", "/root.html", "dir/", "dir/sub/a.html?x=1#f", "a b.html", "%zz", "http://[::1", ":colon", "a:b", "mailto:x@example.com", "ftp://h/p", "x,y.jpg", "x.jpg,",
	"?q=a/b", "?q=http://example.com/news/", ";param", "a.html;p=1", "é.html", "%C3%A9.html", "http:relative", "http:/one-slash", "HTTP://UPPER.example.com/P", " lead.html", "trail.html ", "\tx"}
var caBases = []string{"http://example.com/news/city-council-budget?page=2", "http://example.com/news/harbour-bridge-reopens?page=2", "http://example.com/news/", "http://example.com/news/a/b",
	"https://example.com/news/x", "http://user@example.com/news/y", "http://example.com/", "http://example.com", "http://example.com/news/city-council-budget", "http://example.com/news/city-council-budget?page=3#frag",
	"http://other.example.org/news/city-council-budget?page=2", "http://example.com:8080/news/z", "http://example.com/news/p%20q/r", "file:///tmp/x.html"}

func createAbsCorr(ctx *Ctx, n int) *Corr {
	c := newCorr("createabs")
	r := newRng(ctx.Seed, "createabs")
	bases := make([]*nurl.URL, len(caBases))
	for i, b := range caBases {
		bases[i], _ = nurl.Parse(b)
	}
	for i := 0; i < n; i++ {
		ref := caRefs[r.Intn(len(caRefs))]
		if r.Chance(20) {
			ref = fmt.Sprintf("%sp%d", r.Pick("?page=", "article-", "../", "/", "#"), r.Intn(40))
		}
		bi := r.Intn(len(bases))
		if r.Chance(50) {
			bi = r.Intn(2) // the two articles of one directory, over and over
		}
		base := bases[bi]
		t1, err1 := nurl.ParseRequestURI(ref)
		ra := err1 == nil && t1.Scheme != "" && t1.Hostname() != ""
		t2, err2 := nurl.Parse(ref)
		rs := ""
		if err2 == nil {
			rs = base.ResolveReference(t2).String()
		}
		got := distiller.VerifCreateAbsoluteURL(ref, base)
		c.add(hx(ref)+" "+b01(ra)+" "+b01(err2 == nil)+" "+hx(rs), hx(got), map[string]string{"ref": ref, "base": base.String(), "position-in-series": fmt.Sprint(i)})
		switch {
		case got == ref:
			ctx.Rep.hist("createabs:unchanged")
		default:
			ctx.Rep.hist("createabs:resolved")
		}
	}
	return c
}
