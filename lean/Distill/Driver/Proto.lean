/-
  Line protocol helpers for the correspondence driver (not part of any proof).
  One case per input line: `<slice> <caseNo> <tok>…`; strings are `_`+hex(UTF-8 bytes).
-/
import Distill.Model.Dom
namespace Distill.Proto
open Distill

def hexVal (c : Char) : Option Nat :=
  if '0' ≤ c ∧ c ≤ '9' then some (c.toNat - '0'.toNat)
  else if 'a' ≤ c ∧ c ≤ 'f' then some (c.toNat - 'a'.toNat + 10)
  else none

def unhexBytes : List Char → ByteArray → Option ByteArray
  | [], acc => some acc
  | [_], _ => none
  | a :: b :: rest, acc =>
    match hexVal a, hexVal b with
    | some x, some y => unhexBytes rest (acc.push (UInt8.ofNat (x * 16 + y)))
    | _, _ => none

/-- `_` + hex → string (lossy on invalid UTF-8: returns none) -/
def unhex (tok : String) : Option String :=
  match tok.toList with
  | '_' :: cs =>
    match unhexBytes cs ByteArray.empty with
    | some b => String.fromUTF8? b
    | none => none
  | _ => none

def hexDigit (n : Nat) : Char :=
  if n < 10 then Char.ofNat ('0'.toNat + n) else Char.ofNat ('a'.toNat + n - 10)

def hex (s : String) : String :=
  "_" ++ String.ofList (s.toUTF8.toList.foldr (fun b acc => hexDigit (b.toNat / 16) :: hexDigit (b.toNat % 16) :: acc) [])

abbrev P := StateT (List String) Option

def tok : P String := do
  match (← get) with
  | [] => failure
  | t :: ts => set ts; pure t

def nat : P Nat := do
  let t ← tok
  match t.toNat? with
  | some n => pure n
  | none => failure

def int : P Int := do
  let t ← tok
  match t.toInt? with
  | some n => pure n
  | none => failure

def bool : P Bool := do
  let t ← tok
  if t == "1" then pure true else if t == "0" then pure false else failure

def str : P String := do
  let t ← tok
  match unhex t with
  | some s => pure s
  | none => failure

/-- `_` + hex → raw bytes (no UTF-8 validation) -/
def bytes : P (List UInt8) := do
  let t ← tok
  match t.toList with
  | '_' :: cs =>
    match unhexBytes cs ByteArray.empty with
    | some b => pure b.toList
    | none => failure
  | _ => failure

def many {α} (n : Nat) (p : P α) : P (List α) :=
  match n with
  | 0 => pure []
  | n+1 => do let a ← p; let as ← many n p; pure (a :: as)

def atEnd : P Bool := do pure (← get).isEmpty

/-- pre-order tree tokens: `E id tag nattr (k v)* nkids kids…` | `T id data` | `O id kind` -/
partial def node : P Node := do
  let k ← tok
  if k == "T" then
    let i ← nat; let d ← str; pure (.text i d)
  else if k == "O" then
    let i ← nat; let kd ← nat; pure (.other i kd)
  else if k == "E" then
    let i ← nat; let t ← str
    let na ← nat
    let attrs ← many na (do let k ← str; let v ← str; pure ({ key := k, val := v } : Attr))
    let nk ← nat
    let kids ← manyNodes nk
    pure (.elem i t attrs kids)
  else failure
where
  manyNodes (n : Nat) : P (List Node) :=
    match n with
    | 0 => pure []
    | n+1 => do let a ← node; let as ← manyNodes n; pure (a :: as)

def bstr (b : Bool) : String := if b then "1" else "0"

end Distill.Proto
