/-
  Slices: one function per model stage, from the tokens of a case to the canonical answer
  line.  The harness produces the same line from the implementation and diffs.
-/
import Distill.Driver.Proto
import Distill.Model.DocFilters
namespace Distill.Slices
open Distill Distill.Proto

def kindOfCode : Nat → Option Kind
  | 0 => some .text | 1 => some .tagStart | 2 => some .tagEnd | 3 => some .image
  | 4 => some .figure | 5 => some .video | 6 => some .embed | 7 => some .table
  | _ => none

def elemP : P Elem := do
  let k ← nat
  let c ← bool
  match kindOfCode k with
  | some kd => pure { kind := kd, content := c }
  | none => failure

def flagsStr (es : List Elem) : String :=
  String.ofList (es.map (fun e => if e.content then '1' else '0'))

def nthD (l : List Int) (i : Nat) : Int := (l[i]?).getD 0

def indexOf? (l : List Nat) (x : Nat) : Option Nat :=
  let rec go (l : List Nat) (k : Nat) : Option Nat :=
    match l with
    | [] => none
    | y :: ys => if y = x then some k else go ys (k+1)
  go l 0

/-- `docfilters n (kind flag)* m score*` : flags before the three filters + the scores of the
lead-image candidates in candidate order → flags after -/
def docfilters : P String := do
  let n ← nat
  let es ← many n elemP
  let m ← nat
  let scores ← many m int
  let rel := relevantElements es
  let cands := match lastContentText 0 none rel with
    | none => []
    | some last => leadCandidates last 0 rel
  if cands.length != scores.length then
    pure s!"atom-miss candidates={cands.length} scores={scores.length}"
  else
    let score : Nat → Int := fun i => match indexOf? cands i with
      | some k => nthD scores k
      | none => 0
    match docFilters score es with
    | none => pure "panic retainer-underflow"
    | some out => pure s!"ok {flagsStr out}"

def dispatch (slice : String) : Option (P String) :=
  match slice with
  | "docfilters" => some docfilters
  | _ => none

def answer (line : String) : String :=
  match (line.splitOn " ").filter (· ≠ "") with
  | slice :: caseNo :: rest =>
    match dispatch slice with
    | none => s!"{caseNo} error unknown-slice"
    | some p =>
      match p.run rest with
      | some (out, []) => s!"{caseNo} {out}"
      | some (_, _) => s!"{caseNo} error trailing-tokens"
      | none => s!"{caseNo} error parse"
  | _ => "? error malformed-line"

end Distill.Slices
