/-
  Slices: one function per model stage, from the tokens of a case to the canonical answer
  line.  The harness produces the same line from the implementation and diffs.
-/
import Distill.Driver.Proto
import Distill.Model.DocFilters
import Distill.Model.TableClass
import Distill.Gen.Funcs
import Distill.Model.Embed
import Distill.Model.Markup
import Distill.Model.Apply
import Distill.Model.Convert
import Distill.Model.Words
import Distill.Model.Render
import Distill.Model.Title
import Distill.Model.TextDoc
import Distill.Model.Pagination
import Distill.Model.PageGroups
import Distill.Model.PathPattern
import Distill.Model.Filters
import Distill.Model.TextRender
import Distill.Model.MediaRender
import Distill.Model.Root
import Distill.Model.Terms
import Distill.Model.IEReader
import Distill.Model.ImageExtract
import Distill.Model.OpenGraph
import Distill.Model.SchemaOrg
import Distill.Model.MarkupPage
import Distill.Model.Srcset
import Distill.Model.AbsURL
import Distill.Model.Style
import Distill.Model.Candidates
import Distill.Model.LinkScore
import Distill.Model.PageInfo
import Distill.Model.Scan
import Distill.Model.Derive
namespace Distill.Slices
open Distill Distill.Proto

def kindOfCode : Nat → Option Kind
  | 0 => some .text | 1 => some .tagStart | 2 => some .tagEnd | 3 => some .image
  | 4 => some .figure | 5 => some .video | 6 => some .embed | 7 => some .table
  | _ => none

def elemP : P Elem := do
  let k ← nat
  let c ← bool
  match kindOfCode k with
  | some kd => pure { kind := kd, content := c }
  | none => failure

def flagsStr (es : List Elem) : String :=
  String.ofList (es.map (fun e => if e.content then '1' else '0'))

def nthD (l : List Int) (i : Nat) : Int := (l[i]?).getD 0

def indexOf? (l : List Nat) (x : Nat) : Option Nat :=
  let rec go (l : List Nat) (k : Nat) : Option Nat :=
    match l with
    | [] => none
    | y :: ys => if y = x then some k else go ys (k+1)
  go l 0

/-- `docfilters n (kind flag)* m score*` : flags before the three filters + the scores of the
lead-image candidates in candidate order → flags after -/
def docfilters : P String := do
  let n ← nat
  let es ← many n elemP
  let m ← nat
  let scores ← many m int
  let rel := relevantElements es
  let cands := match lastContentText 0 none rel with
    | none => []
    | some last => leadCandidates last 0 rel
  -- where the harness could locate the nodes: (element index, depth difference, figure ancestor)
  let k ← nat
  let geo ← many k (do let i ← nat; let d ← nat; let f ← bool; pure (i, d, f))
  if cands.length != scores.length then
    pure s!"atom-miss candidates={cands.length} scores={scores.length}"
  else
    let score : Nat → Int := fun i => match indexOf? cands i with
      | some k => nthD scores k
      | none => 0
    -- the model's own score of every located candidate against the score the implementation logged
    let bad := cands.filter fun i => match geo.find? (fun g => g.1 == i) with
      | some (_, d, f) => imageScore d f != score i
      | none => false
    if !bad.isEmpty then
      pure s!"score-mismatch at elements {bad} model={bad.map fun i => match geo.find? (fun g => g.1 == i) with | some (_, d, f) => imageScore d f | none => 0} logged={bad.map score}"
    else
    match docFilters score es with
    | none => pure "panic retainer-underflow"
    | some out => pure s!"ok {flagsStr out}"

/-- `tableclass nanc (tag ce)* nvt id* tree` → verdict of the generated cascade and of the
documented cascade on the features the model extracts from the tree -/
def tableclass : P String := do
  let na ← nat
  let anc ← many na (do let t ← str; let c ← str; pure (t, c))
  let nv ← nat
  let vt ← many nv nat
  let t ← node
  -- `hasValidText` is computed by the model (innerText with visibility from the style attributes); the
  -- implementation's answers, given for the header / object kinds, must agree
  let mine := validTextIds t
  let kinds := ["caption", "th", "col", "colgroup", "embed", "object", "applet", "iframe"]
  let asked := (t.descElems.filter (fun e => kinds.contains e.tag)).map (·.id)
  let bad := asked.filter (fun i => mine.contains i != vt.contains i)
  if !bad.isEmpty then pure s!"validtext-mismatch at {bad}" else
  match tableFeatures anc (fun i => mine.contains i) t with
  | none => pure "unmodelled"
  | some f =>
    let spec := goReturn (classifySpec f)
    let napp := (tableRules.filter (fun r => r.guard f)).length
    let thr := f.rows == 19 || f.rows == 20 || f.cols == 4 || f.cols == 5 || f.cells == 10 || f.cells == 11 || f.rows == 1 || f.cols == 1
    match Gen.classify f with
    | some (some g) => pure s!"ok {g.1} {g.2} {spec.1} {spec.2} {napp} {bstr thr}"
    | _ => pure s!"gen-untranslated {spec.1} {spec.2}"

/-- `rootdomain urlEmpty rootEmpty parseErr host root` -/
def rootdomain : P String := do
  let ue ← bool; let re ← bool; let pe ← bool; let h ← str; let r ← str
  let u : RootDomainAtoms := { urlEmpty := ue, rootEmpty := re, parseErr := pe, host := h, root := r }
  let spec := !ue && !re && !pe && rootMatchSpec h r
  match Gen.hasRootDomain u with
  | some b => pure s!"ok {bstr b} {bstr spec}"
  | none => pure s!"gen-untranslated {bstr spec}"

structure UrlParts where
  urlEmpty : Bool
  parseErr : Bool
  host : String
  segs : List String

def urlParts : P UrlParts := do
  let ue ← bool; let pe ← bool; let h ← str
  let n ← nat
  let segs ← many n str
  pure { urlEmpty := ue, parseErr := pe, host := h, segs := segs }

def rootFn (p : UrlParts) : String → Bool := fun d =>
  match Gen.hasRootDomain { urlEmpty := p.urlEmpty, rootEmpty := d == "", parseErr := p.parseErr, host := p.host, root := d } with
  | some b => b
  | none => false

def optStr (o : Option (String × String)) : String :=
  match o with
  | some (t, i) => s!"{hex t}:{hex i}"
  | none => "-"

/-- `embed tag yt vm twsrc tweetIdAttr classTT nAnchors twanchor` (each url = urlParts) -/
def embedSlice : P String := do
  let tag ← str
  let yt ← urlParts; let vm ← urlParts; let ts ← urlParts
  let tid ← str; let ctt ← bool; let na ← int
  let ta ← urlParts
  let idFor := fun (p : UrlParts) (skip : Option String) => if p.parseErr then "" else idOf skip p.segs
  let a : EmbedAtoms := {
    tag := tag, ytRoot := rootFn yt, ytId := idFor yt (some "embed"),
    vmRoot := rootFn vm, vmId := idFor vm (some "video"),
    twSrcRoot := rootFn ts, tweetIdAttr := tid, classTwitterTweet := ctt, nAnchors := na,
    twAnchorRoot := rootFn ta, tweetIdFromUrl := idFor ta none }
  pure s!"tw={optStr (twitterExtract a)} vm={optStr (unwrapGen (Gen.vimeoExtract a))} yt={optStr (unwrapGen (Gen.youtubeExtract a))} dec={optStr (embedDecision a)}"

def imageP : P MImage := do
  let u ← str; let su ← str; let t ← str; let c ← str; let w ← int; let h ← int
  pure { url := u, secureUrl := su, type := t, caption := c, width := w, height := h }

def articleP : P MArticle := do
  let p ← str; let m ← str; let e ← str; let s ← str
  let n ← nat
  let au ← many n str
  pure { published := p, modified := m, expiration := e, sect := s, authors := au }

def sourceP : P MSource := do
  let title ← str; let type ← str; let url ← str; let d ← str; let p ← str; let c ← str; let a ← str
  let ni ← nat
  let imgs ← many ni imageP
  let hasArt ← bool
  let art ← if hasArt then (do let x ← articleP; pure (some x)) else pure none
  let oo ← bool
  pure { title := title, type := type, url := url, description := d, publisher := p, copyright := c,
         author := a, images := imgs, article := art, optOut := oo }

def imgStr (i : MImage) : String := s!"[{hex i.url} {hex i.secureUrl} {hex i.type} {hex i.caption} {i.width} {i.height}]"
def artStr (a : MArticle) : String :=
  s!"({hex a.published} {hex a.modified} {hex a.expiration} {hex a.sect} {a.authors.map hex})"

/-- `markup n source*` → the combined record -/
def markupSlice : P String := do
  let n ← nat
  let srcs ← many n sourceP
  let i := combine srcs
  pure s!"{hex i.title} {hex i.type} {hex i.url} {hex i.description} {hex i.publisher} {hex i.copyright} {hex i.author} {artStr i.article} {i.images.map imgStr}"

/-- `oggate title type url nImages` -/
def ogGateSlice : P String := do
  let t ← str; let ty ← str; let u ← str; let n ← int
  match Gen.ogGate { title := t, type := ty, url := u, nImages := n } with
  | some b => pure s!"ok {bstr b}"
  | none => pure "gen-untranslated"

/-- `applytail hasURL url skip algoPN pnNext pnPrev pvNext pvPrev` -/
def applyTailSlice : P String := do
  let hu ← bool; let u ← str; let sk ← bool; let pnA ← bool
  let a ← str; let b ← str; let c ← str; let d ← str
  let o : Opts := { url := if hu then some u else none, skip := sk, algo := if pnA then 1 else 0 }
  match applyModel (fun _ => ()) (fun _ => (a, b)) (fun _ => (c, d)) o with
  | some r => pure s!"ok {hex r.url} {hex r.pag.1} {hex r.pag.2}"
  | none => pure "gen-untranslated"

def kindCode : Kind → Nat
  | .text => 0 | .tagStart => 1 | .tagEnd => 2 | .image => 3 | .figure => 4 | .video => 5 | .embed => 6 | .table => 7

def evStr (nodeData : Nat → String) : BEv → String
  | .skipNode => "S"
  | .startNode a => s!"B{bstr a.flush}{bstr a.isAnchor}{bstr a.changesTagLevel}"
  | .endNode => "E"
  | .addText i _ _ _ => s!"T{hex (nodeData i)}"
  | .addBr i => s!"R{i}"
  | .addTable i => s!"D{i}"
  | .addTag n st => (if st then "G+" else "G-") ++ n
  | .addEmbed k _ => s!"M{kindCode k.toKind}"

mutual
partial def textData (n : Node) : List (Nat × String) :=
  match n with
  | .text i d => [(i, d)]
  | .elem _ _ _ ks => textDataL ks
  | .other _ _ => []
partial def textDataL (ks : List Node) : List (Nat × String) :=
  match ks with
  | [] => []
  | k :: r => textData k ++ textDataL r
end

structure EAt where
  id : Nat
  disp : String
  vis : Bool
  byline : Bool
  rxU : Bool
  rxM : Bool
  embed : Nat
  table : Bool
  foreign : Bool

def lookupE (l : List EAt) (i : Nat) : Option EAt := l.find? (fun e => e.id == i)

def atomsOf (es : List EAt) (ts : List (Nat × Bool × Nat)) : CAtoms :=
  { styleDisplay := fun i => match lookupE es i with | some e => e.disp | none => "",
    visHidden := fun i => match lookupE es i with | some e => e.vis | none => false,
    byline := fun i => match lookupE es i with | some e => e.byline | none => false,
    rxUnlikely := fun i => match lookupE es i with | some e => e.rxU | none => false,
    rxMaybe := fun i => match lookupE es i with | some e => e.rxM | none => false,
    embed := fun i => match lookupE es i with
      | some e => (if e.embed == 3 then .some .image else if e.embed == 4 then .some .figure else if e.embed == 6 then .some .embed else .none)
      | none => .none,
    dataTable := fun i => match lookupE es i with | some e => e.table | none => false,
    blank := fun i => match ts.find? (fun t => t.1 == i) with | some t => t.2.1 | none => false,
    words := fun i => match ts.find? (fun t => t.1 == i) with | some t => t.2.2 | none => 0,
    foreignRaw := fun i => match lookupE es i with | some e => e.foreign | none => false }

def atomsP : P CAtoms := do
  let ne ← nat
  let es ← many ne (do
    let i ← nat; let d ← str; let v ← bool; let b ← bool; let u ← bool; let m ← bool; let e ← nat; let t ← bool; let f ← bool
    pure ({ id := i, disp := d, vis := v, byline := b, rxU := u, rxM := m, embed := e, table := t, foreign := f } : EAt))
  let nt ← nat
  let ts ← many nt (do let i ← nat; let b ← bool; let w ← nat; pure (i, b, w))
  pure (atomsOf es ts)

/-- `convert skipUnlikely tree atoms` → the builder calls -/
def convertSlice : P String := do
  let sk ← bool
  let t ← node
  let A0 ← atomsP
  -- display, visibility, unlikely and maybe are computed by the model from the attributes in the tree
  let A := deriveAtomsAllFast t A0
  let evs := convert { skipUnlikely := sk } A [] false t
  let td := textData t
  let nd := fun i => match td.find? (fun p => p.1 == i) with | some p => p.2 | none => ""
  pure (" ".intercalate (evs.map (evStr nd)))

def bevP : P BEv := do
  let k ← tok
  if k == "S" then pure .skipNode
  else if k == "B" then do let f ← bool; let a ← bool; let c ← bool; pure (.startNode { flush := f, isAnchor := a, changesTagLevel := c })
  else if k == "E" then pure .endNode
  else if k == "T" then do let i ← nat; let e ← bool; let b ← bool; let w ← nat; pure (.addText i e b w)
  else if k == "R" then do let i ← nat; pure (.addBr i)
  else if k == "D" then do let i ← nat; pure (.addTable i)
  else if k == "G" then do let n ← str; let st ← bool; pure (.addTag n st)
  else if k == "M" then do
    let c ← nat; let i ← nat
    if c == 3 then pure (.addEmbed .image i) else if c == 4 then pure (.addEmbed .figure i)
    else if c == 5 then pure (.addEmbed .video i) else if c == 6 then pure (.addEmbed .embed i) else failure
  else failure

def docElStr : DocEl → String
  | .text t => s!"x{t.start}-{t.stop}:f{t.firstWord}:l{t.lastWord}:g{t.group}:w{t.numWords}:a{t.numLinked}:t{t.tagLevel}:o{t.offset}"
  | .tag n st => (if st then "G+" else "G-") ++ n
  | .table i => s!"D{i}"
  | .media k _ => s!"M{kindCode k.toKind}"

/-- `builder n ev*` → the element list -/
def builderSlice : P String := do
  let n ← nat
  let evs ← many n bevP
  pure (" ".intercalate ((buildDoc evs).map docElStr))

/-- `countwords text` -/
def countWordsSlice : P String := do
  let s ← str
  pure s!"{countWords s.toList}"

/-- `wordcounter sample text` → the counter `SelectWordCounter(sample)` picks and its count of text -/
def wordcounterSlice : P String := do
  let sample ← str; let text ← str
  let c := selectCounter sample.toList
  let name := match c with | .full => "Full" | .letter => "Letter" | .fast => "Fast"
  pure s!"{name} {c.count text.toList}"

def factsP : P LinkScore.Facts := do
  let absOK ← bool; let hasPrefix ← bool; let restHasDigit ← bool; let cleanOK ← bool
  let href ← str
  let eqCurrent ← bool; let eqFolder ← bool; let inFolder ← bool
  let remainder ← str; let text ← str; let cls ← str; let id ← str
  let n ← nat
  let parents ← many n (do let c ← str; let i ← str; pure (c, i))
  let current ← str
  let prefixLen ← nat
  pure ⟨absOK, hasPrefix, restHasDigit, cleanOK, href, eqCurrent, eqFolder, inFolder, remainder, text,
    cls, id, parents, current, prefixLen⟩

/-- `findoutlink next n facts*` → what `PrevNextFinder.FindOutlink` returns for the page -/
def findoutlinkSlice : P String := do
  let next ← bool
  let n ← nat
  let fs ← many n factsP
  pure (hex (LinkScore.findOutlink next fs))

/-- `linkscore next absOK hasPrefix restHasDigit cleanOK href eqCurrent eqFolder inFolder remainder text
class id n (class id)* current prefixLen` → what the prev/next finder decides about the anchor -/
def linkscoreSlice : P String := do
  let next ← bool
  let absOK ← bool; let hasPrefix ← bool; let restHasDigit ← bool; let cleanOK ← bool
  let href ← str
  let eqCurrent ← bool; let eqFolder ← bool; let inFolder ← bool
  let remainder ← str; let text ← str; let cls ← str; let id ← str
  let n ← nat
  let parents ← many n (do let c ← str; let i ← str; pure (c, i))
  let current ← str
  let prefixLen ← nat
  let F : LinkScore.Facts := ⟨absOK, hasPrefix, restHasDigit, cleanOK, href, eqCurrent, eqFolder, inFolder, remainder, text,
    cls, id, parents, current, prefixLen⟩
  match LinkScore.verdict next F with
  | .ignored why => pure s!"I:{why}"
  | .banned => pure "B"
  | .cand sc => pure s!"C:{sc}"

/-- `pageinfo text resolved requestOK sameHost parseOK cleaned` → `getPageInfoAndText` -/
def pageinfoSlice : P String := do
  let text ← str; let resolved ← str
  let requestOK ← bool; let sameHost ← bool; let parseOK ← bool
  let cleaned ← str
  match PageInfo.pageInfo text ⟨resolved, requestOK, sameHost, parseOK, cleaned⟩ with
  | some (n, u) => pure s!"{n} {hex u}"
  | none => pure "-"

/-- `pagediff page href skip` → `getPageDiff` -/
def pagediffSlice : P String := do
  let a ← str; let b ← str; let k ← nat
  match LinkScore.pageDiff a.toUTF8.toList b.toUTF8.toList k with
  | some d => pure s!"{d}"
  | none => pure "-"

/-- `candidates class id rel itemprop text` → the unlikely / maybe / byline answers -/
def candidatesSlice : P String := do
  let cls ← str; let id ← str; let rel ← str; let ip ← str; let text ← str
  match Cand.answers cls id rel ip text with
  | some a => pure s!"{if a.unlikely then 1 else 0}{if a.maybe then 1 else 0}{if a.byline then 1 else 0}"
  | none => pure "pattern-not-an-alternation-of-words"

/-- `style value` → what `GetDisplayStyle` takes from the attribute (`-` = tag default) and
`rxVisibilityHidden.MatchString` -/
def styleSlice : P String := do
  let v ← str
  let d := match Style.display v.toList with
    | some x => hex (String.ofList x)
    | none => "-"
  pure s!"{d} {if Style.visHidden v.toList then 1 else 0}"

/-- `createabs url requestAbs parses resolved` → `CreateAbsoluteURL(url, base)` -/
def createabsSlice : P String := do
  let url ← str
  let ra ← bool; let ps ← bool; let rs ← str
  pure (hex (AbsURL.create url ⟨ra, ps, rs⟩))

/-- `srcset value n (question answer)*` → URLs `GetSrcSetURLs` returns | what `makeSrcSetAbsolute`
writes, `CreateAbsoluteURL` answered from the table (a question not in the table is reported, never
defaulted) -/
def srcsetSlice : P String := do
  let v ← str
  let n ← nat
  let tbl ← many n (do let q ← str; let a ← str; pure (q, a))
  let abs : List Char → List Char := fun q =>
    match tbl.lookup (String.ofList q) with
    | some a => a.toList
    | none => "ATOM-MISSING".toList
  let us := (Srcset.urls v.toList).map (fun u => hex (String.ofList u))
  pure s!"{" ".intercalate us} | {hex (String.ofList (Srcset.rewrite abs v.toList))}"

def attrsStr (as : List Attr) : String := " ".intercalate (as.map (fun a => s!"{hex a.key}={hex a.val}"))

/-- `strip tree` → attributes of every element after StripAttributes, pre-order -/
def stripSlice : P String := do
  let t ← node
  pure ("|".intercalate ((stripNode t).elems.map (fun e => s!"{e.tag}:{attrsStr e.attrs}")))

/-- `outputnodes tree atoms` → text ids and element tags `GetOutputNodes` collects -/
def outputnodesSlice : P String := do
  let t ← node
  let A1 ← atomsP
  let A := deriveAtomsFast t A1
  pure s!"{",".intercalate ((outputTextIds A t).map toString)} | {",".intercalate (outputTags A t)}"

/-- `absurl tree n (value abs absSet)*` → attributes of every element after MakeAllLinksAbsolute;
the table gives, for every attribute value in the tree, what `CreateAbsoluteURL` and the srcset
rewriting make of it -/
def absurlSlice : P String := do
  let t ← node
  let n ← nat
  let tbl ← many n (do let v ← str; let a ← str; let b ← str; pure (v, a, b))
  let abs : String → String := fun v => match tbl.find? (fun e => e.1 == v) with | some e => e.2.1 | none => v
  let absSet : String → String := fun v => match tbl.find? (fun e => e.1 == v) with | some e => e.2.2 | none => v
  pure ("|".intercalate ((absNode abs absSet t).elems.map (fun e => s!"{e.tag}:{attrsStr e.attrs}")))

/-- `textblocks n group* m (k member* content title)*` → the initial grouping, and the flags
ApplyToModel writes for the given final blocks -/
def textblocksSlice : P String := do
  let n ← nat
  let gs ← many n nat
  let m ← nat
  let blocks ← many m (do
    let k ← nat; let ms ← many k nat; let c ← bool; let t ← bool
    pure ({ members := ms, content := c, title := t } : VBlock))
  let pairs := (List.range n).zip gs
  let init := groupBlocks pairs
  let flags := (List.range n).map (fun i => let f := flagOf blocks i; s!"{bstr f.1}{bstr f.2}")
  pure s!"{";".intercalate (init.map (fun b => ",".intercalate (b.map toString)))} | {" ".intercalate flags}"

/-- `title markup orig hasH1 h1 headingMatch` → document title and result title -/
def titleSlice : P String := do
  let markup ← str; let orig ← str; let hasH1 ← bool; let h1 ← str; let hm ← bool
  let i : TitleIn := { orig := orig.toList, h1 := if hasH1 then some h1.toList else none, headingMatch := hm }
  pure s!"{hex (String.ofList (documentTitle i))} {hex (String.ofList (resultTitle markup.toList i))}"

def pinfoP : P Pg.PInfo := do
  let n ← int; let u ← str; pure { num := n, url := u }

def patP : P Pg.PatAtom := do
  let k ← str; let v ← int; let ok ← bool; pure { key := k, value := v, validFor := ok }

def pinfoStr (p : Pg.PInfo) : String := s!"{p.num}:{hex p.url}"

/-- `pagenum docParses docURL docURLArg strPageURL escPageURL  ng (sign n (num url)*)*
    nu (url parses nq pat* np pat*)*  nk key*  npu url*  row*` (rows are 0/1 strings, `-` when empty)
    → the detected PageParamInfo and (next, prev) -/
def pagenumSlice : P String := do
  let docParses ← bool; let docURL ← str; let docArg ← str; let strPage ← str; let escPage ← str
  let ng ← nat
  let groups ← many ng (do
    let sg ← int; let n ← nat; let l ← many n pinfoP
    pure ({ list := l, deltaSign := sg } : Pg.PGroup))
  let nu ← nat
  let urls ← many nu (do
    let u ← str; let ok ← bool
    let nq ← nat; let q ← many nq patP
    let np ← nat; let pth ← many np patP
    pure ({ url := u, parses := ok, query := q, path := pth } : Pg.UrlAtoms))
  let nk ← nat; let keys ← many nk str
  let npu ← nat; let purls ← many npu str
  let rows ← many nk tok
  let isPaging : String → String → Bool := fun k u =>
    match keys.idxOf? k, purls.idxOf? u with
    | some i, some j => ((rows[i]?).getD "").toList[j]? == some '1'
    | _, _ => false
  let A : Pg.Atoms := { urls := urls, isPaging := isPaging, docURL := docURL, docParses := docParses }
  let pi := Pg.detectParamInfo A groups docArg
  let (next, prev) := Pg.numberPrevNext pi strPage escPage
  let f := match pi.formula with | some (c, d) => s!"f{c},{d}" | none => "f-"
  pure s!"{bstr pi.isPageNumber} {hex pi.pattern} [{" ".intercalate (pi.pages.map pinfoStr)}] {f} {hex pi.next} | {hex next} {hex prev}"

/-- `pagegroups n (kind num url)*` (kind 0 = AddGroup, 1 = AddPageInfo, 2 = CleanUp) → the groups -/
def pagegroupsSlice : P String := do
  let n ← nat
  let ops ← many n (do
    let k ← nat; let num ← int; let u ← str
    pure (match k with
      | 0 => Pg.GOp.addGroup
      | 1 => Pg.GOp.add { num := num, url := u }
      | _ => Pg.GOp.cleanUp))
  let m := Pg.runOps ops
  pure (" ".intercalate (m.groups.map (fun g => s!"<{g.deltaSign}:{",".intercalate (g.list.map pinfoStr)}>")))

/-- `numberscan tree n (id num url)* m id*` → the groups of adjacent numbers the DOM scan leaves
(page infos of the anchors and the text nodes without words are given by id) -/
def numberscanSlice : P String := do
  let t ← node
  let n ← nat
  let infos ← many n (do let i ← nat; let num ← int; let u ← str; pure (i, num, u))
  let m ← nat
  let blanks ← many m nat
  let A : Scan.A := { pageInfo := fun i => (infos.find? (fun x => x.1 == i)).map (fun x => (x.2.1, x.2.2)),
                      noWords := fun i => blanks.contains i }
  -- the number of every page-number link is what the model reads from the anchor's inner text
  let SA := styleOnlyAtoms t
  let bad := infos.filter fun x =>
    match findNode x.1 t with
    | some a => Pg.linkTextToNumber (innerText SA a) != some x.2.1
    | none => true
  if !bad.isEmpty then pure s!"anchor-number-mismatch at {bad.map (·.1)}" else
  match Scan.scanGroups A t with
  | none => pure "fuel-exhausted"
  | some gs => pure (" ".intercalate (gs.map (fun g => s!"<{g.deltaSign}:{",".intercalate (g.list.map pinfoStr)}>")))

def bytesOf (s : String) : List UInt8 := s.toUTF8.toList

/-- `pathpaging strURL pStart segStart prefix suffix origin n url*` → per URL `1`/`0`/`P`
(P = the Go code would index out of range), then whether the construction from strURL
reproduces the stored fields -/
def pathpagingSlice : P String := do
  let strURL ← bytes; let ps ← int; let ss ← int; let pre ← bytes; let suf ← bytes; let origin ← int
  let n ← nat
  let urls ← many n bytes
  let pp : PP.PathPat := { str := strURL, pStart := ps, segStart := ss, pre := pre, suf := suf, origin := origin }
  let res := urls.map (fun u => match PP.isPagingURL pp u with
    | some true => '1' | some false => '0' | none => 'P')
  let same := match PP.construct strURL origin with
    | some c => c.pStart == ps && c.segStart == ss && c.pre == pre && c.suf == suf
    | none => false
  pure s!"{String.ofList res}. {bstr same}"

/-- `prevnext nb banned* nc (href score)*` → the selected href -/
def prevnextSlice : P String := do
  let nb ← nat; let banned ← many nb str
  let nc ← nat
  let cs ← many nc (do let h ← str; let sc ← int; pure ({ href := h, score := sc } : Pg.Cand))
  pure (hex (Pg.prevNextResult banned cs))


def labelsP : P Flt.Labels := do
  let t ← tok
  let c := t.toList
  if c.length != 11 then failure
  let g (i : Nat) : Bool := c[i]? == some '1'
  pure { title := g 0, mightBe := g 1, veryLikely := g 2, li := g 3, heading := g 4, h1 := g 5, h2 := g 6,
         h3 := g 7, bhf := g 8, snc := g 9, sibling := g 10 }

def labelsStr (l : Flt.Labels) : String :=
  String.ofList ([l.title, l.mightBe, l.veryLikely, l.li, l.heading, l.h1, l.h2, l.h3, l.bhf, l.snc, l.sibling].map
    (fun b => if b then '1' else '0'))

def tbStr (b : Flt.TB) : String :=
  s!"{",".intercalate (b.members.map toString)}/{b.numWords}/{b.numAnchor}/{b.tagLevel}/{b.offStart}/{b.offEnd}/{labelsStr b.labels}/{bstr b.content}"

/-- `filters n (k member* numWords numAnchor tagLevel offStart offEnd labels content)*
    (repParent repKind gpFirst gpLast term titleMatch)*` → the block list after each of the filters
    3 … 14 with the filter's `changed` answer, the word count, and the Text elements ApplyToModel
    flags; `P` when an index of the model's SimilarSiblingContent is out of range -/
def filtersSlice : P String := do
  let n ← nat
  let blocks ← many n (do
    let k ← nat; let ms ← many k nat
    let nw ← nat; let na ← nat; let tl ← int; let os ← int; let oe ← int; let ls ← labelsP; let c ← bool
    pure (ms, nw, na, tl, os, oe, ls, c))
  let atoms ← many n (do
    let rp ← nat; let rk ← str; let gf ← nat; let gl ← nat; let tm ← bool; let ti ← bool
    pure ({ repParent := rp, repKind := rk, gpFirst := gf, gpLast := gl, term := tm, titleMatch := ti } : Flt.BAtoms))
  let init : List Flt.TB := (List.range n).zip blocks |>.map (fun (i, (ms, nw, na, tl, os, oe, ls, c)) =>
    { members := ms, numWords := nw, numAnchor := na, tagLevel := tl, offStart := os, offEnd := oe, labels := ls, content := c, first := i })
  match Flt.runTrace atoms Flt.articleFilters init with
  | none => pure "P"
  | some tr =>
    let stages := (tr.drop 2).map (fun (l, ch) => s!"{bstr ch}:{";".intercalate (l.map tbStr)}")
    let final := match tr.getLast? with | some (l, _) => l | none => init
    pure s!"{" | ".intercalate stages} | wc={Flt.countWordsInContent final} c={",".intercalate ((Flt.contentMembers final).map toString)} t={",".intercalate ((Flt.titleMembers final).map toString)}"

/-- `textrender tree atoms nIds id* nTbl (value abs absSet)* title textOnly` → what
`Text.GenerateOutput(textOnly)` returns for the window `ids` of the converter's tree; `P` when the
Go code would dereference nil -/
def textrenderSlice : P String := do
  let t ← node
  let A1 ← atomsP
  let A := deriveAtomsFast t A1
  let n ← nat
  let ids ← many n nat
  let m ← nat
  let tbl ← many m (do let v ← str; let a ← str; let b ← str; pure (v, a, b))
  let abs : String → String := fun v => match tbl.find? (fun e => e.1 == v) with | some e => e.2.1 | none => v
  let absSet : String → String := fun v => match tbl.find? (fun e => e.1 == v) with | some e => e.2.2 | none => v
  let title ← bool
  let textOnly ← bool
  match textOutput A abs absSet title textOnly ids t with
  | none => pure "P"
  | some s => pure (hex (String.ofList s))

/-- `dedupe tree` → attributes of every element after RemoveDuplicateAttributes, pre-order -/
def dedupeSlice : P String := do
  let t ← node
  pure ("|".intercalate ((dedupNode t).elems.map (fun e => s!"{e.tag}:{attrsStr e.attrs}")))

def optHex (o : Option (List Char)) : String :=
  match o with
  | some s => hex (String.ofList s)
  | none => "P"

/-- `mediarender kind tree hasCaption [captionTree] atoms nTbl (value abs absSet nURLs url*)* type id`
(kind: 3 image, 4 figure, 5 video, 6 embed, 7 table) → `H=` HTML view, `T=` text view, `U=` image URLs -/
def mediarenderSlice : P String := do
  let kind ← nat
  let el ← node
  let hasCap ← bool
  let cap ← if hasCap then (do let c ← node; pure (some c)) else pure none
  let A ← atomsP
  let m ← nat
  let tbl ← many m (do
    let v ← str; let a ← str; let b ← str
    let nu ← nat; let us ← many nu str
    pure (v, a, b, us))
  let abs : String → String := fun v => match tbl.find? (fun e => e.1 == v) with | some e => e.2.1 | none => v
  let absSet : String → String := fun v => match tbl.find? (fun e => e.1 == v) with | some e => e.2.2.1 | none => v
  let setURLs : String → List String := fun v => match tbl.find? (fun e => e.1 == v) with | some e => e.2.2.2 | none => []
  let type ← str
  let id ← str
  let urlsStr := fun (l : List String) => ",".intercalate (l.map hex)
  match kind with
  | 3 => pure s!"H={hex (String.ofList (imageOutput abs absSet false el))} T={hex (String.ofList (imageOutput abs absSet true el))} U={urlsStr (imageURLs abs absSet setURLs el)}"
  | 4 =>
    match cap with
    | some c => pure s!"H={optHex (figureOutput A abs absSet false el c)} T={optHex (figureOutput A abs absSet true el c)} U={urlsStr (imageURLs abs absSet setURLs el)}"
    | none => pure "error figure-without-caption"
  | 5 => pure s!"H={hex (String.ofList (videoOutput abs absSet false el))} T={hex (String.ofList (videoOutput abs absSet true el))} U="
  | 6 => pure s!"H={hex (String.ofList (embedOutput A false type id el))} T={hex (String.ofList (embedOutput A true type id el))} U="
  | 7 => pure s!"H={optHex (tableOutput A abs absSet false el)} T={optHex (tableOutput A abs absSet true el)} U={urlsStr (tableImageURLs A abs absSet setURLs el)}"
  | _ => pure "error unknown-kind"

/-- `rootselect isElem n tree*` (an element root: one tree; any other root: its children) →
`err` or the ids of the element `Apply` goes on with and of the extractor's document element -/
def rootselectSlice : P String := do
  let isE ← bool
  let n ← nat
  let ts ← many n node
  let r := match isE, ts with
    | true, [t] => applyRoot t []
    | true, _ => none
    | false, ks => applyRoot (.other 0 3) ks
  match r with
  | none => pure "err"
  | some e => pure s!"{e.id} {(extractorRoot e).id}"

/-- `terms text firstURL` → whether `addNonLinkTextIfValid` reports a number, and the groups it
leaves when the current group already holds link number 1 -/
def termsSlice : P String := do
  let text ← str; let u ← str
  let ops := [Pg.GOp.addGroup, Pg.GOp.add { num := 1, url := u }] ++ Pg.textOps text.toList
  let m := Pg.runOps ops
  pure s!"{bstr (Pg.textAdded text.toList)} {" ".intercalate (m.groups.map (fun g => s!"<{g.deltaSign}:{",".intercalate (g.list.map pinfoStr)}>"))}"

/-- `linknum text` → the page number `linkTextToNumber` reads (0 … 100), or `-` -/
def linknumSlice : P String := do
  let text ← str
  match Pg.linkTextToNumber text.toList with
  | some n => if 0 ≤ n && n ≤ 100 then pure s!"{n}" else pure "-"
  | none => pure "-"

/-- `iereader tree atoms nTbl (value lower upper)*` → the answers of the IE Reading View accessor -/
def iereaderSlice : P String := do
  let t ← node
  let A ← atomsP
  let m ← nat
  let tbl ← many m (do let v ← str; let a ← str; let b ← str; pure (v, a, b))
  let lower : String → String := fun v => match tbl.find? (fun e => e.1 == v) with | some e => e.2.1 | none => v
  let upper : String → String := fun v => match tbl.find? (fun e => e.1 == v) with | some e => e.2.2 | none => v
  let s := IE.source { lower := lower, upper := upper, vis := A } t
  let art := match s.article with | some a => artStr a | none => "nil"
  pure s!"{hex s.title} {hex s.publisher} {hex s.copyright} {hex s.author} {bstr s.optOut} {art} {s.images.map imgStr}"

/-- `imageextract tree atoms nTbl (value looksSrc looksSrcset srcValid)*` → what the image extractor
makes of the element: kind, the image element and the caption, serialised -/
def imageextractSlice : P String := do
  let t ← node
  let A1 ← atomsP
  let A := deriveAtomsFast t A1
  let m ← nat
  let tbl ← many m (do let v ← str; let a ← bool; let b ← bool; let c ← bool; pure (v, a, b, c))
  let look := fun (v : String) => tbl.find? (fun e => e.1 == v)
  let L : Img.LazyAtoms := {
    looksSrc := fun v => match look v with | some e => e.2.1 | none => false,
    looksSrcset := fun v => match look v with | some e => e.2.2.1 | none => false,
    srcValid := fun v => match look v with | some e => e.2.2.2 | none => true }
  match Img.extract A L t with
  | .none => pure "none"
  | .unmodelled => pure "unmodelled"
  | .image e => pure s!"image {hex (String.ofList (outerHTML e))}"
  | .figure e c => pure s!"figure {hex (String.ofList (outerHTML e))} {hex (String.ofList (outerHTML c))}"

/-- `opengraph tree nTbl (value lower)* og profile article` → whether the OpenGraph parser is usable
and, if so, the answers of its accessor -/
def opengraphSlice : P String := do
  let t ← node
  let m ← nat
  let tbl ← many m (do let v ← str; let a ← str; pure (v, a))
  let lower : String → String := fun v => match tbl.find? (fun e => e.1 == v) with | some e => e.2 | none => v
  let og ← str; let pr ← str; let ar ← str
  let p := OG.parse lower { og := og, profile := pr, article := ar } t
  if !OG.usable p then pure "unusable"
  else
    let s := OG.source lower p
    let art := match s.article with | some a => artStr a | none => "nil"
    pure s!"usable {hex s.title} {hex s.type} {hex s.url} {hex s.description} {hex s.publisher} {hex s.author} {art} {s.images.map imgStr}"

/-- `schemaorg tree nTbl (value lower)*` → the answers of the schema.org accessor -/
def schemaorgSlice : P String := do
  let t ← node
  let m ← nat
  let tbl ← many m (do let v ← str; let a ← str; pure (v, a))
  let lower : String → String := fun v => match tbl.find? (fun e => e.1 == v) with | some e => e.2 | none => v
  let s := SO.source lower t
  let art := match s.article with | some a => artStr a | none => "nil"
  pure s!"{hex s.title} {hex s.type} {hex s.url} {hex s.description} {hex s.publisher} {hex s.copyright} {hex s.author} {art} {s.images.map imgStr}"

/-- `markuppage tree atoms nTbl (value lower upper)* og profile article` → `Result.MarkupInfo` -/
def markuppageSlice : P String := do
  let t ← node
  let A ← atomsP
  let m ← nat
  let tbl ← many m (do let v ← str; let a ← str; let b ← str; pure (v, a, b))
  let lower : String → String := fun v => match tbl.find? (fun e => e.1 == v) with | some e => e.2.1 | none => v
  let upper : String → String := fun v => match tbl.find? (fun e => e.1 == v) with | some e => e.2.2 | none => v
  let og ← str; let pr ← str; let ar ← str
  let i := pageMarkup { lower := lower, upper := upper, vis := A, prefixes := { og := og, profile := pr, article := ar } } t
  pure s!"{hex i.title} {hex i.type} {hex i.url} {hex i.description} {hex i.publisher} {hex i.copyright} {hex i.author} {artStr i.article} {i.images.map imgStr}"

def outElP : P OutEl := do
  let c ← bool; let h ← str; let t ← str
  pure { content := c, html := h.toList, text := t.toList }

/-- `docoutput textOnly n (content html text)*` → `Document.GenerateOutput(textOnly)` -/
def docoutputSlice : P String := do
  let textOnly ← bool
  let n ← nat
  let es ← many n outElP
  pure (hex (String.ofList (docOutput textOnly es)))

def dispatch (slice : String) : Option (P String) :=
  match slice with
  | "textrender" => some textrenderSlice
  | "docoutput" => some docoutputSlice
  | "dedupe" => some dedupeSlice
  | "mediarender" => some mediarenderSlice
  | "rootselect" => some rootselectSlice
  | "terms" => some termsSlice
  | "iereader" => some iereaderSlice
  | "imageextract" => some imageextractSlice
  | "opengraph" => some opengraphSlice
  | "schemaorg" => some schemaorgSlice
  | "markuppage" => some markuppageSlice
  | "linknum" => some linknumSlice
  | "docfilters" => some docfilters
  | "tableclass" => some tableclass
  | "rootdomain" => some rootdomain
  | "embed" => some embedSlice
  | "markup" => some markupSlice
  | "oggate" => some ogGateSlice
  | "applytail" => some applyTailSlice
  | "convert" => some convertSlice
  | "builder" => some builderSlice
  | "countwords" => some countWordsSlice
  | "wordcounter" => some wordcounterSlice
  | "srcset" => some srcsetSlice
  | "createabs" => some createabsSlice
  | "style" => some styleSlice
  | "candidates" => some candidatesSlice
  | "linkscore" => some linkscoreSlice
  | "findoutlink" => some findoutlinkSlice
  | "pagediff" => some pagediffSlice
  | "pageinfo" => some pageinfoSlice
  | "strip" => some stripSlice
  | "title" => some titleSlice
  | "textblocks" => some textblocksSlice
  | "outputnodes" => some outputnodesSlice
  | "absurl" => some absurlSlice
  | "pagenum" => some pagenumSlice
  | "prevnext" => some prevnextSlice
  | "pagegroups" => some pagegroupsSlice
  | "numberscan" => some numberscanSlice
  | "pathpaging" => some pathpagingSlice
  | "filters" => some filtersSlice
  | _ => none

def answer (line : String) : String :=
  match (line.splitOn " ").filter (· ≠ "") with
  | slice :: caseNo :: rest =>
    match dispatch slice with
    | none => s!"{caseNo} error unknown-slice"
    | some p =>
      match p.run rest with
      | some (out, []) => s!"{caseNo} {out}"
      | some (_, _) => s!"{caseNo} error trailing-tokens"
      | none => s!"{caseNo} error parse"
  | _ => "? error malformed-line"

end Distill.Slices
