def hello := "world"
