/-
  Proofs about the article-extractor model (`Model/Filters.lean`).

  * `Closed G`: a predicate on blocks that survives `MergeNext` and every modification that keeps
    the members, the word count and an existing TITLE label.  Every filter keeps "all blocks
    satisfy G" (`runFilter_all`).  Instances: "the block holds an initial block wholly or not at
    all" (C03), "the block's word count is the sum over its members" (C09), "a block that holds a
    title-matched initial block carries TITLE" (C15).
  * `cnt`: no filter duplicates or invents a Text element (`runFilter_cnt`).
  * SimilarSiblingContent never indexes out of range (`similarSibling_total`).
-/
import Distill.Model.Filters
namespace Distill.Flt

/-! ### closure -/

structure Closed (G : TB → Prop) : Prop where
  merge : ∀ a b, G a → G b → G (a.merge b)
  modify : ∀ a a', a'.members = a.members → a'.numWords = a.numWords →
    (a.labels.title = true → a'.labels.title = true) → G a → G a'

def All (G : TB → Prop) (l : List TB) : Prop := ∀ b ∈ l, G b

theorem All.nil {G} : All G [] := by intro b h; cases h
theorem All.cons {G a l} (ha : G a) (hl : All G l) : All G (a :: l) := by
  intro b h; cases h with
  | head => exact ha
  | tail _ h => exact hl b h
theorem All.head {G a l} (h : All G (a :: l)) : G a := h a (List.mem_cons_self ..)
theorem All.tail {G a l} (h : All G (a :: l)) : All G l := fun b hb => h b (List.mem_cons_of_mem _ hb)
theorem All.append {G l1 l2} (h1 : All G l1) (h2 : All G l2) : All G (l1 ++ l2) := by
  intro b h; rcases List.mem_append.mp h with h | h
  · exact h1 b h
  · exact h2 b h
theorem All.reverse {G l} (h : All G l) : All G l.reverse := fun b hb => h b (List.mem_reverse.mp hb)
theorem All.of_reverse {G l} (h : All G l.reverse) : All G l := fun b hb => h b (List.mem_reverse.mpr hb)
theorem All.left {G l1 l2} (h : All G (l1 ++ l2)) : All G l1 := fun b hb => h b (List.mem_append_left _ hb)
theorem All.right {G l1 l2} (h : All G (l1 ++ l2)) : All G l2 := fun b hb => h b (List.mem_append_right _ hb)

/-- a map that only touches flags and labels (never clearing TITLE) keeps `All G` -/
theorem All.map {G} (hG : Closed G) (f : TB → TB)
    (hf : ∀ a, (f a).members = a.members ∧ (f a).numWords = a.numWords ∧ (a.labels.title = true → (f a).labels.title = true))
    {l} (h : All G l) : All G (l.map f) := by
  intro b hb
  obtain ⟨a, ha, rfl⟩ := List.mem_map.mp hb
  exact hG.modify a (f a) (hf a).1 (hf a).2.1 (hf a).2.2 (h a ha)

/-- all members of all blocks, in block order -/
def allMembers (l : List TB) : List Nat := l.flatMap (·.members)

@[simp] theorem allMembers_nil : allMembers [] = [] := rfl
@[simp] theorem allMembers_cons (a l) : allMembers (a :: l) = a.members ++ allMembers l := by
  simp [allMembers]
@[simp] theorem allMembers_append (l1 l2) : allMembers (l1 ++ l2) = allMembers l1 ++ allMembers l2 := by
  simp [allMembers]

def cnt (l : List TB) (x : Nat) : Nat := (allMembers l).count x

@[simp] theorem cnt_nil (x) : cnt [] x = 0 := rfl
@[simp] theorem cnt_cons (a l x) : cnt (a :: l) x = a.members.count x + cnt l x := by simp [cnt]
@[simp] theorem cnt_append (l1 l2 x) : cnt (l1 ++ l2) x = cnt l1 x + cnt l2 x := by simp [cnt]
@[simp] theorem cnt_reverse (l x) : cnt l.reverse x = cnt l x := by
  induction l with
  | nil => rfl
  | cons a l ih => simp [ih]; omega

theorem cnt_map_eq (f : TB → TB) (hf : ∀ a, (f a).members = a.members) (l x) : cnt (l.map f) x = cnt l x := by
  induction l with
  | nil => rfl
  | cons a l ih => simp [hf, ih]

@[simp] theorem merge_members (a b : TB) : (a.merge b).members = a.members ++ b.members := rfl
@[simp] theorem merge_numWords (a b : TB) : (a.merge b).numWords = a.numWords + b.numWords := rfl
@[simp] theorem merge_title (a b : TB) : (a.merge b).labels.title = (a.labels.title || b.labels.title) := rfl

/-! ### the filters that only touch flags and labels -/

theorem terminating_all {G} (hG : Closed G) (A l) (h : All G l) : All G (terminating A l).1 := by
  unfold terminating
  refine All.map hG _ (fun a => ?_) h
  by_cases ht : (A.at a.first).term = true <;> simp [ht]

theorem terminating_cnt (A l x) : cnt (terminating A l).1 x = cnt l x := by
  unfold terminating
  refine cnt_map_eq _ (fun a => ?_) l x
  by_cases ht : (A.at a.first).term = true <;> simp [ht]

theorem titleMatch_all {G} (hG : Closed G) (A l) (h : All G l) : All G (titleMatch A l).1 := by
  unfold titleMatch
  refine All.map hG _ (fun a => ?_) h
  by_cases ht : (A.at a.first).titleMatch = true <;> simp [ht]

theorem titleMatch_cnt (A l x) : cnt (titleMatch A l).1 x = cnt l x := by
  unfold titleMatch
  refine cnt_map_eq _ (fun a => ?_) l x
  by_cases ht : (A.at a.first).titleMatch = true <;> simp [ht]

theorem numWordsGo_all {G} (hG : Closed G) (prev l) (h : All G l) : All G (numWordsGo prev l).1 := by
  induction l generalizing prev with
  | nil => simp [numWordsGo]; exact All.nil
  | cons c rest ih =>
    simp only [numWordsGo]
    exact All.cons (hG.modify c _ rfl rfl (fun t => t) h.head) (ih (some c) h.tail)

theorem numWordsGo_cnt (prev l x) : cnt (numWordsGo prev l).1 x = cnt l x := by
  induction l generalizing prev with
  | nil => simp [numWordsGo]
  | cons c rest ih => simp only [numWordsGo, cnt_cons]; rw [ih]

theorem labelToBoilerplate_all {G} (hG : Closed G) (l) (h : All G l) : All G (labelToBoilerplate l).1 := by
  unfold labelToBoilerplate
  refine All.map hG _ (fun a => ?_) h
  by_cases ht : (a.content && a.labels.snc) = true <;> simp [ht]

theorem labelToBoilerplate_cnt (l x) : cnt (labelToBoilerplate l).1 x = cnt l x := by
  unfold labelToBoilerplate
  refine cnt_map_eq _ (fun a => ?_) l x
  by_cases ht : (a.content && a.labels.snc) = true <;> simp [ht]

theorem largeBlock_all {G} (hG : Closed G) (l) (h : All G l) : All G (largeBlock l).1 := by
  unfold largeBlock largeBlockAt
  split
  · exact h
  · refine All.map hG _ (fun a => ?_) h
    split <;> simp

theorem largeBlock_cnt (l x) : cnt (largeBlock l).1 x = cnt l x := by
  unfold largeBlock largeBlockAt
  split
  · rfl
  · refine cnt_map_eq _ (fun a => ?_) l x
    split <;> simp

theorem listAtEndGo_all {G} (hG : Closed G) (tl l) (h : All G l) : All G (listAtEndGo tl l).1 := by
  induction l generalizing tl with
  | nil => simp [listAtEndGo]; exact All.nil
  | cons b rest ih =>
    simp only [listAtEndGo]
    split
    · exact All.cons h.head (ih _ h.tail)
    · split
      · exact All.cons (hG.modify b _ rfl rfl (fun t => t) h.head) (ih _ h.tail)
      · exact All.cons h.head (ih _ h.tail)

theorem listAtEndGo_cnt (tl l x) : cnt (listAtEndGo tl l).1 x = cnt l x := by
  induction l generalizing tl with
  | nil => simp [listAtEndGo]
  | cons b rest ih =>
    simp only [listAtEndGo]
    split
    · simp [ih]
    · split <;> simp [ih]

theorem mapIdxFrom_all {G} (hG : Closed G) (g : Nat → TB → TB)
    (hg : ∀ i a, (g i a).members = a.members ∧ (g i a).numWords = a.numWords ∧ (a.labels.title = true → (g i a).labels.title = true))
    (i l) (h : All G l) : All G (mapIdxFrom g i l) := by
  induction l generalizing i with
  | nil => exact All.nil
  | cons b rest ih =>
    simp only [mapIdxFrom]
    exact All.cons (hG.modify b _ (hg i b).1 (hg i b).2.1 (hg i b).2.2 h.head) (ih _ h.tail)

theorem mapIdxFrom_cnt (g : Nat → TB → TB) (hg : ∀ i a, (g i a).members = a.members) (i l x) :
    cnt (mapIdxFrom g i l) x = cnt l x := by
  induction l generalizing i with
  | nil => rfl
  | cons b rest ih => simp [mapIdxFrom, hg, ih]

theorem mapIdxFrom_length (g : Nat → TB → TB) (i l) : (mapIdxFrom g i l).length = l.length := by
  induction l generalizing i with
  | nil => rfl
  | cons b rest ih => simp [mapIdxFrom, ih]

theorem expandTitle_all {G} (hG : Closed G) (l) (h : All G l) : All G (expandTitle l).1 := by
  unfold expandTitle
  split
  · split
    · exact h
    · refine mapIdxFrom_all hG _ (fun i a => ?_) 0 l h
      split <;> simp
  · exact h

theorem expandTitle_cnt (l x) : cnt (expandTitle l).1 x = cnt l x := by
  unfold expandTitle
  split
  · split
    · rfl
    · refine mapIdxFrom_cnt _ (fun i a => ?_) 0 l x
      split <;> simp
  · rfl

theorem markLargest_all {G} (hG : Closed G) (idx l) (h : All G l) : All G (markLargest idx l) := by
  unfold markLargest
  refine mapIdxFrom_all hG _ (fun i a => ?_) 0 l h
  split <;> simp

theorem markLargest_cnt (idx l x) : cnt (markLargest idx l) x = cnt l x := by
  unfold markLargest
  refine mapIdxFrom_cnt _ (fun i a => ?_) 0 l x
  split <;> simp

theorem expandGo_all {G} (hG : Closed G) (A mine next gp l) (h : All G l) : All G (expandGo A mine next gp l) := by
  induction l generalizing gp with
  | nil => exact All.nil
  | cons c rest ih =>
    simp only [expandGo]
    split
    · exact All.cons (hG.modify c _ rfl rfl (fun t => t) h.head) (ih _ h.tail)
    · exact All.cons h.head (ih _ h.tail)

theorem expandGo_cnt (A mine next gp l x) : cnt (expandGo A mine next gp l) x = cnt l x := by
  induction l generalizing gp with
  | nil => rfl
  | cons c rest ih =>
    simp only [expandGo]
    split <;> simp [ih]

theorem take_drop_split (l : List TB) (idx : Nat) (big : TB) (h : l[idx]? = some big) :
    l = l.take idx ++ big :: l.drop (idx+1) := by
  induction l generalizing idx with
  | nil => simp at h
  | cons a l ih =>
    cases idx with
    | zero => simp at h; simp [h]
    | succ k => simp at h; simp; exact ih k h

theorem keepLargest_all {G} (hG : Closed G) (e A l) (h : All G l) : All G (keepLargest e A l).1 := by
  unfold keepLargest
  split
  · exact h
  · simp only []
    have h1 := markLargest_all hG ((largestGo l 0 none).map (·.1)) l h
    split
    · rename_i idx _ _
      split
      · split
        · rename_i big hb
          have hs := take_drop_split _ idx big hb
          rw [hs] at h1
          have hbefore : All G ((markLargest (Option.map (fun x => x.fst) (largestGo l 0 none)) l).take idx) := h1.left
          have hrest := h1.right
          refine All.append ?_ (All.cons hrest.head ?_)
          · exact (expandGo_all hG _ _ _ _ _ hbefore.reverse).reverse
          · exact expandGo_all hG _ _ _ _ _ hrest.tail
        · exact h1
      · exact h1
    · exact h1

theorem keepLargest_cnt (e A l x) : cnt (keepLargest e A l).1 x = cnt l x := by
  unfold keepLargest
  split
  · rfl
  · simp only []
    have h1 := markLargest_cnt ((largestGo l 0 none).map (·.1)) l x
    split
    · rename_i idx _ _
      split
      · split
        · rename_i big hb
          have hs := take_drop_split _ idx big hb
          rw [← h1]
          conv => rhs; rw [hs]
          simp [expandGo_cnt]
        · exact h1
      · exact h1
    · exact h1

/-! ### BoilerplateBlock: whole blocks are removed -/

theorem boilerplateBlock_all {G} (k l) (h : All G l) : All G (boilerplateBlock k l).1 := by
  unfold boilerplateBlock
  intro b hb
  exact h b (List.mem_filter.mp hb).1

theorem cnt_filter_le (p : TB → Bool) (l x) : cnt (l.filter p) x ≤ cnt l x := by
  induction l with
  | nil => simp
  | cons a l ih =>
    simp only [List.filter]
    split
    · simp; omega
    · simp; omega

theorem boilerplateBlock_cnt (k l x) : cnt (boilerplateBlock k l).1 x ≤ cnt l x := by
  unfold boilerplateBlock
  exact cnt_filter_le _ l x

/-! ### the two fusion filters -/

def FuseAll (G : TB → Prop) (s : Fuse) : Prop := All G s.done ∧ G s.prev ∧ All G s.skipped
def Fuse.cnt (s : Fuse) (x : Nat) : Nat := Flt.cnt s.done x + s.prev.members.count x + Flt.cnt s.skipped x

theorem Fuse.result_all {G s} (h : FuseAll G s) : All G s.result := by
  unfold Fuse.result
  exact All.append h.1.reverse (All.cons h.2.1 h.2.2.reverse)

theorem Fuse.result_cnt (s : Fuse) (x) : Flt.cnt s.result x = s.cnt x := by
  unfold Fuse.result Fuse.cnt
  simp; omega

theorem hfStep_all {G} (hG : Closed G) (s b) (hs : FuseAll G s) (hb : G b) : FuseAll G (hfStep s b) := by
  obtain ⟨hd, hp, hk⟩ := hs
  have hmove : FuseAll G { s with done := s.prev :: s.done, prev := b } := ⟨All.cons hp hd, hb, hk⟩
  unfold hfStep
  simp only []
  split
  · exact hmove
  · split
    · exact hmove
    · split
      · exact hmove
      · split
        · refine ⟨hd, ?_, hk⟩
          refine hG.modify (s.prev.merge b) _ rfl rfl (fun t => t) (hG.merge _ _ hp hb)
        · split
          · exact ⟨All.cons (hG.modify s.prev _ rfl rfl (fun t => t) hp) hd, hb, hk⟩
          · exact hmove

theorem hfStep_cnt (s b x) : (hfStep s b).cnt x = s.cnt x + b.members.count x := by
  unfold hfStep Fuse.cnt
  simp only []
  split
  · simp; omega
  · split
    · simp; omega
    · split
      · simp; omega
      · split
        · simp; omega
        · split <;> (simp; omega)

theorem foldl_fuse_all {G} (step : Fuse → TB → Fuse)
    (hstep : ∀ s b, FuseAll G s → G b → FuseAll G (step s b))
    (l s) (hs : FuseAll G s) (hl : All G l) : FuseAll G (l.foldl step s) := by
  induction l generalizing s with
  | nil => exact hs
  | cons b rest ih => exact ih _ (hstep s b hs hl.head) hl.tail

theorem foldl_fuse_cnt (step : Fuse → TB → Fuse)
    (hstep : ∀ s b x, (step s b).cnt x = s.cnt x + b.members.count x)
    (l s x) : (l.foldl step s).cnt x = s.cnt x + Flt.cnt l x := by
  induction l generalizing s with
  | nil => simp
  | cons b rest ih => simp only [List.foldl_cons, ih, hstep, cnt_cons]; omega

theorem headingFusion_all {G} (hG : Closed G) (l) (h : All G l) : All G (headingFusion l).1 := by
  match l, h with
  | [], h => exact h
  | [a], h => exact h
  | a :: b :: rest, h =>
    simp only [headingFusion]
    exact Fuse.result_all (foldl_fuse_all hfStep (hfStep_all hG) _ _ ⟨All.nil, h.head, All.nil⟩ h.tail)

theorem headingFusion_cnt (l x) : cnt (headingFusion l).1 x = cnt l x := by
  match l with
  | [] => rfl
  | [a] => rfl
  | a :: b :: rest =>
    simp only [headingFusion]
    rw [Fuse.result_cnt, foldl_fuse_cnt hfStep hfStep_cnt]
    simp [Fuse.cnt]

theorem pfStep_all {G} (hG : Closed G) (post s b) (hs : FuseAll G s) (hb : G b) : FuseAll G (pfStep post s b) := by
  obtain ⟨hd, hp, hk⟩ := hs
  have hmove : FuseAll G { s with done := s.skipped ++ s.prev :: s.done, prev := b, skipped := [] } :=
    ⟨All.append hk (All.cons hp hd), hb, All.nil⟩
  unfold pfStep
  simp only []
  split
  · exact hmove
  · split
    · split
      · exact ⟨hd, hG.merge _ _ hp hb, hk⟩
      · exact ⟨hd, hp, All.cons hb hk⟩
    · exact hmove

theorem pfStep_cnt (post s b x) : (pfStep post s b).cnt x = s.cnt x + b.members.count x := by
  unfold pfStep Fuse.cnt
  simp only []
  split
  · simp; omega
  · split
    · split <;> (simp; omega)
    · simp; omega

theorem proximityFusion_all {G} (hG : Closed G) (post l) (h : All G l) : All G (proximityFusion post l).1 := by
  match l, h with
  | [], h => exact h
  | [a], h => exact h
  | a :: b :: rest, h =>
    simp only [proximityFusion]
    exact Fuse.result_all (foldl_fuse_all (pfStep post) (pfStep_all hG post) _ _ ⟨All.nil, h.head, All.nil⟩ h.tail)

theorem proximityFusion_cnt (post l x) : cnt (proximityFusion post l).1 x = cnt l x := by
  match l with
  | [] => rfl
  | [a] => rfl
  | a :: b :: rest =>
    simp only [proximityFusion]
    rw [Fuse.result_cnt, foldl_fuse_cnt (pfStep post) (pfStep_cnt post)]
    simp [Fuse.cnt]

/-! ### SimilarSiblingContent: blocks keep their members; no index is out of range -/

/-- `bs'` holds the same blocks as `bs` up to flags -/
def Keeps (bs bs' : List TB) : Prop :=
  (∀ G, Closed G → All G bs → All G bs') ∧ ∀ x, cnt bs' x = cnt bs x

theorem Keeps.refl (bs) : Keeps bs bs := ⟨fun _ _ h => h, fun _ => rfl⟩
theorem Keeps.trans {a b c} (h1 : Keeps a b) (h2 : Keeps b c) : Keeps a c :=
  ⟨fun G hG h => h2.1 G hG (h1.1 G hG h), fun x => by rw [h2.2, h1.2]⟩

theorem cnt_set (l : List TB) (i : Nat) (b b' : TB) (h : l[i]? = some b) (hm : b'.members = b.members) (x) :
    cnt (l.set i b') x = cnt l x := by
  induction l generalizing i with
  | nil => simp at h
  | cons a l ih =>
    cases i with
    | zero => simp at h; simp [h, hm]
    | succ k => simp at h; simp [ih k h]

theorem setContent_keeps {bs i bs'} (h : setContent bs i = some bs') : Keeps bs bs' ∧ bs'.length = bs.length := by
  unfold setContent at h
  cases hb : bs[i]? with
  | none => simp [hb] at h
  | some b =>
    simp [hb] at h
    subst h
    refine ⟨⟨fun G hG hall c hc => ?_, fun x => cnt_set bs i b { b with content := true } hb rfl x⟩, by simp⟩
    rcases List.mem_or_eq_of_mem_set hc with hc | hc
    · exact hall c hc
    · subst hc
      have hbm : b ∈ bs := List.mem_of_getElem? hb
      exact hG.modify b _ rfl rfl (fun t => t) (hall b hbm)

structure Inv (n : Nat) (s : SS) : Prop where
  lb : s.blocks.length = n
  lg : s.good.length = n
  lbad : s.bad.length = n
  gbe : s.gb ≤ s.ge
  bbe : s.bb ≤ s.be
  sum : s.ge + s.be ≤ n
  gv : ∀ v ∈ s.good, v < n
  bv : ∀ v ∈ s.bad, v < n

theorem similar_some (p : SSP) (A : Atoms) (i j : Nat) (hi : i < A.length) (hj : j < A.length) :
    ∃ r, similar p A i j = some r := by
  unfold similar
  simp only [List.getElem?_eq_getElem hi, List.getElem?_eq_getElem hj, Option.bind_eq_bind, Option.bind_some]
  split
  · exact ⟨_, rfl⟩
  · exact ⟨_, rfl⟩

theorem setContent_some (bs : List TB) (i : Nat) (hi : i < bs.length) : ∃ r, setContent bs i = some r := by
  unfold setContent
  simp [List.getElem?_eq_getElem hi]

theorem mem_set_lt {l : List Nat} {j v n : Nat} (hl : ∀ w ∈ l, w < n) (hv : v < n) : ∀ w ∈ l.set j v, w < n := by
  intro w hw
  rcases List.mem_or_eq_of_mem_set hw with h | h
  · exact hl w h
  · subst h; exact hv

theorem loopA_total (p : SSP) (A : Atoms) (n i : Nat) (hA : A.length = n) (hi : i < n) :
    ∀ k j s, Inv n s → s.bb ≤ j → j + k = s.be →
      ∃ s', loopA p A i k j s = some s' ∧ Inv n s' ∧ s'.ge = s.ge ∧ s'.be = s.be ∧ Keeps s.blocks s'.blocks := by
  intro k
  induction k with
  | zero => intro j s hs _ _; exact ⟨s, rfl, hs, rfl, rfl, Keeps.refl _⟩
  | succ k ih =>
    intro j s hs hbj hjk
    have hjn : j < s.bad.length := by have := hs.sum; have := hs.lbad; omega
    have hbad : s.bad[j]? = some s.bad[j] := List.getElem?_eq_getElem hjn
    have hbv : s.bad[j] < n := hs.bv _ (List.getElem_mem hjn)
    unfold loopA
    simp only [hbad, Option.bind_eq_bind, Option.bind_some]
    split
    · -- too far away
      by_cases hjb : j = s.bb
      · have hs' : Inv n { s with bb := s.bb + 1 } :=
          { hs with bbe := by show s.bb + 1 ≤ s.be; omega }
        obtain ⟨s', h1, h2, h3, h4, h5⟩ := ih (j+1) { s with bb := s.bb + 1 } hs' (by show s.bb + 1 ≤ j + 1; omega) (by show j + 1 + k = s.be; omega)
        refine ⟨s', ?_, h2, h3, h4, h5⟩
        simp [hjb] at h1 ⊢; exact h1
      · obtain ⟨s', h1, h2, h3, h4, h5⟩ := ih (j+1) s hs (by omega) (by omega)
        refine ⟨s', ?_, h2, h3, h4, h5⟩
        have : (j == s.bb) = false := by simp [hjb]
        simp [this]; exact h1
    · obtain ⟨r, hr⟩ := similar_some p A i s.bad[j] (by omega) (by omega)
      simp only [hr, Option.bind_some]
      cases r with
      | false =>
        obtain ⟨s', h1, h2, h3, h4, h5⟩ := ih (j+1) s hs (by omega) (by omega)
        exact ⟨s', by simpa using h1, h2, h3, h4, h5⟩
      | true =>
        obtain ⟨bs, hbs⟩ := setContent_some s.blocks s.bad[j] (by rw [hs.lb]; exact hbv)
        have hbbn : s.bb < s.bad.length := by omega
        have hbb : s.bad[s.bb]? = some s.bad[s.bb] := List.getElem?_eq_getElem hbbn
        have hk := setContent_keeps hbs
        have hs' : Inv n { s with blocks := bs, bad := s.bad.set j s.bad[s.bb], bb := s.bb + 1, changed := true } :=
          { lb := by show bs.length = n; rw [hk.2, hs.lb]
            lg := hs.lg
            lbad := by show (s.bad.set j _).length = n; simp [hs.lbad]
            gbe := hs.gbe
            bbe := by show s.bb + 1 ≤ s.be; omega
            sum := hs.sum
            gv := hs.gv
            bv := mem_set_lt hs.bv (hs.bv _ (List.getElem_mem hbbn)) }
        obtain ⟨s', h1, h2, h3, h4, h5⟩ := ih (j+1) _ hs' (by show s.bb + 1 ≤ j + 1; omega) (by show j + 1 + k = s.be; omega)
        refine ⟨s', ?_, h2, h3, h4, hk.1.trans h5⟩
        simp only [hbs, hbb, Option.bind_some, if_true]
        exact h1

theorem loopB_total (p : SSP) (A : Atoms) (n i : Nat) (hA : A.length = n) (hi : i < n) :
    ∀ k j s, Inv n s → s.gb ≤ j → j + k = s.ge →
      ∃ s' br, loopB p A i k j s = some (s', br) ∧ Inv n s' ∧ s'.ge = s.ge ∧ s'.be = s.be ∧ Keeps s.blocks s'.blocks := by
  intro k
  induction k with
  | zero => intro j s hs _ _; exact ⟨s, false, rfl, hs, rfl, rfl, Keeps.refl _⟩
  | succ k ih =>
    intro j s hs hgj hjk
    have hjn : j < s.good.length := by have := hs.sum; have := hs.lg; omega
    have hgood : s.good[j]? = some s.good[j] := List.getElem?_eq_getElem hjn
    have hgv : s.good[j] < n := hs.gv _ (List.getElem_mem hjn)
    unfold loopB
    simp only [hgood, Option.bind_eq_bind, Option.bind_some]
    split
    · by_cases hjb : j = s.gb
      · have hs' : Inv n { s with gb := s.gb + 1 } :=
          { hs with gbe := by show s.gb + 1 ≤ s.ge; omega }
        obtain ⟨s', br, h1, h2, h3, h4, h5⟩ := ih (j+1) { s with gb := s.gb + 1 } hs' (by show s.gb + 1 ≤ j + 1; omega) (by show j + 1 + k = s.ge; omega)
        refine ⟨s', br, ?_, h2, h3, h4, h5⟩
        simp [hjb] at h1 ⊢; exact h1
      · obtain ⟨s', br, h1, h2, h3, h4, h5⟩ := ih (j+1) s hs (by omega) (by omega)
        refine ⟨s', br, ?_, h2, h3, h4, h5⟩
        have : (j == s.gb) = false := by simp [hjb]
        simp [this]; exact h1
    · obtain ⟨r, hr⟩ := similar_some p A i s.good[j] (by omega) (by omega)
      simp only [hr, Option.bind_some]
      cases r with
      | false =>
        obtain ⟨s', br, h1, h2, h3, h4, h5⟩ := ih (j+1) s hs (by omega) (by omega)
        exact ⟨s', br, by simpa using h1, h2, h3, h4, h5⟩
      | true =>
        obtain ⟨bs, hbs⟩ := setContent_some s.blocks i (by rw [hs.lb]; exact hi)
        have hgbn : s.gb < s.good.length := by omega
        have hgb : s.good[s.gb]? = some s.good[s.gb] := List.getElem?_eq_getElem hgbn
        have hk := setContent_keeps hbs
        refine ⟨{ s with blocks := bs, good := s.good.set j s.good[s.gb], gb := s.gb + 1, changed := true }, true, ?_, ?_, rfl, rfl, hk.1⟩
        · simp only [hbs, hgb, Option.bind_some, if_true]; rfl
        · exact
          { lb := by show bs.length = n; rw [hk.2, hs.lb]
            lg := by show (s.good.set j _).length = n; simp [hs.lg]
            lbad := hs.lbad
            gbe := by show s.gb + 1 ≤ s.ge; omega
            bbe := hs.bbe
            sum := hs.sum
            gv := mem_set_lt hs.gv (hs.gv _ (List.getElem_mem hgbn))
            bv := hs.bv }

theorem pushGood_total {n s i} (hs : Inv n s) (hi : i < n) (hsum : s.ge + s.be ≤ i) :
    ∃ s', pushGood s i = some s' ∧ Inv n s' ∧ s'.ge + s'.be ≤ i + 1 ∧ s'.blocks = s.blocks := by
  unfold pushGood
  have : s.ge < s.good.length := by have := hs.lg; omega
  simp only [this, if_true]
  refine ⟨_, rfl, ?_, ?_, rfl⟩
  · exact { hs with
      lg := by show (s.good.set s.ge i).length = n; simp [hs.lg]
      gbe := by show s.gb ≤ s.ge + 1; have := hs.gbe; omega
      sum := by show s.ge + 1 + s.be ≤ n; omega
      gv := mem_set_lt hs.gv hi }
  · show s.ge + 1 + s.be ≤ i + 1; omega

theorem pushBad_total {n s i} (hs : Inv n s) (hi : i < n) (hsum : s.ge + s.be ≤ i) :
    ∃ s', pushBad s i = some s' ∧ Inv n s' ∧ s'.ge + s'.be ≤ i + 1 ∧ s'.blocks = s.blocks := by
  unfold pushBad
  have : s.be < s.bad.length := by have := hs.lbad; omega
  simp only [this, if_true]
  refine ⟨_, rfl, ?_, ?_, rfl⟩
  · exact { hs with
      lbad := by show (s.bad.set s.be i).length = n; simp [hs.lbad]
      bbe := by show s.bb ≤ s.be + 1; have := hs.bbe; omega
      sum := by show s.ge + (s.be + 1) ≤ n; omega
      bv := mem_set_lt hs.bv hi }
  · show s.ge + (s.be + 1) ≤ i + 1; omega

theorem ssIter_total (p : SSP) (A : Atoms) (n : Nat) (hA : A.length = n) :
    ∀ k i s, Inv n s → i + k = n → s.ge + s.be ≤ i →
      ∃ s', ssIter p A k i s = some s' ∧ Keeps s.blocks s'.blocks ∧ s'.blocks.length = n := by
  intro k
  induction k with
  | zero => intro i s hs _ _; exact ⟨s, rfl, Keeps.refl _, hs.lb⟩
  | succ k ih =>
    intro i s hs hik hsum
    have hi : i < n := by omega
    have hil : i < s.blocks.length := by rw [hs.lb]; exact hi
    have hbi : s.blocks[i]? = some s.blocks[i] := List.getElem?_eq_getElem hil
    unfold ssIter
    simp only [hbi, Option.bind_eq_bind, Option.bind_some]
    split
    · have hs' : Inv n { s with gb := s.ge, bb := s.be } :=
        { hs with gbe := Nat.le_refl _, bbe := Nat.le_refl _ }
      exact ih (i+1) _ hs' (by omega) (by show s.ge + s.be ≤ i + 1; omega)
    · split
      · obtain ⟨s1, h1, hs1, hsum1, hb1⟩ := pushGood_total hs hi hsum
        obtain ⟨s2, h2, hs2, hge, hbe, hk2⟩ := loopA_total p A n i hA hi (s1.be - s1.bb) s1.bb s1 hs1 (Nat.le_refl _) (by have := hs1.bbe; omega)
        obtain ⟨s3, h3, hk3, hl3⟩ := ih (i+1) s2 hs2 (by omega) (by omega)
        refine ⟨s3, ?_, ?_, hl3⟩
        · simp only [h1, h2, Option.bind_some]; exact h3
        · rw [← hb1]; exact hk2.trans hk3
      · split
        · obtain ⟨s1, br, h1, hs1, hge, hbe, hk1⟩ := loopB_total p A n i hA hi (s.ge - s.gb) s.gb s hs (Nat.le_refl _) (by have := hs.gbe; omega)
          simp only [h1, Option.bind_some]
          cases br with
          | true =>
            obtain ⟨s2, h2, hs2, hsum2, hb2⟩ := pushGood_total hs1 hi (by omega)
            obtain ⟨s3, h3, hk3, hl3⟩ := ih (i+1) s2 hs2 (by omega) (by omega)
            refine ⟨s3, ?_, ?_, hl3⟩
            · simp only [h2, if_true, Option.bind_some]; exact h3
            · rw [hb2] at hk3; exact hk1.trans hk3
          | false =>
            obtain ⟨s2, h2, hs2, hsum2, hb2⟩ := pushBad_total hs1 hi (by omega)
            obtain ⟨s3, h3, hk3, hl3⟩ := ih (i+1) s2 hs2 (by omega) (by omega)
            refine ⟨s3, ?_, ?_, hl3⟩
            · simp only [h2, Bool.false_eq_true, if_false, Option.bind_some]; exact h3
            · rw [hb2] at hk3; exact hk1.trans hk3
        · exact ih (i+1) s hs (by omega) (by omega)

def ssInit (l : List TB) : SS :=
  { blocks := l, good := List.replicate l.length 0, bad := List.replicate l.length 0, gb := 0, ge := 0, bb := 0, be := 0, changed := false }

theorem ssInit_inv (l : List TB) : Inv l.length (ssInit l) :=
  { lb := rfl
    lg := by simp [ssInit]
    lbad := by simp [ssInit]
    gbe := Nat.le_refl _
    bbe := Nat.le_refl _
    sum := by simp [ssInit]
    gv := by intro v hv; have := List.eq_of_mem_replicate hv; have : l.length ≠ 0 := by intro h; simp [ssInit, h] at hv
             omega
    bv := by intro v hv; have := List.eq_of_mem_replicate hv; have : l.length ≠ 0 := by intro h; simp [ssInit, h] at hv
             omega }

/-- **SimilarSiblingContent.Process never indexes out of range** (canonicalReps has one entry per
block), and it only changes flags -/
theorem similarSibling_total (p : SSP) (A : Atoms) (l : List TB) (hA : A.length = l.length) :
    ∃ l' ch, similarSibling p A l = some (l', ch) ∧ Keeps l l' ∧ l'.length = l.length := by
  unfold similarSibling
  split
  · exact ⟨l, false, rfl, Keeps.refl _, rfl⟩
  · obtain ⟨s', h1, hk, hl⟩ := ssIter_total p A l.length hA l.length 0 (ssInit l) (ssInit_inv l) (by omega) (by simp [ssInit])
    refine ⟨s'.blocks, s'.changed, ?_, hk, hl⟩
    simp only [ssInit] at h1
    simp only [h1, Option.bind_eq_bind, Option.bind_some]; rfl

/-! ### the whole pipeline -/

/-- `bs'` is made of blocks of `bs`: merged, re-flagged or dropped, never duplicated -/
def KeepsLe (bs bs' : List TB) : Prop :=
  (∀ G, Closed G → All G bs → All G bs') ∧ ∀ x, cnt bs' x ≤ cnt bs x

theorem KeepsLe.refl (bs) : KeepsLe bs bs := ⟨fun _ _ h => h, fun _ => Nat.le_refl _⟩
theorem KeepsLe.trans {a b c} (h1 : KeepsLe a b) (h2 : KeepsLe b c) : KeepsLe a c :=
  ⟨fun G hG h => h2.1 G hG (h1.1 G hG h), fun x => Nat.le_trans (h2.2 x) (h1.2 x)⟩
theorem Keeps.le {a b} (h : Keeps a b) : KeepsLe a b := ⟨h.1, fun x => Nat.le_of_eq (h.2 x)⟩

theorem numWordsGo_length (prev l) : (numWordsGo prev l).1.length = l.length := by
  induction l generalizing prev with
  | nil => simp [numWordsGo]
  | cons c rest ih => simp only [numWordsGo, List.length_cons]; rw [ih]

/-- **The article extractor as a whole**: with one DOM answer per initial block it never fails
(no index of SimilarSiblingContent is out of range), and what it returns is made of the initial
blocks. -/
theorem extract_spec (A : Atoms) (init : List TB) (hA : A.length = init.length) :
    ∃ final, extract A init = some final ∧ KeepsLe init final ∧
      KeepsLe (titleMatch A (terminating A init).1).1 final := by
  let l1 := (terminating A init).1
  let l2 := (titleMatch A l1).1
  let l3 := (numWordsRules l2).1
  let l4 := (labelToBoilerplate l3).1
  have len4 : A.length = l4.length := by
    simp only [l4, l3, l2, l1, labelToBoilerplate, numWordsRules, titleMatch, terminating, numWordsGo_length, List.length_map]
    exact hA
  obtain ⟨l5, c5, h5, k5, len5⟩ := similarSibling_total { crossHeadings := true, ldNum := 1, ldDen := 2, maxDist := 10 } A l4 len4
  obtain ⟨l6, c6, h6, k6, _⟩ := similarSibling_total { crossHeadings := true, mixedTags := true, ldNum := 0, ldDen := 1, maxDist := 10 } A l5 (by omega)
  let l7 := (headingFusion l6).1
  let l8 := (proximityFusion false l7).1
  let l9 := (boilerplateBlock true l8).1
  let l10 := (proximityFusion true l9).1
  let l11 := (keepLargest true A l10).1
  let l12 := (expandTitle l11).1
  let l13 := (largeBlock l12).1
  let l14 := (listAtEnd l13).1
  refine ⟨l14, ?_, ?_⟩
  · simp only [extract, articleFilters, run, runFilter, Option.bind_eq_bind, Option.bind_some]
    have h5' : similarSibling { crossHeadings := true, ldNum := 1, ldDen := 2, maxDist := 10 } A
        (labelToBoilerplate (numWordsRules (titleMatch A (terminating A init).1).1).1).1 = some (l5, c5) := h5
    simp only [h5', Option.bind_some, h6]
    rfl
  · have k1 : KeepsLe init l1 := ⟨fun G hG h => terminating_all hG A init h, fun x => Nat.le_of_eq (terminating_cnt A init x)⟩
    have k2 : KeepsLe l1 l2 := ⟨fun G hG h => titleMatch_all hG A l1 h, fun x => Nat.le_of_eq (titleMatch_cnt A l1 x)⟩
    have k3 : KeepsLe l2 l3 := ⟨fun G hG h => numWordsGo_all hG none l2 h, fun x => Nat.le_of_eq (numWordsGo_cnt none l2 x)⟩
    have k4 : KeepsLe l3 l4 := ⟨fun G hG h => labelToBoilerplate_all hG l3 h, fun x => Nat.le_of_eq (labelToBoilerplate_cnt l3 x)⟩
    have k7 : KeepsLe l6 l7 := ⟨fun G hG h => headingFusion_all hG l6 h, fun x => Nat.le_of_eq (headingFusion_cnt l6 x)⟩
    have k8 : KeepsLe l7 l8 := ⟨fun G hG h => proximityFusion_all hG false l7 h, fun x => Nat.le_of_eq (proximityFusion_cnt false l7 x)⟩
    have k9 : KeepsLe l8 l9 := ⟨fun G _ h => boilerplateBlock_all true l8 h, fun x => boilerplateBlock_cnt true l8 x⟩
    have k10 : KeepsLe l9 l10 := ⟨fun G hG h => proximityFusion_all hG true l9 h, fun x => Nat.le_of_eq (proximityFusion_cnt true l9 x)⟩
    have k11 : KeepsLe l10 l11 := ⟨fun G hG h => keepLargest_all hG true A l10 h, fun x => Nat.le_of_eq (keepLargest_cnt true A l10 x)⟩
    have k12 : KeepsLe l11 l12 := ⟨fun G hG h => expandTitle_all hG l11 h, fun x => Nat.le_of_eq (expandTitle_cnt l11 x)⟩
    have k13 : KeepsLe l12 l13 := ⟨fun G hG h => largeBlock_all hG l12 h, fun x => Nat.le_of_eq (largeBlock_cnt l12 x)⟩
    have k14 : KeepsLe l13 l14 := ⟨fun G hG h => listAtEndGo_all hG _ l13 h, fun x => Nat.le_of_eq (listAtEndGo_cnt _ l13 x)⟩
    have kt : KeepsLe l2 l14 := k3.trans (k4.trans (k5.le.trans (k6.le.trans (k7.trans (k8.trans (k9.trans (k10.trans (k11.trans (k12.trans (k13.trans k14))))))))))
    exact ⟨k1.trans (k2.trans kt), kt⟩

/-! ### instances of `Closed` -/

/-- block `f` holds the initial block `b0` wholly or not at all -/
def W (b0 f : TB) : Prop := (∀ i ∈ b0.members, i ∈ f.members) ∨ (∀ i ∈ b0.members, i ∉ f.members)

theorem closed_whole (init : List TB) : Closed (fun f => ∀ b0 ∈ init, W b0 f) where
  merge a b ha hb b0 h0 := by
    rcases ha b0 h0 with h1 | h1
    · exact Or.inl (fun i hi => List.mem_append_left _ (h1 i hi))
    · rcases hb b0 h0 with h2 | h2
      · exact Or.inl (fun i hi => List.mem_append_right _ (h2 i hi))
      · refine Or.inr (fun i hi hm => ?_)
        rcases List.mem_append.mp hm with hm | hm
        · exact h1 i hi hm
        · exact h2 i hi hm
  modify a a' hm _ _ ha b0 h0 := by
    unfold W; rw [hm]; exact ha b0 h0

theorem mem_allMembers {l : List TB} {f : TB} {i : Nat} (hf : f ∈ l) (hi : i ∈ f.members) : i ∈ allMembers l := by
  unfold allMembers
  exact List.mem_flatMap.mpr ⟨f, hf, hi⟩

/-- initial blocks that share no Text element hold each other wholly or not at all -/
theorem whole_init (init : List TB) (hn : (allMembers init).Nodup) : All (fun f => ∀ b0 ∈ init, W b0 f) init := by
  induction init with
  | nil => exact All.nil
  | cons a l ih =>
    rw [allMembers_cons, List.nodup_append] at hn
    obtain ⟨_, hl, hd⟩ := hn
    intro f hf b0 h0
    rcases List.mem_cons.mp hf with hfa | hfl
    · rcases List.mem_cons.mp h0 with h0a | h0l
      · rw [hfa, h0a]; exact Or.inl (fun i hi => hi)
      · rw [hfa]; exact Or.inr (fun i hi hm => hd i hm i (mem_allMembers h0l hi) rfl)
    · rcases List.mem_cons.mp h0 with h0a | h0l
      · rw [h0a]; exact Or.inr (fun i hi hm => hd i hi i (mem_allMembers hfl hm) rfl)
      · exact ih hl f hfl b0 h0l

/-- the block's word count is the sum of the word counts of its Text elements -/
def Wd (w : Nat → Nat) (f : TB) : Prop := f.numWords = (f.members.map w).sum

theorem closed_words (w : Nat → Nat) : Closed (Wd w) where
  merge a b ha hb := by unfold Wd at *; simp [ha, hb]
  modify a a' hm hn _ ha := by unfold Wd at *; rw [hm, hn]; exact ha

/-- a block that holds Text element `i0` carries TITLE -/
def Tl (i0 : Nat) (f : TB) : Prop := i0 ∈ f.members → f.labels.title = true

theorem closed_title (i0 : Nat) : Closed (Tl i0) where
  merge a b ha hb h := by
    simp only [merge_members, List.mem_append] at h
    rcases h with h | h
    · simp [ha h]
    · simp [hb h]
  modify a a' hm _ ht ha h := ht (ha (hm ▸ h))

theorem foldl_words (l : List TB) (k : Nat) :
    l.foldl (fun n b => n + b.numWords) k = k + (l.map (·.numWords)).sum := by
  induction l generalizing k with
  | nil => simp
  | cons a l ih => simp [ih]; omega

theorem countWords_eq (w : Nat → Nat) (l : List TB) (h : All (Wd w) l) :
    countWordsInContent l = ((contentMembers l).map w).sum := by
  unfold countWordsInContent contentMembers
  rw [foldl_words]
  induction l with
  | nil => simp
  | cons a l ih =>
    simp only [List.filter]
    split
    · have ha : a.numWords = (a.members.map w).sum := h.head
      simp only [List.map_cons, List.sum_cons, List.flatMap_cons, List.map_append, List.sum_append, Nat.zero_add]
      have := ih h.tail
      simp only [Nat.zero_add] at this
      rw [this, ha]
    · exact ih h.tail

end Distill.Flt
