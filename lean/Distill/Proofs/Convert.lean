import Distill.Model.Convert
import Distill.Proofs.Builder
namespace Distill

/-! ## What the converter hands to the builder -/

/-- ids of the text nodes handed to `AddTextNode` (non-empty ones are the ones the builder keeps;
empty ones are listed too: they are still source nodes) -/
def textEvIds : List BEv → List Nat
  | [] => []
  | .addText i _ _ _ :: r => i :: textEvIds r
  | _ :: r => textEvIds r

theorem textEvIds_append (a b : List BEv) : textEvIds (a ++ b) = textEvIds a ++ textEvIds b := by
  induction a with
  | nil => rfl
  | cons x xs ih => cases x <;> simp [textEvIds, ih]

def skipTag (tag : String) : Bool := skipFlushTag tag || skipSilentTag tag

mutual
/-- text nodes that are not inside an element the converter must not look into: one that
`IsProbablyVisible` rejects, or one whose tag is in the converter's two skip clauses
(form controls, object/embed/applet, head, style, script, link, noscript, iframe, svg) -/
def Node.visTextIds (A : CAtoms) : Node → List Nat
  | .text i _ => [i]
  | .other _ _ => []
  | .elem i t attrs ks => if !visible A i t attrs || skipTag t then [] else visTextIdsL A ks
def visTextIdsL (A : CAtoms) : List Node → List Nat
  | [] => []
  | k :: ks => k.visTextIds A ++ visTextIdsL A ks
end

/-! facts about the generated tables (the kernel evaluates the table lookups) -/
theorem skipTag_a : skipTag "a" = false := by decide +kernel
theorem skipTag_font : skipTag "font" = false := by decide +kernel
theorem nestable_a : nestableTag "a" = false := by decide +kernel
theorem nestable_span : nestableTag "span" = false := by decide +kernel
theorem nestable_font : nestableTag "font" = false := by decide +kernel
theorem nestable_br : nestableTag "br" = false := by decide +kernel
theorem nestable_table : nestableTag "table" = false := by decide +kernel
theorem nestable_video : nestableTag "video" = false := by decide +kernel

theorem nestable_of_skipFlush (t : String) (h : skipFlushTag t = true) : nestableTag t = false := by
  simp only [skipFlushTag, Gen.converterCases, List.any_cons, List.any_nil, Bool.or_false,
    Bool.and_eq_true, Bool.or_eq_true, beq_iff_eq, List.contains_cons, List.contains_nil] at h
  simp at h
  rcases h with h | h | h | h | h | h | h | h | h <;> subst h <;> decide +kernel

theorem nestable_of_skipSilent (t : String) (h : skipSilentTag t = true) : nestableTag t = false := by
  simp only [skipSilentTag, Gen.converterCases, List.any_cons, List.any_nil, Bool.or_false,
    Bool.and_eq_true, Bool.or_eq_true, beq_iff_eq, List.contains_cons, List.contains_nil] at h
  simp at h
  rcases h with h | h | h | h | h | h | h <;> subst h <;> decide +kernel

theorem gateSkip_visible (cfg : CCfg) (A : CAtoms) (anc : List String) (id : Nat) (tag : String)
    (attrs : List Attr) (kids : List Node) (h : gateSkip cfg A anc id tag attrs kids = false) :
    visible A id tag attrs = true := by
  unfold gateSkip at h
  simp only [Bool.or_eq_false_iff] at h
  simpa using h.1.1.1.1.1

/-- shape of the tag switch -/
theorem tagSwitch_cases (A : CAtoms) (anc : List String) (hp : Bool)
    (id : Nat) (tag : String) (attrs : List Attr) (kids : List Node) :
    (∃ evs, tagSwitch A anc hp id tag attrs kids = .emit evs ∧
        (textEvIds evs = [] ∨ (∃ ti td, kids = [.text ti td] ∧ tag = "a" ∧ textEvIds evs = [ti]))) ∨
    (∃ mid t', tagSwitch A anc hp id tag attrs kids = .descend [mid] [.endNode] t' ∧
        textEvIds [mid] = [] ∧ skipTag tag = false) := by
  unfold tagSwitch
  split
  · left; exact ⟨_, rfl, Or.inl rfl⟩
  · split
    · rename_i ti td hjs
      left
      refine ⟨_, rfl, Or.inr ⟨ti, td, ?_, ?_, by simp [textEvIds, textEv]⟩⟩
      · unfold jsAnchorText at hjs
        split at hjs
        · split at hjs <;> simp_all
        · simp at hjs
      · unfold jsAnchorText at hjs
        split at hjs
        · rename_i hc; simp at hc; exact hc.1.1
        · simp at hjs
    · split
      · left; exact ⟨_, rfl, Or.inl rfl⟩
      · split
        · rename_i hf
          have ht : tag = "font" := by simpa using hf
          right; exact ⟨_, _, rfl, by simp [textEvIds], by rw [ht]; exact skipTag_font⟩
        · split
          · left; exact ⟨_, rfl, Or.inl (by simp [textEvIds])⟩
          · split
            · left; exact ⟨_, rfl, Or.inl (by simp [textEvIds])⟩
            · split
              · left; exact ⟨_, rfl, Or.inl (by simp [textEvIds])⟩
              · split
                · left; exact ⟨_, rfl, Or.inl (by simp [textEvIds])⟩
                · split
                  · left; exact ⟨_, rfl, Or.inl rfl⟩
                  · rename_i hsf hss
                    right
                    refine ⟨_, _, rfl, by simp [textEvIds], ?_⟩
                    simp [skipTag]; exact ⟨by simpa using hsf, by simpa using hss⟩

/-- shape of what `visitElem` can return -/
theorem visitElem_cases (cfg : CCfg) (A : CAtoms) (anc : List String) (hp : Bool)
    (id : Nat) (tag : String) (attrs : List Attr) (kids : List Node) :
    visitElem cfg A anc hp id tag attrs kids = .skip ∨
    (∃ evs, visitElem cfg A anc hp id tag attrs kids = .emit evs ∧
        (textEvIds evs = [] ∨
          (∃ ti td, kids = [.text ti td] ∧ tag = "a" ∧ visible A id tag attrs = true ∧ textEvIds evs = [ti]))) ∨
    (∃ pre post t', visitElem cfg A anc hp id tag attrs kids = .descend pre post t' ∧
        textEvIds pre = [] ∧ textEvIds post = [] ∧ visible A id tag attrs = true ∧ skipTag tag = false) := by
  unfold visitElem
  split
  · left; rfl
  · rename_i hg
    have hv := gateSkip_visible cfg A anc id tag attrs kids (by simpa using hg)
    split
    · right; left; exact ⟨_, rfl, Or.inl (by simp [textEvIds])⟩
    · have hpre : ∀ (l : List BEv), textEvIds ((if nestableTag tag then [BEv.addTag tag true] else []) ++ l) = textEvIds l := by
        intro l; split <;> simp [textEvIds]
      have hpost : ∀ (l : List BEv), textEvIds ((if nestableTag tag then [BEv.addTag tag false] else []) ++ l) = textEvIds l := by
        intro l; split <;> simp [textEvIds]
      rcases tagSwitch_cases A anc hp id tag attrs kids with ⟨evs, h, h2⟩ | ⟨mid, t', h, h2, h3⟩
      · rw [h]; simp only [withTags]
        right; left
        refine ⟨_, rfl, ?_⟩
        rcases h2 with h2 | ⟨ti, td, hk, ht, h2⟩
        · left; rw [hpre]; exact h2
        · right; exact ⟨ti, td, hk, ht, hv, by rw [hpre]; exact h2⟩
      · rw [h]; simp only [withTags]
        right; right
        exact ⟨_, _, _, rfl, by rw [hpre]; exact h2, by rw [hpost]; simp [textEvIds], hv, h3⟩

mutual
/-- **Only visible text reaches the builder, in source order.**  For every tree, every
configuration and every answer of the regexps / extractors / classifiers: the text nodes the
converter hands to the document builder are a sublist (same order, no repetition) of the text
nodes that are not inside a hidden element or a skipped kind of element. -/
theorem convertNode_visible_sublist (cfg : CCfg) (A : CAtoms) (anc : List String) (hp : Bool) :
    (n : Node) → (textEvIds (convertNode cfg A anc hp n)).Sublist (n.visTextIds A)
  | .text i d => by rw [convertNode_text]; simp [textEvIds, textEv, Node.visTextIds]
  | .other _ _ => by rw [convertNode_other]; simp [textEvIds, Node.visTextIds]
  | .elem i t attrs ks => by
    rw [convertNode_elem]
    rcases visitElem_cases cfg A anc hp i t attrs ks with h | ⟨evs, h, h2⟩ | ⟨pre, post, t', h, h1, h2, hv, hs⟩
    · rw [h]; exact List.nil_sublist _
    · rw [h]; simp only []
      rcases h2 with h2 | ⟨ti, td, hk, ht, hv, h2⟩
      · rw [h2]; exact List.nil_sublist _
      · rw [h2, hk, ht]
        have hv' : visible A i "a" attrs = true := by rw [← ht]; exact hv
        simp [Node.visTextIds, visTextIdsL, hv', skipTag_a]
    · rw [h]; simp only []
      rw [textEvIds_append, textEvIds_append, h1, h2]
      simp only [List.nil_append, List.append_nil, Node.visTextIds, hv, hs]
      simpa using convertKids_visible_sublist cfg A (t' :: anc) ks
theorem convertKids_visible_sublist (cfg : CCfg) (A : CAtoms) (anc : List String) :
    (ks : List Node) → (textEvIds (convertKids cfg A anc ks)).Sublist (visTextIdsL A ks)
  | [] => by simp [convertKids_nil, textEvIds, visTextIdsL]
  | k :: ks => by
    simp only [convertKids_cons, visTextIdsL, textEvIds_append]
    exact List.Sublist.append (convertNode_visible_sublist cfg A anc true k) (convertKids_visible_sublist cfg A anc ks)
end

mutual
theorem Node.visTextIds_sublist (A : CAtoms) : (n : Node) → (n.visTextIds A).Sublist n.textIds
  | .text i d => by simp [Node.visTextIds, Node.textIds]
  | .other _ _ => by simp [Node.visTextIds, Node.textIds]
  | .elem i t attrs ks => by
    simp only [Node.visTextIds, Node.textIds]
    split
    · exact List.nil_sublist _
    · exact visTextIdsL_sublist A ks
theorem visTextIdsL_sublist (A : CAtoms) : (ks : List Node) → (visTextIdsL A ks).Sublist (textIdsL ks)
  | [] => by simp [visTextIdsL, textIdsL]
  | k :: ks => by
    simp only [visTextIdsL, textIdsL]
    exact List.Sublist.append (Node.visTextIds_sublist A k) (visTextIdsL_sublist A ks)
end

/-- the text nodes handed to the builder are a sublist of the source's text nodes -/
theorem convert_sublist (cfg : CCfg) (A : CAtoms) (anc : List String) (hp : Bool) (n : Node) :
    (textEvIds (convert cfg A anc hp n)).Sublist n.textIds :=
  (convertNode_visible_sublist cfg A anc hp n).trans (Node.visTextIds_sublist A n)

/-- a hidden element contributes nothing at all -/
theorem convert_hidden (cfg : CCfg) (A : CAtoms) (anc : List String) (hp : Bool)
    (i : Nat) (t : String) (attrs : List Attr) (ks : List Node) (h : visible A i t attrs = false) :
    convertNode cfg A anc hp (.elem i t attrs ks) = [] := by
  simp [convertNode_elem, visitElem, gateSkip, h]

/-! ## Tag placeholders are balanced -/

/-- run the start/end tag placeholders against a stack of open names -/
def tagRun : List String → List BEv → Option (List String)
  | st, [] => some st
  | st, .addTag n true :: r => tagRun (n :: st) r
  | st, .addTag n false :: r =>
    match st with
    | m :: st' => if m == n then tagRun st' r else none
    | [] => none
  | st, .skipNode :: r => tagRun st r
  | st, .startNode _ :: r => tagRun st r
  | st, .endNode :: r => tagRun st r
  | st, .addText _ _ _ _ :: r => tagRun st r
  | st, .addBr _ :: r => tagRun st r
  | st, .addTable _ :: r => tagRun st r
  | st, .addEmbed _ _ :: r => tagRun st r

theorem tagRun_append (st : List String) (a b : List BEv) :
    tagRun st (a ++ b) = (tagRun st a).bind (fun st' => tagRun st' b) := by
  induction a generalizing st with
  | nil => simp [tagRun]
  | cons e es ih =>
    cases e with
    | addTag n s =>
      cases s with
      | true => simp [tagRun, ih]
      | false =>
        cases st with
        | nil => simp [tagRun]
        | cons m st' =>
          simp only [List.cons_append, tagRun]
          split
          · exact ih st'
          · simp
    | _ => simp [tagRun, ih]

def noTags : List BEv → Bool
  | [] => true
  | .addTag _ _ :: _ => false
  | _ :: r => noTags r

theorem tagRun_noTags (st : List String) (evs : List BEv) (h : noTags evs = true) : tagRun st evs = some st := by
  induction evs with
  | nil => rfl
  | cons e es ih => cases e <;> simp_all [noTags, tagRun]

/-- the tag switch emits no placeholders itself; when it returns without walking the element,
the element's tag is not one of the nestable ones (so no unmatched start placeholder) -/
theorem tagSwitch_tags (A : CAtoms) (anc : List String) (hp : Bool)
    (id : Nat) (tag : String) (attrs : List Attr) (kids : List Node) :
    (∃ evs, tagSwitch A anc hp id tag attrs kids = .emit evs ∧ noTags evs = true ∧ nestableTag tag = false) ∨
    (∃ mid t', tagSwitch A anc hp id tag attrs kids = .descend [mid] [.endNode] t' ∧ noTags [mid] = true) := by
  unfold tagSwitch
  split
  · rename_i h; left
    have : tag = "a" := by simp at h; exact h.1
    exact ⟨_, rfl, rfl, by rw [this]; exact nestable_a⟩
  · split
    · rename_i ti td hjs
      left
      have ht : tag = "a" := by
        unfold jsAnchorText at hjs
        split at hjs
        · rename_i hc; simp at hc; exact hc.1.1
        · simp at hjs
      exact ⟨_, rfl, by simp [noTags, textEv], by rw [ht]; exact nestable_a⟩
    · split
      · rename_i h; left
        have : tag = "span" := by simp at h; exact h.1
        exact ⟨_, rfl, rfl, by rw [this]; exact nestable_span⟩
      · split
        · right; exact ⟨_, _, rfl, rfl⟩
        · split
          · rename_i h; left
            have : tag = "br" := by simpa using h
            exact ⟨_, rfl, rfl, by rw [this]; exact nestable_br⟩
          · split
            · rename_i h; left
              have : tag = "table" := by simp at h; exact h.1
              exact ⟨_, rfl, rfl, by rw [this]; exact nestable_table⟩
            · split
              · rename_i h; left
                have : tag = "video" := by simpa using h
                exact ⟨_, rfl, rfl, by rw [this]; exact nestable_video⟩
              · split
                · rename_i h; left
                  exact ⟨_, rfl, rfl, nestable_of_skipFlush tag h⟩
                · split
                  · rename_i h; left
                    exact ⟨_, rfl, rfl, nestable_of_skipSilent tag h⟩
                  · right; exact ⟨_, _, rfl, rfl⟩

/-- shape of `visitElem` with respect to tag placeholders -/
theorem visitElem_tags (cfg : CCfg) (A : CAtoms) (anc : List String) (hp : Bool)
    (id : Nat) (tag : String) (attrs : List Attr) (kids : List Node) :
    visitElem cfg A anc hp id tag attrs kids = .skip ∨
    (∃ evs, visitElem cfg A anc hp id tag attrs kids = .emit evs ∧ noTags evs = true) ∨
    (∃ mid t', visitElem cfg A anc hp id tag attrs kids =
        .descend ((if nestableTag tag then [BEv.addTag tag true] else []) ++ [mid])
                 ((if nestableTag tag then [BEv.addTag tag false] else []) ++ [.endNode]) t' ∧
        noTags [mid] = true) := by
  unfold visitElem
  split
  · left; rfl
  · split
    · right; left; exact ⟨_, rfl, rfl⟩
    · rcases tagSwitch_tags A anc hp id tag attrs kids with ⟨evs, h, h2, h3⟩ | ⟨mid, t', h, h2⟩
      · rw [h]; simp only [withTags, h3]
        right; left; exact ⟨_, rfl, by simpa using h2⟩
      · rw [h]; simp only [withTags]
        right; right; exact ⟨_, _, rfl, h2⟩

mutual
/-- **Tag placeholders are balanced**: for every tree and every skip decision, each start
placeholder is matched by an end placeholder of the same name, properly nested. -/
theorem convertNode_balanced (cfg : CCfg) (A : CAtoms) (anc : List String) (hp : Bool) :
    (n : Node) → (st : List String) → tagRun st (convertNode cfg A anc hp n) = some st
  | .text i d, st => by simp [convertNode_text, tagRun, textEv]
  | .other _ _, st => by simp [convertNode_other, tagRun]
  | .elem i t attrs ks, st => by
    rw [convertNode_elem]
    rcases visitElem_tags cfg A anc hp i t attrs ks with h | ⟨evs, h, h2⟩ | ⟨mid, t', h, h2⟩
    · rw [h]; rfl
    · rw [h]; exact tagRun_noTags st evs h2
    · rw [h]; simp only []
      have hk := fun st' => convertKids_balanced cfg A (t' :: anc) ks st'
      have hmid : ∀ st', tagRun st' [mid] = some st' := fun st' => tagRun_noTags st' [mid] h2
      by_cases hn : nestableTag t = true
      · simp only [hn, if_true, List.cons_append, List.nil_append, tagRun]
        show tagRun (t :: st) ([mid] ++ (convertKids cfg A (t' :: anc) ks ++ [BEv.addTag t false, BEv.endNode])) = some st
        rw [tagRun_append, hmid]; simp only [Option.bind]
        rw [tagRun_append, hk]; simp [tagRun]
      · simp only [hn, if_false, List.nil_append, Bool.false_eq_true]
        show tagRun st ([mid] ++ (convertKids cfg A (t' :: anc) ks ++ [BEv.endNode])) = some st
        rw [tagRun_append, hmid]; simp only [Option.bind]
        rw [tagRun_append, hk]; simp [tagRun]
theorem convertKids_balanced (cfg : CCfg) (A : CAtoms) (anc : List String) :
    (ks : List Node) → (st : List String) → tagRun st (convertKids cfg A anc ks) = some st
  | [], st => by simp [convertKids_nil, tagRun]
  | k :: ks, st => by
    rw [convertKids_cons]
    rw [tagRun_append, convertNode_balanced cfg A anc true k st]
    exact convertKids_balanced cfg A anc ks st
end

end Distill

namespace Distill

/-! ## node ids (text and br) appended to the builder are in source order -/

mutual
/-- text nodes and `br` elements, in document order -/
def Node.brTextIds : Node → List Nat
  | .text i _ => [i]
  | .other _ _ => []
  | .elem i t _ ks => (if t == "br" then [i] else []) ++ brTextIdsL ks
def brTextIdsL : List Node → List Nat
  | [] => []
  | k :: ks => k.brTextIds ++ brTextIdsL ks
end

theorem tagSwitch_nodeIds (A : CAtoms) (anc : List String) (hp : Bool)
    (id : Nat) (tag : String) (attrs : List Attr) (kids : List Node) :
    (∃ evs, tagSwitch A anc hp id tag attrs kids = .emit evs ∧
        (nodeIds evs).Sublist ((if tag == "br" then [id] else []) ++ brTextIdsL kids)) ∨
    (∃ mid t', tagSwitch A anc hp id tag attrs kids = .descend [mid] [.endNode] t' ∧
        nodeIds [mid] = [] ∧ (tag == "br") = false) := by
  unfold tagSwitch
  split
  · left; exact ⟨_, rfl, by simp [nodeIds]⟩
  · split
    · rename_i ti td hjs
      left
      refine ⟨_, rfl, ?_⟩
      have hk : kids = [.text ti td] := by
        unfold jsAnchorText at hjs
        split at hjs
        · split at hjs <;> simp_all
        · simp at hjs
      subst hk
      simp only [nodeIds, textEv, brTextIdsL, Node.brTextIds, List.append_nil]
      split <;> simp
    · split
      · left; exact ⟨_, rfl, by simp [nodeIds]⟩
      · split
        · rename_i hf
          have ht : tag = "font" := by simpa using hf
          right; exact ⟨_, _, rfl, by simp [nodeIds], by rw [ht]; decide⟩
        · split
          · rename_i hb
            left; refine ⟨_, rfl, ?_⟩
            simp only [nodeIds, hb, if_true]
            simp
          · rename_i hb
            split
            · left; exact ⟨_, rfl, by simp [nodeIds]⟩
            · split
              · left; exact ⟨_, rfl, by simp [nodeIds]⟩
              · split
                · left; exact ⟨_, rfl, by simp [nodeIds]⟩
                · split
                  · left; exact ⟨_, rfl, by simp [nodeIds]⟩
                  · right; exact ⟨_, _, rfl, by simp [nodeIds], by simpa using hb⟩

theorem nodeIds_tagPre (tag : String) (b : Bool) (l : List BEv) :
    nodeIds ((if nestableTag tag then [BEv.addTag tag b] else []) ++ l) = nodeIds l := by
  split <;> simp [nodeIds]

theorem visitElem_nodeIds (cfg : CCfg) (A : CAtoms) (anc : List String) (hp : Bool)
    (id : Nat) (tag : String) (attrs : List Attr) (kids : List Node) :
    visitElem cfg A anc hp id tag attrs kids = .skip ∨
    (∃ evs, visitElem cfg A anc hp id tag attrs kids = .emit evs ∧
        (nodeIds evs).Sublist (Node.elem id tag attrs kids).brTextIds) ∨
    (∃ pre post t', visitElem cfg A anc hp id tag attrs kids = .descend pre post t' ∧
        nodeIds pre = [] ∧ nodeIds post = [] ∧ (tag == "br") = false) := by
  unfold visitElem
  split
  · left; rfl
  · split
    · right; left; exact ⟨_, rfl, by simp [nodeIds]⟩
    · rcases tagSwitch_nodeIds A anc hp id tag attrs kids with ⟨evs, h, h2⟩ | ⟨mid, t', h, h2, h3⟩
      · rw [h]; simp only [withTags]
        right; left; exact ⟨_, rfl, by rw [nodeIds_tagPre]; simpa [Node.brTextIds] using h2⟩
      · rw [h]; simp only [withTags]
        right; right
        exact ⟨_, _, _, rfl, by rw [nodeIds_tagPre]; exact h2, by rw [nodeIds_tagPre]; simp [nodeIds], h3⟩

mutual
theorem convertNode_nodeIds_sublist (cfg : CCfg) (A : CAtoms) (anc : List String) (hp : Bool) :
    (n : Node) → (nodeIds (convertNode cfg A anc hp n)).Sublist n.brTextIds
  | .text i d => by
    rw [convertNode_text]; simp only [nodeIds, textEv, Node.brTextIds]; split <;> simp
  | .other _ _ => by rw [convertNode_other]; simp [nodeIds]
  | .elem i t attrs ks => by
    rw [convertNode_elem]
    rcases visitElem_nodeIds cfg A anc hp i t attrs ks with h | ⟨evs, h, h2⟩ | ⟨pre, post, t', h, h1, h2, h3⟩
    · rw [h]; exact List.nil_sublist _
    · rw [h]; exact h2
    · rw [h]; simp only [Node.brTextIds, h3]
      rw [nodeIds_append, nodeIds_append, h1, h2]
      simpa using convertKids_nodeIds_sublist cfg A (t' :: anc) ks
theorem convertKids_nodeIds_sublist (cfg : CCfg) (A : CAtoms) (anc : List String) :
    (ks : List Node) → (nodeIds (convertKids cfg A anc ks)).Sublist (brTextIdsL ks)
  | [] => by simp [convertKids_nil, nodeIds, brTextIdsL]
  | k :: ks => by
    rw [convertKids_cons, nodeIds_append]
    simp only [brTextIdsL]
    exact List.Sublist.append (convertNode_nodeIds_sublist cfg A anc true k) (convertKids_nodeIds_sublist cfg A anc ks)
end

end Distill
