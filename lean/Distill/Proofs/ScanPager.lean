/-
  The DOM scan on conventional pagers, by kernel evaluation over a grid: `<div>` holding the links
  1 … n (the current page k as plain text or wrapped in `<strong>`), with or without white-space text
  nodes between the items.
-/
import Distill.Model.Scan
namespace Distill.ScanPager
open Distill

structure B where
  next : Nat := 1
  kids : List Node := []
  infos : List (Nat × Int × String) := []
  blanks : List Nat := []

def item (n k : Nat) (wrap sep : Bool) (b : B) (i : Nat) : B :=
  let b1 : B :=
    if i == k then
      if wrap then { b with next := b.next + 2, kids := b.kids ++ [.elem b.next "strong" [] [.text (b.next + 1) (toString i)]] }
      else { b with next := b.next + 1, kids := b.kids ++ [.text b.next (toString i)] }
    else { b with next := b.next + 2, kids := b.kids ++ [.elem b.next "a" [] [.text (b.next + 1) (toString i)]],
                  infos := b.infos ++ [(b.next, (i : Int), "u" ++ toString i)] }
  if sep && i < n then { b1 with next := b1.next + 1, kids := b1.kids ++ [.text b1.next " "], blanks := b1.blanks ++ [b1.next] }
  else b1

def build (n k : Nat) (wrap sep : Bool) : B := ((List.range n).map (· + 1)).foldl (item n k wrap sep) {}

def tree (n k : Nat) (wrap sep : Bool) : Node := .elem 0 "div" [] (build n k wrap sep).kids

def atoms (n k : Nat) (wrap sep : Bool) : Scan.A :=
  let b := build n k wrap sep
  { pageInfo := fun i => (b.infos.find? (fun x => x.1 == i)).map (fun x => (x.2.1, x.2.2)),
    noWords := fun i => b.blanks.contains i }

/-- the one group a conventional pager should leave: 1 … n ascending, the current page without URL -/
def canonical (n k : Nat) : List (Int × List (Int × String)) :=
  [(1, ((List.range n).map (fun j => j + 1)).map fun (i : Nat) => (Int.ofNat i, if i == k then "" else "u" ++ toString i))]

def cellOk (n k : Nat) (wrap sep : Bool) : Bool :=
  (Scan.scanGroups (atoms n k wrap sep) (tree n k wrap sep)).map
    (·.map fun g => (g.deltaSign, g.list.map fun p => (p.num, p.url))) == some (canonical n k)

def cells : List (Nat × Nat) := ((List.range 11).map (· + 2)).flatMap fun n => ((List.range n).map (· + 1)).map fun k => (n, k)

theorem pager_scan_cells : ∀ c ∈ cells, ∀ wrap ∈ [false, true], ∀ sep ∈ [false, true], cellOk c.1 c.2 wrap sep = true := by
  decide +kernel

end Distill.ScanPager
