import Distill.Model.DocFilters
namespace Distill

/-! ## NestedElementRetainer on well-nested element lists

`RT` is the forest view of a balanced element list: `item c` is any non-tag element with
content flag `c`, `pair i j kids` is a start tag at index `i`, its matching end tag at
index `j`, and what lies between. -/

inductive RT where
  | item (c : Bool)
  | pair (i j : Nat) (kids : List RT)

mutual
def RT.flat : RT → List REv
  | .item c => [.item c]
  | .pair i j ks => [.start i] ++ RT.flatL ks ++ [.stop j]
def RT.flatL : List RT → List REv
  | [] => []
  | t :: ts => t.flat ++ RT.flatL ts
end

mutual
/-- some non-tag content element lies inside -/
def RT.hasC : RT → Bool
  | .item c => c
  | .pair _ _ ks => RT.hasCL ks
def RT.hasCL : List RT → Bool
  | [] => false
  | t :: ts => t.hasC || RT.hasCL ts
end

/-- contribution of one top-level tree to the running `isContent` -/
def RT.direct : RT → Bool
  | .item c => c
  | .pair _ _ _ => false

mutual
/-- the flag assignments the retainer performs, in order, when it enters the tree with
running flag `isC` -/
def RT.post (isC : Bool) : RT → List (Nat × Bool)
  | .item _ => []
  | .pair i j ks => [(i, isC)] ++ RT.postL false ks ++ [(i, RT.hasCL ks), (j, RT.hasCL ks)]
def RT.postL (isC : Bool) : List RT → List (Nat × Bool)
  | [] => []
  | t :: ts => t.post isC ++ RT.postL (isC || t.direct) ts
end

theorem rrun_append (s : RSt) (a b : List REv) :
    rrun s (a ++ b) =
      match rrun s a with
      | none => none
      | some (s1, o1) =>
        match rrun s1 b with
        | none => none
        | some (s2, o2) => some (s2, o1 ++ o2) := by
  induction a generalizing s with
  | nil =>
    simp [rrun]
    cases rrun s b with
    | none => rfl
    | some p => cases p; rfl
  | cons e a ih =>
    simp only [List.cons_append, rrun]
    cases hst : rstep s e with
    | none => rfl
    | some p =>
      obtain ⟨s1, o1⟩ := p
      simp only []
      rw [ih s1]
      cases rrun s1 a with
      | none => rfl
      | some q =>
        obtain ⟨s2, o2⟩ := q
        simp only []
        cases rrun s2 b with
        | none => rfl
        | some r => obtain ⟨s3, o3⟩ := r; simp [List.append_assoc]

def directC : List RT → Bool
  | [] => false
  | t :: ts => t.direct || directC ts

def nestedC : List RT → Bool
  | [] => false
  | .item _ :: ts => nestedC ts
  | .pair _ _ ks :: ts => RT.hasCL ks || nestedC ts

theorem hasCL_split : (ts : List RT) → RT.hasCL ts = (directC ts || nestedC ts)
  | [] => rfl
  | .item c :: ts => by
      simp [RT.hasCL, RT.hasC, directC, nestedC, RT.direct, hasCL_split ts, Bool.or_assoc]
  | .pair _ _ ks :: ts => by
      simp [RT.hasCL, RT.hasC, directC, nestedC, RT.direct, hasCL_split ts]
      cases RT.hasCL ks <;> cases directC ts <;> cases nestedC ts <;> rfl

def RInv (s : RSt) : Prop := s.mark ≤ (s.stack.length : Int) - 1

/-- state after a whole forest -/
def rafter (s : RSt) (ts : List RT) : RSt :=
  { isC := s.isC || directC ts,
    mark := if nestedC ts then (s.stack.length : Int) - 1 else s.mark,
    stack := s.stack }

mutual
theorem RT.run_spec : (t : RT) → (s : RSt) → RInv s →
    rrun s t.flat = some (rafter s [t], t.post s.isC)
  | .item c, s, _ => by
      simp [RT.flat, rrun, rstep, rafter, directC, nestedC, RT.post, RT.direct]
  | .pair i j ks, s, h => by
      have h1 : RInv { isC := false, mark := s.mark, stack := (s.isC, i) :: s.stack } := by
        simp only [RInv, List.length_cons] at *; omega
      have ih := RT.runL_spec ks _ h1
      simp only [RT.flat, List.cons_append, List.nil_append, rrun, rstep]
      rw [rrun_append, ih]
      simp only [rafter, rrun, rstep, List.length_cons, RT.post, List.append_nil, Bool.false_or]
      simp only [directC, nestedC, Bool.or_false, hasCL_split ks, RT.direct]
      simp only [RInv] at h
      cases hd : directC ks <;> cases hn : nestedC ks <;> simp <;> omega
theorem RT.runL_spec : (ts : List RT) → (s : RSt) → RInv s →
    rrun s (RT.flatL ts) = some (rafter s ts, RT.postL s.isC ts)
  | [], s, _ => by simp [RT.flatL, rrun, rafter, directC, nestedC, RT.postL]
  | t :: ts, s, h => by
      have h1 := RT.run_spec t s h
      have hinv : RInv (rafter s [t]) := by
        simp only [RInv, rafter] at *; split <;> omega
      have h2 := RT.runL_spec ts (rafter s [t]) hinv
      simp only [RT.flatL, rrun_append, h1, h2, RT.postL]
      congr 1
      cases t with
      | item c =>
        simp only [rafter, directC, nestedC, Bool.or_false, Bool.or_assoc, RT.direct]
        first | rfl | (split <;> rfl)
      | pair i j ks =>
        simp only [rafter, directC, nestedC, Bool.or_false, RT.direct]
        rcases Bool.eq_false_or_eq_true (RT.hasCL ks) with hk | hk <;>
        rcases Bool.eq_false_or_eq_true (nestedC ts) with hn | hn <;>
        simp [hk, hn]
end

/-- On every well-nested element list the retainer never underflows its stack, and the
assignments it performs are exactly `postL`: each pair is finally flagged with "some
content element lies inside it". -/
theorem retainer_run (ts : List RT) :
    ∃ s', rrun {} (RT.flatL ts) = some (s', RT.postL false ts) :=
  ⟨_, RT.runL_spec ts {} (by simp [RInv])⟩

/-! ### reading the final flags off the assignment list -/

/-- last assignment to index `i` -/
def finalFlag (i : Nat) : List (Nat × Bool) → Option Bool
  | [] => none
  | (k, c) :: us =>
    match finalFlag i us with
    | some c' => some c'
    | none => if k = i then some c else none

theorem finalFlag_append (i : Nat) (a b : List (Nat × Bool)) :
    finalFlag i (a ++ b) = match finalFlag i b with
      | some c => some c
      | none => finalFlag i a := by
  induction a with
  | nil => simp [finalFlag]; cases finalFlag i b <;> rfl
  | cons p a ih =>
    obtain ⟨k, c⟩ := p
    simp only [List.cons_append, finalFlag, ih]
    cases finalFlag i b <;> simp

mutual
/-- all tag indices of the forest -/
def RT.idx : RT → List Nat
  | .item _ => []
  | .pair i j ks => i :: j :: RT.idxL ks
def RT.idxL : List RT → List Nat
  | [] => []
  | t :: ts => t.idx ++ RT.idxL ts
end

mutual
theorem RT.post_idx : (t : RT) → (c : Bool) → ∀ p ∈ t.post c, p.1 ∈ t.idx
  | .item _, _ => by simp [RT.post]
  | .pair i j ks, c => by
      intro p hp
      simp only [RT.post, List.mem_append, List.mem_cons, List.mem_singleton, List.not_mem_nil, or_false] at hp
      simp only [RT.idx, List.mem_cons]
      rcases hp with (hp | hp) | hp
      · subst hp; simp
      · right; right; exact RT.postL_idx ks false p hp
      · rcases hp with hp | hp <;> subst hp <;> simp
theorem RT.postL_idx : (ts : List RT) → (c : Bool) → ∀ p ∈ RT.postL c ts, p.1 ∈ RT.idxL ts
  | [], _ => by simp [RT.postL]
  | t :: ts, c => by
      intro p hp
      simp only [RT.postL, List.mem_append] at hp
      simp only [RT.idxL, List.mem_append]
      rcases hp with hp | hp
      · left; exact RT.post_idx t c p hp
      · right; exact RT.postL_idx ts _ p hp
end

theorem finalFlag_none_of_not_mem (i : Nat) (us : List (Nat × Bool)) (h : ∀ p ∈ us, p.1 ≠ i) :
    finalFlag i us = none := by
  induction us with
  | nil => rfl
  | cons p us ih =>
    obtain ⟨k, c⟩ := p
    have := ih (fun p hp => h p (List.mem_cons_of_mem _ hp))
    have hk : k ≠ i := h (k, c) List.mem_cons_self
    simp [finalFlag, this, hk]

mutual
/-- `t` (resp. the forest) contains the pair `(i, j)` whose inside has content flag `c` -/
def RT.hasPair (i j : Nat) (c : Bool) : RT → Prop
  | .item _ => False
  | .pair i' j' ks => (i' = i ∧ j' = j ∧ RT.hasCL ks = c) ∨ RT.hasPairL i j c ks
def RT.hasPairL (i j : Nat) (c : Bool) : List RT → Prop
  | [] => False
  | t :: ts => t.hasPair i j c ∨ RT.hasPairL i j c ts
end

mutual
theorem RT.hasPair_idx (i j : Nat) (c : Bool) : (t : RT) → t.hasPair i j c → i ∈ t.idx ∧ j ∈ t.idx
  | .item _ => by simp [RT.hasPair]
  | .pair i' j' ks => by
      intro h
      simp only [RT.hasPair] at h
      simp only [RT.idx, List.mem_cons]
      rcases h with ⟨h1, h2, _⟩ | h
      · subst h1; subst h2; simp
      · have := RT.hasPairL_idx i j c ks h
        exact ⟨Or.inr (Or.inr this.1), Or.inr (Or.inr this.2)⟩
theorem RT.hasPairL_idx (i j : Nat) (c : Bool) : (ts : List RT) → RT.hasPairL i j c ts →
    i ∈ RT.idxL ts ∧ j ∈ RT.idxL ts
  | [] => by simp [RT.hasPairL]
  | t :: ts => by
      intro h
      simp only [RT.hasPairL] at h
      simp only [RT.idxL, List.mem_append]
      rcases h with h | h
      · have := RT.hasPair_idx i j c t h; exact ⟨Or.inl this.1, Or.inl this.2⟩
      · have := RT.hasPairL_idx i j c ts h; exact ⟨Or.inr this.1, Or.inr this.2⟩
end

mutual
theorem RT.final_spec (i j : Nat) (c : Bool) : (t : RT) → (isC : Bool) → t.idx.Nodup →
    t.hasPair i j c → finalFlag i (t.post isC) = some c ∧ finalFlag j (t.post isC) = some c
  | .item _, _, _ => by simp [RT.hasPair]
  | .pair i' j' ks, isC, hnd => by
      intro h
      simp only [RT.hasPair] at h
      simp only [RT.idx, List.nodup_cons, List.mem_cons, not_or] at hnd
      obtain ⟨⟨hij, hi'⟩, hj', hks⟩ := hnd
      simp only [RT.post]
      rcases h with ⟨h1, h2, h3⟩ | h
      · subst h1; subst h2; subst h3
        constructor
        · have hji : ¬ j' = i' := fun e => hij e.symm
          rw [finalFlag_append]; simp [finalFlag, hji]
        · rw [finalFlag_append]; simp [finalFlag]
      · have hin := RT.hasPairL_idx i j c ks h
        have hi : i' ≠ i ∧ j' ≠ i := ⟨fun e => hi' (e ▸ hin.1), fun e => hj' (e ▸ hin.1)⟩
        have hj : i' ≠ j ∧ j' ≠ j := ⟨fun e => hi' (e ▸ hin.2), fun e => hj' (e ▸ hin.2)⟩
        have ih := RT.finalL_spec i j c ks false hks h
        constructor
        · rw [finalFlag_append]
          simp only [finalFlag, hi.1, hi.2, if_false]
          rw [finalFlag_append, ih.1]
        · rw [finalFlag_append]
          simp only [finalFlag, hj.1, hj.2, if_false]
          rw [finalFlag_append, ih.2]
theorem RT.finalL_spec (i j : Nat) (c : Bool) : (ts : List RT) → (isC : Bool) → (RT.idxL ts).Nodup →
    RT.hasPairL i j c ts → finalFlag i (RT.postL isC ts) = some c ∧ finalFlag j (RT.postL isC ts) = some c
  | [], _, _ => by simp [RT.hasPairL]
  | t :: ts, isC, hnd => by
      intro h
      simp only [RT.hasPairL] at h
      simp only [RT.idxL] at hnd
      have hnd' := List.nodup_append.mp hnd
      simp only [RT.postL]
      rcases h with h | h
      · have ih := RT.final_spec i j c t isC hnd'.1 h
        have hin := RT.hasPair_idx i j c t h
        have n1 : finalFlag i (RT.postL (isC || t.direct) ts) = none :=
          finalFlag_none_of_not_mem _ _ (fun p hp e =>
            hnd'.2.2 i hin.1 p.1 (RT.postL_idx ts _ p hp) e.symm)
        have n2 : finalFlag j (RT.postL (isC || t.direct) ts) = none :=
          finalFlag_none_of_not_mem _ _ (fun p hp e =>
            hnd'.2.2 j hin.2 p.1 (RT.postL_idx ts _ p hp) e.symm)
        rw [finalFlag_append, finalFlag_append, n1, n2]
        exact ih
      · have ih := RT.finalL_spec i j c ts (isC || t.direct) hnd'.2.1 h
        rw [finalFlag_append, finalFlag_append, ih.1, ih.2]
        exact ⟨rfl, rfl⟩
end

/-! ### `applyFlags` realises `finalFlag` -/

theorem setFlagAt_length' (i : Nat) (c : Bool) (es : List Elem) : (setFlagAt i c es).length = es.length := by
  induction es generalizing i with
  | nil => simp [setFlagAt]
  | cons e es ih => cases i <;> simp [setFlagAt, ih]

theorem setFlagAt_get (i j : Nat) (c : Bool) (es : List Elem) :
    (setFlagAt i c es)[j]? = if i = j then es[j]?.map (fun e => { e with content := c }) else es[j]? := by
  induction es generalizing i j with
  | nil => simp [setFlagAt]
  | cons e es ih =>
    cases i with
    | zero => cases j <;> simp [setFlagAt]
    | succ i => cases j with
      | zero => simp [setFlagAt]
      | succ j => simp [setFlagAt, ih]

theorem applyFlags_get (es : List Elem) (us : List (Nat × Bool)) (j : Nat) :
    (applyFlags es us)[j]? = es[j]?.map (fun e =>
      match finalFlag j us with
      | some c => { e with content := c }
      | none => e) := by
  induction us generalizing es with
  | nil => simp [applyFlags, finalFlag]
  | cons p us ih =>
    obtain ⟨k, c⟩ := p
    simp only [applyFlags, ih, setFlagAt_get, finalFlag]
    cases hf : finalFlag j us with
    | some c' => by_cases hk : k = j <;> simp [hk] <;> cases es[j]? <;> simp
    | none => by_cases hk : k = j <;> simp [hk] <;> cases es[j]? <;> simp

theorem applyFlags_length (es : List Elem) (us : List (Nat × Bool)) :
    (applyFlags es us).length = es.length := by
  induction us generalizing es with
  | nil => rfl
  | cons p us ih => obtain ⟨k, c⟩ := p; simp [applyFlags, ih, setFlagAt_length']

end Distill
