/-
  Proofs about the groups of adjacent monotonic page numbers (Model/PageGroups.lean).
-/
import Distill.Model.PageGroups
namespace Distill.Pg

/-- consecutive entries of the list all move in direction `d` -/
def Steps (d : Int) : List PInfo → Prop
  | a :: b :: rest => sign (b.num - a.num) = d ∧ Steps d (b :: rest)
  | _ => True

/-- a group is strictly monotonic in the direction it records; a group of at most one entry
records no direction, a longer one records +1 or −1 -/
def GroupOk (g : PGroup) : Prop :=
  Steps g.deltaSign g.list ∧ (g.list.length ≤ 1 → g.deltaSign = 0) ∧ (2 ≤ g.list.length → g.deltaSign = 1 ∨ g.deltaSign = -1)

/-- the call protocol of the DOM scan: no CleanUp before the end -/
def NoCleanUp (ops : List GOp) : Prop := ∀ op ∈ ops, op ≠ GOp.cleanUp

structure Inv (m : MG) : Prop where
  groupsOk : ∀ g ∈ m.groups, GroupOk g
  /-- only the group being filled can be empty -/
  innerNonEmpty : ∀ g ∈ m.groups.dropLast, g.list ≠ []
  /-- `prevPageInfo` is the last entry of the group being filled (so the nil dereference in
  `AddPageInfo` cannot happen) -/
  prevIsLast : ∀ g, m.groups.getLast? = some g → g.list ≠ [] → m.prev = g.list.getLast?


theorem sign_cases (x : Int) : sign x = 1 ∨ sign x = -1 ∨ sign x = 0 := by
  unfold sign; split
  · simp
  · split <;> simp

theorem sign_pos {x : Int} (h : 0 < x) : sign x = 1 := by
  simp [sign, h]

theorem steps_snoc (d : Int) (l : List PInfo) (q p : PInfo) (hl : Steps d l)
    (hq : l.getLast? = some q) (hs : sign (p.num - q.num) = d) : Steps d (l ++ [p]) := by
  induction l with
  | nil => simp at hq
  | cons a t ih =>
    cases t with
    | nil =>
      simp at hq; subst hq
      simp [Steps, hs]
    | cons b r =>
      simp only [Steps] at hl
      simp only [List.cons_append, Steps]
      refine ⟨hl.1, ?_⟩
      have := ih hl.2 (by simpa [List.getLast?_cons_cons] using hq)
      simpa using this

theorem inv_snoc_iff (ys : List PGroup) (g : PGroup) (pv : Option PInfo) :
    Inv ⟨ys ++ [g], pv⟩ ↔
      (∀ x ∈ ys, GroupOk x ∧ x.list ≠ []) ∧ GroupOk g ∧ (g.list ≠ [] → pv = g.list.getLast?) := by
  constructor
  · intro h
    refine ⟨?_, ?_, ?_⟩
    · intro x hx
      exact ⟨h.groupsOk x (by simp [hx]), h.innerNonEmpty x (by simpa using hx)⟩
    · exact h.groupsOk g (by simp)
    · intro hne
      exact h.prevIsLast g (by simp) hne
  · rintro ⟨h1, h2, h3⟩
    refine ⟨?_, ?_, ?_⟩
    · intro x hx
      simp only [List.mem_append, List.mem_singleton] at hx
      rcases hx with hx | rfl
      · exact (h1 x hx).1
      · exact h2
    · intro x hx
      simp only [List.dropLast_concat] at hx
      exact (h1 x hx).2
    · intro x hx hne
      simp only [List.getLast?_concat, Option.some.injEq] at hx
      subst hx
      exact h3 hne

theorem groups_inv_empty : Inv {} := by
  refine ⟨?_, ?_, ?_⟩ <;> simp

theorem groupOk_empty : GroupOk { list := [], deltaSign := 0 } := by
  simp [GroupOk, Steps]

theorem groupOk_single (p : PInfo) : GroupOk { list := [p], deltaSign := 0 } := by
  simp [GroupOk, Steps]

theorem inv_addGroup (m : MG) (h : Inv m) : Inv m.addGroup := by
  rcases m with ⟨groups, prev⟩
  cases hg : groups.getLast? with
  | none =>
    simp only [MG.addGroup, hg]
    exact (inv_snoc_iff [] _ _).mpr ⟨by simp, groupOk_empty, by simp⟩
  | some g =>
    obtain ⟨ys, rfl⟩ := List.getLast?_eq_some_iff.mp hg
    simp only [MG.addGroup, hg]
    split
    · exact h
    · rename_i hne
      obtain ⟨h1, h2, h3⟩ := (inv_snoc_iff ys g prev).mp h
      refine (inv_snoc_iff (ys ++ [g]) _ _).mpr ⟨?_, groupOk_empty, by simp⟩
      intro x hx
      simp only [List.mem_append, List.mem_singleton] at hx
      rcases hx with hx | rfl
      · exact h1 x hx
      · exact ⟨h2, by simpa using hne⟩


theorem inv_add (m : MG) (p : PInfo) (h : Inv m) : Inv (m.add p) := by
  rcases m with ⟨groups, prev⟩
  cases hg : groups.getLast? with
  | none =>
    simp only [MG.add, hg]
    exact h
  | some g =>
    obtain ⟨ys, rfl⟩ := List.getLast?_eq_some_iff.mp hg
    obtain ⟨h1, h2, h3⟩ := (inv_snoc_iff ys g prev).mp h
    have h1' : ∀ x ∈ ys ++ [g], g.list ≠ [] → GroupOk x ∧ x.list ≠ [] := by
      intro x hx hne
      simp only [List.mem_append, List.mem_singleton] at hx
      rcases hx with hx | rfl
      · exact h1 x hx
      · exact ⟨h2, hne⟩
    simp only [MG.add, hg, setLast, List.dropLast_concat]
    split
    · rename_i hemp
      have hemp' : g.list = [] := by simpa using hemp
      refine (inv_snoc_iff ys _ _).mpr ⟨h1, ?_, by simp⟩
      have : g.deltaSign = 0 := h2.2.1 (by simp [hemp'])
      simp [GroupOk, Steps, this]
    · rename_i hne
      have hne' : g.list ≠ [] := by simpa using hne
      have hp := h3 hne'
      obtain ⟨q, hq⟩ : ∃ q, g.list.getLast? = some q := by
        cases hl : g.list.getLast? with
        | none => simp at hl; exact absurd hl hne'
        | some q => exact ⟨q, rfl⟩
      rw [hq] at hp
      subst hp
      simp only []
      have hsc := sign_cases (p.num - q.num)
      generalize hds : sign (p.num - q.num) = ds at hsc ⊢
      have hlen2 : 2 ≤ (g.list ++ [p]).length := by
        have : 0 < g.list.length := List.length_pos_iff.mpr hne'
        simp only [List.length_append, List.length_singleton]; omega
      have hlast : ∀ l : List PInfo, (l ++ [p]) ≠ [] → some p = (l ++ [p]).getLast? := by
        intro l _; simp
      split
      · rename_i hdne
        have hdne' : ds ≠ g.deltaSign := by simpa using hdne
        split
        · rename_i hg0
          have hg0' : g.deltaSign ≠ 0 := by simpa using hg0
          refine (inv_snoc_iff (ys ++ [g]) _ _).mpr ⟨fun x hx => h1' x hx hne', ?_, ?_⟩
          · split
            · rename_i hd0
              have hd0' : ds ≠ 0 := by simpa using hd0
              simp only [GroupOk, List.singleton_append, Steps, hds]
              simp
              omega
            · rename_i hd0
              have hd0' : ds = 0 := by simpa using hd0
              subst hd0'
              simpa using groupOk_single p
          · intro _; simp
        · rename_i hg0
          have hg0' : g.deltaSign = 0 := by simpa using hg0
          have hle : g.list.length ≤ 1 := by
            by_cases h2l : 2 ≤ g.list.length
            · have := h2.2.2 h2l; omega
            · omega
          have hgl : g.list = [q] := by
            match hgl : g.list, hle, hne' with
            | [a], _, _ => rw [hgl] at hq; simp at hq; simp [hq]
          refine (inv_snoc_iff ys _ _).mpr ⟨h1, ?_, fun _ => by simp⟩
          simp only [hgl, GroupOk, List.singleton_append, Steps, hds]
          simp
          omega
      · rename_i hdeq
        have hdeq' : ds = g.deltaSign := by simpa using hdeq
        split
        · rename_i hd0
          have hd0' : ds = 0 := by simpa using hd0
          subst hd0'
          exact (inv_snoc_iff ys _ _).mpr ⟨h1, groupOk_single p, fun _ => by simp⟩
        · rename_i hd0
          have hd0' : ds ≠ 0 := by simpa using hd0
          refine (inv_snoc_iff ys _ _).mpr ⟨h1, ?_, fun _ => by simp⟩
          refine ⟨?_, ?_, ?_⟩
          · exact steps_snoc ds g.list q p (hdeq' ▸ h2.1) hq hds
          · intro hl; simp only at hl; omega
          · intro _; simp only; omega

theorem groups_foldl_inv (ops : List GOp) (m : MG) (hm : Inv m) (h : NoCleanUp ops) :
    Inv (ops.foldl MG.step m) := by
  induction ops generalizing m with
  | nil => exact hm
  | cons op ops ih =>
    simp only [List.foldl_cons]
    apply ih
    · cases op with
      | addGroup => exact inv_addGroup m hm
      | add p => exact inv_add m p hm
      | cleanUp => exact absurd rfl (h _ (by simp))
    · intro o ho
      exact h o (by simp [ho])

theorem runOps_inv (ops : List GOp) (h : NoCleanUp ops) : Inv (runOps ops) :=
  groups_foldl_inv ops {} groups_inv_empty h

/-- after the final CleanUp every group is non-empty and strictly monotonic -/
theorem scan_groups_ok (ops : List GOp) (h : NoCleanUp ops) :
    ∀ g ∈ (runOps (ops ++ [GOp.cleanUp])).groups, GroupOk g ∧ g.list ≠ [] := by
  have hi := runOps_inv ops h
  have hrun : runOps (ops ++ [GOp.cleanUp]) = (runOps ops).cleanUp := by
    simp [runOps, List.foldl_append, MG.step]
  rw [hrun]
  generalize runOps ops = m at hi
  rcases m with ⟨groups, prev⟩
  cases hg : groups.getLast? with
  | none =>
    simp at hg; subst hg
    simp [MG.cleanUp]
  | some g =>
    obtain ⟨ys, rfl⟩ := List.getLast?_eq_some_iff.mp hg
    obtain ⟨h1, h2, h3⟩ := (inv_snoc_iff ys g prev).mp hi
    simp only [MG.cleanUp, hg]
    split
    · simpa using h1
    · rename_i hne
      intro x hx
      simp only [List.mem_append, List.mem_singleton] at hx
      rcases hx with hx | rfl
      · exact h1 x hx
      · exact ⟨h2, by simpa using hne⟩

def Ascending : List PInfo → Prop
  | a :: b :: rest => a.num < b.num ∧ Ascending (b :: rest)
  | _ => True

theorem fold_add_asc (ps : List PInfo) (l : List PInfo) (q : PInfo) (hq : l.getLast? = some q)
    (hasc : Ascending (q :: ps)) :
    (ps.map GOp.add).foldl MG.step { groups := [{ list := l, deltaSign := 1 }], prev := some q }
      = { groups := [{ list := l ++ ps, deltaSign := 1 }], prev := (q :: ps).getLast? } := by
  induction ps generalizing l q with
  | nil => simp
  | cons p ps ih =>
    simp only [Ascending] at hasc
    have hne : l ≠ [] := by intro h; simp [h] at hq
    have hs : sign (p.num - q.num) = 1 := sign_pos (by omega)
    have hstep : MG.add { groups := [{ list := l, deltaSign := 1 }], prev := some q } p
        = { groups := [{ list := l ++ [p], deltaSign := 1 }], prev := some p } := by
      simp [MG.add, hne, hs, setLast]
    simp only [List.map_cons, List.foldl_cons, MG.step, hstep]
    rw [ih (l ++ [p]) p (by simp) hasc.2]
    simp [List.getLast?_cons_cons]

/-- a run of at least two strictly ascending numbers after AddGroup is exactly one group,
direction +1, holding all of them in order -/
theorem ascending_one_group (ps : List PInfo) (hlen : 2 ≤ ps.length) (hasc : Ascending ps) :
    (runOps (GOp.addGroup :: ps.map GOp.add ++ [GOp.cleanUp])).groups = [{ list := ps, deltaSign := 1 }] := by
  match ps, hlen, hasc with
  | a :: b :: rest, _, hasc =>
    simp only [Ascending] at hasc
    have hs : sign (b.num - a.num) = 1 := sign_pos (by omega)
    have h1 : MG.addGroup {} = { groups := [{ list := [], deltaSign := 0 }], prev := none } := by
      simp [MG.addGroup]
    have h2 : MG.add { groups := [{ list := [], deltaSign := 0 }], prev := none } a
        = { groups := [{ list := [a], deltaSign := 0 }], prev := some a } := by
      simp [MG.add, setLast]
    have h3 : MG.add { groups := [{ list := [a], deltaSign := 0 }], prev := some a } b
        = { groups := [{ list := [a, b], deltaSign := 1 }], prev := some b } := by
      simp [MG.add, setLast, hs]
    simp only [runOps, List.map_cons, List.cons_append, List.foldl_cons, List.foldl_append,
      List.foldl_nil, MG.step, h1, h2, h3]
    rw [fold_add_asc rest [a, b] b (by simp) hasc.2]
    simp [MG.cleanUp]

end Distill.Pg
