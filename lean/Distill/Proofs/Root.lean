import Distill.Model.Root
namespace Distill

mutual
theorem firstElem_isElem (p : String → Bool) : (n e : Node) → n.firstElem p = some e → e.isElem = true
  | .text _ _, _, h => by simp [Node.firstElem] at h
  | .other _ _, _, h => by simp [Node.firstElem] at h
  | .elem i t a ks, e, h => by
    simp only [Node.firstElem] at h
    split at h
    · cases h; rfl
    · exact firstElemL_isElem p ks e h
theorem firstElemL_isElem (p : String → Bool) : (ks : List Node) → (e : Node) → firstElemL p ks = some e → e.isElem = true
  | [], _, h => by simp [firstElemL] at h
  | k :: ks, e, h => by
    simp only [firstElemL] at h
    cases hk : k.firstElem p with
    | some e' =>
      rw [hk] at h
      have he := Option.some.inj h
      subst he
      exact firstElem_isElem p k e' hk
    | none => rw [hk] at h; exact firstElemL_isElem p ks e h
end

/-- whatever `Apply` goes on with is an element -/
theorem applyRoot_isElem (doc : Node) (docKids : List Node) (r : Node) (h : applyRoot doc docKids = some r) :
    r.isElem = true := by
  unfold applyRoot at h
  split at h
  · cases h; assumption
  · exact firstElemL_isElem _ docKids r h

/-- and so is the document element the extractor converts -/
theorem extractorRoot_isElem (root : Node) (h : root.isElem = true) : (extractorRoot root).isElem = true := by
  unfold extractorRoot queryDesc
  cases hq : firstElemL (fun t => t == "html") root.kids with
  | none => exact h
  | some e => exact firstElemL_isElem _ root.kids e hq

mutual
/-- `n.hasNode e`: `e` is an element of the tree `n` (never made up) -/
def Node.hasNode : Node → Node → Prop
  | .text _ _, _ => False
  | .other _ _, _ => False
  | .elem i t a ks, e => e = .elem i t a ks ∨ hasNodeL ks e
def hasNodeL : List Node → Node → Prop
  | [], _ => False
  | k :: ks, e => k.hasNode e ∨ hasNodeL ks e
end

mutual
theorem firstElem_mem (p : String → Bool) : (n e : Node) → n.firstElem p = some e → n.hasNode e
  | .text _ _, _, h => by simp [Node.firstElem] at h
  | .other _ _, _, h => by simp [Node.firstElem] at h
  | .elem i t a ks, e, h => by
    simp only [Node.firstElem] at h
    simp only [Node.hasNode]
    split at h
    · have he := Option.some.inj h
      exact Or.inl he.symm
    · exact Or.inr (firstElemL_mem p ks e h)
theorem firstElemL_mem (p : String → Bool) : (ks : List Node) → (e : Node) → firstElemL p ks = some e → hasNodeL ks e
  | [], _, h => by simp [firstElemL] at h
  | k :: ks, e, h => by
    simp only [firstElemL] at h
    simp only [hasNodeL]
    cases hk : k.firstElem p with
    | some e' =>
      rw [hk] at h
      have he := Option.some.inj h
      subst he
      exact Or.inl (firstElem_mem p k e' hk)
    | none => rw [hk] at h; exact Or.inr (firstElemL_mem p ks e h)
end

end Distill
