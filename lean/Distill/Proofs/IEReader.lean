import Distill.Model.IEReader
namespace Distill.IE
open Distill

/-! ## the searches of the accessor range over every element below the root -/

mutual
/-- `e` occurs in the subtree `n` (the root of the subtree included) -/
def Occurs (e : Node) : Node → Prop
  | .text _ _ => False
  | .other _ _ => False
  | .elem i t a ks => e = .elem i t a ks ∨ OccursL e ks
def OccursL (e : Node) : List Node → Prop
  | [] => False
  | k :: ks => Occurs e k ∨ OccursL e ks
end

mutual
theorem mem_descElems_of_occurs (e : Node) : (n : Node) → Occurs e n → e ∈ descElems n
  | .text _ _, h => by simp [Occurs] at h
  | .other _ _, h => by simp [Occurs] at h
  | .elem i t a ks, h => by
    simp only [Occurs] at h
    simp only [descElems, List.mem_cons]
    rcases h with h | h
    · exact Or.inl h
    · exact Or.inr (mem_descElemsL_of_occurs e ks h)
theorem mem_descElemsL_of_occurs (e : Node) : (ks : List Node) → OccursL e ks → e ∈ descElemsL ks
  | [], h => by simp [OccursL] at h
  | k :: ks, h => by
    simp only [OccursL] at h
    simp only [descElemsL, List.mem_append]
    rcases h with h | h
    · exact Or.inl (mem_descElems_of_occurs e k h)
    · exact Or.inr (mem_descElemsL_of_occurs e ks h)
end

/-- every `meta` element anywhere below the root — in `head`, in `body`, nested however deep — is
among the ones the accessor scans -/
theorem meta_anywhere_is_scanned (root e : Node) (h : OccursL e root.kids) (ht : e.tag = "meta") :
    e ∈ withTag root "meta" := by
  unfold withTag below
  exact List.mem_filter.mpr ⟨mem_descElemsL_of_occurs e root.kids h, by simp [ht]⟩

/-! ## the opt-out -/

def isOptOutName (A : Atoms) (m : Node) : Bool := A.upper (getAttr m.attrs "name") == "IE_RM_OFF"
def saysTrue (A : Atoms) (m : Node) : Bool := A.lower (getAttr m.attrs "content") == "true"

/-- **The first opt-out tag decides**: with the scanned `meta` elements split around the first one
named IE_RM_OFF (any letter case), the accessor opts out exactly when that tag's content is `true`
(any letter case). -/
theorem optOut_first_decides (A : Atoms) (root m : Node) (before after : List Node)
    (hsplit : withTag root "meta" = before ++ m :: after)
    (hbefore : ∀ x ∈ before, isOptOutName A x = false) (hm : isOptOutName A m = true) :
    optOut A root = saysTrue A m := by
  unfold optOut
  have : (withTag root "meta").find? (fun m => A.upper (getAttr m.attrs "name") == "IE_RM_OFF") = some m := by
    rw [hsplit, List.find?_append]
    have hb : before.find? (fun m => A.upper (getAttr m.attrs "name") == "IE_RM_OFF") = none := by
      rw [List.find?_eq_none]
      intro x hx
      have := hbefore x hx
      simpa [isOptOutName] using this
    rw [hb]
    have hm' : (A.upper (getAttr m.attrs "name") == "IE_RM_OFF") = true := hm
    simp [List.find?_cons, hm']
  rw [this]
  rfl

/-- without any tag of that name there is no opt-out -/
theorem optOut_none (A : Atoms) (root : Node)
    (h : ∀ x ∈ withTag root "meta", isOptOutName A x = false) : optOut A root = false := by
  unfold optOut
  have : (withTag root "meta").find? (fun m => A.upper (getAttr m.attrs "name") == "IE_RM_OFF") = none := by
    rw [List.find?_eq_none]
    intro x hx
    have := h x hx
    simpa [isOptOutName] using this
  rw [this]

/-- the accessor's record carries exactly that answer -/
theorem source_optOut (A : Atoms) (root : Node) : (source A root).optOut = optOut A root := rfl

/-- the article sub-record of this accessor is never nil -/
theorem source_article_some (A : Atoms) (root : Node) : (source A root).article.isSome = true := rfl

end Distill.IE
