import Distill.Model.Terms
namespace Distill.Pg

theorem dropWhile_append_of_all {α} (p : α → Bool) (a b : List α) (h : a.all p = true) :
    (a ++ b).dropWhile p = b.dropWhile p := by
  induction a with
  | nil => rfl
  | cons x xs ih =>
    simp only [List.all_cons, Bool.and_eq_true] at h
    simp [List.dropWhile, h.1, ih h.2]

theorem takeWhile_append_of_all {α} (p : α → Bool) (a b : List α) (h : a.all p = true) :
    (a ++ b).takeWhile p = a ++ b.takeWhile p := by
  induction a with
  | nil => rfl
  | cons x xs ih =>
    simp only [List.all_cons, Bool.and_eq_true] at h
    simp [List.takeWhile, h.1, ih h.2]

theorem digit_is_alnum (c : Char) (h : isAsciiDigit c = true) : isAsciiAlnum c = true := by
  simp [isAsciiAlnum, h]

/-- **A page number between any characters that are not ASCII letters or digits is read as that
number**: brackets, dashes, dots, guillemets, no-break and ideographic spaces, CJK — whatever
surrounds it (rxSurroundingDigits). -/
theorem decorated_number (pre ds suf : List Char)
    (hpre : pre.all (fun c => !isAsciiAlnum c) = true)
    (hds : ds.all isAsciiDigit = true) (hne : ds ≠ [])
    (hsuf : suf.all (fun c => !isAsciiAlnum c) = true) :
    termNumber (pre ++ ds ++ suf) = some (digitsVal ds) := by
  unfold termNumber
  have h1 : (pre ++ ds ++ suf).dropWhile (fun c => !isAsciiAlnum c) = ds ++ suf := by
    rw [List.append_assoc, dropWhile_append_of_all _ pre _ hpre]
    cases ds with
    | nil => exact absurd rfl hne
    | cons d rest =>
      simp only [List.all_cons, Bool.and_eq_true] at hds
      simp [List.dropWhile, digit_is_alnum d hds.1]
  have hsufd : suf.takeWhile isAsciiDigit = [] := by
    cases suf with
    | nil => rfl
    | cons s rest =>
      simp only [List.all_cons, Bool.and_eq_true, Bool.not_eq_true'] at hsuf
      have : isAsciiDigit s = false := by
        cases hd : isAsciiDigit s
        · rfl
        · have := digit_is_alnum s hd; rw [hsuf.1] at this; cases this
      simp [List.takeWhile, this]
  have hsufd' : suf.dropWhile isAsciiDigit = suf := by
    cases suf with
    | nil => rfl
    | cons s rest =>
      simp only [List.all_cons, Bool.and_eq_true, Bool.not_eq_true'] at hsuf
      have : isAsciiDigit s = false := by
        cases hd : isAsciiDigit s
        · rfl
        · have := digit_is_alnum s hd; rw [hsuf.1] at this; cases this
      simp [List.dropWhile, this]
  have h2 : (ds ++ suf).takeWhile isAsciiDigit = ds := by
    rw [takeWhile_append_of_all _ ds suf hds, hsufd]; simp
  have h3 : (ds ++ suf).dropWhile isAsciiDigit = suf := by
    rw [dropWhile_append_of_all _ ds suf hds, hsufd']
  simp only [h1, h2, h3]
  have : ds.isEmpty = false := by cases ds <;> simp_all
  simp [this, hsuf]

/-- a term with an ASCII letter is never a number -/
theorem letter_term_not_number (t : List Char) (c : Char) (hc : c ∈ t)
    (hl : isAsciiAlnum c = true) (hnd : isAsciiDigit c = false) : termNumber t = none := by
  unfold termNumber
  -- the letter is in the part that is kept after the leading non-alphanumerics, and since it is
  -- no digit it ends up in the tail, which must be free of alphanumerics
  have hrest : c ∈ t.dropWhile (fun c => !isAsciiAlnum c) := by
    induction t with
    | nil => cases hc
    | cons x xs ih =>
      simp only [List.dropWhile]
      by_cases hx : isAsciiAlnum x = true
      · simpa [hx] using hc
      · have hx' : isAsciiAlnum x = false := by simpa using hx
        simp only [hx', Bool.not_false, if_true]
        rcases List.mem_cons.mp hc with h | h
        · subst h; rw [hl] at hx'; cases hx'
        · exact ih h
  generalize t.dropWhile (fun c => !isAsciiAlnum c) = rest at hrest
  have htail : c ∈ rest.dropWhile isAsciiDigit := by
    induction rest with
    | nil => cases hrest
    | cons x xs ih =>
      simp only [List.dropWhile]
      by_cases hx : isAsciiDigit x = true
      · simp only [hx, if_true]
        rcases List.mem_cons.mp hrest with h | h
        · subst h; rw [hnd] at hx; cases hx
        · exact ih h
      · simpa [hx] using hrest
  have : (rest.dropWhile isAsciiDigit).all (fun c => !isAsciiAlnum c) = false := by
    rw [Bool.eq_false_iff]
    intro hall
    have := List.all_eq_true.mp hall c htail
    simp [hl] at this
  simp [this]

/-- a text without any ASCII digit only closes the current group -/
theorem no_digit_text (text : List Char) (h : text.any isAsciiDigit = false) : textOps text = [.addGroup] := by
  simp [textOps, h]

/-- for the examples: a number for an added number, -1 for a closed group -/
def opCode : GOp → Int
  | .add p => p.num
  | .addGroup => -1
  | .cleanUp => -2

example : (textOps "1 | 2 | 3".toList).map opCode = [1, 2, 3] := by decide
example : (textOps "\u00a0|\u00a02\u00a0|\u00a0".toList).map opCode = [2] := by decide
example : (textOps "\u7b2c2\u9875".toList).map opCode = [2] := by decide
example : (textOps "page 2 of 5".toList).map opCode = [-1, 2, -1, 5] := by decide
example : (textOps "2024".toList).map opCode = [-1] := by decide
example : (textOps "no number here".toList).map opCode = [-1] := by decide
example : linkTextToNumber " [12] ".toList = some 12 := by decide
example : linkTextToNumber "3a".toList = none := by decide

end Distill.Pg
