import Distill.Proofs.Convert
import Distill.Model.DocFilters
namespace Distill

/-! ## The retainer's stack never underflows on converter output (C01, hazard e) -/

/-- non-text elements the events add, in order -/
def evNonText : List BEv → List DocEl
  | [] => []
  | .addTag n s :: r => .tag n s :: evNonText r
  | .addTable i :: r => .table i :: evNonText r
  | .addEmbed k i :: r => .media k i :: evNonText r
  | _ :: r => evNonText r

theorem nonTextOf_append (a b : List DocEl) : nonTextOf (a ++ b) = nonTextOf a ++ nonTextOf b := by
  induction a with
  | nil => rfl
  | cons x xs ih => cases x <;> simp [nonTextOf, ih]

theorem flushBlock_nonText (s : BSt) : nonTextOf s.flushBlock.out = nonTextOf s.out := by
  unfold BSt.flushBlock
  split
  · rfl
  · simp [nonTextOf_append, nonTextOf]

theorem preText_nonText (s : BSt) : nonTextOf s.preText.out = nonTextOf s.out := by
  unfold BSt.preText
  split
  · simp [flushBlock_nonText]
  · rfl

theorem bstep_nonText (s : BSt) (e : BEv) : nonTextOf (bstep s e).out = nonTextOf s.out ++ evNonText [e] := by
  cases e with
  | skipNode => simp [bstep, evNonText]
  | startNode a => simp [bstep, evNonText]
  | endNode =>
    simp only [bstep, evNonText, List.append_nil]
    split
    · rfl
    · split <;> split <;> simp [flushBlock_nonText]
  | addText id e b w => simp [bstep, evNonText, preText_nonText]
  | addBr id => simp [bstep, evNonText, preText_nonText]
  | addTable id => simp [bstep, evNonText, nonTextOf_append, nonTextOf, flushBlock_nonText]
  | addTag n st => simp [bstep, evNonText, nonTextOf_append, nonTextOf, flushBlock_nonText]
  | addEmbed k id => simp [bstep, evNonText, nonTextOf_append, nonTextOf, flushBlock_nonText]

theorem evNonText_append (a b : List BEv) : evNonText (a ++ b) = evNonText a ++ evNonText b := by
  induction a with
  | nil => rfl
  | cons x xs ih => cases x <;> simp [evNonText, ih]

theorem brun_nonText (s : BSt) (evs : List BEv) : nonTextOf (brun s evs).out = nonTextOf s.out ++ evNonText evs := by
  induction evs generalizing s with
  | nil => simp [brun, evNonText]
  | cons e es ih =>
    have : brun s (e :: es) = brun (bstep s e) es := rfl
    rw [this, ih, bstep_nonText]
    have : evNonText (e :: es) = evNonText [e] ++ evNonText es := evNonText_append [e] es
    rw [this, List.append_assoc]

/-- **The builder hands tags, tables and media through unchanged and in order.** -/
theorem buildDoc_nonText (evs : List BEv) : nonTextOf (buildDoc evs) = evNonText evs := by
  unfold buildDoc
  rw [flushBlock_nonText, brun_nonText]
  rfl

/-- nesting depth of the placeholders in a document; `none` = an end without a start -/
def depthDoc : Nat → List DocEl → Option Nat
  | d, [] => some d
  | d, .tag _ true :: r => depthDoc (d + 1) r
  | d, .tag _ false :: r => match d with
    | 0 => none
    | d + 1 => depthDoc d r
  | d, _ :: r => depthDoc d r

theorem depthDoc_nonText (d : Nat) (es : List DocEl) : depthDoc d (nonTextOf es) = depthDoc d es := by
  induction es generalizing d with
  | nil => rfl
  | cons x xs ih =>
    cases x with
    | text t => simp [nonTextOf, depthDoc, ih]
    | tag n s =>
      cases s with
      | true => simp [nonTextOf, depthDoc, ih]
      | false => cases d <;> simp [nonTextOf, depthDoc, ih]
    | table i => simp [nonTextOf, depthDoc, ih]
    | media k i => simp [nonTextOf, depthDoc, ih]

/-- a sequence whose named placeholders match has non-negative running depth -/
theorem depth_of_tagRun (st st' : List String) (evs : List BEv) (h : tagRun st evs = some st') :
    depthDoc st.length (evNonText evs) = some st'.length := by
  induction evs generalizing st with
  | nil => simp [tagRun] at h; subst h; rfl
  | cons e es ih =>
    cases e with
    | addTag n s =>
      cases s with
      | true => simp only [tagRun] at h; simpa [evNonText, depthDoc] using ih (n :: st) h
      | false =>
        cases st with
        | nil => simp [tagRun] at h
        | cons m st2 =>
          simp only [tagRun] at h
          split at h
          · simpa [evNonText, depthDoc] using ih st2 h
          · cases h
    | addTable i => simp only [tagRun] at h; simpa [evNonText, depthDoc] using ih st h
    | addEmbed k i => simp only [tagRun] at h; simpa [evNonText, depthDoc] using ih st h
    | skipNode => simp only [tagRun] at h; simpa [evNonText] using ih st h
    | startNode a => simp only [tagRun] at h; simpa [evNonText] using ih st h
    | endNode => simp only [tagRun] at h; simpa [evNonText] using ih st h
    | addText i e b w => simp only [tagRun] at h; simpa [evNonText] using ih st h
    | addBr i => simp only [tagRun] at h; simpa [evNonText] using ih st h

/-- element list the document filters see -/
def toElem : DocEl → Elem
  | .text t => { kind := .text, win := t.win, group := t.group }
  | .tag n true => { kind := .tagStart, name := n }
  | .tag n false => { kind := .tagEnd, name := n }
  | .table i => { kind := .table, node := i }
  | .media k i => { kind := k.toKind, node := i }

/-- depth on the flat element list, for any content flags -/
def depthElems : Nat → List Elem → Option Nat
  | d, [] => some d
  | d, e :: r =>
    match e.kind with
    | .tagStart => depthElems (d + 1) r
    | .tagEnd => (match d with | 0 => none | d + 1 => depthElems d r)
    | _ => depthElems d r

/-- the retainer succeeds whenever the running depth never goes negative -/
theorem rrun_total (s : RSt) (i : Nat) (es : List Elem) (d' : Nat)
    (h : depthElems s.stack.length es = some d') :
    ∃ s' us, rrun s (revsFrom i es) = some (s', us) ∧ s'.stack.length = d' := by
  induction es generalizing s i with
  | nil => simp [depthElems] at h; exact ⟨s, [], by simp [revsFrom, rrun], h⟩
  | cons e es ih =>
    simp only [depthElems] at h
    simp only [revsFrom, revOf, rrun]
    cases hk : e.kind <;> simp only [hk] at h ⊢
    case tagStart =>
      simp only [rstep]
      obtain ⟨s', us, h1, h2⟩ := ih { isC := false, mark := s.mark, stack := (s.isC, i) :: s.stack } (i+1) (by simpa using h)
      exact ⟨s', _, by rw [h1], h2⟩
    case tagEnd =>
      cases hs : s.stack with
      | nil => simp [hs] at h
      | cons top rest =>
        obtain ⟨was, j⟩ := top
        simp only [hs, List.length_cons] at h
        simp only [rstep, hs]
        obtain ⟨s', us, h1, h2⟩ := ih { isC := was, mark := if (s.isC || decide (s.mark ≥ (rest.length : Int))) then (rest.length : Int) - 1 else s.mark, stack := rest } (i+1) (by simpa using h)
        exact ⟨s', _, by rw [h1], h2⟩
    all_goals
      simp only [rstep]
      obtain ⟨s', us, h1, h2⟩ := ih { s with isC := s.isC || e.content } (i+1) (by simpa using h)
      exact ⟨s', _, by rw [h1], h2⟩

end Distill
