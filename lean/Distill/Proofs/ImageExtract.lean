import Distill.Model.ImageExtract
import Distill.Proofs.MediaRender
namespace Distill.Img
open Distill

/-! ## processPicture: only sources and images are left -/

mutual
theorem onlyImgSource_tags : (ks : List Node) → ∀ t ∈ tagsL (onlyImgSource ks), t = "img" ∨ t = "source"
  | [] => by simp [onlyImgSource, tagsL]
  | k :: ks => by
    intro x hx
    cases k with
    | text i d =>
      simp only [onlyImgSource, tagsL, Node.tags, List.nil_append] at hx
      exact onlyImgSource_tags ks x hx
    | other i kd =>
      simp only [onlyImgSource, tagsL, Node.tags, List.nil_append] at hx
      exact onlyImgSource_tags ks x hx
    | elem i t a kk =>
      simp only [onlyImgSource] at hx
      split at hx
      · rename_i ht
        simp only [tagsL, Node.tags, List.cons_append, List.mem_cons, List.mem_append] at hx
        rcases hx with h | h | h
        · subst h; simpa using ht
        · exact onlyImgSource_tags kk x h
        · exact onlyImgSource_tags ks x h
      · exact onlyImgSource_tags ks x hx
end

theorem tagsL_filter_subset (p : Node → Bool) : (ks : List Node) → ∀ t ∈ tagsL (ks.filter p), t ∈ tagsL ks
  | [] => by simp [tagsL]
  | k :: ks => by
    intro x hx
    simp only [List.filter] at hx
    split at hx
    · simp only [tagsL, List.mem_append] at hx ⊢
      rcases hx with h | h
      · exact Or.inl h
      · exact Or.inr (tagsL_filter_subset p ks x h)
    · simp only [tagsL, List.mem_append]
      exact Or.inr (tagsL_filter_subset p ks x hx)

mutual
theorem renameFirstSource_tags : (n : Node) → ∀ t ∈ (renameFirstSource n).1.tags, t = "img" ∨ t ∈ n.tags
  | .text _ _ => by simp [renameFirstSource, Node.tags]
  | .other _ _ => by simp [renameFirstSource, Node.tags]
  | .elem i t a ks => by
    intro x hx
    simp only [renameFirstSource] at hx
    split at hx
    · simp only [Node.tags, List.mem_cons] at hx ⊢
      rcases hx with h | h
      · exact Or.inl h
      · exact Or.inr (Or.inr h)
    · simp only [Node.tags, List.mem_cons] at hx ⊢
      rcases hx with h | h
      · exact Or.inr (Or.inl h)
      · rcases renameFirstSourceL_tags ks x h with h' | h'
        · exact Or.inl h'
        · exact Or.inr (Or.inr h')
theorem renameFirstSourceL_tags : (ks : List Node) → ∀ t ∈ tagsL (renameFirstSourceL ks).1, t = "img" ∨ t ∈ tagsL ks
  | [] => by simp [renameFirstSourceL, tagsL]
  | k :: ks => by
    intro x hx
    simp only [renameFirstSourceL] at hx
    split at hx
    · simp only [tagsL, List.mem_append] at hx ⊢
      rcases hx with h | h
      · rcases renameFirstSource_tags k x h with h' | h'
        · exact Or.inl h'
        · exact Or.inr (Or.inl h')
      · exact Or.inr (Or.inr h)
    · simp only [tagsL, List.mem_append] at hx ⊢
      rcases hx with h | h
      · rcases renameFirstSource_tags k x h with h' | h'
        · exact Or.inl h'
        · exact Or.inr (Or.inl h')
      · rcases renameFirstSourceL_tags ks x h with h' | h'
        · exact Or.inl h'
        · exact Or.inr (Or.inr h')
end

/-- **After `processPicture` every element below the picture is an `img` or a `source`.** -/
theorem processPicture_only_img_source (i : Nat) (t : String) (a : List Attr) (ks : List Node) :
    ∀ x ∈ tagsL (processPicture (.elem i t a ks)).kids, x = "img" ∨ x = "source" := by
  intro x hx
  have base : ∀ y ∈ tagsL ((onlyImgSource ks).filter (fun k => k.isElem)), y = "img" ∨ y = "source" :=
    fun y hy => onlyImgSource_tags ks y (tagsL_filter_subset _ _ y hy)
  simp only [processPicture] at hx
  split at hx
  · simp only [Node.kids] at hx
    rcases renameFirstSourceL_tags _ x hx with h | h
    · exact Or.inl h
    · exact base x h
  · simp only [Node.kids] at hx
    exact base x hx

theorem renameFirstSourceL_isElem : (ks : List Node) → (∀ k ∈ ks, k.isElem = true) →
    ∀ k ∈ (renameFirstSourceL ks).1, k.isElem = true
  | [], _ => by simp [renameFirstSourceL]
  | k :: ks, h => by
    intro y hy
    have hk : k.isElem = true := h k (by simp)
    have hks : ∀ z ∈ ks, z.isElem = true := fun z hz => h z (by simp [hz])
    have hk' : (renameFirstSource k).1.isElem = true := by
      cases k with
      | text _ _ => cases hk
      | other _ _ => cases hk
      | elem i t a kk =>
        simp only [renameFirstSource]
        split <;> rfl
    simp only [renameFirstSourceL] at hy
    split at hy
    · rcases List.mem_cons.mp hy with h1 | h1
      · rw [h1]; exact hk'
      · exact hks y h1
    · rcases List.mem_cons.mp hy with h1 | h1
      · rw [h1]; exact hk'
      · exact renameFirstSourceL_isElem ks hks y h1

/-- **and its direct children are elements only**: no stray text, no comment -/
theorem processPicture_kids_are_elements (i : Nat) (t : String) (a : List Attr) (ks : List Node) :
    ∀ k ∈ (processPicture (.elem i t a ks)).kids, k.isElem = true := by
  have base : ∀ k ∈ (onlyImgSource ks).filter (fun k => k.isElem), k.isElem = true :=
    fun k hk => (List.mem_filter.mp hk).2
  intro k hk
  simp only [processPicture] at hk
  split at hk
  · simp only [Node.kids] at hk
    exact renameFirstSourceL_isElem _ base k hk
  · simp only [Node.kids] at hk
    exact base k hk

/-! ## the caption of a figure -/

mutual
/-- the caption `findVisibleFigCaption` returns is a `figcaption` the visibility test accepts -/
theorem visibleCaption_spec (A : CAtoms) : (n c : Node) → visibleCaption A n = some c →
    c.tag = "figcaption" ∧ visible A c.id c.tag c.attrs = true
  | .text _ _, _, h => by simp [visibleCaption] at h
  | .other _ _, _, h => by simp [visibleCaption] at h
  | .elem i t a ks, c, h => by
    simp only [visibleCaption] at h
    split at h
    · cases h
    · rename_i hv
      split at h
      · rename_i ht
        have hc := Option.some.inj h
        subst hc
        simp only [Node.tag, Node.id, Node.attrs]
        exact ⟨by simpa using ht, by simpa using hv⟩
      · exact visibleCaptionL_spec A ks c h
theorem visibleCaptionL_spec (A : CAtoms) : (ks : List Node) → (c : Node) → visibleCaptionL A ks = some c →
    c.tag = "figcaption" ∧ visible A c.id c.tag c.attrs = true
  | [], _, h => by simp [visibleCaptionL] at h
  | k :: ks, c, h => by
    simp only [visibleCaptionL] at h
    cases hk : visibleCaption A k with
    | some e =>
      rw [hk] at h
      have hc := Option.some.inj h
      subst hc
      exact visibleCaption_spec A k e hk
    | none => rw [hk] at h; exact visibleCaptionL_spec A ks c h
end

/-- nothing below an element the visibility test rejects is ever taken as the caption -/
theorem visibleCaption_hidden (A : CAtoms) (i : Nat) (t : String) (a : List Attr) (ks : List Node)
    (h : visible A i t a = false) : visibleCaption A (.elem i t a ks) = none := by
  simp [visibleCaption, h]

/-- a caption the extractor creates is a `figcaption` without attributes whose only child is one
text node: the (re-normalised, trimmed) visible text of its base -/
theorem createCaption_shape (A : CAtoms) (base : Node) :
    ∃ d, createCaption A base = .elem synthCaptionId "figcaption" [] [.text synthCaptionTextId d] :=
  ⟨_, rfl⟩

end Distill.Img
