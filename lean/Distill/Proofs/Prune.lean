/-
  Prune: the converter's `skipUnlikely` mode equals the default mode run on the tree from which the
  "unlikely" subtrees the converter reaches have been deleted (`skip_eq_prune`), under a stability
  hypothesis on the two tests of `visitElem` that look inside the subtree.

  `prune` is the *faithful* variant: it mirrors `convertNode` (an element skipped by an earlier test is
  left alone, recursion into the children exactly when `visitElem` in skip mode returns `.descend`).
-/
import Distill.Model.Convert
namespace Distill
namespace Prune

/-- the test of visitElem's 4th branch, for an element with ancestors `anc` -/
def unlikelyAt (A : CAtoms) (anc : List String) (id : Nat) (tag : String) (attrs : List Attr) : Bool :=
  (A.rxUnlikely id && !A.rxMaybe id && !anc.contains "table" && tag != "body" && tag != "a")
    || Gen.unlikelyRoles.contains (getAttr attrs "role")

/-- the three tests of `visitElem` that come before the "unlikely" test (not visible / social / byline) -/
def earlySkip (A : CAtoms) (id : Nat) (tag : String) (attrs : List Attr) : Bool :=
  !visible A id tag attrs ||
  (getAttr attrs "class" == "sharing" || getAttr attrs "class" == "socialArea" ||
    getAttr attrs "data-component" == "share") ||
  A.byline id

/-- the converter (in skip mode) reaches the "unlikely" test at this element and the test fires -/
def removedAt (A : CAtoms) (anc : List String) (id : Nat) (tag : String) (attrs : List Attr) : Bool :=
  !earlySkip A id tag attrs && unlikelyAt A anc id tag attrs

/-- `removedAt` for a node (false for text / other nodes) -/
def rootRemoved (A : CAtoms) (anc : List String) : Node → Bool
  | .elem i t a _ => removedAt A anc i t a
  | _ => false

/-- the "single text child" test of the `javascript:` anchor branch -/
def singleText : List Node → Bool
  | [.text _ _] => true
  | _ => false

/- `visitElem` is kept opaque for the elaborator while the recursive definitions and their equation
   lemmas are generated (otherwise `whnf` runs into the generated string tables); the lemmas below use
   `unfold visitElem` explicitly. -/
attribute [local irreducible] visitElem

mutual
/-- delete, top-down, every element subtree at which the converter (skip mode) applies the unlikely test
    and the test fires; mirrors `convertNode` -/
def prune (A : CAtoms) (anc : List String) (hasParent : Bool) : Node → Node
  | .elem i t a ks =>
    match visitElem { skipUnlikely := true } A anc hasParent i t a ks with
    | .descend _ _ t' => .elem i t a (pruneL A (t' :: anc) ks)
    | _ => .elem i t a ks
  | .text i d => .text i d
  | .other i k => .other i k
def pruneL (A : CAtoms) (anc : List String) : List Node → List Node
  | [] => []
  | k :: ks =>
    if rootRemoved A anc k then pruneL A anc ks
    else prune A anc true k :: pruneL A anc ks
end

/-- the two subtree-inspecting tests of `visitElem` give the same answer on `ks` and `ks'` -/
def KidsStable (A : CAtoms) (hasParent : Bool) (i : Nat) (t : String) (a : List Attr)
    (ks ks' : List Node) : Prop :=
  (emptyContainerTag t = true →
      withoutContent A (.elem i t a ks) = withoutContent A (.elem i t a ks')) ∧
  ((t == "a" && strHasPrefix (getAttr a "href") "javascript:" && hasParent) = true →
      singleText ks = singleText ks')

mutual
/-- stability hypothesis, stated along the traversal of the converter in skip mode: at every element
    into which the converter descends, `withoutContent` (if the tag is an empty-container tag) and the
    single-text-child test (if it is a `javascript:` anchor with a parent) are unchanged by pruning. -/
def Stable (A : CAtoms) (anc : List String) (hasParent : Bool) : Node → Prop
  | .elem i t a ks =>
    match visitElem { skipUnlikely := true } A anc hasParent i t a ks with
    | .descend _ _ t' =>
        KidsStable A hasParent i t a ks (pruneL A (t' :: anc) ks) ∧ StableL A (t' :: anc) ks
    | _ => True
  | .text _ _ => True
  | .other _ _ => True
def StableL (A : CAtoms) (anc : List String) : List Node → Prop
  | [] => True
  | k :: ks => (rootRemoved A anc k = false → Stable A anc true k) ∧ StableL A anc ks
end

/-! ### facts about `visitElem` -/

def single? : List Node → Option (Nat × String)
  | [.text i d] => some (i, d)
  | _ => none

theorem jsAnchorText_eq (hp : Bool) (t : String) (a : List Attr) (ks : List Node) :
    jsAnchorText hp t a ks =
      if (t == "a" && strHasPrefix (getAttr a "href") "javascript:" && hp) = true then single? ks
      else none := by
  unfold jsAnchorText
  split
  · match ks with
    | [] => rfl
    | [.text _ _] => rfl
    | [.elem _ _ _ _] => rfl
    | [.other _ _] => rfl
    | k :: _ :: _ => cases k <;> rfl
  · rfl

theorem gateSkip_cfg (cfg : CCfg) (A : CAtoms) (anc : List String)
    (i : Nat) (t : String) (a : List Attr) (ks : List Node) :
    gateSkip cfg A anc i t a ks =
      ((cfg.skipUnlikely && removedAt A anc i t a) ||
        gateSkip { skipUnlikely := false } A anc i t a ks) := by
  unfold gateSkip removedAt earlySkip unlikelyAt
  generalize (A.rxUnlikely i && !A.rxMaybe i && !anc.contains "table" && t != "body" && t != "a" ||
                    Gen.unlikelyRoles.contains (getAttr a "role")) = u
  generalize (getAttr a "class" == "sharing" || getAttr a "class" == "socialArea" ||
              getAttr a "data-component" == "share") = s
  cases visible A i t a <;> cases s <;> cases A.byline i <;> cases cfg.skipUnlikely <;> cases u <;> simp

theorem visitElem_removed (A : CAtoms) (anc : List String) (hp : Bool)
    (i : Nat) (t : String) (a : List Attr) (ks : List Node) (h : removedAt A anc i t a = true) :
    visitElem { skipUnlikely := true } A anc hp i t a ks = Visit.skip := by
  unfold visitElem
  rw [gateSkip_cfg]
  simp [h]

theorem visitElem_not_removed (A : CAtoms) (anc : List String) (hp : Bool)
    (i : Nat) (t : String) (a : List Attr) (ks : List Node) (h : removedAt A anc i t a = false) :
    visitElem { skipUnlikely := true } A anc hp i t a ks =
      visitElem { skipUnlikely := false } A anc hp i t a ks := by
  unfold visitElem
  rw [gateSkip_cfg]
  simp [h]

/-- `visitElem` depends on the children only through `withoutContent` (for empty-container tags) and
    the single-text-child test (for `javascript:` anchors with a parent) -/
theorem visitElem_congr (cfg : CCfg) (A : CAtoms) (anc : List String) (hp : Bool)
    (i : Nat) (t : String) (a : List Attr) (ks ks' : List Node)
    (h1 : emptyContainerTag t = true →
      withoutContent A (.elem i t a ks) = withoutContent A (.elem i t a ks'))
    (h2 : (t == "a" && strHasPrefix (getAttr a "href") "javascript:" && hp) = true →
      single? ks = single? ks') :
    visitElem cfg A anc hp i t a ks = visitElem cfg A anc hp i t a ks' := by
  have e1 : gateSkip cfg A anc i t a ks = gateSkip cfg A anc i t a ks' := by
    unfold gateSkip
    cases hE : emptyContainerTag t
    · simp only [Bool.false_and]
    · rw [h1 hE]
  have e2 : jsAnchorText hp t a ks = jsAnchorText hp t a ks' := by
    rw [jsAnchorText_eq, jsAnchorText_eq]
    cases hC : (t == "a" && strHasPrefix (getAttr a "href") "javascript:" && hp)
    · rfl
    · rw [h2 hC]
  unfold visitElem tagSwitch
  rw [e1, e2]

/-! ### text nodes are never pruned -/

theorem singleText_true {l : List Node} (h : singleText l = true) : ∃ i d, l = [.text i d] := by
  match l, h with
  | [.text i d], _ => exact ⟨i, d, rfl⟩

theorem single?_none {l : List Node} (h : singleText l = false) : single? l = none := by
  unfold single?
  split
  · simp [singleText] at h
  · rfl

theorem pruneL_single_text (A : CAtoms) (anc : List String) (i : Nat) (d : String) :
    pruneL A anc [.text i d] = [.text i d] := by
  simp [pruneL, rootRemoved, prune]

theorem single?_pruneL (A : CAtoms) (anc : List String) (ks : List Node)
    (h : singleText ks = singleText (pruneL A anc ks)) : single? ks = single? (pruneL A anc ks) := by
  cases hs : singleText ks
  · rw [single?_none hs, single?_none (h ▸ hs)]
  · obtain ⟨i, d, rfl⟩ := singleText_true hs
    rw [pruneL_single_text]

/-! ### main theorem -/

theorem skip_removed (A : CAtoms) (anc : List String) (hp : Bool) (n : Node)
    (h : rootRemoved A anc n = true) :
    convertNode { skipUnlikely := true } A anc hp n = [] := by
  match n, h with
  | .elem i t a ks, h =>
    rw [convertNode_elem, visitElem_removed A anc hp i t a ks h]

mutual
theorem skip_eq_prune_node (A : CAtoms) (anc : List String) (hp : Bool) :
    (n : Node) → Stable A anc hp n → rootRemoved A anc n = false →
    convertNode { skipUnlikely := true } A anc hp n =
      convertNode { skipUnlikely := false } A anc hp (prune A anc hp n)
  | .text i d, _, _ => by rw [prune, convertNode_text, convertNode_text]
  | .other i k, _, _ => by rw [prune, convertNode_other, convertNode_other]
  | .elem i t a ks, hS, hR => by
    have hv := visitElem_not_removed A anc hp i t a ks hR
    rw [prune]
    rw [Stable] at hS
    cases hvis : visitElem { skipUnlikely := true } A anc hp i t a ks with
    | skip =>
      rw [convertNode_elem, convertNode_elem, ← hv, hvis]
    | emit evs =>
      rw [convertNode_elem, convertNode_elem, ← hv, hvis]
    | descend pre post t' =>
      simp only [hvis] at hS ⊢
      have hc : visitElem { skipUnlikely := false } A anc hp i t a (pruneL A (t' :: anc) ks) =
          Visit.descend pre post t' := by
        rw [← visitElem_congr { skipUnlikely := false } A anc hp i t a ks (pruneL A (t' :: anc) ks)
          hS.1.1 (fun h => single?_pruneL A (t' :: anc) ks (hS.1.2 h)), ← hv, hvis]
      rw [convertNode_elem, convertNode_elem, hvis, hc]
      simp only []
      rw [skip_eq_prune A (t' :: anc) ks hS.2]
theorem skip_eq_prune (A : CAtoms) (anc : List String) :
    (ks : List Node) → StableL A anc ks →
    convertKids { skipUnlikely := true } A anc ks =
      convertKids { skipUnlikely := false } A anc (pruneL A anc ks)
  | [], _ => by rw [pruneL, convertKids_nil, convertKids_nil]
  | k :: ks, hS => by
    rw [StableL] at hS
    rw [pruneL, convertKids_cons]
    cases hR : rootRemoved A anc k
    · simp only [Bool.false_eq_true, ↓reduceIte]
      rw [convertKids_cons, skip_eq_prune_node A anc true k (hS.1 hR) hR, skip_eq_prune A anc ks hS.2]
    · simp only [↓reduceIte]
      rw [skip_removed A anc true k hR, skip_eq_prune A anc ks hS.2]
      rfl
end

/-- the same statement for a single root with a parent: a removed root contributes `[]` on both sides -/
theorem skip_eq_prune_root (A : CAtoms) (anc : List String) (n : Node) (h : StableL A anc [n]) :
    convertNode { skipUnlikely := true } A anc true n =
      convertKids { skipUnlikely := false } A anc (pruneL A anc [n]) := by
  have := skip_eq_prune A anc [n] h
  rw [convertKids_cons, convertKids_nil, List.append_nil] at this
  exact this

/-- `convert` form, for a root that is not itself removed -/
theorem convert_skip_eq_prune (A : CAtoms) (anc : List String) (hp : Bool) (root : Node)
    (hS : Stable A anc hp root) (hR : rootRemoved A anc root = false) :
    convert { skipUnlikely := true } A anc hp root =
      convert { skipUnlikely := false } A anc hp (prune A anc hp root) :=
  skip_eq_prune_node A anc hp root hS hR

#print axioms skip_eq_prune
#print axioms skip_eq_prune_node
#print axioms skip_eq_prune_root

/-! ### examples -/

deriving instance DecidableEq for BEv

/-- atoms: everything visible (`display:block`), node 2 matches the "unlikely" regexp -/
def exA : CAtoms :=
  { styleDisplay := fun _ => "block", visHidden := fun _ => false, byline := fun _ => false,
    rxUnlikely := fun i => i == 2, rxMaybe := fun _ => false, embed := fun _ => .none,
    dataTable := fun _ => false, blank := fun _ => false, words := fun _ => 1 }

/-- `<div><p>hello</p><div class=unlikely>ad</div></div>` -/
def exGood : Node :=
  .elem 0 "div" [] [.elem 1 "p" [] [.text 10 "hello"], .elem 2 "div" [] [.text 20 "ad"]]

/-- `<div><div class=unlikely>ad</div></div>`: the marked subtree is the only content of the outer div -/
def exBad : Node :=
  .elem 0 "div" [] [.elem 2 "div" [] [.text 20 "ad"]]

example : prune exA [] false exGood = .elem 0 "div" [] [.elem 1 "p" [] [.text 10 "hello"]] := by
  with_unfolding_all rfl

example :
    convertNode { skipUnlikely := true } exA [] false exGood =
      convertNode { skipUnlikely := false } exA [] false (prune exA [] false exGood) := by
  decide +kernel

/-- the hypothesis of the theorem holds for `exGood` … -/
example : Stable exA [] false exGood := by
  with_unfolding_all
    refine ⟨⟨fun _ => ?_, fun h => ?_⟩, fun _ => ⟨⟨fun h => ?_, fun h => ?_⟩, fun _ => trivial, trivial⟩,
      fun h => ?_, trivial⟩
  · decide +kernel
  · decide +kernel
  · decide +kernel
  · decide +kernel
  · exact absurd h (by decide +kernel)

example : convertNode { skipUnlikely := true } exA [] false exGood ≠ [] := by
  decide +kernel

example : prune exA [] false exBad = .elem 0 "div" [] [] := by
  with_unfolding_all rfl

/-- without `Stable` the statement is false: the emptied wrapper is skipped in default mode -/
example :
    convertNode { skipUnlikely := true } exA [] false exBad ≠
      convertNode { skipUnlikely := false } exA [] false (prune exA [] false exBad) := by
  decide +kernel

/-- … and fails for `exBad` (by the theorem itself) -/
example : ¬ Stable exA [] false exBad := fun h =>
  absurd (skip_eq_prune_node exA [] false exBad h (by decide +kernel)) (by decide +kernel)

/-- `<div>x<a href="javascript:f()"><span class=unlikely></span>go</a></div>`: pruning the span turns the
    anchor into a single-text `javascript:` anchor, which default mode replaces by its text -/
def exBadA : Node :=
  .elem 0 "div" [] [.text 5 "x",
    .elem 1 "a" [⟨"href", "javascript:f()"⟩] [.elem 2 "span" [] [], .text 20 "go"]]

/-- the anchor clause of `Stable` is needed as well -/
example :
    convertNode { skipUnlikely := true } exA [] false exBadA ≠
      convertNode { skipUnlikely := false } exA [] false (prune exA [] false exBadA) := by
  decide +kernel

end Prune
end Distill
