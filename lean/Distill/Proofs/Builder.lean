import Distill.Model.Builder
namespace Distill

/-! ## The document builder never moves, duplicates or reorders text nodes

Every `Text` element's window is a contiguous slice `[start, stop)` of the builder's node
list; windows are non-empty, strictly increasing and disjoint. -/

def textsOf : List DocEl → List TextEl
  | [] => []
  | .text t :: r => t :: textsOf r
  | _ :: r => textsOf r

theorem textsOf_append (a b : List DocEl) : textsOf (a ++ b) = textsOf a ++ textsOf b := by
  induction a with
  | nil => rfl
  | cons x xs ih => cases x <;> simp [textsOf, ih]

/-- windows `ws` are slices of `nodes`, in increasing order, starting at or after `lo` -/
def Slices (nodes : List Nat) : Nat → List TextEl → Prop
  | _, [] => True
  | lo, t :: r => lo ≤ t.start ∧ t.start < t.stop ∧ t.stop ≤ nodes.length ∧
      t.win = (nodes.drop t.start).take (t.stop - t.start) ∧ Slices nodes t.stop r

theorem Slices.mono_nodes (nodes extra : List Nat) : ∀ (lo : Nat) (ws : List TextEl),
    Slices nodes lo ws → Slices (nodes ++ extra) lo ws
  | _, [], _ => trivial
  | lo, t :: r, h => by
    obtain ⟨h1, h2, h3, h4, h5⟩ := h
    refine ⟨h1, h2, by simp; omega, ?_, Slices.mono_nodes nodes extra _ r h5⟩
    rw [h4, List.drop_append_of_le_length (by omega)]
    rw [List.take_append_of_le_length (by simp; omega)]

theorem Slices.snoc (nodes : List Nat) : ∀ (lo : Nat) (ws : List TextEl) (t : TextEl) (hi : Nat),
    Slices nodes lo ws → (∀ w ∈ ws, w.stop ≤ hi) → lo ≤ hi → hi ≤ t.start → t.start < t.stop →
    t.stop ≤ nodes.length → t.win = (nodes.drop t.start).take (t.stop - t.start) →
    Slices nodes lo (ws ++ [t])
  | lo, [], t, hi, _, _, h1, h2, h3, h4, h5 => ⟨by omega, h3, h4, h5, trivial⟩
  | lo, w :: r, t, hi, h, hb, _, h2, h3, h4, h5 => by
    obtain ⟨a1, a2, a3, a4, a5⟩ := h
    refine ⟨a1, a2, a3, a4, ?_⟩
    have hw := hb w List.mem_cons_self
    exact Slices.snoc nodes _ r t hi a5 (fun x hx => hb x (List.mem_cons_of_mem _ hx)) hw h2 h3 h4 h5

/-- the concatenated windows are a sublist of the node list -/
theorem Slices.sublist (nodes : List Nat) : ∀ (lo : Nat) (ws : List TextEl),
    Slices nodes lo ws → ((ws.map (·.win)).flatten).Sublist (nodes.drop lo)
  | _, [], _ => by simp
  | lo, t :: r, h => by
    obtain ⟨h1, h2, h3, h4, h5⟩ := h
    have ih := Slices.sublist nodes t.stop r h5
    simp only [List.map_cons, List.flatten_cons]
    -- nodes.drop lo = take (start-lo) ++ take (stop-start) (drop start) ++ drop stop
    have e1 : nodes.drop lo = (nodes.drop lo).take (t.start - lo) ++ nodes.drop t.start := by
      have := List.take_append_drop (t.start - lo) (nodes.drop lo)
      rw [List.drop_drop] at this
      have e : lo + (t.start - lo) = t.start := by omega
      rw [e] at this; exact this.symm
    have e2 : nodes.drop t.start = (nodes.drop t.start).take (t.stop - t.start) ++ nodes.drop t.stop := by
      have := List.take_append_drop (t.stop - t.start) (nodes.drop t.start)
      rw [List.drop_drop] at this
      have e : t.start + (t.stop - t.start) = t.stop := by omega
      rw [e] at this; exact this.symm
    have s1 : (t.win ++ (r.map (·.win)).flatten).Sublist (nodes.drop t.start) := by
      rw [e2, ← h4]
      exact List.Sublist.append (List.Sublist.refl _) ih
    have s2 : (nodes.drop t.start).Sublist (nodes.drop lo) := by
      rw [e1]; exact List.sublist_append_right _ _
    exact s1.trans s2

/-- builder invariant -/
structure BInv (s : BSt) : Prop where
  first_le : s.tb.firstNode ≤ s.tb.nodes.length
  slices : Slices s.tb.nodes 0 (textsOf s.out)
  stops : ∀ w ∈ textsOf s.out, w.stop ≤ s.tb.firstNode

theorem BInv.init : BInv {} := ⟨Nat.le_refl _, trivial, by simp [textsOf]⟩

theorem BInv.flushBlock (s : BSt) (h : BInv s) : BInv s.flushBlock := by
  obtain ⟨h1, h2, h3⟩ := h
  unfold BSt.flushBlock TB.build
  split
  · -- nothing pending
    rename_i tb heq
    split at heq
    · cases heq; exact ⟨h1, h2, h3⟩
    · split at heq
      · cases heq
        exact ⟨by simp [TB.reset], by simpa [TB.reset] using h2,
               fun w hw => by simp only [TB.reset]; exact Nat.le_trans (h3 w hw) h1⟩
      · cases heq
  · rename_i tb t heq
    split at heq
    · cases heq
    · split at heq
      · cases heq
      · rename_i hne hws
        cases heq
        have hlt : s.tb.firstNode < s.tb.nodes.length := by omega
        refine ⟨by simp [TB.reset], ?_, ?_⟩
        · simp only [TB.reset, textsOf_append, textsOf]
          apply Slices.snoc s.tb.nodes 0 (textsOf s.out) _ s.tb.firstNode h2 h3 (Nat.zero_le _)
          · exact Nat.le_refl _
          · exact hlt
          · exact Nat.le_refl _
          · show s.tb.nodes.drop s.tb.firstNode = _
            rw [List.take_of_length_le (by simp)]
        · intro w hw
          simp only [textsOf_append, textsOf, List.mem_append, List.mem_singleton] at hw
          simp only [TB.reset]
          rcases hw with hw | hw
          · exact Nat.le_trans (h3 w hw) h1
          · subst hw; exact Nat.le_refl _

/-- any update that leaves nodes/firstNode alone and appends a non-text element keeps the invariant -/
theorem BInv.of_same (s s' : BSt) (h : BInv s) (hn : s'.tb.nodes = s.tb.nodes)
    (hf : s'.tb.firstNode = s.tb.firstNode) (ho : textsOf s'.out = textsOf s.out) : BInv s' := by
  obtain ⟨h1, h2, h3⟩ := h
  exact ⟨by rw [hn, hf]; exact h1, by rw [hn, ho]; exact h2, by rw [ho, hf]; exact h3⟩

theorem BInv.append (s s' : BSt) (extra : List Nat) (h : BInv s) (hn : s'.tb.nodes = s.tb.nodes ++ extra)
    (hf : s'.tb.firstNode = s.tb.firstNode) (ho : s'.out = s.out) : BInv s' := by
  obtain ⟨h1, h2, h3⟩ := h
  exact ⟨by rw [hn, hf]; simp; omega, by rw [hn, ho]; exact Slices.mono_nodes _ _ _ _ h2, by rw [ho, hf]; exact h3⟩

theorem TB.addText_nodes (tb : TB) (id : Nat) (e b : Bool) (w : Nat) (tl : Int) :
    (tb.addText id e b w tl).firstNode = tb.firstNode ∧
    (tb.addText id e b w tl).nodes = tb.nodes ++ (if e then [] else [id]) := by
  unfold TB.addText
  cases e <;> cases b <;> simp

theorem BInv.preText (s : BSt) (h : BInv s) : BInv s.preText := by
  unfold BSt.preText
  split
  · exact BInv.of_same _ _ (BInv.flushBlock s h) rfl rfl rfl
  · exact h

theorem BInv.step (s : BSt) (e : BEv) (h : BInv s) : BInv (bstep s e) := by
  cases e with
  | skipNode => exact BInv.of_same _ _ h rfl rfl rfl
  | startNode a =>
    apply BInv.of_same _ _ h
    · simp only [bstep]; split <;> rfl
    · simp only [bstep]; split <;> rfl
    · rfl
  | endNode =>
    simp only [bstep]
    split
    · exact h
    · rename_i a rest hs
      have h1 : BInv { s with tagLevel := if a.changesTagLevel then s.tagLevel - 1 else s.tagLevel } :=
        BInv.of_same _ _ h rfl rfl rfl
      have h2 := BInv.flushBlock _ h1
      split <;> split
      · exact BInv.of_same _ _ h2 (by simp) (by simp) (by simp)
      · exact BInv.of_same _ _ h1 (by simp) (by simp) (by simp)
      · exact BInv.of_same _ _ h2 (by simp) (by simp) (by simp)
      · exact BInv.of_same _ _ h1 (by simp) (by simp) (by simp)
  | addText id e b w =>
    have h1 := BInv.preText s h
    have := TB.addText_nodes s.preText.tb id e b w s.preText.tagLevel
    exact BInv.append _ _ _ h1 this.2 this.1 rfl
  | addBr id =>
    have h1 := BInv.preText s h
    exact BInv.append _ _ [id] h1 rfl rfl rfl
  | addTable id =>
    have h1 := BInv.flushBlock s h
    exact BInv.of_same _ _ h1 rfl rfl (by show textsOf (_ ++ [_]) = _; rw [textsOf_append]; simp [textsOf])
  | addTag n st =>
    have h1 := BInv.flushBlock s h
    exact BInv.of_same _ _ h1 rfl rfl (by show textsOf (_ ++ [_]) = _; rw [textsOf_append]; simp [textsOf])
  | addEmbed k id =>
    have h1 := BInv.flushBlock s h
    exact BInv.of_same _ _ h1 rfl rfl (by show textsOf (_ ++ [_]) = _; rw [textsOf_append]; simp [textsOf])

theorem BInv.run (s : BSt) (evs : List BEv) (h : BInv s) : BInv (brun s evs) := by
  induction evs generalizing s with
  | nil => exact h
  | cons e es ih => exact ih _ (BInv.step s e h)

/-! ### the node list is exactly what the events appended, in order -/

/-- ids the events append to the builder's node list -/
def nodeIds : List BEv → List Nat
  | [] => []
  | .addText i e _ _ :: r => (if e then [] else [i]) ++ nodeIds r
  | .addBr i :: r => i :: nodeIds r
  | _ :: r => nodeIds r

theorem nodeIds_append (a b : List BEv) : nodeIds (a ++ b) = nodeIds a ++ nodeIds b := by
  induction a with
  | nil => rfl
  | cons x xs ih => cases x <;> simp [nodeIds, ih]

theorem flushBlock_nodes (s : BSt) : s.flushBlock.tb.nodes = s.tb.nodes := by
  unfold BSt.flushBlock TB.build
  split
  · rename_i tb heq
    split at heq
    · cases heq; rfl
    · split at heq
      · cases heq; rfl
      · cases heq
  · rename_i tb t heq
    split at heq
    · cases heq
    · split at heq
      · cases heq
      · cases heq; rfl

theorem preText_nodes (s : BSt) : s.preText.tb.nodes = s.tb.nodes := by
  unfold BSt.preText
  split
  · simp [flushBlock_nodes]
  · rfl

theorem bstep_nodes (s : BSt) (e : BEv) : (bstep s e).tb.nodes = s.tb.nodes ++ nodeIds [e] := by
  cases e with
  | skipNode => simp [bstep, nodeIds]
  | startNode a => simp only [bstep, nodeIds, List.append_nil]; split <;> rfl
  | endNode =>
    simp only [bstep, nodeIds, List.append_nil]
    split
    · rfl
    · split <;> split <;> simp [flushBlock_nodes]
  | addText id e b w =>
    simp only [bstep, nodeIds, List.append_nil]
    rw [(TB.addText_nodes _ _ _ _ _ _).2, preText_nodes]
  | addBr id => simp [bstep, nodeIds, TB.addBr, preText_nodes]
  | addTable id => simp [bstep, nodeIds, flushBlock_nodes]
  | addTag n st => simp [bstep, nodeIds, flushBlock_nodes]
  | addEmbed k id => simp [bstep, nodeIds, flushBlock_nodes]

theorem brun_nodes (s : BSt) (evs : List BEv) : (brun s evs).tb.nodes = s.tb.nodes ++ nodeIds evs := by
  induction evs generalizing s with
  | nil => simp [brun, nodeIds]
  | cons e es ih =>
    have : brun s (e :: es) = brun (bstep s e) es := rfl
    rw [this, ih, bstep_nodes]
    have : nodeIds (e :: es) = nodeIds [e] ++ nodeIds es := nodeIds_append [e] es
    rw [this, List.append_assoc]

/-- **Windows partition.** For every event sequence the Text elements of the built document
have non-empty, increasing, pairwise disjoint windows that are slices of the node sequence the
events appended; so their concatenation is a sublist of that sequence: no node is in two
Text elements and the order of nodes is never changed. -/
theorem builder_windows (evs : List BEv) :
    Slices (nodeIds evs) 0 (textsOf (buildDoc evs)) ∧
    (((textsOf (buildDoc evs)).map (·.win)).flatten).Sublist (nodeIds evs) := by
  have h := BInv.flushBlock _ (BInv.run {} evs BInv.init)
  have hn : (brun {} evs).flushBlock.tb.nodes = nodeIds evs := by
    rw [flushBlock_nodes, brun_nodes]; rfl
  have hs : Slices (nodeIds evs) 0 (textsOf (buildDoc evs)) := by
    have := h.slices
    rw [hn] at this
    exact this
  exact ⟨hs, by simpa using Slices.sublist _ 0 _ hs⟩

/-- non-Text elements come out exactly as the converter sent them, in order -/
def nonTextOf : List DocEl → List DocEl
  | [] => []
  | .text _ :: r => nonTextOf r
  | e :: r => e :: nonTextOf r

end Distill
