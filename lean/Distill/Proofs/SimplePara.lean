import Distill.Model.Convert
import Distill.Proofs.Builder
namespace Distill

/-! ## A simple paragraph is never cut in the middle -/

def plainInlineTags : List String := ["b","i","em","strong","span","u","code","font","a"]

def attrsPlain (tag : String) (attrs : List Attr) : Bool :=
  attrs.all (fun a => a.key == "data-vid" || (tag == "a" && a.key == "href")) &&
  !(tag == "a" && strContains (getAttr attrs "href") "action=edit&section=")

mutual
def Node.plainInline : Node → Bool
  | .text _ _ => true
  | .other _ _ => true
  | .elem _ t attrs ks =>
    (t == "br" && attrsPlain t attrs) || (plainInlineTags.contains t && attrsPlain t attrs && plainInlineL ks)
def plainInlineL : List Node → Bool
  | [] => true
  | k :: ks => k.plainInline && plainInlineL ks
end

/-- for every element id occurring in the subtree: no inline display style, not
visibility-hidden, not a byline, not "unlikely", no embed, not a foreign element named like a raw
text element -/
def PlainAtoms (A : CAtoms) (ids : List Nat) : Prop :=
  ∀ i ∈ ids, A.styleDisplay i = "" ∧ A.visHidden i = false ∧ A.byline i = false ∧
    A.rxUnlikely i = false ∧ A.embed i = .none ∧ A.foreignRaw i = false

/-! ### builder side -/

theorem brun_append (s : BSt) (a b : List BEv) : brun s (a ++ b) = brun (brun s a) b := by
  simp [brun, List.foldl_append]

theorem brun_cons (s : BSt) (e : BEv) (r : List BEv) : brun s (e :: r) = brun (bstep s e) r := rfl
theorem brun_nil (s : BSt) : brun s [] = s := rfl
theorem brun_one (s : BSt) (e : BEv) : brun s [e] = bstep s e := rfl

theorem build_cases (tb : TB) (off : Nat) :
    (tb.build off = (tb, none)) ∨ (tb.build off = (tb.reset, none)) ∨
    (∃ t, tb.build off = (tb.reset, some t) ∧ t.start = tb.firstNode ∧ t.stop = tb.nodes.length) := by
  unfold TB.build
  split
  · left; rfl
  · split
    · right; left; rfl
    · right; right; exact ⟨_, rfl, rfl, rfl⟩

/-- what a flush can change: `firstNode` stays or jumps to the end of the node list; at most
one Text element, spanning `[firstNode, |nodes|)`, is emitted -/
def Flushed (s s' : BSt) : Prop :=
  (s'.tb.firstNode = s.tb.firstNode ∨ s'.tb.firstNode = s.tb.nodes.length) ∧
  (s'.out = s.out ∨ ∃ t, s'.out = s.out ++ [.text t] ∧ t.start = s.tb.firstNode ∧ t.stop = s.tb.nodes.length)

theorem flushBlock_spec (s : BSt) :
    s.flushBlock.stack = s.stack ∧ s.flushBlock.flush = s.flush ∧
    s.flushBlock.tb.nodes = s.tb.nodes ∧ Flushed s s.flushBlock := by
  unfold BSt.flushBlock Flushed
  rcases build_cases s.tb s.nextTextIndex with h | h | ⟨t, h, h1, h2⟩
  · rw [h]; simp
  · rw [h]; simp [TB.reset]
  · rw [h]; simp [TB.reset]; exact ⟨h1, h2⟩

theorem preText_spec (s : BSt) :
    s.preText.stack = s.stack ∧ s.preText.flush = false ∧ s.preText.tb.nodes = s.tb.nodes ∧
    ((s.flush = false ∧ s.preText.tb.firstNode = s.tb.firstNode ∧ s.preText.out = s.out) ∨
     (s.flush = true ∧ Flushed s s.preText)) := by
  unfold BSt.preText
  have h := flushBlock_spec s
  split
  · rename_i hf
    refine ⟨h.1, rfl, h.2.2.1, Or.inr ⟨hf, h.2.2.2⟩⟩
  · rename_i hf
    have hf' : s.flush = false := by simpa using hf
    exact ⟨rfl, hf', rfl, Or.inl ⟨hf', rfl, rfl⟩⟩

theorem endNode_spec (s : BSt) (act : Action) (rest : List Action) (hs : s.stack = act :: rest) :
    (bstep s .endNode).stack = rest ∧ (bstep s .endNode).flush = s.flush ∧
    (bstep s .endNode).tb.nodes = s.tb.nodes ∧
    (((s.flush || act.flush) = false ∧ (bstep s .endNode).tb.firstNode = s.tb.firstNode ∧
        (bstep s .endNode).out = s.out) ∨
     ((s.flush || act.flush) = true ∧ Flushed s (bstep s .endNode))) := by
  simp only [bstep]
  split
  · rename_i h0; rw [hs] at h0; cases h0
  · rename_i a r h0
    rw [hs] at h0; cases h0
    have h := flushBlock_spec { s with tagLevel := if act.changesTagLevel then s.tagLevel - 1 else s.tagLevel }
    split <;> split
    · rename_i ha hf
      exact ⟨rfl, h.2.1, h.2.2.1, Or.inr ⟨hf, h.2.2.2⟩⟩
    · rename_i ha hf
      exact ⟨rfl, rfl, rfl, Or.inl ⟨by simpa using hf, rfl, rfl⟩⟩
    · rename_i ha hf
      exact ⟨rfl, h.2.1, h.2.2.1, Or.inr ⟨hf, h.2.2.2⟩⟩
    · rename_i ha hf
      exact ⟨rfl, rfl, rfl, Or.inl ⟨by simpa using hf, rfl, rfl⟩⟩

/-! ### the invariant while the paragraph's inline content is processed

`a` is the length of the node list when the paragraph starts.  As long as nothing has been
appended (`|nodes| = a`) flushes may happen, but they happen *at* `a`; once something has been
appended the pending-flush bit is off and stays off. -/

structure PInv (a : Nat) (s : BSt) : Prop where
  le : a ≤ s.tb.nodes.length
  first : s.tb.firstNode ≤ a
  quiet : a < s.tb.nodes.length → s.flush = false

def OutOK (a : Nat) (new : List DocEl) : Prop := ∀ e ∈ new, ∃ t, e = DocEl.text t ∧ t.stop ≤ a

structure Ext (a : Nat) (s s' : BSt) : Prop where
  inv : PInv a s'
  stack : s'.stack = s.stack
  out : ∃ new, s'.out = s.out ++ new ∧ OutOK a new

theorem Ext.refl {a : Nat} {s : BSt} (h : PInv a s) : Ext a s s :=
  ⟨h, rfl, [], by simp, by intro e he; cases he⟩

theorem Ext.trans {a : Nat} {s s1 s2 : BSt} (h1 : Ext a s s1) (h2 : Ext a s1 s2) : Ext a s s2 := by
  obtain ⟨n1, e1, o1⟩ := h1.out
  obtain ⟨n2, e2, o2⟩ := h2.out
  refine ⟨h2.inv, h2.stack.trans h1.stack, n1 ++ n2, by rw [e2, e1, List.append_assoc], ?_⟩
  intro e he
  rcases List.mem_append.1 he with he | he
  · exact o1 e he
  · exact o2 e he

theorem PInv.flush_len {a : Nat} {s : BSt} (h : PInv a s) (hf : s.flush = true) : s.tb.nodes.length = a := by
  have := h.le
  have := h.quiet
  by_cases hlt : a < s.tb.nodes.length
  · have := this hlt; simp_all
  · omega

theorem flushed_ok {a : Nat} {s s' : BSt} (h : PInv a s) (hn : s.tb.nodes.length = a) (hF : Flushed s s') :
    s'.tb.firstNode ≤ a ∧ ∃ new, s'.out = s.out ++ new ∧ OutOK a new := by
  obtain ⟨hf, ho⟩ := hF
  have := h.first
  refine ⟨by omega, ?_⟩
  rcases ho with ho | ⟨t, ho, _, h2⟩
  · exact ⟨[], by simp [ho], by intro e he; cases he⟩
  · refine ⟨[.text t], ho, ?_⟩
    intro e he
    simp only [List.mem_singleton] at he
    exact ⟨t, he, by omega⟩

theorem step_start {a : Nat} {s : BSt} (act : Action) (h : PInv a s) (ha : act.flush = false) :
    PInv a (bstep s (.startNode act)) ∧ (bstep s (.startNode act)).stack = act :: s.stack ∧
    (bstep s (.startNode act)).out = s.out := by
  have hn : (bstep s (.startNode act)).tb.nodes = s.tb.nodes := by
    simp only [bstep]; split <;> rfl
  have hf : (bstep s (.startNode act)).tb.firstNode = s.tb.firstNode := by
    simp only [bstep]; split <;> rfl
  have hfl : (bstep s (.startNode act)).flush = s.flush := by
    simp [bstep, ha]
  refine ⟨⟨by rw [hn]; exact h.le, by rw [hf]; exact h.first, by rw [hn, hfl]; exact h.quiet⟩, rfl, rfl⟩

theorem step_end {a : Nat} {s : BSt} (act : Action) (rest : List Action) (h : PInv a s)
    (hs : s.stack = act :: rest) (ha : act.flush = false) :
    PInv a (bstep s .endNode) ∧ (bstep s .endNode).stack = rest ∧
    ∃ new, (bstep s .endNode).out = s.out ++ new ∧ OutOK a new := by
  obtain ⟨h1, h2, h3, h4⟩ := endNode_spec s act rest hs
  rcases h4 with ⟨_, h5, h6⟩ | ⟨h5, h6⟩
  · refine ⟨⟨by rw [h3]; exact h.le, by rw [h5]; exact h.first, by rw [h3, h2]; exact h.quiet⟩, h1,
      [], by simp [h6], by intro e he; cases he⟩
  · have hfl : s.flush = true := by simpa [ha] using h5
    have hn := h.flush_len hfl
    obtain ⟨hf, ho⟩ := flushed_ok h hn h6
    refine ⟨⟨by rw [h3]; exact h.le, hf, by rw [h3, h2]; exact h.quiet⟩, h1, ho⟩

theorem preText_ok {a : Nat} {s : BSt} (h : PInv a s) :
    s.preText.tb.firstNode ≤ a ∧ ∃ new, s.preText.out = s.out ++ new ∧ OutOK a new := by
  obtain ⟨_, _, _, h4⟩ := preText_spec s
  rcases h4 with ⟨_, h5, h6⟩ | ⟨h5, h6⟩
  · exact ⟨by rw [h5]; exact h.first, [], by simp [h6], by intro e he; cases he⟩
  · exact flushed_ok h (h.flush_len h5) h6

theorem step_text {a : Nat} {s : BSt} (i : Nat) (e b : Bool) (w : Nat) (h : PInv a s) :
    Ext a s (bstep s (.addText i e b w)) := by
  obtain ⟨h1, h2, h3, _⟩ := preText_spec s
  obtain ⟨hf, ho⟩ := preText_ok h
  have ht := TB.addText_nodes s.preText.tb i e b w s.preText.tagLevel
  have hn : (bstep s (.addText i e b w)).tb.nodes = s.tb.nodes ++ (if e then [] else [i]) := by
    show (s.preText.tb.addText i e b w s.preText.tagLevel).nodes = _
    rw [ht.2, h3]
  have hfn : (bstep s (.addText i e b w)).tb.firstNode = s.preText.tb.firstNode := ht.1
  refine ⟨⟨?_, by rw [hfn]; exact hf, fun _ => h2⟩, h1, ho⟩
  rw [hn, List.length_append]; have := h.le; omega

theorem step_br {a : Nat} {s : BSt} (i : Nat) (h : PInv a s) :
    Ext a s (bstep s (.addBr i)) := by
  obtain ⟨h1, h2, h3, _⟩ := preText_spec s
  obtain ⟨hf, ho⟩ := preText_ok h
  have hn : (bstep s (.addBr i)).tb.nodes = s.tb.nodes ++ [i] := by
    show s.preText.tb.nodes ++ [i] = _
    rw [h3]
  refine ⟨⟨?_, hf, fun _ => h2⟩, h1, ho⟩
  rw [hn, List.length_append]; have := h.le; omega

/-- an element framed by `startNode act … endNode` with a non-flushing action -/
theorem wrap_ok {a : Nat} {s : BSt} (act : Action) (mid : List BEv) (h : PInv a s) (ha : act.flush = false)
    (hmid : ∀ s1, PInv a s1 → Ext a s1 (brun s1 mid)) :
    Ext a s (brun s ([.startNode act] ++ mid ++ [.endNode])) := by
  rw [brun_append, brun_append, brun_one, brun_one]
  obtain ⟨p1, st1, o1⟩ := step_start act h ha
  have m := hmid _ p1
  obtain ⟨p3, st3, o3⟩ := step_end act s.stack m.inv (by rw [m.stack, st1]) ha
  obtain ⟨n2, e2, ok2⟩ := m.out
  obtain ⟨n3, e3, ok3⟩ := o3
  refine ⟨p3, st3, n2 ++ n3, by rw [e3, e2, o1, List.append_assoc], ?_⟩
  intro e he
  rcases List.mem_append.1 he with he | he
  · exact ok2 e he
  · exact ok3 e he

/-! ### converter side: what `visitElem` does on a plain inline element -/

def inlineOrBr : List String := ["br","b","i","em","strong","span","u","code","font","a"]

theorem inlineOrBr_cases {t : String} (h : t ∈ inlineOrBr) :
    t = "br" ∨ t = "b" ∨ t = "i" ∨ t = "em" ∨ t = "strong" ∨ t = "span" ∨ t = "u" ∨ t = "code" ∨
    t = "font" ∨ t = "a" := by
  simpa [inlineOrBr] using h

theorem inline_facts {t : String} (h : t ∈ inlineOrBr) :
    defaultDisplay t = "inline" ∧ emptyContainerTag t = false ∧ nestableTag t = false ∧
    skipFlushTag t = false ∧ skipSilentTag t = false ∧ (t == "table") = false ∧ (t == "video") = false := by
  rcases inlineOrBr_cases h with h | h | h | h | h | h | h | h | h | h <;> subst h <;> decide +kernel

theorem attrsPlain_keys {t : String} {attrs : List Attr} (h : attrsPlain t attrs = true) :
    ∀ x ∈ attrs, x.key = "data-vid" ∨ (t = "a" ∧ x.key = "href") := by
  unfold attrsPlain at h
  simp only [Bool.and_eq_true, List.all_eq_true, Bool.or_eq_true, beq_iff_eq] at h
  exact h.1

theorem getAttr_plain {t : String} {attrs : List Attr} (h : attrsPlain t attrs = true) (k : String)
    (hk1 : k ≠ "data-vid") (hk2 : t ≠ "a" ∨ k ≠ "href") : getAttr attrs k = "" := by
  have hk := attrsPlain_keys h
  have : attrs.find? (fun x => x.key == k) = none := by
    rw [List.find?_eq_none]
    intro x hx
    rcases hk x hx with e | ⟨e1, e2⟩
    · simp [e]; exact fun e' => hk1 e'.symm
    · rcases hk2 with h2 | h2
      · exact absurd e1 h2
      · simp [e2]; exact fun e' => h2 e'.symm
  unfold getAttr
  rw [this]

theorem hasAttr_plain {t : String} {attrs : List Attr} (h : attrsPlain t attrs = true) (k : String)
    (hk1 : k ≠ "data-vid") (hk2 : t ≠ "a" ∨ k ≠ "href") : hasAttr attrs k = false := by
  have hk := attrsPlain_keys h
  unfold hasAttr
  rw [List.any_eq_false]
  intro x hx
  rcases hk x hx with e | ⟨e1, e2⟩
  · simp [e]; exact fun e' => hk1 e'.symm
  · rcases hk2 with h2 | h2
    · exact absurd e1 h2
    · simp [e2]; exact fun e' => h2 e'.symm

theorem displayOf_inline {A : CAtoms} {i : Nat} {t : String} (hs : A.styleDisplay i = "")
    (hd : defaultDisplay t = "inline") : displayOf A i t = "inline" := by
  unfold displayOf
  simp [hs, hd]

theorem actionFor_noflush {A : CAtoms} {anc : List String} {i : Nat} {t : String} {attrs : List Attr}
    (hd : displayOf A i t = "inline") : (actionFor A anc i t attrs).flush = false := by
  unfold actionFor
  simp only [hd]
  have : (("inline" : String) == "none" || ("inline" : String) == "inline") = true := by decide
  simp only [this, if_true]
  split <;> split <;> rfl

def AtomsAt (A : CAtoms) (i : Nat) : Prop :=
  A.styleDisplay i = "" ∧ A.visHidden i = false ∧ A.byline i = false ∧
    A.rxUnlikely i = false ∧ A.embed i = .none ∧ A.foreignRaw i = false

theorem gateSkip_plain (cfg : CCfg) {A : CAtoms} (anc : List String) {i : Nat} {t : String}
    {attrs : List Attr} (ks : List Node) (ht : t ∈ inlineOrBr) (ha : attrsPlain t attrs = true)
    (hA : AtomsAt A i) : gateSkip cfg A anc i t attrs ks = false := by
  obtain ⟨a1, a2, a3, a4, _, a6⟩ := hA
  obtain ⟨f1, f2, _⟩ := inline_facts ht
  have hcls : getAttr attrs "class" = "" := getAttr_plain ha _ (by decide) (Or.inr (by decide))
  have hdc : getAttr attrs "data-component" = "" := getAttr_plain ha _ (by decide) (Or.inr (by decide))
  have hrole : getAttr attrs "role" = "" := getAttr_plain ha _ (by decide) (Or.inr (by decide))
  have haria : getAttr attrs "aria-hidden" = "" := getAttr_plain ha _ (by decide) (Or.inr (by decide))
  have hhid : hasAttr attrs "hidden" = false := hasAttr_plain ha _ (by decide) (Or.inr (by decide))
  have hvis : visible A i t attrs = true := by
    unfold visible Gen.isProbablyVisible visAtoms
    simp only [displayOf_inline a1 f1, hhid, a2, haria]
    have e1 : (("inline" : String) != "none") = true := by decide
    have e2 : (("" : String) == "") = true := by decide
    rw [e1, e2]
    simp
  have hur : Gen.unlikelyRoles.contains "" = false := by decide +kernel
  unfold gateSkip
  rw [hvis, a6, hcls, hdc, hrole, a3, a4, f2, hur]
  have e1 : (("" : String) == "sharing") = false := by decide
  have e2 : (("" : String) == "socialArea") = false := by decide
  have e3 : (("" : String) == "share") = false := by decide
  rw [e1, e2, e3]
  simp

theorem withTags_plain {t : String} (h : nestableTag t = false) (v : Visit) : withTags t v = v := by
  cases v <;> simp [withTags, h]

theorem tagSwitch_br (A : CAtoms) (anc : List String) (hp : Bool) (i : Nat) {attrs : List Attr}
    (ks : List Node) (ha : attrsPlain "br" attrs = true) :
    tagSwitch A anc hp i "br" attrs ks = .emit [.addBr i] := by
  have hcls : getAttr attrs "class" = "" := getAttr_plain ha _ (by decide) (Or.inr (by decide))
  have e1 : (("br" : String) == "a") = false := by decide
  have e2 : (("br" : String) == "span") = false := by decide
  have e3 : (("br" : String) == "font") = false := by decide
  have e4 : (("br" : String) == "br") = true := by decide
  unfold tagSwitch jsAnchorText
  simp only [e1, e2, e3, e4, Bool.false_and, Bool.false_eq_true, if_false, if_true]

theorem plain_sub {t : String} (h : plainInlineTags.contains t = true) : t ∈ inlineOrBr := by
  have : t ∈ plainInlineTags := by simpa using h
  exact List.mem_cons_of_mem _ this

theorem plain_not_br {t : String} (h : plainInlineTags.contains t = true) : (t == "br") = false := by
  have : t ∈ plainInlineTags := by simpa using h
  simp only [plainInlineTags, List.mem_cons, List.not_mem_nil, or_false] at this
  rcases this with h | h | h | h | h | h | h | h | h <;> subst h <;> decide

theorem tagSwitch_plain (A : CAtoms) (anc : List String) (hp : Bool) {i : Nat} {t : String}
    {attrs : List Attr} (ks : List Node) (ht : plainInlineTags.contains t = true)
    (ha : attrsPlain t attrs = true) (hA : AtomsAt A i) :
    (∃ ti td, tagSwitch A anc hp i t attrs ks = .emit [textEv A ti td]) ∨
    (∃ act t', act.flush = false ∧ tagSwitch A anc hp i t attrs ks = .descend [.startNode act] [.endNode] t') := by
  obtain ⟨a1, _⟩ := hA
  obtain ⟨f1, _, _, f4, f5, f6, f7⟩ := inline_facts (plain_sub ht)
  have hbr := plain_not_br ht
  have hedit : (t == "a" && strContains (getAttr attrs "href") "action=edit&section=") = false := by
    unfold attrsPlain at ha
    simp only [Bool.and_eq_true, Bool.not_eq_true'] at ha
    exact ha.2
  have hcls : getAttr attrs "class" = "" := getAttr_plain ha _ (by decide) (Or.inr (by decide))
  have e1 : (("" : String) == "mw-editsection") = false := by decide
  have hspan : defaultDisplay "span" = "inline" := by decide +kernel
  unfold tagSwitch
  rw [hedit, hcls, e1, hbr, f4, f5, f6, f7]
  simp only [Bool.false_eq_true, if_false, Bool.and_false, Bool.false_and]
  split
  · left; exact ⟨_, _, rfl⟩
  · right
    split
    · exact ⟨_, _, actionFor_noflush (displayOf_inline a1 hspan), rfl⟩
    · exact ⟨_, _, actionFor_noflush (displayOf_inline a1 f1), rfl⟩

theorem visitElem_br (cfg : CCfg) {A : CAtoms} (anc : List String) (hp : Bool) {i : Nat}
    {attrs : List Attr} (ks : List Node) (ha : attrsPlain "br" attrs = true) (hA : AtomsAt A i) :
    visitElem cfg A anc hp i "br" attrs ks = .emit [.addBr i] := by
  have hb : "br" ∈ inlineOrBr := by decide
  have hg := gateSkip_plain cfg anc ks hb ha hA
  obtain ⟨_, _, f3, _⟩ := inline_facts hb
  unfold visitElem
  rw [hg, hA.2.2.2.2.1]
  simp only [Bool.false_eq_true, if_false, ite_self]
  rw [tagSwitch_br A anc hp i ks ha, withTags_plain f3]

theorem visitElem_plain (cfg : CCfg) {A : CAtoms} (anc : List String) (hp : Bool) {i : Nat} {t : String}
    {attrs : List Attr} (ks : List Node) (ht : plainInlineTags.contains t = true)
    (ha : attrsPlain t attrs = true) (hA : AtomsAt A i) :
    (∃ ti td, visitElem cfg A anc hp i t attrs ks = .emit [textEv A ti td]) ∨
    (∃ act t', act.flush = false ∧
      visitElem cfg A anc hp i t attrs ks = .descend [.startNode act] [.endNode] t') := by
  have hb := plain_sub ht
  have hg := gateSkip_plain cfg anc ks hb ha hA
  obtain ⟨_, _, f3, _⟩ := inline_facts hb
  unfold visitElem
  rw [hg, hA.2.2.2.2.1]
  simp only [Bool.false_eq_true, if_false, ite_self]
  rw [withTags_plain f3]
  exact tagSwitch_plain A anc hp ks ht ha hA

theorem PlainAtoms.append_left {A : CAtoms} {x y : List Nat} (h : PlainAtoms A (x ++ y)) : PlainAtoms A x :=
  fun i hi => h i (List.mem_append_left _ hi)
theorem PlainAtoms.append_right {A : CAtoms} {x y : List Nat} (h : PlainAtoms A (x ++ y)) : PlainAtoms A y :=
  fun i hi => h i (List.mem_append_right _ hi)

/-! ### the inline content of the paragraph keeps the invariant -/

mutual
theorem node_ok (cfg : CCfg) (A : CAtoms) (a : Nat) :
    (n : Node) → (anc : List String) → (s : BSt) → n.plainInline = true → PlainAtoms A n.allIds →
      PInv a s → Ext a s (brun s (convertNode cfg A anc true n))
  | .text i d, anc, s, _, _, hs => by
    rw [convertNode_text, brun_one]
    exact step_text _ _ _ _ hs
  | .other _ _, anc, s, _, _, hs => by
    rw [convertNode_other, brun_nil]
    exact Ext.refl hs
  | .elem i t attrs ks, anc, s, hp, hA, hs => by
    rw [convertNode_elem]
    have hAi : AtomsAt A i := hA i (by simp [Node.allIds])
    have hAk : PlainAtoms A (allIdsL ks) := fun j hj => hA j (by simp [Node.allIds, hj])
    simp only [Node.plainInline, Bool.or_eq_true, Bool.and_eq_true, beq_iff_eq] at hp
    rcases hp with ⟨ht, ha⟩ | ⟨⟨ht, ha⟩, hk⟩
    · subst ht
      rw [visitElem_br cfg anc true ks ha hAi]
      simp only []
      rw [brun_one]
      exact step_br _ hs
    · rcases visitElem_plain cfg anc true ks ht ha hAi with ⟨ti, td, h⟩ | ⟨act, t', hf, h⟩
      · rw [h]; simp only []
        rw [brun_one]
        exact step_text _ _ _ _ hs
      · rw [h]; simp only []
        exact wrap_ok act _ hs hf (fun s1 h1 => kids_ok cfg A a ks (t' :: anc) s1 hk hAk h1)
theorem kids_ok (cfg : CCfg) (A : CAtoms) (a : Nat) :
    (ks : List Node) → (anc : List String) → (s : BSt) → plainInlineL ks = true → PlainAtoms A (allIdsL ks) →
      PInv a s → Ext a s (brun s (convertKids cfg A anc ks))
  | [], anc, s, _, _, hs => by
    rw [convertKids_nil, brun_nil]
    exact Ext.refl hs
  | k :: ks, anc, s, hp, hA, hs => by
    rw [convertKids_cons, brun_append]
    simp only [plainInlineL, Bool.and_eq_true] at hp
    simp only [allIdsL] at hA
    have h1 := node_ok cfg A a k anc s hp.1 hA.append_left hs
    have h2 := kids_ok cfg A a ks anc _ hp.2 hA.append_right h1.inv
    exact h1.trans h2
end

/-! ### the paragraph element itself -/

theorem tagSwitch_p (A : CAtoms) (anc : List String) (hp : Bool) (i : Nat) (attrs : List Attr) (ks : List Node) :
    tagSwitch A anc hp i "p" attrs ks = .descend [.startNode (actionFor A anc i "p" attrs)] [.endNode] "p" := by
  have e1 : (("p" : String) == "a") = false := by decide
  have e2 : (("p" : String) == "span") = false := by decide
  have e3 : (("p" : String) == "font") = false := by decide
  have e4 : (("p" : String) == "br") = false := by decide
  have e5 : (("p" : String) == "table") = false := by decide
  have e6 : (("p" : String) == "video") = false := by decide
  have e7 : skipFlushTag "p" = false := by decide +kernel
  have e8 : skipSilentTag "p" = false := by decide +kernel
  unfold tagSwitch jsAnchorText
  simp only [e1, e2, e3, e4, e5, e6, e7, e8, Bool.false_and, Bool.false_eq_true, if_false]

theorem visitElem_p (cfg : CCfg) (A : CAtoms) (anc : List String) (hp : Bool) (i : Nat)
    (attrs : List Attr) (ks : List Node) :
    visitElem cfg A anc hp i "p" attrs ks = .skip ∨
    visitElem cfg A anc hp i "p" attrs ks =
      .descend [.startNode (actionFor A anc i "p" attrs)] [.endNode] "p" := by
  have e1 : embedTag "p" = false := by decide +kernel
  have e2 : nestableTag "p" = false := by decide +kernel
  unfold visitElem
  split
  · left; rfl
  · right
    rw [e1]
    simp only [Bool.false_eq_true, if_false]
    rw [tagSwitch_p, withTags_plain e2]

/-- **A simple paragraph is never cut in the middle.**

`s` is any builder state whose pending window starts inside the node list
(`firstNode ≤ |nodes|`, an invariant of every reachable state: `BInv.first_le`). -/
theorem simple_para_not_cut (cfg : CCfg) (A : CAtoms) (anc : List String) (hp : Bool)
    (pid : Nat) (pattrs : List Attr) (ks : List Node) (s : BSt)
    (hk : plainInlineL ks = true) (hA : PlainAtoms A (allIdsL ks))
    (hwf : s.tb.firstNode ≤ s.tb.nodes.length) :
    let evs := convertNode cfg A anc hp (.elem pid "p" pattrs ks)
    let a := s.tb.nodes.length
    let s' := brun s evs
    s'.tb.nodes = s.tb.nodes ++ nodeIds evs ∧
    (∃ new, s'.out = s.out ++ new ∧
      ∀ e ∈ new, match e with
        | .text t => t.stop ≤ a ∨ (t.start ≤ a ∧ t.stop = a + (nodeIds evs).length)
        | _ => False) ∧
    (s'.tb.firstNode ≤ a ∨ s'.tb.firstNode = a + (nodeIds evs).length) := by
  intro evs a s'
  refine ⟨brun_nodes s evs, ?_⟩
  have hevs : evs = convertNode cfg A anc hp (.elem pid "p" pattrs ks) := rfl
  rw [convertNode_elem] at hevs
  rcases visitElem_p cfg A anc hp pid pattrs ks with h | h
  · rw [h] at hevs
    simp only [] at hevs
    have hs' : s' = s := by show brun s evs = s; rw [hevs]; rfl
    rw [hs']
    exact ⟨⟨[], by simp, by intro e he; cases he⟩, Or.inl hwf⟩
  · rw [h] at hevs
    simp only [] at hevs
    generalize actionFor A anc pid "p" pattrs = act at hevs
    generalize hmid : convertKids cfg A ("p" :: anc) ks = mid at hevs
    -- the three phases
    have hs' : s' = bstep (brun (bstep s (.startNode act)) mid) .endNode := by
      show brun s evs = _
      rw [hevs, brun_append, brun_append, brun_one, brun_one]
    have hids : nodeIds evs = nodeIds mid := by
      rw [hevs, nodeIds_append, nodeIds_append]; simp [nodeIds]
    -- phase 1
    have n1 : (bstep s (.startNode act)).tb.nodes = s.tb.nodes := by
      simp only [bstep]; split <;> rfl
    have f1 : (bstep s (.startNode act)).tb.firstNode = s.tb.firstNode := by
      simp only [bstep]; split <;> rfl
    have st1 : (bstep s (.startNode act)).stack = act :: s.stack := rfl
    have o1 : (bstep s (.startNode act)).out = s.out := rfl
    have p1 : PInv a (bstep s (.startNode act)) :=
      ⟨by rw [n1]; exact Nat.le_refl _, by rw [f1]; exact hwf, by rw [n1]; intro h; exact absurd h (Nat.lt_irrefl _)⟩
    -- phase 2
    have m := kids_ok cfg A a ks ("p" :: anc) _ hk hA p1
    rw [hmid] at m
    have n2 : (brun (bstep s (.startNode act)) mid).tb.nodes = s.tb.nodes ++ nodeIds mid := by
      rw [brun_nodes, n1]
    obtain ⟨new2, e2, ok2⟩ := m.out
    -- phase 3
    obtain ⟨_, _, n3, h4⟩ := endNode_spec (brun (bstep s (.startNode act)) mid) act s.stack (by rw [m.stack, st1])
    have len2 : (brun (bstep s (.startNode act)) mid).tb.nodes.length = a + (nodeIds mid).length := by
      rw [n2, List.length_append]
    have first2 := m.inv.first
    rw [hs', hids]
    have conv : ∀ e ∈ new2, match e with
        | .text t => t.stop ≤ a ∨ (t.start ≤ a ∧ t.stop = a + (nodeIds mid).length)
        | _ => False := by
      intro e he
      obtain ⟨t, rfl, ht⟩ := ok2 e he
      exact Or.inl ht
    rcases h4 with ⟨_, h5, h6⟩ | ⟨_, hF1, hF2⟩
    · refine ⟨⟨new2, by rw [h6, e2, o1], conv⟩, Or.inl (by rw [h5]; exact first2)⟩
    · refine ⟨?_, ?_⟩
      · rcases hF2 with ho | ⟨t, ho, t1, t2⟩
        · exact ⟨new2, by rw [ho, e2, o1], conv⟩
        · refine ⟨new2 ++ [.text t], by rw [ho, e2, o1, List.append_assoc], ?_⟩
          intro e he
          rcases List.mem_append.1 he with he | he
          · exact conv e he
          · simp only [List.mem_singleton] at he
            subst he
            exact Or.inr ⟨by rw [t1]; exact first2, by rw [t2, len2]⟩
      · rcases hF1 with hf | hf
        · exact Or.inl (by rw [hf]; exact first2)
        · exact Or.inr (by rw [hf, len2])

/-- the same for every state the builder can actually be in -/
theorem simple_para_not_cut_reachable (cfg : CCfg) (A : CAtoms) (anc : List String) (hp : Bool)
    (pid : Nat) (pattrs : List Attr) (ks : List Node) (before : List BEv)
    (hk : plainInlineL ks = true) (hA : PlainAtoms A (allIdsL ks)) :
    let s := brun {} before
    let evs := convertNode cfg A anc hp (.elem pid "p" pattrs ks)
    let a := s.tb.nodes.length
    let s' := brun s evs
    s'.tb.nodes = s.tb.nodes ++ nodeIds evs ∧
    (∃ new, s'.out = s.out ++ new ∧
      ∀ e ∈ new, match e with
        | .text t => t.stop ≤ a ∨ (t.start ≤ a ∧ t.stop = a + (nodeIds evs).length)
        | _ => False) ∧
    (s'.tb.firstNode ≤ a ∨ s'.tb.firstNode = a + (nodeIds evs).length) :=
  simple_para_not_cut cfg A anc hp pid pattrs ks _ hk hA (BInv.run {} before BInv.init).first_le

/-! ### the hypotheses are satisfiable: `<p>a <b>b</b><br>c <a href="javascript:void(0)">d</a> e</p>` -/

def exKids : List Node :=
  [.text 1 "a ", .elem 2 "b" [⟨"data-vid", "2"⟩] [.text 3 "b"], .elem 4 "br" [] [], .text 5 "c ",
   .elem 6 "a" [⟨"href", "javascript:void(0)"⟩] [.text 7 "d"], .text 8 " e"]

def exAtoms : CAtoms :=
  { styleDisplay := fun _ => "", visHidden := fun _ => false, byline := fun _ => false,
    rxUnlikely := fun _ => false, rxMaybe := fun _ => false, embed := fun _ => .none,
    dataTable := fun _ => false, blank := fun _ => false, words := fun _ => 1 }

example : plainInlineL exKids = true := by decide +kernel

example : PlainAtoms exAtoms (allIdsL exKids) := fun _ _ => ⟨rfl, rfl, rfl, rfl, rfl, rfl⟩

/-- and the paragraph is not skipped: all six text/br nodes reach the builder -/
example : nodeIds (convertNode ⟨true⟩ exAtoms ["body"] true (.elem 0 "p" [] exKids)) = [1, 3, 4, 5, 7, 8] := by
  decide +kernel

/-- the hypothesis `firstNode ≤ |nodes|` of `simple_para_not_cut` cannot be dropped: in the
(unreachable) state with an empty node list and `firstNode = 1`, a paragraph inside `<li>`
leaves `firstNode = 1`, strictly inside its six nodes -/
example :
    ¬ (let s : BSt := { tb := { firstNode := 1 } }
       let s' := brun s (convertNode ⟨true⟩ exAtoms ["li"] true (.elem 0 "p" [] exKids))
       s'.tb.firstNode ≤ 0 ∨ s'.tb.firstNode = 0 + 6) := by
  decide +kernel

#print axioms simple_para_not_cut
#print axioms simple_para_not_cut_reachable

end Distill
