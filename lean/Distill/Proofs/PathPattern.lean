/-
  Proofs about the byte-level model of `PathComponentPagePattern.IsPagingURL`
  (Model/PathPattern.lean): no index or slice expression can be out of range.
-/
import Distill.Model.PathPattern
namespace Distill.PP

/-- what the constructor establishes about the stored fields -/
structure WF (pp : PathPat) : Prop where
  seg_nonneg : 0 ≤ pp.segStart
  seg_lt : pp.segStart < pp.pStart
  p_lt : pp.pStart < pp.str.length
  pre_len : (pp.pre.length : Int) = pp.segStart

/-! ### partial operations -/

theorem idx_some {s : Bytes} {i : Int} (h0 : 0 ≤ i) (h1 : i < s.length) :
    ∃ c, idx s i = some c := by
  have h : i.toNat < s.length := by omega
  refine ⟨s[i.toNat], ?_⟩
  unfold idx
  rw [if_pos ⟨h0, h1⟩]
  exact List.getElem?_eq_getElem h

theorem slice_some {s : Bytes} {i j : Int} (h0 : 0 ≤ i) (h1 : i ≤ j) (h2 : j ≤ s.length) :
    ∃ r, slice s i j = some r := by
  unfold slice
  rw [if_pos ⟨h0, h1, h2⟩]
  exact ⟨_, rfl⟩

theorem sliceTo_some {s : Bytes} {j : Int} (h0 : 0 ≤ j) (h2 : j ≤ s.length) :
    ∃ r, sliceTo s j = some r := slice_some (Int.le_refl 0) h0 h2

theorem sliceTo_eq_some {s h : Bytes} {j : Int} (hh : sliceTo s j = some h) :
    0 ≤ j ∧ j ≤ s.length ∧ (h.length : Int) = j := by
  unfold sliceTo slice at hh
  by_cases hc : (0 : Int) ≤ 0 ∧ 0 ≤ j ∧ j ≤ s.length
  · rw [if_pos hc] at hh
    obtain ⟨_, h0, h2⟩ := hc
    refine ⟨h0, h2, ?_⟩
    have : h = (s.drop (0 : Int).toNat).take (j - 0).toNat := by
      injection hh with hh; exact hh.symm
    subst this
    simp only [List.length_take, List.length_drop]
    omega
  · rw [if_neg hc] at hh
    cases hh

/-! ### `strings.LastIndex(s, "/")` -/

theorem lastIndexSlash_go_range (l : Bytes) (i : Nat) (acc : Int) :
    lastIndexSlash.go l i acc = acc ∨
      ((i : Int) ≤ lastIndexSlash.go l i acc ∧ lastIndexSlash.go l i acc < (i : Int) + l.length) := by
  induction l generalizing i acc with
  | nil => left; rfl
  | cons b rest ih =>
    unfold lastIndexSlash.go
    rcases ih (i + 1) (if b == slash then (i : Int) else acc) with h | h
    · rw [h]
      by_cases hb : (b == slash) = true
      · rw [if_pos hb]; right; simp only [List.length_cons]; omega
      · rw [if_neg hb]; left; rfl
    · right; simp only [List.length_cons]; omega

theorem lastIndexSlash_range (s : Bytes) :
    -1 ≤ lastIndexSlash s ∧ lastIndexSlash s < s.length := by
  unfold lastIndexSlash
  rcases lastIndexSlash_go_range s 0 (-1) with h | h
  · rw [h]; omega
  · omega

/-! ### `strings.Index(s, "[*!]")` -/

theorem indexPlaceholder_go_range (l : Bytes) (k : Nat) :
    indexPlaceholder.go l k = -1 ∨
      ((k : Int) ≤ indexPlaceholder.go l k ∧ indexPlaceholder.go l k + 4 ≤ (k : Int) + l.length) := by
  induction l generalizing k with
  | nil => left; rfl
  | cons b rest ih =>
    unfold indexPlaceholder.go
    by_cases hp : placeholder.isPrefixOf (b :: rest) = true
    · rw [if_pos hp]
      right
      have := (List.isPrefixOf_iff_prefix.mp hp).length_le
      simp only [placeholder, List.length_cons, List.length_nil] at this ⊢
      omega
    · rw [if_neg hp]
      rcases ih (k + 1) with h | h
      · left; exact h
      · right; simp only [List.length_cons]; omega

theorem indexPlaceholder_range (s : Bytes) :
    indexPlaceholder s = -1 ∨ (0 ≤ indexPlaceholder s ∧ indexPlaceholder s + 4 ≤ s.length) := by
  unfold indexPlaceholder
  rcases indexPlaceholder_go_range s 0 with h | h
  · left; exact h
  · right; omega

theorem hasPrefix_len {s p : Bytes} (h : hasPrefix s p = true) : p.length ≤ s.length :=
  (List.isPrefixOf_iff_prefix.mp h).length_le

theorem hasSuffix_len {s p : Bytes} (h : hasSuffix s p = true) : p.length ≤ s.length :=
  (List.isSuffixOf_iff_suffix.mp h).length_le

/-! ### `IsPagingURL` -/

theorem firstDiff_some (pp : PathPat) (url : Bytes) (maxPos : Int)
    (hm1 : maxPos ≤ url.length) (hm2 : maxPos ≤ pp.str.length) (fuel : Nat) (pos : Int) (h0 : 0 ≤ pos) :
    ∃ d, firstDiff pp url pos maxPos fuel = some d ∧ pos ≤ d ∧ (d ≤ maxPos ∨ d = pos) := by
  induction fuel generalizing pos with
  | zero => exact ⟨pos, rfl, Int.le_refl _, Or.inr rfl⟩
  | succ n ih =>
    unfold firstDiff
    by_cases hc : pos < maxPos
    · rw [if_pos hc]
      obtain ⟨a, ha⟩ := idx_some (s := url) h0 (by omega)
      obtain ⟨b, hb⟩ := idx_some (s := pp.str) h0 (by omega)
      simp only [bind, pure, ha, hb, Option.bind_some]
      by_cases hab : (a != b) = true
      · rw [if_pos hab]; exact ⟨pos, rfl, Int.le_refl _, Or.inr rfl⟩
      · rw [if_neg hab]
        obtain ⟨d, hd, h1, h2⟩ := ih (pos + 1) (by omega)
        exact ⟨d, hd, by omega, by omega⟩
    · rw [if_neg hc]; exact ⟨pos, rfl, Int.le_refl _, Or.inr rfl⟩

theorem startOfComponent_total (pp : PathPat) (h : WF pp) (url : Bytes)
    (hs : pp.suf.length ≤ url.length) : (startOfComponent pp url).isSome = true := by
  obtain ⟨h_0, h_lt, h_p, h_pre⟩ := h
  obtain ⟨head, hhead⟩ := sliceTo_some (s := pp.str) (j := pp.segStart) h_0 (by omega)
  obtain ⟨_, _, hl⟩ := sliceTo_eq_some hhead
  have hr := lastIndexSlash_range head
  simp only [startOfComponent, bind, pure, hhead, Option.bind_some]
  by_cases c1 : lastIndexSlash head ≥ pp.origin ∧ lastIndexSlash head + pp.suf.length = url.length
  · rw [if_pos c1]
    obtain ⟨a, ha⟩ := sliceTo_some (s := url) (j := lastIndexSlash head) (by omega) (by omega)
    obtain ⟨b, hb⟩ := sliceTo_some (s := pp.str) (j := lastIndexSlash head) (by omega) (by omega)
    simp only [ha, hb, Option.bind_some, Option.isSome_some]
  · rw [if_neg c1]
    by_cases c2 : hasPrefix url pp.pre = true
    · rw [if_pos c2]
      have hp := hasPrefix_len c2
      by_cases c3 : pp.segStart + pp.suf.length = url.length
      · rw [if_pos c3]; rfl
      · rw [if_neg c3]
        by_cases c4 : pp.segStart + pp.suf.length > url.length
        · rw [if_pos c4]; rfl
        · rw [if_neg c4]
          obtain ⟨c, hc⟩ := idx_some (s := url) (i := pp.segStart) h_0 (by omega)
          simp only [hc, Option.bind_some]
          by_cases c5 : (c != slash) = true
          · rw [if_pos c5]; rfl
          · rw [if_neg c5]
            obtain ⟨n, hn⟩ := slice_some (s := url) (i := pp.segStart + 1)
              (j := (url.length : Int) - pp.suf.length) (by omega) (by omega) (by omega)
            simp only [hn, Option.bind_some, Option.isSome_some]
    · rw [if_neg c2]; rfl

theorem notStartOfComponent_total (pp : PathPat) (h : WF pp) (url : Bytes)
    (hs : pp.suf.length ≤ url.length) : (notStartOfComponent pp url).isSome = true := by
  obtain ⟨h_0, h_lt, h_p, h_pre⟩ := h
  simp only [notStartOfComponent, bind, pure]
  by_cases c1 : (!hasPrefix url pp.pre) = true
  · rw [if_pos c1]; rfl
  · rw [if_neg c1]
    have c2 : hasPrefix url pp.pre = true := by simpa using c1
    have hp := hasPrefix_len c2
    generalize hm : (if (url.length : Int) - pp.suf.length < pp.pStart then (url.length : Int) - pp.suf.length else pp.pStart) = maxPos
    have hm1 : maxPos ≤ (url.length : Int) - pp.suf.length := by
      subst hm; by_cases c : (url.length : Int) - pp.suf.length < pp.pStart
      · rw [if_pos c]; omega
      · rw [if_neg c]; omega
    have hm2 : maxPos ≤ pp.pStart := by
      subst hm; by_cases c : (url.length : Int) - pp.suf.length < pp.pStart
      · rw [if_pos c]; omega
      · rw [if_neg c]; omega
    obtain ⟨d, hd, hd1, hd2⟩ := firstDiff_some pp url maxPos (by omega) (by omega)
      (maxPos - pp.segStart).toNat pp.segStart h_0
    simp only [hd, Option.bind_some]
    by_cases c3 : d = (url.length : Int) - pp.suf.length
    · rw [if_pos c3]
      by_cases c4 : d + 1 = pp.pStart
      · rw [if_pos c4]
        obtain ⟨c, hc⟩ := idx_some (s := pp.str) (i := d) (by omega) (by omega)
        simp only [hc, Option.map_some, Option.bind_some]
        by_cases c5 : isSeparator c = true
        · rw [if_pos c5]; rfl
        · rw [if_neg c5]; rfl
      · rw [if_neg c4]
        simp
    · rw [if_neg c3]
      by_cases c4 : d = pp.pStart
      · rw [if_pos c4]
        obtain ⟨n, hn⟩ := slice_some (s := url) (i := d)
              (j := (url.length : Int) - pp.suf.length) (by omega) (by omega) (by omega)
        simp only [hn, Option.bind_some, Option.isSome_some]
      · rw [if_neg c4]; rfl

/-- **`IsPagingURL` never indexes out of range**, for every URL string -/
theorem isPagingURL_total (pp : PathPat) (h : WF pp) (url : Bytes) : (isPagingURL pp url).isSome = true := by
  simp only [isPagingURL, bind, pure]
  by_cases c1 : (!pp.suf.isEmpty) = true ∧ (!hasSuffix url pp.suf) = true
  · rw [if_pos c1]; rfl
  · rw [if_neg c1]
    have hs : pp.suf.length ≤ url.length := by
      by_cases e : pp.suf.isEmpty = true
      · have : pp.suf = [] := List.isEmpty_iff.mp e
        rw [this]; exact Nat.zero_le _
      · by_cases e2 : hasSuffix url pp.suf = true
        · exact hasSuffix_len e2
        · exact absurd ⟨by simpa using e, by simpa using e2⟩ c1
    obtain ⟨c, hc⟩ := idx_some (s := pp.str) (i := pp.pStart - 1)
      (by have := h.seg_nonneg; have := h.seg_lt; omega) (by have := h.p_lt; omega)
    simp only [hc, Option.bind_some]
    by_cases c2 : (c == slash) = true
    · rw [if_pos c2]; exact startOfComponent_total pp h url hs
    · rw [if_neg c2]; exact notStartOfComponent_total pp h url hs

/-! ### construction -/

/-- the fields computed by `NewPathComponentPagePattern` are well-formed whenever the
constructor itself does not index out of range -/
theorem construct_wf (str : Bytes) (origin : Int) (pp : PathPat) (h : construct str origin = some pp) : WF pp := by
  simp only [construct, bind, pure, Option.bind_eq_some_iff] at h
  obtain ⟨head, hhead, pre, hpre, h⟩ := h
  have hpp : ∃ suf, pp = (⟨str, indexPlaceholder str, lastIndexSlash head, pre, suf, origin⟩ : PathPat) := by
    by_cases hc : (str.length : Int) - indexPlaceholder str - 4 > 0
    · rw [if_pos hc, Option.bind_eq_some_iff] at h
      obtain ⟨suf, _, h⟩ := h
      exact ⟨suf, (Option.some.inj h).symm⟩
    · rw [if_neg hc] at h
      exact ⟨[], (Option.some.inj h).symm⟩
  obtain ⟨suf, rfl⟩ := hpp
  obtain ⟨h0, h1, h2⟩ := sliceTo_eq_some hhead
  obtain ⟨g0, g1, g2⟩ := sliceTo_eq_some hpre
  have hr := lastIndexSlash_range head
  have hi := indexPlaceholder_range str
  refine ⟨g0, ?_, ?_, g2⟩
  · show lastIndexSlash head < indexPlaceholder str
    omega
  · show indexPlaceholder str < str.length
    omega

/-- … and it does not, as soon as the placeholder occurs in the string after a '/' -/
theorem construct_total (str : Bytes) (origin : Int)
    (h1 : 0 ≤ indexPlaceholder str)
    (h2 : ∀ head, sliceTo str (indexPlaceholder str) = some head → 0 ≤ lastIndexSlash head) :
    (construct str origin).isSome = true := by
  have hi := indexPlaceholder_range str
  have hi' : indexPlaceholder str + 4 ≤ str.length := by omega
  obtain ⟨head, hhead⟩ : ∃ r, sliceTo str (indexPlaceholder str) = some r :=
    sliceTo_some h1 (by omega)
  have hseg := h2 head hhead
  obtain ⟨_, _, hl⟩ := sliceTo_eq_some hhead
  have hr := lastIndexSlash_range head
  obtain ⟨pre, hpre⟩ : ∃ r, sliceTo str (lastIndexSlash head) = some r :=
    sliceTo_some hseg (by omega)
  simp only [construct, bind, pure, hhead, hpre, Option.bind_some]
  by_cases hc : (str.length : Int) - indexPlaceholder str - 4 > 0
  · rw [if_pos hc]
    obtain ⟨suf, hsuf⟩ : ∃ r, slice str ((str.length : Int) - ((str.length : Int) - indexPlaceholder str - 4)) str.length = some r :=
      slice_some (by omega) (by omega) (by omega)
    rw [hsuf]; rfl
  · rw [if_neg hc]; rfl

end Distill.PP
