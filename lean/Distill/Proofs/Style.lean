/-
  Proofs about `Model/Style.lean`: every spelling of a `display` declaration is read, any number of
  them cascade as CSS says; every spelling of `visibility: hidden | collapse` is recognised wherever
  it stands in the attribute.
-/
import Distill.Model.Style
namespace Distill.Style

/-- `s` is a spelling of the lower-case word `l` under `(?i)` -/
inductive FoldsTo : List Char → List Char → Prop
  | nil : FoldsTo [] []
  | cons {c x : Char} {s l : List Char} : foldEq c x = true → FoldsTo s l → FoldsTo (c :: s) (x :: l)

def AllWS (w : List Char) : Prop := ∀ c ∈ w, isWS c = true

theorem foldsTo_cons_left {s l : List Char} {x : Char} (h : FoldsTo s (x :: l)) : ∃ c r, s = c :: r := by
  cases h with
  | cons _ _ => exact ⟨_, _, rfl⟩

theorem lit_append {s l : List Char} (h : FoldsTo s l) (r : List Char) : lit l (s ++ r) = some r := by
  induction h with
  | nil => cases r <;> rfl
  | cons hc _ ih => simp [lit, hc, ih]

theorem span_append (p : Char → Bool) (a b : List Char) (ha : ∀ c ∈ a, p c = true)
    (hb : b = [] ∨ ∃ c t, b = c :: t ∧ p c = false) :
    (a ++ b).takeWhile p = a ∧ (a ++ b).dropWhile p = b := by
  induction a with
  | nil =>
    rcases hb with rfl | ⟨c, t, rfl, hc⟩
    · simp
    · simp [hc]
  | cons x a ih =>
    have hx := ha x (by simp)
    have := ih (fun c hc => ha c (by simp [hc]))
    simp [hx, this.1, this.2]

theorem skipWS_append (w b : List Char) (hw : AllWS w) (hb : b = [] ∨ ∃ c t, b = c :: t ∧ isWS c = false) :
    skipWS (w ++ b) = b := (span_append isWS w b hw hb).2

theorem ws_not_word {c : Char} (h : isWS c = true) : isWordDash c = false := by
  have : c = ' ' ∨ c = '\n' ∨ c = '\t' ∨ c = '\r' ∨ c = '\x0c' := by
    simp only [isWS, Bool.or_eq_true, beq_iff_eq] at h
    rcases h with (((h | h) | h) | h) | h <;> simp [h]
  rcases this with h | h | h | h | h <;> subst h <;> decide

theorem word_not_ws {c : Char} (h : isWordDash c = true) : isWS c = false := by
  cases hw : isWS c
  · rfl
  · rw [ws_not_word hw] at h; cases h

/-- one `display` declaration, every part spelled freely -/
structure Decl where
  name : List Char                 -- a spelling of "display"
  ws1 : List Char
  ws2 : List Char
  value : List Char
  ws3 : List Char
  imp : Option (List Char × List Char × List Char)   -- white space, a spelling of "important", white space

def Decl.tail (d : Decl) : List Char :=
  match d.imp with
  | none => []
  | some (w4, i, w5) => '!' :: w4 ++ i ++ w5

/-- the declaration as written, with its closing semicolon -/
def Decl.text (d : Decl) : List Char :=
  d.name ++ d.ws1 ++ ':' :: d.ws2 ++ d.value ++ d.ws3 ++ d.tail ++ [';']

def Decl.WF (d : Decl) : Prop :=
  FoldsTo d.name "display".toList ∧ AllWS d.ws1 ∧ AllWS d.ws2 ∧ AllWS d.ws3 ∧
  d.value ≠ [] ∧ (∀ c ∈ d.value, isWordDash c = true) ∧
  match d.imp with
  | none => True
  | some (w4, i, w5) => AllWS w4 ∧ AllWS w5 ∧ FoldsTo i "important".toList ∧ ∀ c ∈ i, isWS c = false

def Decl.toMatch (d : Decl) : DMatch := ⟨d.value, d.imp.isSome⟩

theorem displayAt_decl (d : Decl) (h : d.WF) (t : List Char) :
    displayAt (d.text ++ t) = some (d.toMatch, t) := by
  obtain ⟨hn, h1, h2, h3, hv, hvw, himp⟩ := h
  obtain ⟨v0, vs, hvv⟩ : ∃ v0 vs, d.value = v0 :: vs := by
    cases hd : d.value with
    | nil => exact absurd hd hv
    | cons a b => exact ⟨a, b, rfl⟩
  have hv0 : isWordDash v0 = true := hvw v0 (by simp [hvv])
  have colon_nws : isWS ':' = false := by decide
  have semi_nws : isWS ';' = false := by decide
  have semi_nw : isWordDash ';' = false := by decide
  have bang_nws : isWS '!' = false := by decide
  have bang_nw : isWordDash '!' = false := by decide
  -- the text, re-associated so every step peels one part
  have e : d.text ++ t =
      d.name ++ (d.ws1 ++ (':' :: (d.ws2 ++ (d.value ++ (d.ws3 ++ (d.tail ++ (';' :: t))))))) := by
    simp [Decl.text]
  rw [e]
  unfold displayAt
  rw [lit_append hn]
  simp only []
  rw [skipWS_append d.ws1 _ h1 (Or.inr ⟨':', _, rfl, colon_nws⟩)]
  simp only []
  rw [skipWS_append d.ws2 _ h2 (Or.inr ⟨v0, vs ++ (d.ws3 ++ (d.tail ++ (';' :: t))), by simp [hvv], word_not_ws hv0⟩)]
  -- the value is the maximal run of word characters: what follows starts with white space, `!` or `;`
  have hfollow : (d.ws3 ++ (d.tail ++ (';' :: t))) = [] ∨
      ∃ c r, (d.ws3 ++ (d.tail ++ (';' :: t))) = c :: r ∧ isWordDash c = false := by
    right
    cases hw : d.ws3 with
    | cons c r => exact ⟨c, r ++ (d.tail ++ (';' :: t)), by simp, ws_not_word (h3 c (by simp [hw]))⟩
    | nil =>
      cases hi : d.imp with
      | none => exact ⟨';', t, by simp [Decl.tail, hi], semi_nw⟩
      | some x =>
        obtain ⟨w4, i, w5⟩ := x
        exact ⟨'!', w4 ++ (i ++ (w5 ++ (';' :: t))), by simp [Decl.tail, hi], bang_nw⟩
  have hspan := span_append isWordDash d.value _ hvw hfollow
  rw [hspan.1, hspan.2]
  have hne : d.value.isEmpty = false := by simp [hvv]
  simp only [hne, Bool.false_eq_true, ↓reduceIte]
  cases hi : d.imp with
  | none =>
    have : d.tail = [] := by simp [Decl.tail, hi]
    rw [this, List.nil_append, skipWS_append d.ws3 _ h3 (Or.inr ⟨';', t, rfl, semi_nws⟩)]
    simp [Decl.toMatch, hi]
  | some x =>
    obtain ⟨w4, i, w5⟩ := x
    rw [hi] at himp
    obtain ⟨h4, h5, hi', hinws⟩ := himp
    obtain ⟨i0, is', hii⟩ : ∃ i0 is', i = i0 :: is' := by
      cases hi' with
      | cons _ _ => exact ⟨_, _, rfl⟩
    have : d.tail ++ (';' :: t) = '!' :: (w4 ++ (i ++ (w5 ++ (';' :: t)))) := by simp [Decl.tail, hi]
    rw [this, skipWS_append d.ws3 _ h3 (Or.inr ⟨'!', _, rfl, bang_nws⟩)]
    simp only []
    rw [skipWS_append w4 _ h4 (Or.inr ⟨i0, is' ++ (w5 ++ (';' :: t)), by simp [hii], hinws i0 (by simp [hii])⟩)]
    rw [lit_append hi']
    simp only []
    rw [skipWS_append w5 _ h5 (Or.inr ⟨';', t, rfl, semi_nws⟩)]
    simp [Decl.toMatch, hi]

/-- declarations one after the other -/
def render (ds : List Decl) : List Char := ds.flatMap Decl.text

theorem decl_text_cons (d : Decl) (h : d.WF) : ∃ c r, d.text = c :: r := by
  obtain ⟨hn, _⟩ := h
  obtain ⟨c, r, hcr⟩ := foldsTo_cons_left hn
  exact ⟨c, r ++ d.ws1 ++ ':' :: d.ws2 ++ d.value ++ d.ws3 ++ d.tail ++ [';'], by simp [Decl.text, hcr]⟩

theorem displayAll_render (ds : List Decl) (h : ∀ d ∈ ds, d.WF) :
    ∀ fuel, (render ds).length < fuel → displayAll fuel (render ds) = ds.map Decl.toMatch := by
  induction ds with
  | nil =>
    intro fuel hf
    cases fuel with
    | zero => simp at hf
    | succ f => rfl
  | cons d ds ih =>
    intro fuel hf
    have hd := h d (by simp)
    obtain ⟨c, r, hcr⟩ := decl_text_cons d hd
    have e : render (d :: ds) = d.text ++ render ds := by simp [render]
    have hm := displayAt_decl d hd (render ds)
    rw [e] at hf ⊢
    rw [hcr] at hm hf ⊢
    cases fuel with
    | zero => simp at hf
    | succ f =>
      simp only [List.cons_append] at hm hf ⊢
      simp only [displayAll, hm, List.map_cons]
      rw [ih (fun x hx => h x (by simp [hx])) f (by simp at hf; omega)]

theorem cascade_append (cur : Option DMatch) (a b : List DMatch) :
    cascade cur (a ++ b) = cascade (cascade cur a) b := by
  induction a generalizing cur with
  | nil => rfl
  | cons m ms ih =>
    cases cur with
    | none => simp [cascade, ih]
    | some c =>
      simp only [List.cons_append, cascade]
      split <;> exact ih _

theorem cascade_unimportant_last (ms : List DMatch) (hms : ∀ x ∈ ms, x.important = false) (m : DMatch) :
    ∀ cur : Option DMatch, (∀ c, cur = some c → c.important = false) →
      cascade cur (ms ++ [m]) = some ⟨m.value, m.important⟩ := by
  induction ms with
  | nil =>
    intro cur hcur
    cases cur with
    | none => simp [cascade]
    | some c =>
      have := hcur c rfl
      simp [cascade, this]
  | cons x xs ih =>
    intro cur hcur
    have hx := hms x (by simp)
    have ih' := ih (fun y hy => hms y (by simp [hy]))
    cases cur with
    | none =>
      simp only [List.cons_append, cascade]
      exact ih' _ (by intro c hc; cases hc; exact hx)
    | some c =>
      have hc := hcur c rfl
      simp only [List.cons_append, cascade, hx, hc, Bool.not_false, Bool.or_true, ↓reduceIte, Bool.or_self]
      exact ih' _ (by intro c' hc'; cases hc'; rfl)

theorem cascade_important_stays (c : DMatch) (hc : c.important = true) (ls : List DMatch)
    (hls : ∀ x ∈ ls, x.important = false) : cascade (some c) ls = some c := by
  induction ls with
  | nil => rfl
  | cons x xs ih =>
    have hx := hls x (by simp)
    simp only [cascade, hx, hc, Bool.not_true, Bool.or_self, Bool.false_eq_true, ↓reduceIte]
    exact ih (fun y hy => hls y (by simp [hy]))

/-- `visAt` on a spelled declaration -/
theorem visAt_spelled (name w1 w2 kw b : List Char) (hn : FoldsTo name "visibility".toList)
    (h1 : AllWS w1) (h2 : AllWS w2)
    (hk : (FoldsTo kw "hidden".toList ∨ FoldsTo kw "collapse".toList) ∧ ∀ c ∈ kw, isWS c = false ∧ c ≠ ':') :
    visAt (name ++ w1 ++ ':' :: w2 ++ kw ++ b) = true := by
  have colon_nws : isWS ':' = false := by decide
  obtain ⟨k0, ks, hkk⟩ : ∃ k0 ks, kw = k0 :: ks := by
    rcases hk.1 with h | h <;> cases h with
    | cons _ _ => exact ⟨_, _, rfl⟩
  have hk0 := hk.2 k0 (by simp [hkk])
  have e : name ++ w1 ++ ':' :: w2 ++ kw ++ b = name ++ (w1 ++ (':' :: (w2 ++ (kw ++ b)))) := by simp
  rw [e]
  unfold visAt
  rw [lit_append hn]
  simp only []
  rw [skipWS_append w1 _ h1 (Or.inr ⟨':', _, rfl, colon_nws⟩)]
  simp only []
  rw [skipWS_append w2 _ h2 (Or.inr ⟨k0, ks ++ b, by simp [hkk], hk0.1⟩)]
  subst hkk
  simp only [List.cons_append]
  split
  · rename_i r heq
    simp only [List.cons.injEq] at heq
    exact absurd heq.1 hk0.2
  · rcases hk.1 with h | h
    · have := lit_append h b
      simp only [List.cons_append] at this
      rw [this]; simp
    · have := lit_append h b
      simp only [List.cons_append] at this
      rw [this]; simp

theorem visHidden_append_left (a s : List Char) (h : visHidden s = true) : visHidden (a ++ s) = true := by
  induction a with
  | nil => exact h
  | cons c cs ih => simp [visHidden, ih]

theorem visHidden_of_visAt (s : List Char) (h : visAt s = true) : visHidden s = true := by
  cases s with
  | nil => simp [visAt, lit] at h
  | cons c cs => simp [visHidden, h]

end Distill.Style
