/-
  Proofs about `Model/LinkScore.lean`: the score of an anchor that raises none of the text-driven
  penalties decomposes into context + label bonus + number bonus + page-difference bonus, and so a
  labelled anchor to the neighbouring page beats every numbered anchor of the same pager.
-/
import Distill.Model.LinkScore
namespace Distill.LinkScore

/-- the anchor gets past every filter of the loop -/
def passes (next : Bool) (F : Facts) : Bool :=
  F.absOK && F.hasPrefix && (!next || F.restHasDigit) && F.cleanOK &&
  !(F.eqCurrent || (next && F.eqFolder)) && !(F.text.utf8ByteSize > 25) &&
  !rxExtraneous F.text.toList && (!next || rxNumber F.remainder.toList)

/-- none of the text-driven adjustments applies: no pagination / first-last / negative / extraneous /
opposite-direction word in text+class+id, no extraneous word in the href, text of at most 10 bytes -/
def quiet (next : Bool) (F : Facts) : Bool :=
  !rxPagination (dataOf F) && !(rxFirstLast (dataOf F) && !own next F.text.toList) &&
  !(rxNegative (dataOf F) || rxExtraneous (dataOf F)) && !opp next (dataOf F) &&
  !rxExtraneous F.href.toList && !(F.text.utf8ByteSize > 10)

/-- what the anchor's surroundings and URL contribute, whatever its text -/
def ctx (F : Facts) : Int :=
  (if F.inFolder then 0 else -25) + parentScore false false F.parents +
  (if rxLinkPagination F.href.toList || rxPagination F.href.toList then 25 else 0)

theorem numBonus_le (next : Bool) (t : List Char) : numBonus next t ≤ 9 := by
  unfold numBonus
  simp only []
  split
  · split
    · omega
    · split <;> omega
  · omega

theorem diffBonus_le (next : Bool) (F : Facts) : diffBonus next F ≤ 25 := by
  unfold diffBonus
  split
  · split <;> omega
  · omega

theorem parentScore_ge (ps : List (String × String)) :
    ∀ pos neg, parentScore pos neg ps ≥ (if neg then 0 else -25) := by
  induction ps with
  | nil => intro pos neg; cases neg <;> simp [parentScore]
  | cons p ps ih =>
    intro pos neg
    obtain ⟨c, i⟩ := p
    unfold parentScore
    cases hpn : (pos && neg)
    · simp only [Bool.false_eq_true, ↓reduceIte]
      have h1 := ih (pos || (!pos && rxPagination (c.toList ++ ' ' :: i.toList)))
        (neg || (!neg && rxNegative (c.toList ++ ' ' :: i.toList) && !rxPositive (c.toList ++ ' ' :: i.toList)))
      cases neg
      · cases hn : (rxNegative (c.toList ++ ' ' :: i.toList) && !rxPositive (c.toList ++ ' ' :: i.toList))
        · simp [hn] at h1 ⊢
          split <;> omega
        · simp [hn] at h1 ⊢
          split <;> omega
      · simp at h1 ⊢
        split <;> omega
    · simp only [↓reduceIte]
      cases neg <;> simp

theorem ctx_ge (F : Facts) (h : F.inFolder = true) : ctx F ≥ -25 := by
  unfold ctx
  have := parentScore_ge F.parents false false
  simp only [Bool.false_eq_true, ↓reduceIte] at this
  simp only [h, ↓reduceIte]
  split <;> omega

theorem filterOutcome_none_iff (next : Bool) (F : Facts) : filterOutcome next F = none ↔ passes next F = true := by
  unfold filterOutcome passes
  cases F.absOK <;> cases F.hasPrefix <;> cases F.cleanOK <;> cases next <;> cases F.restHasDigit <;>
    cases F.eqCurrent <;> cases F.eqFolder <;> cases rxExtraneous F.text.toList <;>
    cases rxNumber F.remainder.toList <;> by_cases h : F.text.utf8ByteSize > 25 <;> simp [h]

/-- the filters never produce a candidate -/
theorem filterOutcome_not_cand (next : Bool) (F : Facts) (v : Verdict) (sc : Int) (h : filterOutcome next F = some v) :
    v ≠ .cand sc := by
  unfold filterOutcome at h
  repeat' split at h
  all_goals (first | (cases h; intro hc; cases hc) | (cases h))

/-- an anchor that becomes a candidate got past every filter -/
theorem verdict_cand_passes (next : Bool) (F : Facts) (sc : Int) (h : verdict next F = .cand sc) :
    passes next F = true := by
  unfold verdict at h
  split at h
  · rename_i v hv
    exact absurd h (filterOutcome_not_cand next F v sc hv)
  · rename_i hn
    exact (filterOutcome_none_iff next F).mp hn

/-- **the score of a quiet anchor**: context + 50 for the label of its direction + number bonus +
page-difference bonus -/
theorem verdict_quiet (next : Bool) (F : Facts) (hp : passes next F = true) (hq : quiet next F = true) :
    verdict next F = .cand (ctx F + (if own next (dataOf F) then 50 else 0) + numBonus next F.text.toList + diffBonus next F) := by
  unfold verdict
  rw [(filterOutcome_none_iff next F).mpr hp]
  simp only [quiet, Bool.and_eq_true, Bool.not_eq_eq_eq_not, Bool.not_true] at hq
  obtain ⟨⟨⟨⟨⟨q1, q2⟩, q3⟩, q4⟩, q5⟩, q6⟩ := hq
  have q6' : ¬ F.text.utf8ByteSize > 10 := by simpa using q6
  simp only []
  congr 1
  unfold score ctx
  simp only [q1, q2, q3, q4, q5, if_neg q6', Bool.false_eq_true, ↓reduceIte]
  omega

/-- **A labelled anchor to the neighbouring page beats a numbered one**: two quiet anchors of one
pager (same contribution of surroundings and URL shape), the first labelled for the direction, not a
number, one page away; the second without the label.  The first scores at least 41 more, and at least
50 when it lies below the folder URL. -/
theorem labelled_beats_numbered (next : Bool) (A B : Facts)
    (hpA : passes next A = true) (hqA : quiet next A = true)
    (hpB : passes next B = true) (hqB : quiet next B = true)
    (hctx : ctx A = ctx B)
    (hA : own next (dataOf A) = true) (hAn : numBonus next A.text.toList = 0) (hAd : diffBonus next A = 25)
    (hB : own next (dataOf B) = false) :
    ∃ sa sb, verdict next A = .cand sa ∧ verdict next B = .cand sb ∧ sa ≥ sb + 41 ∧ (A.inFolder = true → sa ≥ 50) := by
  refine ⟨_, _, verdict_quiet next A hpA hqA, verdict_quiet next B hpB hqB, ?_, ?_⟩
  · have := numBonus_le next B.text.toList
    have := diffBonus_le next B
    simp only [hA, hB, hAn, hAd, hctx, ↓reduceIte, Bool.false_eq_true]
    omega
  · intro hin
    have := ctx_ge A hin
    simp only [hA, hAn, hAd, ↓reduceIte]
    omega

end Distill.LinkScore
