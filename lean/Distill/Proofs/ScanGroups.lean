/-
  From the calls of the DOM scan to the groups: every page info in a group of `runOps ops` was added
  by an `add` call of `ops`.
-/
import Distill.Model.PageGroups
import Distill.Proofs.Scan
namespace Distill.Pg

def added (ops : List GOp) : List PInfo := ops.filterMap fun | .add p => some p | _ => none

/-- every info held by the groups, and the remembered previous one, is in `S` -/
def From (S : PInfo → Prop) (m : MG) : Prop :=
  (∀ g ∈ m.groups, ∀ q ∈ g.list, S q) ∧ (∀ q, m.prev = some q → S q)

theorem mem_setLast {gs : List PGroup} {g x : PGroup} (h : x ∈ setLast gs g) : x ∈ gs ∨ x = g := by
  simp only [setLast, List.mem_append, List.mem_singleton] at h
  rcases h with h | h
  · exact Or.inl ((List.dropLast_sublist _).subset h)
  · exact Or.inr h

theorem from_addGroup (S : PInfo → Prop) (m : MG) (h : From S m) : From S m.addGroup := by
  unfold MG.addGroup
  split
  · exact ⟨by intro g hg q hq; simp at hg; subst hg; simp at hq, by intro q hq; cases hq⟩
  · split
    · exact h
    · refine ⟨?_, by intro q hq; cases hq⟩
      intro g hg q hq
      simp only [List.mem_append, List.mem_singleton] at hg
      rcases hg with hg | rfl
      · exact h.1 g hg q hq
      · simp at hq

theorem from_add (S : PInfo → Prop) (m : MG) (p : PInfo) (h : From S m) (hp : S p) : From S (m.add p) := by
  have hprev : ∀ q, (some p = some q) → S q := by intro q hq; cases hq; exact hp
  unfold MG.add
  split
  · exact h
  · rename_i g hlast
    have hg : g ∈ m.groups := List.mem_of_getLast? hlast
    have hgl : ∀ q ∈ g.list, S q := h.1 g hg
    -- every branch builds the new groups from old groups, lists made of old members, `p`, and `prev`
    have key : ∀ (l : List PInfo) (ds : Int), (∀ q ∈ l, S q) →
        From S { groups := setLast m.groups { list := l, deltaSign := ds }, prev := some p } := by
      intro l ds hl
      refine ⟨?_, hprev⟩
      intro x hx q hq
      rcases mem_setLast hx with hx | rfl
      · exact h.1 x hx q hq
      · exact hl q hq
    have key2 : ∀ (l : List PInfo) (ds : Int), (∀ q ∈ l, S q) →
        From S { groups := m.groups ++ [{ list := l, deltaSign := ds }], prev := some p } := by
      intro l ds hl
      refine ⟨?_, hprev⟩
      intro x hx q hq
      simp only [List.mem_append, List.mem_singleton] at hx
      rcases hx with hx | rfl
      · exact h.1 x hx q hq
      · exact hl q hq
    have hsnoc : ∀ q ∈ g.list ++ [p], S q := by
      intro q hq
      simp only [List.mem_append, List.mem_singleton] at hq
      rcases hq with hq | rfl
      · exact hgl q hq
      · exact hp
    have hone : ∀ q ∈ [p], S q := by intro q hq; simp at hq; subst hq; exact hp
    repeat' (first | split | simp only [])
    all_goals
      first
        | exact key _ _ hone
        | exact key _ _ hsnoc
        | (apply key2
           intro q hq
           simp only [List.mem_append, List.mem_cons, List.not_mem_nil, or_false, false_or] at hq
           first
             | (rcases hq with rfl | rfl
                · exact h.2 _ (by assumption)
                · exact hp)
             | (subst hq; exact hp))

theorem from_cleanUp (S : PInfo → Prop) (m : MG) (h : From S m) : From S m.cleanUp := by
  unfold MG.cleanUp
  split
  · split
    · exact ⟨fun g hg q hq => h.1 g ((List.dropLast_sublist _).subset hg) q hq, h.2⟩
    · exact h
  · exact h

theorem runOps_from (S : PInfo → Prop) (ops : List GOp) (hops : ∀ p ∈ added ops, S p) :
    ∀ m, From S m → From S (ops.foldl MG.step m) := by
  induction ops with
  | nil => intro m hm; exact hm
  | cons o os ih =>
    intro m hm
    simp only [List.foldl_cons]
    apply ih (fun p hp => hops p (by
      unfold added at hp ⊢
      simp only [List.filterMap_cons]
      split
      · exact hp
      · exact List.mem_cons_of_mem _ hp))
    cases o with
    | addGroup => exact from_addGroup S m hm
    | cleanUp => exact from_cleanUp S m hm
    | add p => exact from_add S m p hm (hops p (by simp [added]))

/-- every page info in a group was added by a call -/
theorem runOps_groups_from_added (ops : List GOp) :
    ∀ g ∈ (runOps ops).groups, ∀ q ∈ g.list, q ∈ added ops := by
  have := runOps_from (fun q => q ∈ added ops) ops (fun p hp => hp) {} ⟨by intro g hg; simp at hg, by intro q hq; cases hq⟩
  exact this.1

end Distill.Pg
