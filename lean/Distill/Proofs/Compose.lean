import Distill.Proofs.Convert
import Distill.Proofs.Builder
import Distill.Proofs.TextRender
namespace Distill

/-! ## composing the selection of windows with their rendering

Windows are consecutive, disjoint slices of a sublist of the document-order list `M` of text and
`br` ids.  A Text element renders the text nodes `L.filter (· ∈ window)` where `L` (the text ids)
is itself a sublist of `M`.  Concatenating the renderings in element order then gives a sublist
of `L` again: nothing invented, nothing twice, nothing out of order. -/

theorem mem_of_sublist_mem {l m : List Nat} (h : l.Sublist m) {x : Nat} (hx : x ∈ l) : x ∈ m := h.subset hx

theorem filter_mem_cons_of_not_mem (L : List Nat) (m : Nat) (t : List Nat) (h : ¬ m ∈ L) :
    L.filter (fun i => (m :: t).contains i) = L.filter (fun i => t.contains i) := by
  apply List.filter_congr
  intro x hx
  have : x ≠ m := fun e => h (e ▸ hx)
  simp [this]

/-- elements of `L` in the first window precede those in the later windows -/
theorem filter_append_split : ∀ (M : List Nat), M.Nodup → ∀ (w rest L : List Nat),
    (w ++ rest).Sublist M → L.Sublist M →
    L.filter (fun i => (w ++ rest).contains i) = L.filter (fun i => w.contains i) ++ L.filter (fun i => rest.contains i)
  | [], _, w, rest, L, hw, hL => by
    have hL' : L = [] := List.sublist_nil.mp hL
    subst hL'; simp
  | m :: M', hn, w, rest, L, hw, hL => by
    have hm : ¬ m ∈ M' := (List.nodup_cons.mp hn).1
    have hn' : M'.Nodup := (List.nodup_cons.mp hn).2
    cases w with
    | nil => simp
    | cons a w' =>
      -- shape of L
      cases hL with
      | cons _ hL' =>
        -- L ⊑ M', so m ∉ L
        have hmL : ¬ m ∈ L := fun h => hm (hL'.subset h)
        cases hw with
        | cons _ hw' => exact filter_append_split M' hn' (a :: w') rest L hw' hL'
        | cons_cons _ hw' =>
          -- a = m
          rw [List.cons_append, filter_mem_cons_of_not_mem L m _ hmL, filter_mem_cons_of_not_mem L m w' hmL]
          exact filter_append_split M' hn' w' rest L hw' hL'
      | cons_cons _ hL' =>
        rename_i L'
        have hmL' : ¬ m ∈ L' := fun h => hm (hL'.subset h)
        cases hw with
        | cons _ hw' =>
          -- (a :: w') ++ rest ⊑ M', so m is in none of the windows
          have hmw : ¬ m ∈ (a :: w') ++ rest := fun h => hm (hw'.subset h)
          have hmw1 : ¬ m ∈ (a :: w') := fun h => hmw (List.mem_append_left _ h)
          have hmw2 : ¬ m ∈ rest := fun h => hmw (List.mem_append_right _ h)
          have ih := filter_append_split M' hn' (a :: w') rest L' hw' hL'
          have c0 : ((a :: w') ++ rest).contains m = false := by simpa using hmw
          have c1 : (a :: w').contains m = false := by simpa using hmw1
          have c2 : rest.contains m = false := by simpa using hmw2
          simp only [List.filter_cons, c0, c1, c2, Bool.false_eq_true, if_false]
          exact ih
        | cons_cons _ hw' =>
          -- a = m: m opens both L and the first window
          have hmrest : ¬ m ∈ rest := fun h => hm (hw'.subset (List.mem_append_right _ h))
          have ih := filter_append_split M' hn' w' rest L' hw' hL'
          have c0 : ((m :: w') ++ rest).contains m = true := by simp
          have c1 : (m :: w').contains m = true := by simp
          have c2 : rest.contains m = false := by simpa using hmrest
          simp only [List.filter_cons, c0, c1, c2, if_true, Bool.false_eq_true, if_false, List.cons_append]
          rw [List.cons_append] at *
          rw [filter_mem_cons_of_not_mem L' m (w' ++ rest) hmL', filter_mem_cons_of_not_mem L' m w' hmL', ih]
          simp

/-- concatenating, window by window, the part of `L` that lies in the window gives the part of `L`
that lies in any window -/
theorem filters_flatten (M : List Nat) (hn : M.Nodup) (L : List Nat) (hL : L.Sublist M) :
    ∀ (ws : List (List Nat)), ws.flatten.Sublist M →
    (ws.map (fun w => L.filter (fun i => w.contains i))).flatten = L.filter (fun i => ws.flatten.contains i)
  | [], _ => by simp
  | w :: rest, h => by
    simp only [List.map_cons, List.flatten_cons] at h ⊢
    rw [filter_append_split M hn w rest.flatten L h hL]
    have hrest : rest.flatten.Sublist M := (List.sublist_append_right w rest.flatten).trans h
    rw [filters_flatten M hn L hL rest hrest]

/-- **Selection and rendering composed.** Whatever Text elements are kept, the text nodes their
renderings hold — `textIds.filter (· ∈ window)` each, by `text_render_excerpt` — concatenated in
element order, are a sublist of the source's text nodes: only source text, each node at most once,
in source order.  (`brTextIds` has no repetition because ids are pre-order positions.) -/
theorem rendered_concat_excerpt (cfg : CCfg) (A : CAtoms) (anc : List String) (hp : Bool) (n : Node)
    (keep : TextEl → Bool) (hn : n.brTextIds.Nodup) (hsub : n.textIds.Sublist n.brTextIds) :
    ((((textsOf (buildDoc (convert cfg A anc hp n))).filter keep).map
        (fun t => n.textIds.filter (fun i => t.win.contains i))).flatten).Sublist n.textIds := by
  have hflat : ((((textsOf (buildDoc (convert cfg A anc hp n))).filter keep).map (·.win)).flatten).Sublist n.brTextIds := by
    have h2 := (builder_windows (convert cfg A anc hp n)).2
    have h3 := convertNode_nodeIds_sublist cfg A anc hp n
    have h1 : ((((textsOf (buildDoc (convert cfg A anc hp n))).filter keep).map (·.win)).flatten).Sublist
        (((textsOf (buildDoc (convert cfg A anc hp n))).map (·.win)).flatten) := by
      generalize textsOf (buildDoc (convert cfg A anc hp n)) = ts
      induction ts with
      | nil => simp
      | cons t r ih =>
        simp only [List.filter_cons]
        split
        · simp only [List.map_cons, List.flatten_cons]
          exact List.Sublist.append (List.Sublist.refl _) ih
        · simp only [List.map_cons, List.flatten_cons]
          exact ih.trans (List.sublist_append_right _ _)
    exact (h1.trans h2).trans h3
  have := filters_flatten n.brTextIds hn n.textIds hsub
    (((textsOf (buildDoc (convert cfg A anc hp n))).filter keep).map (·.win)) hflat
  rw [List.map_map] at this
  have heq : (fun t : TextEl => n.textIds.filter (fun i => t.win.contains i)) =
      ((fun w => List.filter (fun i => w.contains i) n.textIds) ∘ fun x : TextEl => x.win) := rfl
  rw [heq, this]
  exact List.filter_sublist

mutual
/-- text ids are among the text-and-br ids, in the same order -/
theorem textIds_sublist_brTextIds : (n : Node) → n.textIds.Sublist n.brTextIds
  | .text i d => by simp [Node.textIds, Node.brTextIds]
  | .other _ _ => by simp [Node.textIds, Node.brTextIds]
  | .elem i t a ks => by
    simp only [Node.textIds, Node.brTextIds]
    exact (textIdsL_sublist_brTextIdsL ks).trans (List.sublist_append_right _ _)
theorem textIdsL_sublist_brTextIdsL : (ks : List Node) → (textIdsL ks).Sublist (brTextIdsL ks)
  | [] => by simp [textIdsL, brTextIdsL]
  | k :: ks => by
    simp only [textIdsL, brTextIdsL]
    exact List.Sublist.append (textIds_sublist_brTextIds k) (textIdsL_sublist_brTextIdsL ks)
end

end Distill
