/-
  The srcset matcher loses nothing: for EVERY string, the pieces `FindAll` yields spell the string,
  so rewriting with the identity resolver returns the value unchanged.
-/
import Distill.Model.Srcset
namespace Distill.Srcset

def M.text (x : M) : List Char := x.url ++ x.descs ++ x.ws ++ (if x.comma then [','] else [])

def Piece.text : Piece → List Char
  | .lit c => [c]
  | .m x => x.text

theorem takeDescs_concat : ∀ (fuel : Nat) (s : List Char), (takeDescs fuel s).1 ++ (takeDescs fuel s).2 = s := by
  intro fuel
  induction fuel with
  | zero => intro s; rfl
  | succ f ih =>
    intro s
    unfold takeDescs
    simp only []
    split
    · rfl
    · split
      · rfl
      · rename_i n _
        have h1 : s.takeWhile isWS ++ s.dropWhile isWS = s := List.takeWhile_append_dropWhile
        have h2 : (s.dropWhile isWS).take n ++ (s.dropWhile isWS).drop n = s.dropWhile isWS := List.take_append_drop n _
        have h3 := ih ((s.dropWhile isWS).drop n)
        simp only [List.append_assoc]
        rw [h3, h2, h1]

theorem lastComma_go_spec (cs : List Char) : ∀ (i : Nat) (acc : Option Nat) (pre : List Char), 1 ≤ i → pre.length = i →
    (∀ j, acc = some j → j < i ∧ (pre ++ cs)[j]? = some ',' ∧ 1 ≤ j) →
    ∀ j, lastComma.go i cs acc = some j → j < (pre ++ cs).length ∧ (pre ++ cs)[j]? = some ',' ∧ 1 ≤ j := by
  induction cs with
  | nil =>
    intro i acc pre hi hl hacc j hj
    simp only [lastComma.go] at hj
    have := hacc j hj
    simp only [List.append_nil] at this ⊢
    exact ⟨by omega, this.2.1, this.2.2⟩
  | cons c cs ih =>
    intro i acc pre hi hl hacc j hj
    simp only [lastComma.go] at hj
    have e : pre ++ c :: cs = (pre ++ [c]) ++ cs := by simp
    rw [e]
    apply ih (i + 1) _ (pre ++ [c]) (by omega) (by simp [hl]) _ j hj
    intro j' hj'
    split at hj'
    · rename_i hc
      simp only [Option.some.injEq] at hj'
      subst hj'
      have hc' : c = ',' := by simpa using hc
      refine ⟨by omega, ?_, ?_⟩
      · rw [← e, ← hl]
        simp [hc']
      · exact hi
    · have := hacc j' hj'
      rw [← e]
      exact ⟨by omega, this.2.1, this.2.2⟩

theorem lastComma_spec (run : List Char) (j : Nat) (h : lastComma run = some j) :
    j < run.length ∧ run[j]? = some ',' ∧ 1 ≤ j := by
  cases run with
  | nil => simp [lastComma] at h
  | cons c cs =>
    simp only [lastComma] at h
    have := lastComma_go_spec cs 1 none [c] (Nat.le_refl 1) rfl (by intro j hj; cases hj) j h
    simpa using this

theorem split_at_comma (run : List Char) (j : Nat) (hj : j < run.length) (hc : run[j]? = some ',') :
    run.take j ++ ',' :: run.drop (j + 1) = run := by
  have h1 : run = run.take j ++ run.drop j := (List.take_append_drop j run).symm
  have h2 : run.drop j = ',' :: run.drop (j + 1) := by
    rw [List.drop_eq_getElem_cons hj]
    congr 1
    have := List.getElem?_eq_getElem hj
    rw [this] at hc
    exact Option.some.inj hc
  rw [← h2]; exact h1.symm

/-- a match spells a prefix of the string, and what is left is shorter -/
theorem matchRun_concat (s : List Char) (x : M) (rest : List Char) (hs : ∃ c cs, s = c :: cs ∧ isWS c = false)
    (h : matchRun s = some (x, rest)) : x.text ++ rest = s ∧ rest.length < s.length := by
  obtain ⟨c, cs, rfl, hc⟩ := hs
  have hsplit : (c :: cs).takeWhile (fun c => !isWS c) ++ (c :: cs).dropWhile (fun c => !isWS c) = c :: cs :=
    List.takeWhile_append_dropWhile
  have hrun : 1 ≤ ((c :: cs).takeWhile (fun c => !isWS c)).length := by
    simp [hc]
  unfold matchRun at h
  simp only [] at h
  have hd := takeDescs_concat ((c :: cs).dropWhile (fun c => !isWS c)).length ((c :: cs).dropWhile (fun c => !isWS c))
  have hw : ((takeDescs ((c :: cs).dropWhile (fun c => !isWS c)).length ((c :: cs).dropWhile (fun c => !isWS c))).2).takeWhile isWS ++
      ((takeDescs ((c :: cs).dropWhile (fun c => !isWS c)).length ((c :: cs).dropWhile (fun c => !isWS c))).2).dropWhile isWS =
      (takeDescs ((c :: cs).dropWhile (fun c => !isWS c)).length ((c :: cs).dropWhile (fun c => !isWS c))).2 :=
    List.takeWhile_append_dropWhile
  split at h
  · rename_i heq
    simp only [Option.some.injEq, Prod.mk.injEq] at h
    obtain ⟨rfl, rfl⟩ := h
    rw [heq, List.append_nil] at hw
    refine ⟨?_, by simp⟩
    simp only [M.text, Bool.false_eq_true, ↓reduceIte, List.append_nil]
    rw [List.append_assoc, hw, hd, hsplit]
  · rename_i c2 r4 heq
    split at h
    · rename_i hcomma
      simp only [Option.some.injEq, Prod.mk.injEq] at h
      obtain ⟨rfl, rfl⟩ := h
      have hc2 : c2 = ',' := by simpa using hcomma
      subst hc2
      rw [heq] at hw
      constructor
      · simp only [M.text, ↓reduceIte]
        have : (c :: cs).takeWhile (fun c => !isWS c) ++ (takeDescs ((c :: cs).dropWhile (fun c => !isWS c)).length ((c :: cs).dropWhile (fun c => !isWS c))).1 ++
            ((takeDescs ((c :: cs).dropWhile (fun c => !isWS c)).length ((c :: cs).dropWhile (fun c => !isWS c))).2).takeWhile isWS ++ [','] ++ r4 = c :: cs := by
          simp only [List.append_assoc, List.singleton_append]
          rw [hw, hd, hsplit]
        exact this
      · have hlen := congrArg List.length hsplit
        have hlen2 := congrArg List.length hd
        have hlen3 := congrArg List.length hw
        simp only [List.length_append, List.length_cons] at hlen hlen2 hlen3 ⊢
        omega
    · split at h
      · rename_i j hj
        simp only [Option.some.injEq, Prod.mk.injEq] at h
        obtain ⟨rfl, rfl⟩ := h
        obtain ⟨hjl, hjc, hj1⟩ := lastComma_spec _ j hj
        have hcut := split_at_comma _ j hjl hjc
        constructor
        · simp only [M.text, ↓reduceIte, List.append_nil]
          have : ((c :: cs).takeWhile (fun c => !isWS c)).take j ++ [','] ++
              (((c :: cs).takeWhile (fun c => !isWS c)).drop (j + 1) ++ (c :: cs).dropWhile (fun c => !isWS c)) = c :: cs := by
            have e2 : ((c :: cs).takeWhile (fun c => !isWS c)).take j ++ [','] ++
                (((c :: cs).takeWhile (fun c => !isWS c)).drop (j + 1) ++ (c :: cs).dropWhile (fun c => !isWS c)) =
                (((c :: cs).takeWhile (fun c => !isWS c)).take j ++ ',' :: ((c :: cs).takeWhile (fun c => !isWS c)).drop (j + 1)) ++
                  (c :: cs).dropWhile (fun c => !isWS c) := by simp
            rw [e2, hcut, hsplit]
          exact this
        · have hlen := congrArg List.length hsplit
          simp only [List.length_append, List.length_drop, List.length_cons] at hlen ⊢
          omega
      · cases h

/-- **`FindAll` loses nothing**: the pieces spell the string, for every string -/
theorem pieces_concat : ∀ (fuel : Nat) (s : List Char), s.length < fuel → (pieces fuel s).flatMap Piece.text = s := by
  intro fuel
  induction fuel with
  | zero => intro s h; simp at h
  | succ f ih =>
    intro s hf
    cases s with
    | nil => rfl
    | cons c cs =>
      unfold pieces
      split
      · simp only [List.flatMap_cons, Piece.text, List.singleton_append]
        rw [ih cs (by simp at hf; omega)]
      · rename_i hws
        have hws' : isWS c = false := by simpa using hws
        split
        · rename_i x rest hm
          have hmc := matchRun_concat (c :: cs) x rest ⟨c, cs, rfl, hws'⟩ hm
          have hlt : rest.length < f := by
            have h2 := hmc.2
            simp only [List.length_cons] at hf h2
            omega
          simp only [List.flatMap_cons, Piece.text]
          rw [ih rest hlt, hmc.1]
        · simp only [List.flatMap_cons, Piece.text, List.singleton_append]
          rw [ih cs (by simp at hf; omega)]

theorem rewriteM_id (x : M) : rewriteM id x = x.text := by
  unfold rewriteM M.text
  split
  · rename_i h
    simp only [Bool.and_eq_true, List.isEmpty_iff] at h
    obtain ⟨⟨h1, h2⟩, h3⟩ := h
    simp [h1, h2, h3]
  · simp

/-- **Rewriting with the identity resolver returns the value unchanged**, for every string: whatever a
srcset value looks like, `makeSrcSetAbsolute` changes it only inside the URLs it resolves. -/
theorem rewrite_id (s : List Char) : rewrite id s = s := by
  unfold rewrite
  have key := pieces_concat (s.length + 1) s (Nat.lt_succ_self _)
  refine Eq.trans ?_ key
  congr 1
  funext p
  cases p with
  | lit c => rfl
  | m x => exact rewriteM_id x

end Distill.Srcset
