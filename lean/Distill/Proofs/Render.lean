import Distill.Model.Render
namespace Distill

/-! ## attribute stripping -/

/-- an attribute key that may appear in distilled HTML -/
def safeKey (k : String) : Bool :=
  !strHasPrefix k "on" && !strHasPrefix k "data-" && k != "id" && k != "class" && k != "style"

/-- **The allow list is safe** (kernel evaluation over the generated ~230-entry table and the
generated strip clause): every allow-listed key that is not stripped anyway is neither an event
handler, nor id/class/style, nor a data-* attribute. -/
theorem allowed_safe :
    Gen.allowedAttributes.all (fun k => stripAlwaysKeys.contains k || safeKey k) = true := by
  decide +kernel

theorem keepAttr_safe (tag : String) (a : Attr) (h : keepAttr tag a = true) : safeKey a.key = true := by
  unfold keepAttr at h
  simp only [Bool.and_eq_true, Bool.not_eq_true'] at h
  obtain ⟨⟨h1, _⟩, h3⟩ := h
  have := List.all_eq_true.mp allowed_safe a.key (by simpa using h3)
  simp only [Bool.or_eq_true] at this
  rcases this with h | h
  · rw [h1] at h; cases h
  · exact h

mutual
/-- every attribute of every element of a stripped tree is safe -/
def Node.allAttrsSafe : Node → Bool
  | .text _ _ => true
  | .other _ _ => true
  | .elem _ _ attrs ks => attrs.all (fun a => safeKey a.key) && allAttrsSafeL ks
def allAttrsSafeL : List Node → Bool
  | [] => true
  | k :: ks => k.allAttrsSafe && allAttrsSafeL ks
end

mutual
theorem stripNode_safe : (n : Node) → (stripNode n).allAttrsSafe = true
  | .text _ _ => by simp [stripNode, Node.allAttrsSafe]
  | .other _ _ => by simp [stripNode, Node.allAttrsSafe]
  | .elem i t attrs ks => by
    simp only [stripNode, Node.allAttrsSafe, Bool.and_eq_true]
    refine ⟨?_, stripNodeL_safe ks⟩
    rw [List.all_eq_true]
    intro a ha
    exact keepAttr_safe t a (List.mem_filter.mp ha).2
theorem stripNodeL_safe : (ks : List Node) → allAttrsSafeL (stripNodeL ks) = true
  | [] => by simp [stripNodeL, allAttrsSafeL]
  | k :: ks => by simp [stripNodeL, allAttrsSafeL, stripNode_safe k, stripNodeL_safe ks]
end

mutual
/-- stripping keeps the tree shape: same nodes, same tags, same text -/
theorem stripNode_textIds : (n : Node) → (stripNode n).textIds = n.textIds
  | .text _ _ => rfl
  | .other _ _ => rfl
  | .elem i t attrs ks => by simp [stripNode, Node.textIds, stripNodeL_textIds ks]
theorem stripNodeL_textIds : (ks : List Node) → textIdsL (stripNodeL ks) = textIdsL ks
  | [] => rfl
  | k :: ks => by simp [stripNodeL, textIdsL, stripNode_textIds k, stripNodeL_textIds ks]
end

/-! ## absolute URLs -/

/-- value is untouched-empty or the image of `f` -/
def IsImg (f : String → String) (v : String) : Prop := v = "" ∨ ∃ w, v = f w

/-- every URL-bearing attribute the full absolutising pass leaves on an element is empty or an
image of the resolver -/
def UrlsAbs (abs absSet : String → String) (tag : String) (attrs : List Attr) : Prop :=
  ∀ a ∈ attrs,
    (tag = "a" → a.key = "href" → IsImg abs a.val) ∧
    (tag = "video" → a.key = "poster" → IsImg abs a.val) ∧
    (srcTags.contains tag = true → a.key = "src" → IsImg abs a.val) ∧
    (a.key = "srcset" → ∃ w, a.val = absSet w)

theorem absOne_spec (abs absSet : String → String) (tag : String) (c : Attr) :
    (absOne abs absSet tag c).key = c.key ∧
    (tag = "a" → c.key = "href" → IsImg abs (absOne abs absSet tag c).val) ∧
    (tag = "video" → c.key = "poster" → IsImg abs (absOne abs absSet tag c).val) ∧
    (srcTags.contains tag = true → c.key = "src" → IsImg abs (absOne abs absSet tag c).val) ∧
    (c.key = "srcset" → ∃ w, (absOne abs absSet tag c).val = absSet w) := by
  have img : ∀ (f : String → String) (v : String), IsImg f (f v) := fun f v => Or.inr ⟨v, rfl⟩
  unfold absOne
  by_cases he : c.val = ""
  · by_cases hs : c.key = "srcset"
    · simp [he, hs, IsImg]; exact ⟨"", rfl⟩
    · simp [he, hs, IsImg]
  · by_cases h1 : c.key = "href"
    · by_cases t1 : tag = "a"
      · simp [h1, t1, he]; exact img abs c.val
      · simp [h1, t1, he, IsImg]
    · by_cases h2 : c.key = "poster"
      · by_cases t2 : tag = "video"
        · simp [h2, t2, he]; exact img abs c.val
        · simp [h2, t2, he, IsImg]
      · by_cases h3 : c.key = "src"
        · by_cases t3 : srcTags.contains tag = true
          · have t3' : tag ∈ srcTags := by simpa using t3
            simp [h3, t3', he]; exact img abs c.val
          · have t3' : ¬ tag ∈ srcTags := by simpa using t3
            simp [h3, t3', he, IsImg]
        · by_cases h4 : c.key = "srcset"
          · simp [h4, he, IsImg]; exact ⟨c.val, rfl⟩
          · simp [h1, h2, h3, h4, IsImg]

theorem absAttrs_abs (abs absSet : String → String) (tag : String) (attrs : List Attr) :
    UrlsAbs abs absSet tag (absAttrs abs absSet tag attrs) := by
  intro a ha
  unfold absAttrs at ha
  obtain ⟨c, _, rfl⟩ := List.mem_map.mp ha
  obtain ⟨hk, h1, h2, h3, h4⟩ := absOne_spec abs absSet tag c
  exact ⟨fun t k => h1 t (hk ▸ k), fun t k => h2 t (hk ▸ k), fun t k => h3 t (hk ▸ k), fun k => h4 (hk ▸ k)⟩

mutual
def Node.allUrlsAbs (abs absSet : String → String) : Node → Prop
  | .text _ _ => True
  | .other _ _ => True
  | .elem _ t attrs ks => UrlsAbs abs absSet t attrs ∧ allUrlsAbsL abs absSet ks
def allUrlsAbsL (abs absSet : String → String) : List Node → Prop
  | [] => True
  | k :: ks => k.allUrlsAbs abs absSet ∧ allUrlsAbsL abs absSet ks
end

mutual
theorem absNode_abs (abs absSet : String → String) : (n : Node) → (absNode abs absSet n).allUrlsAbs abs absSet
  | .text _ _ => by simp [absNode, Node.allUrlsAbs]
  | .other _ _ => by simp [absNode, Node.allUrlsAbs]
  | .elem i t attrs ks => by
    simp only [absNode, Node.allUrlsAbs]
    exact ⟨absAttrs_abs abs absSet t attrs, absNodeL_abs abs absSet ks⟩
theorem absNodeL_abs (abs absSet : String → String) : (ks : List Node) → allUrlsAbsL abs absSet (absNodeL abs absSet ks)
  | [] => by simp [absNodeL, allUrlsAbsL]
  | k :: ks => by
    simp only [absNodeL, allUrlsAbsL]
    exact ⟨absNode_abs abs absSet k, absNodeL_abs abs absSet ks⟩
end

/-- stripping only removes attributes, so absolute URLs stay absolute -/
theorem UrlsAbs_filter (abs absSet : String → String) (tag : String) (attrs : List Attr) (p : Attr → Bool)
    (h : UrlsAbs abs absSet tag attrs) : UrlsAbs abs absSet tag (attrs.filter p) :=
  fun a ha => h a (List.mem_filter.mp ha).1

mutual
theorem stripNode_abs (abs absSet : String → String) : (n : Node) → n.allUrlsAbs abs absSet →
    (stripNode n).allUrlsAbs abs absSet
  | .text _ _, _ => by simp [stripNode, Node.allUrlsAbs]
  | .other _ _, _ => by simp [stripNode, Node.allUrlsAbs]
  | .elem i t attrs ks, h => by
    simp only [stripNode, Node.allUrlsAbs] at *
    exact ⟨UrlsAbs_filter abs absSet t attrs _ h.1, stripNodeL_abs abs absSet ks h.2⟩
theorem stripNodeL_abs (abs absSet : String → String) : (ks : List Node) → allUrlsAbsL abs absSet ks →
    allUrlsAbsL abs absSet (stripNodeL ks)
  | [], _ => by simp [stripNodeL, allUrlsAbsL]
  | k :: ks, h => by
    simp only [stripNodeL, allUrlsAbsL] at *
    exact ⟨stripNode_abs abs absSet k h.1, stripNodeL_abs abs absSet ks h.2⟩
end

end Distill
