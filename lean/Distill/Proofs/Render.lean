import Distill.Model.Render
namespace Distill

/-! ## attribute stripping -/

/-- an attribute key that may appear in distilled HTML -/
def safeKey (k : String) : Bool :=
  !strHasPrefix k "on" && !strHasPrefix k "data-" && k != "id" && k != "class" && k != "style"

/-- **The allow list is safe** (kernel evaluation over the generated ~230-entry table and the
generated strip clause): every allow-listed key that is not stripped anyway is neither an event
handler, nor id/class/style, nor a data-* attribute. -/
theorem allowed_safe :
    Gen.allowedAttributes.all (fun k => stripAlwaysKeys.contains k || safeKey k) = true := by
  decide +kernel

theorem keepAttr_safe (tag : String) (a : Attr) (h : keepAttr tag a = true) : safeKey a.key = true := by
  unfold keepAttr at h
  simp only [Bool.and_eq_true, Bool.not_eq_true'] at h
  obtain ⟨⟨h1, _⟩, h3⟩ := h
  have := List.all_eq_true.mp allowed_safe a.key (by simpa using h3)
  simp only [Bool.or_eq_true] at this
  rcases this with h | h
  · rw [h1] at h; cases h
  · exact h

mutual
/-- every attribute of every element of a stripped tree is safe -/
def Node.allAttrsSafe : Node → Bool
  | .text _ _ => true
  | .other _ _ => true
  | .elem _ _ attrs ks => attrs.all (fun a => safeKey a.key) && allAttrsSafeL ks
def allAttrsSafeL : List Node → Bool
  | [] => true
  | k :: ks => k.allAttrsSafe && allAttrsSafeL ks
end

mutual
theorem stripNode_safe : (n : Node) → (stripNode n).allAttrsSafe = true
  | .text _ _ => by simp [stripNode, Node.allAttrsSafe]
  | .other _ _ => by simp [stripNode, Node.allAttrsSafe]
  | .elem i t attrs ks => by
    simp only [stripNode, Node.allAttrsSafe, Bool.and_eq_true]
    refine ⟨?_, stripNodeL_safe ks⟩
    rw [List.all_eq_true]
    intro a ha
    exact keepAttr_safe t a (List.mem_filter.mp ha).2
theorem stripNodeL_safe : (ks : List Node) → allAttrsSafeL (stripNodeL ks) = true
  | [] => by simp [stripNodeL, allAttrsSafeL]
  | k :: ks => by simp [stripNodeL, allAttrsSafeL, stripNode_safe k, stripNodeL_safe ks]
end

mutual
/-- stripping keeps the tree shape: same nodes, same tags, same text -/
theorem stripNode_textIds : (n : Node) → (stripNode n).textIds = n.textIds
  | .text _ _ => rfl
  | .other _ _ => rfl
  | .elem i t attrs ks => by simp [stripNode, Node.textIds, stripNodeL_textIds ks]
theorem stripNodeL_textIds : (ks : List Node) → textIdsL (stripNodeL ks) = textIdsL ks
  | [] => rfl
  | k :: ks => by simp [stripNodeL, textIdsL, stripNode_textIds k, stripNodeL_textIds ks]
end

/-! ## repeated attributes -/

theorem dedupAttrs_keys_not_seen (attrs : List Attr) (seen : List String) :
    ∀ a ∈ dedupAttrs attrs seen, ¬ a.key ∈ seen := by
  induction attrs generalizing seen with
  | nil => simp [dedupAttrs]
  | cons b rest ih =>
    intro a ha
    simp only [dedupAttrs] at ha
    split at ha
    · exact ih seen a ha
    · rename_i hb
      rcases List.mem_cons.mp ha with h | h
      · subst h; simpa using hb
      · have := ih (b.key :: seen) a h
        simp only [List.mem_cons, not_or] at this
        exact this.2

/-- after the pass the attribute names of an element are pairwise distinct -/
theorem dedupAttrs_nodup (attrs : List Attr) (seen : List String) :
    ((dedupAttrs attrs seen).map (·.key)).Nodup := by
  induction attrs generalizing seen with
  | nil => simp [dedupAttrs]
  | cons b rest ih =>
    simp only [dedupAttrs]
    split
    · exact ih seen
    · simp only [List.map_cons, List.nodup_cons]
      refine ⟨?_, ih _⟩
      intro hmem
      obtain ⟨a, ha, hk⟩ := List.mem_map.mp hmem
      have := dedupAttrs_keys_not_seen rest (b.key :: seen) a ha
      simp only [List.mem_cons, not_or] at this
      exact this.1 hk

/-- reads of the first copy (`dom.GetAttribute`) are unaffected by the pass -/
theorem dedupAttrs_find (attrs : List Attr) (seen : List String) (k : String) (hk : ¬ k ∈ seen) :
    (dedupAttrs attrs seen).find? (fun a => a.key == k) = attrs.find? (fun a => a.key == k) := by
  induction attrs generalizing seen with
  | nil => simp [dedupAttrs]
  | cons b rest ih =>
    simp only [dedupAttrs]
    by_cases hb : b.key = k
    · subst hb
      simp [hk]
    · by_cases hs : seen.contains b.key = true
      · simp only [hs, if_true]
        rw [ih seen hk]
        simp [hb]
      · simp only [hs]
        simp only [Bool.false_eq_true, if_false, List.find?_cons]
        have hbk : (b.key == k) = false := by simpa using hb
        simp only [hbk]
        apply ih
        simp only [List.mem_cons, not_or]
        exact ⟨fun h => hb h.symm, hk⟩

theorem dedup_getAttr (attrs : List Attr) (k : String) : getAttr (dedupAttrs attrs []) k = getAttr attrs k := by
  unfold getAttr
  rw [dedupAttrs_find attrs [] k (by simp)]

mutual
def Node.uniqueKeys : Node → Prop
  | .text _ _ => True
  | .other _ _ => True
  | .elem _ _ attrs ks => (attrs.map (·.key)).Nodup ∧ uniqueKeysL ks
def uniqueKeysL : List Node → Prop
  | [] => True
  | k :: ks => k.uniqueKeys ∧ uniqueKeysL ks
end

mutual
theorem dedupNode_unique : (n : Node) → (dedupNode n).uniqueKeys
  | .text _ _ => by simp [dedupNode, Node.uniqueKeys]
  | .other _ _ => by simp [dedupNode, Node.uniqueKeys]
  | .elem i t attrs ks => by
    simp only [dedupNode, Node.uniqueKeys]
    exact ⟨dedupAttrs_nodup attrs [], dedupNodeL_unique ks⟩
theorem dedupNodeL_unique : (ks : List Node) → uniqueKeysL (dedupNodeL ks)
  | [] => by simp [dedupNodeL, uniqueKeysL]
  | k :: ks => by
    simp only [dedupNodeL, uniqueKeysL]
    exact ⟨dedupNode_unique k, dedupNodeL_unique ks⟩
end

/-! ## absolute URLs -/

/-- value is untouched-empty or the image of `f` -/
def IsImg (f : String → String) (v : String) : Prop := v = "" ∨ ∃ w, v = f w

/-- every URL-bearing attribute the full absolutising pass leaves on an element is empty or an
image of the resolver -/
def UrlsAbs (abs absSet : String → String) (tag : String) (attrs : List Attr) : Prop :=
  ∀ a ∈ attrs,
    (tag = "a" → a.key = "href" → IsImg abs a.val) ∧
    (tag = "video" → a.key = "poster" → IsImg abs a.val) ∧
    (srcTags.contains tag = true → a.key = "src" → IsImg abs a.val) ∧
    (a.key = "srcset" → ∃ w, a.val = absSet w)

theorem absOne_spec (abs absSet : String → String) (tag : String) (c : Attr) :
    (absOne abs absSet tag c).key = c.key ∧
    (tag = "a" → c.key = "href" → IsImg abs (absOne abs absSet tag c).val) ∧
    (tag = "video" → c.key = "poster" → IsImg abs (absOne abs absSet tag c).val) ∧
    (srcTags.contains tag = true → c.key = "src" → IsImg abs (absOne abs absSet tag c).val) ∧
    (c.key = "srcset" → ∃ w, (absOne abs absSet tag c).val = absSet w) := by
  have img : ∀ (f : String → String) (v : String), IsImg f (f v) := fun f v => Or.inr ⟨v, rfl⟩
  unfold absOne
  by_cases he : c.val = ""
  · by_cases hs : c.key = "srcset"
    · simp [he, hs, IsImg]; exact ⟨"", rfl⟩
    · simp [he, hs, IsImg]
  · by_cases h1 : c.key = "href"
    · by_cases t1 : tag = "a"
      · simp [h1, t1, he]; exact img abs c.val
      · simp [h1, t1, he, IsImg]
    · by_cases h2 : c.key = "poster"
      · by_cases t2 : tag = "video"
        · simp [h2, t2, he]; exact img abs c.val
        · simp [h2, t2, he, IsImg]
      · by_cases h3 : c.key = "src"
        · by_cases t3 : srcTags.contains tag = true
          · have t3' : tag ∈ srcTags := by simpa using t3
            simp [h3, t3', he]; exact img abs c.val
          · have t3' : ¬ tag ∈ srcTags := by simpa using t3
            simp [h3, t3', he, IsImg]
        · by_cases h4 : c.key = "srcset"
          · simp [h4, he, IsImg]; exact ⟨c.val, rfl⟩
          · simp [h1, h2, h3, h4, IsImg]

theorem absAttrs_abs (abs absSet : String → String) (tag : String) (attrs : List Attr) :
    UrlsAbs abs absSet tag (absAttrs abs absSet tag attrs) := by
  intro a ha
  unfold absAttrs at ha
  obtain ⟨c, _, rfl⟩ := List.mem_map.mp ha
  obtain ⟨hk, h1, h2, h3, h4⟩ := absOne_spec abs absSet tag c
  exact ⟨fun t k => h1 t (hk ▸ k), fun t k => h2 t (hk ▸ k), fun t k => h3 t (hk ▸ k), fun k => h4 (hk ▸ k)⟩

mutual
def Node.allUrlsAbs (abs absSet : String → String) : Node → Prop
  | .text _ _ => True
  | .other _ _ => True
  | .elem _ t attrs ks => UrlsAbs abs absSet t attrs ∧ allUrlsAbsL abs absSet ks
def allUrlsAbsL (abs absSet : String → String) : List Node → Prop
  | [] => True
  | k :: ks => k.allUrlsAbs abs absSet ∧ allUrlsAbsL abs absSet ks
end

mutual
theorem absNode_abs (abs absSet : String → String) : (n : Node) → (absNode abs absSet n).allUrlsAbs abs absSet
  | .text _ _ => by simp [absNode, Node.allUrlsAbs]
  | .other _ _ => by simp [absNode, Node.allUrlsAbs]
  | .elem i t attrs ks => by
    simp only [absNode, Node.allUrlsAbs]
    exact ⟨absAttrs_abs abs absSet t attrs, absNodeL_abs abs absSet ks⟩
theorem absNodeL_abs (abs absSet : String → String) : (ks : List Node) → allUrlsAbsL abs absSet (absNodeL abs absSet ks)
  | [] => by simp [absNodeL, allUrlsAbsL]
  | k :: ks => by
    simp only [absNodeL, allUrlsAbsL]
    exact ⟨absNode_abs abs absSet k, absNodeL_abs abs absSet ks⟩
end

/-- stripping only removes attributes, so absolute URLs stay absolute -/
theorem UrlsAbs_filter (abs absSet : String → String) (tag : String) (attrs : List Attr) (p : Attr → Bool)
    (h : UrlsAbs abs absSet tag attrs) : UrlsAbs abs absSet tag (attrs.filter p) :=
  fun a ha => h a (List.mem_filter.mp ha).1

mutual
theorem stripNode_abs (abs absSet : String → String) : (n : Node) → n.allUrlsAbs abs absSet →
    (stripNode n).allUrlsAbs abs absSet
  | .text _ _, _ => by simp [stripNode, Node.allUrlsAbs]
  | .other _ _, _ => by simp [stripNode, Node.allUrlsAbs]
  | .elem i t attrs ks, h => by
    simp only [stripNode, Node.allUrlsAbs] at *
    exact ⟨UrlsAbs_filter abs absSet t attrs _ h.1, stripNodeL_abs abs absSet ks h.2⟩
theorem stripNodeL_abs (abs absSet : String → String) : (ks : List Node) → allUrlsAbsL abs absSet ks →
    allUrlsAbsL abs absSet (stripNodeL ks)
  | [], _ => by simp [stripNodeL, allUrlsAbsL]
  | k :: ks, h => by
    simp only [stripNodeL, allUrlsAbsL] at *
    exact ⟨stripNode_abs abs absSet k h.1, stripNodeL_abs abs absSet ks h.2⟩
end

end Distill
