import Distill.Model.TextRender
import Distill.Proofs.Render
namespace Distill

/-! ## TreeClone: the clone holds exactly the listed text nodes, in source order -/

mutual
theorem keepNode_textIds (ids : List Nat) : (n : Node) →
    (match keepNode ids n with | some m => m.textIds | none => []) = n.textIds.filter (fun i => ids.contains i)
  | .text i d => by
    by_cases h : i ∈ ids
    · simp [keepNode, Node.textIds, h]
    · simp [keepNode, Node.textIds, h]
  | .other i k => by
    by_cases h : i ∈ ids
    · simp [keepNode, Node.textIds, h]
    · simp [keepNode, Node.textIds, h]
  | .elem i t a ks => by
    have ih := keepL_textIds ids ks
    simp only [keepNode, Node.textIds]
    by_cases h : (ids.contains i || !(keepL ids ks).isEmpty) = true
    · simp only [h, if_true, Node.textIds]; exact ih
    · simp only [h]
      have he : keepL ids ks = [] := by
        cases hk : keepL ids ks with
        | nil => rfl
        | cons x xs => simp [hk] at h
      rw [he] at ih
      simpa [textIdsL] using ih.symm
theorem keepL_textIds (ids : List Nat) : (ks : List Node) →
    textIdsL (keepL ids ks) = (textIdsL ks).filter (fun i => ids.contains i)
  | [] => by simp [keepL, textIdsL]
  | k :: ks => by
    have h1 := keepNode_textIds ids k
    have h2 := keepL_textIds ids ks
    simp only [keepL, textIdsL, List.filter_append]
    cases hk : keepNode ids k with
    | none => rw [hk] at h1; simp only at h1; rw [← h1, ← h2]; simp
    | some m => rw [hk] at h1; simp only at h1; simp only [textIdsL]; rw [h1, h2]
end

theorem descend_textIds (ids : List Nat) : ∀ (fuel : Nat) (passed : List Shell) (n : Node),
    (descend ids fuel passed n).2.textIds = n.textIds
  | 0, _, _ => rfl
  | fuel + 1, passed, n => by
    unfold descend
    split
    · rename_i i t a k
      split
      · rfl
      · rw [descend_textIds ids fuel]; simp [Node.textIds, textIdsL]
    · rfl

/-- descending either stays where it is or has passed at least one more ancestor -/
theorem descend_passed (ids : List Nat) : ∀ (fuel : Nat) (passed : List Shell) (n : Node),
    (descend ids fuel passed n = (passed, n)) ∨ passed.length < (descend ids fuel passed n).1.length
  | 0, _, _ => Or.inl rfl
  | fuel + 1, passed, n => by
    unfold descend
    split
    · rename_i i t a k
      split
      · exact Or.inl rfl
      · right
        rcases descend_passed ids fuel ({ id := i, tag := t, attrs := a } :: passed) k with h | h
        · rw [h]; simp
        · simp only [List.length_cons] at h; omega
    · exact Or.inl rfl

/-- **TreeClone neither invents, nor duplicates, nor reorders**: the text nodes of the clone are
the listed text nodes of the tree, in document order. -/
theorem treeClone_textIds (ids : List Nat) (top : Node) (anc : List Shell) (c : Node)
    (h : treeClone ids top = some (anc, c)) :
    c.textIds = top.textIds.filter (fun i => ids.contains i) := by
  unfold treeClone at h
  split at h
  · cases h
  · have hk := keepNode_textIds ids top
    cases hp : keepNode ids top with
    | none => rw [hp] at h; cases h
    | some p =>
      rw [hp] at h hk
      simp only at hk
      simp only [Option.some.injEq] at h
      have := descend_textIds ids top.size [] p
      rw [h] at this
      simp only at this
      rw [this, hk]

/-! ## wrapping and climbing keep the text -/

/-- no shell is a void-named element (in the HTML namespace the parser gives void elements no children,
so an ancestor of a text node can only be void-named when it is an SVG / MathML element) -/
def NoVoid (anc : List Shell) : Prop := ∀ s ∈ anc, domVoid s.tag = false

theorem wrap_textIds (s : Shell) (n : Node) (h : domVoid s.tag = false) : (s.wrap n).textIds = n.textIds := by
  simp [Shell.wrap, h, Node.textIds, textIdsL]

/-- whatever the shell, wrapping never adds text: it keeps all of it or (void-named shell) none -/
theorem wrap_textIds_sublist (s : Shell) (n : Node) : (s.wrap n).textIds.Sublist n.textIds := by
  unfold Shell.wrap
  split
  · simp [Node.textIds, textIdsL]
  · simp [Node.textIds, textIdsL]

theorem climb_textIds (A : CAtoms) : ∀ (anc : List Shell) (r : Node), NoVoid anc → (climb A r anc).textIds = r.textIds
  | [], _, _ => rfl
  | s :: rest, r, hv => by
    unfold climb
    split
    · rfl
    · split
      · rfl
      · split
        · rfl
        · rw [climb_textIds A rest _ (fun x hx => hv x (by simp [hx])), wrap_textIds _ _ (hv s (by simp))]

theorem climb_textIds_sublist (A : CAtoms) : ∀ (anc : List Shell) (r : Node), (climb A r anc).textIds.Sublist r.textIds
  | [], _ => List.Sublist.refl _
  | s :: rest, r => by
    unfold climb
    split
    · exact List.Sublist.refl _
    · split
      · exact List.Sublist.refl _
      · split
        · exact List.Sublist.refl _
        · exact (climb_textIds_sublist A rest _).trans (wrap_textIds_sublist s r)

mutual
theorem absNode_textIds' (abs absSet : String → String) : (m : Node) → (absNode abs absSet m).textIds = m.textIds
  | .text _ _ => rfl
  | .other _ _ => rfl
  | .elem i t attrs ks => by
    simp only [absNode, Node.textIds]
    exact absNodeL_textIds' abs absSet ks
theorem absNodeL_textIds' (abs absSet : String → String) : (ks : List Node) → textIdsL (absNodeL abs absSet ks) = textIdsL ks
  | [] => rfl
  | k :: ks => by
    simp only [absNodeL, textIdsL, absNode_textIds' abs absSet k, absNodeL_textIds' abs absSet ks]
end

theorem processClone_textIds (abs absSet : String → String) (n : Node) :
    (processClone abs absSet n).textIds = n.textIds := by
  unfold processClone
  rw [stripNode_textIds, absNode_textIds']

/-- `bodyToDiv` is the identity unless the root is `body` -/
theorem bodyToDiv_of_ne (n : Node) (h : n.tag ≠ "body") : bodyToDiv n = n := by
  unfold bodyToDiv
  split
  · rename_i a b c
    simp [Node.tag] at h
  · rfl

/-! ## the merged text of the body → div step -/

mutual
def Node.textData : Node → List Char
  | .text _ d => d.toList
  | .elem _ _ _ ks => textDataL ks
  | .other _ _ => []
def textDataL : List Node → List Char
  | [] => []
  | k :: ks => k.textData ++ textDataL ks
end

theorem mergeTexts_textData : ∀ (ks : List Node), textDataL (mergeTexts ks) = textDataL ks := by
  intro ks
  fun_induction mergeTexts ks with
  | case1 i a j b rest ih =>
    rw [ih]; simp [textDataL, Node.textData, String.toList_append]
  | case2 k rest hne ih =>
    simp only [textDataL, ih]
  | case3 => rfl

mutual
theorem mergeDeep_textData : (n : Node) → (mergeDeep n).textData = n.textData
  | .text _ _ => rfl
  | .other _ _ => rfl
  | .elem i t a ks => by
    simp only [mergeDeep, Node.textData]
    rw [mergeTexts_textData, mergeDeepL_textData ks]
theorem mergeDeepL_textData : (ks : List Node) → textDataL (mergeDeepL ks) = textDataL ks
  | [] => rfl
  | k :: ks => by simp only [mergeDeepL, textDataL, mergeDeep_textData k, mergeDeepL_textData ks]
end

/-! ## the whole of `Text.GenerateOutput`'s clone -/

/-- the root the loop starts from, before the body step -/
def textCloneStart (ids : List Nat) (top : Node) : Option (List Shell × Node) :=
  match treeClone ids top with
  | none => none
  | some (anc, c) =>
    if c.isElem then some (anc, c) else
    match anc with
    | s :: rest => some (rest, s.wrap c)
    | [] => none

theorem textClone_eq (A : CAtoms) (abs absSet : String → String) (ids : List Nat) (top : Node) :
    textClone A abs absSet ids top =
      (textCloneStart ids top).map (fun p => processClone abs absSet (climb A (bodyToDiv p.2) p.1)) := by
  unfold textClone textCloneStart
  cases treeClone ids top with
  | none => rfl
  | some p =>
    obtain ⟨anc, c⟩ := p
    simp only
    by_cases hc : c.isElem = true
    · simp [hc]
    · simp only [hc]
      cases anc with
      | nil => rfl
      | cons s rest => rfl

theorem textCloneStart_textIds (ids : List Nat) (top : Node) (anc : List Shell) (r : Node)
    (hv : ∀ anc0 c, treeClone ids top = some (anc0, c) → NoVoid anc0)
    (h : textCloneStart ids top = some (anc, r)) :
    r.textIds = top.textIds.filter (fun i => ids.contains i) ∧ NoVoid anc := by
  unfold textCloneStart at h
  cases ht : treeClone ids top with
  | none => rw [ht] at h; cases h
  | some p =>
    obtain ⟨anc0, c⟩ := p
    rw [ht] at h
    have hc := treeClone_textIds ids top anc0 c ht
    simp only at h
    have hv0 := hv anc0 c ht
    by_cases he : c.isElem = true
    · simp only [he, if_true, Option.some.injEq, Prod.mk.injEq] at h
      rw [← h.2, ← h.1]; exact ⟨hc, hv0⟩
    · simp only [he] at h
      cases anc0 with
      | nil => cases h
      | cons s rest =>
        simp only [Bool.false_eq_true, if_false, Option.some.injEq, Prod.mk.injEq] at h
        rw [← h.2, ← h.1, wrap_textIds _ _ (hv0 s (by simp))]
        exact ⟨hc, fun x hx => hv0 x (by simp [hx])⟩

/-- **Text rendering is an excerpt** (root other than `body`): the text nodes of the processed
clone that `Text.GenerateOutput` serialises are exactly the window's text nodes, in document
order, whatever the display atoms and URL resolvers answer. -/
theorem textClone_textIds (A : CAtoms) (abs absSet : String → String) (ids : List Nat) (top : Node)
    (anc : List Shell) (r0 out : Node)
    (hv : ∀ anc0 c, treeClone ids top = some (anc0, c) → NoVoid anc0)
    (hs : textCloneStart ids top = some (anc, r0)) (hb : r0.tag ≠ "body")
    (h : textClone A abs absSet ids top = some out) :
    out.textIds = top.textIds.filter (fun i => ids.contains i) := by
  rw [textClone_eq, hs] at h
  simp only [Option.map_some, Option.some.injEq] at h
  have hst := textCloneStart_textIds ids top anc r0 hv hs
  rw [← h, processClone_textIds, climb_textIds A anc _ hst.2, bodyToDiv_of_ne r0 hb]
  exact hst.1

/-- without any assumption on the ancestors: the processed clone never holds a text node that is not
in the window, nor one twice or out of order (void-named ancestors can only lose text) -/
theorem textClone_textIds_sublist (A : CAtoms) (abs absSet : String → String) (ids : List Nat) (top : Node)
    (anc : List Shell) (r0 out : Node)
    (hs : textCloneStart ids top = some (anc, r0)) (hb : r0.tag ≠ "body")
    (h : textClone A abs absSet ids top = some out) :
    out.textIds.Sublist (top.textIds.filter (fun i => ids.contains i)) := by
  rw [textClone_eq, hs] at h
  simp only [Option.map_some, Option.some.injEq] at h
  rw [← h, processClone_textIds, bodyToDiv_of_ne r0 hb]
  refine (climb_textIds_sublist A anc r0).trans ?_
  -- the start: the clone itself, or the clone wrapped once
  unfold textCloneStart at hs
  cases ht : treeClone ids top with
  | none => rw [ht] at hs; cases hs
  | some p =>
    obtain ⟨anc0, c⟩ := p
    rw [ht] at hs
    have hc := treeClone_textIds ids top anc0 c ht
    simp only at hs
    by_cases he : c.isElem = true
    · simp only [he, if_true, Option.some.injEq, Prod.mk.injEq] at hs
      rw [← hs.2, hc]
      exact List.Sublist.refl _
    · simp only [he] at hs
      cases anc0 with
      | nil => cases hs
      | cons s rest =>
        simp only [Bool.false_eq_true, if_false, Option.some.injEq, Prod.mk.injEq] at hs
        rw [← hs.2, ← hc]
        exact wrap_textIds_sublist s c

/-- in the `body` case the children are re-parsed: the character data is kept (adjacent text nodes
merge) up to white space trimmed at the two ends -/
theorem body_step_text (i : Nat) (attrs : List Attr) (ks : List Node) :
    ∃ ks', bodyToDiv (.elem i "body" attrs ks) = .elem synthDivId "div" [] (trimLastText (trimFirstText ks')) ∧
      textDataL ks' = textDataL ks :=
  ⟨mergeTexts (mergeDeepL ks), rfl, by rw [mergeTexts_textData, mergeDeepL_textData]⟩

/-! ## totality (C01): the nil dereferences of `Text.GenerateOutput` are unreachable -/

mutual
def Node.hasId (j : Nat) : Node → Bool
  | .text i _ => i == j
  | .other i _ => i == j
  | .elem i _ _ ks => i == j || hasIdL j ks
def hasIdL (j : Nat) : List Node → Bool
  | [] => false
  | k :: ks => k.hasId j || hasIdL j ks
end

mutual
theorem keepNode_some_of_hasId (ids : List Nat) (j : Nat) (hj : ids.contains j = true) :
    (n : Node) → n.hasId j = true → (keepNode ids n).isSome = true
  | .text i d, h => by
    have hj' : j ∈ ids := by simpa using hj
    simp only [Node.hasId, beq_iff_eq] at h
    subst h
    simp [keepNode, hj']
  | .other i k, h => by
    have hj' : j ∈ ids := by simpa using hj
    simp only [Node.hasId, beq_iff_eq] at h
    subst h
    simp [keepNode, hj']
  | .elem i t a ks, h => by
    simp only [Node.hasId, Bool.or_eq_true, beq_iff_eq] at h
    simp only [keepNode]
    rcases h with h | h
    · have hj' : j ∈ ids := by simpa using hj
      subst h; simp [hj']
    · have := keepL_ne_nil_of_hasId ids j hj ks h
      have : (keepL ids ks).isEmpty = false := by
        cases hk : keepL ids ks with
        | nil => exact absurd hk this
        | cons _ _ => rfl
      simp [this]
theorem keepL_ne_nil_of_hasId (ids : List Nat) (j : Nat) (hj : ids.contains j = true) :
    (ks : List Node) → hasIdL j ks = true → keepL ids ks ≠ []
  | [], h => by simp [hasIdL] at h
  | k :: ks, h => by
    simp only [hasIdL, Bool.or_eq_true] at h
    simp only [keepL]
    rcases h with h | h
    · have := keepNode_some_of_hasId ids j hj k h
      cases hk : keepNode ids k with
      | none => rw [hk] at this; cases this
      | some m => simp
    · cases hk : keepNode ids k with
      | none => simpa using keepL_ne_nil_of_hasId ids j hj ks h
      | some m => simp
end

theorem keepNode_isElem (ids : List Nat) (n m : Node) (h : keepNode ids n = some m) : m.isElem = n.isElem := by
  cases n with
  | text i d =>
    simp only [keepNode] at h
    split at h
    · cases h; rfl
    · cases h
  | other i k =>
    simp only [keepNode] at h
    split at h
    · cases h; rfl
    · cases h
  | elem i t a ks =>
    simp only [keepNode] at h
    split at h
    · cases h; rfl
    · cases h

/-- **`Text.GenerateOutput` never dereferences nil**: when the converter's tree is rooted at an
element and the window names at least one node of it, `TreeClone` returns a node and, if that
node is not an element, the first node has a parent to wrap it in. -/
theorem textClone_total (A : CAtoms) (abs absSet : String → String) (ids : List Nat) (top : Node)
    (j : Nat) (hj : ids.contains j = true) (hin : top.hasId j = true) (htop : top.isElem = true) :
    (textClone A abs absSet ids top).isSome = true := by
  rw [textClone_eq]
  suffices h : (textCloneStart ids top).isSome = true by
    cases hs : textCloneStart ids top with
    | none => rw [hs] at h; cases h
    | some p => rfl
  unfold textCloneStart treeClone
  have hne : ids.isEmpty = false := by
    cases ids with
    | nil => simp at hj
    | cons _ _ => rfl
  simp only [hne, Bool.false_eq_true, if_false]
  have hk := keepNode_some_of_hasId ids j hj top hin
  cases hp : keepNode ids top with
  | none => rw [hp] at hk; cases hk
  | some p =>
    simp only
    have hpe : p.isElem = true := by rw [keepNode_isElem ids top p hp]; exact htop
    rcases descend_passed ids top.size [] p with h | h
    · rw [h]; simp [hpe]
    · generalize hd : descend ids top.size [] p = d at h
      obtain ⟨anc, c⟩ := d
      simp only
      by_cases hc : c.isElem = true
      · simp [hc]
      · simp only [hc]
        cases anc with
        | nil => simp at h
        | cons s rest => simp

/-! ## Document.GenerateOutput -/

theorem docOutput_append (textOnly : Bool) (a b : List OutEl) :
    docOutput textOnly (a ++ b) = docOutput textOnly a ++ docOutput textOnly b := by
  induction a with
  | nil => simp [docOutput]
  | cons e es ih => simp [docOutput, ih, List.append_assoc]

/-- elements that are not content contribute nothing to either view -/
theorem docOutput_filter (textOnly : Bool) (es : List OutEl) :
    docOutput textOnly (es.filter (·.content)) = docOutput textOnly es := by
  induction es with
  | nil => rfl
  | cons e es ih =>
    by_cases h : e.content = true
    · simp [List.filter, h, docOutput, ih]
    · simp [List.filter, h, docOutput, ih]

/-- the output is the concatenation, in list order, of the renderings of the content elements -/
theorem docOutput_spec (textOnly : Bool) (es : List OutEl) :
    docOutput textOnly es =
      ((es.filter (·.content)).map (fun e => if textOnly then e.text ++ ['\n'] else e.html)).flatten := by
  induction es with
  | nil => rfl
  | cons e es ih =>
    by_cases h : e.content = true
    · simp [List.filter, h, docOutput, ih]
    · simp [List.filter, h, docOutput, ih]

end Distill
