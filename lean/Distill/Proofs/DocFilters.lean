import Distill.Model.DocFilters
namespace Distill

/-! ## RelevantElements -/

/-- every non-Text element starts out as not-content (true of every freshly built
document: only `TextBlock.ApplyToModel` sets flags before the document filters run) -/
def FreshMedia (es : List Elem) : Prop := ∀ e ∈ es, e.isText = false → e.content = false

/-- content flag of the nearest Text strictly before index `i` (`acc` when there is none) -/
def prevText (acc : Bool) : List Elem → Nat → Bool
  | [], _ => acc
  | _ :: _, 0 => acc
  | e :: es, i+1 => prevText (if e.isText then e.content else acc) es i

def relevantSpec (prev : Bool) : List Elem → List Elem
  | [] => []
  | e :: es =>
    if e.isText then e :: relevantSpec e.content es
    else { e with content := prev } :: relevantSpec prev es

theorem relevantGo_eq_spec (inC : Bool) (es : List Elem) (h : FreshMedia es) :
    relevantGo inC es = relevantSpec inC es := by
  induction es generalizing inC with
  | nil => rfl
  | cons e es ih =>
    have hes : FreshMedia es := fun x hx => h x (List.mem_cons_of_mem _ hx)
    have he := h e List.mem_cons_self
    simp only [relevantGo, relevantSpec, relevantStep]
    obtain ⟨k, c, n, w, g, nd, t⟩ := e
    cases ht : (Elem.isText ⟨k, c, n, w, g, nd, t⟩) <;> cases c <;> cases inC <;>
      simp_all [ih _ hes]

theorem relevantSpec_length (p : Bool) (es : List Elem) : (relevantSpec p es).length = es.length := by
  induction es generalizing p with
  | nil => rfl
  | cons e es ih => simp only [relevantSpec]; split <;> simp [ih]

theorem relevantSpec_get (p : Bool) (es : List Elem) (i : Nat) :
    (relevantSpec p es)[i]? =
      es[i]?.map (fun e => if e.isText then e else { e with content := prevText p es i }) := by
  induction es generalizing p i with
  | nil => simp [relevantSpec]
  | cons e es ih =>
    cases i with
    | zero =>
      simp only [relevantSpec, prevText]
      split <;> rename_i ht <;> simp [ht]
    | succ i =>
      simp only [relevantSpec, prevText]
      split <;> rename_i ht <;> simp [ht, ih]

theorem relevantSpec_kind (p : Bool) (es : List Elem) :
    (relevantSpec p es).map (·.kind) = es.map (·.kind) := by
  induction es generalizing p with
  | nil => rfl
  | cons e es ih => simp only [relevantSpec]; split <;> simp [ih]

/-! ## generic lemmas on `setFlagAt` / `setContentAt` -/

theorem setFlagAt_length (i : Nat) (c : Bool) (es : List Elem) : (setFlagAt i c es).length = es.length := by
  induction es generalizing i with
  | nil => simp [setFlagAt]
  | cons e es ih => cases i <;> simp [setFlagAt, ih]

theorem setFlagAt_get_ne (i j : Nat) (c : Bool) (es : List Elem) (h : i ≠ j) :
    (setFlagAt i c es)[j]? = es[j]? := by
  induction es generalizing i j with
  | nil => simp [setFlagAt]
  | cons e es ih =>
    cases i with
    | zero => cases j with
      | zero => exact absurd rfl h
      | succ j => simp [setFlagAt]
    | succ i => cases j with
      | zero => simp [setFlagAt]
      | succ j => simp [setFlagAt]; exact ih i j (by omega)

theorem setFlagAt_get_eq (i : Nat) (c : Bool) (es : List Elem) :
    (setFlagAt i c es)[i]? = es[i]?.map (fun e => { e with content := c }) := by
  induction es generalizing i with
  | nil => simp [setFlagAt]
  | cons e es ih => cases i <;> simp [setFlagAt, ih]

theorem setFlagAt_kind (i : Nat) (c : Bool) (es : List Elem) :
    (setFlagAt i c es).map (·.kind) = es.map (·.kind) := by
  induction es generalizing i with
  | nil => simp [setFlagAt]
  | cons e es ih => cases i <;> simp [setFlagAt, ih]

theorem setContentAt_eq (i : Nat) (es : List Elem) : setContentAt i es = setFlagAt i true es := by
  induction es generalizing i with
  | nil => simp [setContentAt, setFlagAt]
  | cons e es ih => cases i <;> simp [setContentAt, setFlagAt, ih]

/-! ## LeadImageFinder -/

theorem leadCandidates_spec (last i : Nat) (es : List Elem) :
    ∀ c ∈ leadCandidates last i es, i ≤ c ∧ c < last ∨ (i ≤ c ∧ last < i) := by
  induction es generalizing i with
  | nil => simp [leadCandidates]
  | cons e es ih =>
    intro c hc
    simp only [leadCandidates] at hc
    split at hc
    · simp at hc
    · rename_i hbr
      have hne : i ≠ last := by
        intro h; apply hbr; simp [h]
      split at hc
      · rcases List.mem_cons.mp hc with h | h
        · subst h; omega
        · rcases ih (i+1) c h with h | h <;> omega
      · rcases ih (i+1) c hc with h | h <;> omega

/-- every candidate is the index of a not-yet-content image or figure -/
theorem leadCandidates_kind (last i : Nat) (es : List Elem) :
    ∀ c ∈ leadCandidates last i es, ∃ e, es[c - i]? = some e ∧ i ≤ c ∧
      (e.kind = .image ∨ e.kind = .figure) ∧ e.content = false := by
  induction es generalizing i with
  | nil => simp [leadCandidates]
  | cons e es ih =>
    intro c hc
    simp only [leadCandidates] at hc
    split at hc
    · simp at hc
    · rename_i hbr
      split at hc
      · rename_i himg
        rcases List.mem_cons.mp hc with h | h
        · subst h
          refine ⟨e, by simp, Nat.le_refl _, ?_, ?_⟩
          · simpa using himg
          · cases hcn : e.content
            · rfl
            · exfalso; apply hbr; simp [himg, hcn]
        · obtain ⟨e', h1, h2, h3⟩ := ih (i+1) c h
          refine ⟨e', ?_, by omega, h3⟩
          have : c - i = (c - (i+1)) + 1 := by omega
          rw [this]; simpa using h1
      · obtain ⟨e', h1, h2, h3⟩ := ih (i+1) c hc
        refine ⟨e', ?_, by omega, h3⟩
        have : c - i = (c - (i+1)) + 1 := by omega
        rw [this]; simpa using h1

theorem bestCandidate_mem (score : Nat → Int) (best : Option (Nat × Int)) (cs : List Nat) :
    ∀ r, bestCandidate score best cs = some r → (some r = best ∨ r.1 ∈ cs) ∧
      (best = none → r.2 > leadMinScore) := by
  induction cs generalizing best with
  | nil => intro r h; simp [bestCandidate] at h; subst h; simp
  | cons c cs ih =>
    intro r h
    simp only [bestCandidate] at h
    split at h
    · rename_i hs
      cases best with
      | none =>
        obtain ⟨h1, _⟩ := ih _ r h
        refine ⟨?_, fun _ => ?_⟩
        · rcases h1 with h1 | h1
          · right; cases h1; simp
          · right; exact List.mem_cons_of_mem _ h1
        · obtain ⟨h1', h2'⟩ := ih _ r h
          rcases h1' with h1' | h1'
          · cases h1'; exact hs
          · -- r came from a later candidate, which was accepted above threshold or replaced
            -- an accepted one; handled by the generalised lemma below
            exact bestCandidate_score_aux score _ cs r h (by simpa using hs)
      | some b =>
        obtain ⟨b1, b2⟩ := b
        simp only at h
        split at h
        · obtain ⟨h1, _⟩ := ih _ r h
          refine ⟨?_, by simp⟩
          rcases h1 with h1 | h1
          · right; cases h1; simp
          · right; exact List.mem_cons_of_mem _ h1
        · obtain ⟨h1, _⟩ := ih _ r h
          refine ⟨?_, by simp⟩
          rcases h1 with h1 | h1
          · left; exact h1
          · right; exact List.mem_cons_of_mem _ h1
    · obtain ⟨h1, h2⟩ := ih _ r h
      refine ⟨?_, h2⟩
      rcases h1 with h1 | h1
      · left; exact h1
      · right; exact List.mem_cons_of_mem _ h1
where
  bestCandidate_score_aux (score : Nat → Int) (best : Option (Nat × Int)) (cs : List Nat)
      (r : Nat × Int) (h : bestCandidate score best cs = some r)
      (hb : ∀ b, best = some b → b.2 > leadMinScore) : r.2 > leadMinScore := by
    induction cs generalizing best with
    | nil => simp [bestCandidate] at h; exact hb r h
    | cons c cs ih =>
      simp only [bestCandidate] at h
      split at h
      · rename_i hs
        cases best with
        | none => exact ih _ h (by intro b hb'; cases hb'; exact hs)
        | some b =>
          obtain ⟨b1, b2⟩ := b
          simp only at h
          split at h
          · exact ih _ h (by intro b hb'; cases hb'; exact hs)
          · exact ih _ h hb
      · exact ih _ h hb

/-- What the lead-image filter can do: nothing, or set the content flag of exactly one
element, which is an image or figure that was not content, lies before the last content
Text, and scored above the threshold. -/
theorem leadImage_spec (score : Nat → Int) (es : List Elem) :
    match leadIndex score es with
    | none => leadImage score es = es
    | some i => leadImage score es = setFlagAt i true es ∧
        ∃ e, es[i]? = some e ∧ (e.kind = .image ∨ e.kind = .figure) ∧ e.content = false ∧
          score i > leadMinScore := by
  unfold leadImage
  cases h : leadIndex score es with
  | none => simp
  | some i =>
    simp only [setContentAt_eq, true_and]
    unfold leadIndex at h
    split at h
    · simp at h
    · rename_i last hl
      split at h
      · simp at h
      · rename_i i' s hb
        simp at h; subst h
        obtain ⟨h1, h2⟩ := bestCandidate_mem score none _ _ hb
        simp at h1
        obtain ⟨e, he, _, hk, hc⟩ := leadCandidates_kind last 0 es i' h1
        refine ⟨e, by simpa using he, hk, hc, ?_⟩
        have := h2 rfl
        -- the recorded score is the score of the chosen index
        have hsc := bestCandidate_score score none _ _ hb (by simp)
        simp only at hsc this
        rw [← hsc]; exact this
where
  bestCandidate_score (score : Nat → Int) (best : Option (Nat × Int)) (cs : List Nat)
      (r : Nat × Int) (h : bestCandidate score best cs = some r)
      (hb : ∀ b, best = some b → b.2 = score b.1) : r.2 = score r.1 := by
    induction cs generalizing best with
    | nil => simp [bestCandidate] at h; exact hb r h
    | cons c cs ih =>
      simp only [bestCandidate] at h
      split at h
      · cases best with
        | none => exact ih _ h (by intro b hb'; cases hb'; rfl)
        | some b =>
          obtain ⟨b1, b2⟩ := b
          simp only at h
          split at h
          · exact ih _ h (by intro b hb'; cases hb'; rfl)
          · exact ih _ h hb
      · exact ih _ h hb

end Distill
