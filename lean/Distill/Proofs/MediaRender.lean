import Distill.Model.MediaRender
import Distill.Proofs.TextRender
namespace Distill

/-! ## attributes (C05) -/

theorem imageClone_safe (abs absSet : String → String) (el : Node) : (imageClone abs absSet el).allAttrsSafe = true :=
  stripNode_safe _

theorem cloneAndProcessTree_safe (A : CAtoms) (abs absSet : String → String) (root c : Node)
    (h : cloneAndProcessTree A abs absSet root = some c) : c.allAttrsSafe = true := by
  unfold cloneAndProcessTree at h
  cases ht : treeClone (outputIds A root) root with
  | none => rw [ht] at h; cases h
  | some p =>
    rw [ht] at h
    simp only at h
    split at h
    · cases h; exact stripNode_safe _
    · cases h

theorem figureTree_safe (A : CAtoms) (abs absSet : String → String) (el caption f : Node)
    (h : figureTree A abs absSet el caption = some f) : f.allAttrsSafe = true := by
  unfold figureTree at h
  split at h
  · cases h; exact stripNode_safe _
  · split at h
    · cases h; exact stripNode_safe _
    · cases h

theorem videoTree_safe (abs absSet : String → String) (el : Node) : (videoTree abs absSet el).allAttrsSafe = true :=
  stripNode_safe _

/-- below the placeholder's own root every attribute is safe -/
theorem embedKids_safe (A : CAtoms) (el : Node) : allAttrsSafeL (embedKids A el) = true := by
  unfold embedKids
  split
  · simp [allAttrsSafeL, stripNode_safe]
  · rfl

mutual
/-- tags of all elements of a subtree -/
def Node.tags : Node → List String
  | .text _ _ => []
  | .other _ _ => []
  | .elem _ t _ ks => t :: tagsL ks
def tagsL : List Node → List String
  | [] => []
  | k :: ks => k.tags ++ tagsL ks
end

mutual
theorem dropScriptStyle_kids_clean (A : CAtoms) : (n : Node) → ∀ t ∈ tagsL (dropScriptStyle A n).kids, t ≠ "script" ∧ t ≠ "style"
  | .text _ _ => by simp [dropScriptStyle, Node.kids, tagsL]
  | .other _ _ => by simp [dropScriptStyle, Node.kids, tagsL]
  | .elem i t a ks => by
    simp only [dropScriptStyle, Node.kids]
    exact dropScriptStyleL_clean A ks
theorem dropScriptStyleL_clean (A : CAtoms) : (ks : List Node) → ∀ t ∈ tagsL (dropScriptStyleL A ks), t ≠ "script" ∧ t ≠ "style"
  | [] => by simp [dropScriptStyleL, tagsL]
  | k :: ks => by
    intro x hx
    cases k with
    | text i d =>
      simp only [dropScriptStyleL, dropScriptStyle, tagsL, Node.tags, List.nil_append] at hx
      exact dropScriptStyleL_clean A ks x hx
    | other i kd =>
      simp only [dropScriptStyleL, dropScriptStyle, tagsL, Node.tags, List.nil_append] at hx
      exact dropScriptStyleL_clean A ks x hx
    | elem i t a ks' =>
      simp only [dropScriptStyleL] at hx
      split at hx
      · exact dropScriptStyleL_clean A ks x hx
      · rename_i hne
        simp only [tagsL, dropScriptStyle, Node.tags, List.cons_append, List.mem_cons, List.mem_append] at hx
        rcases hx with h | h | h
        · subst h
          have : (¬x = "script" ∧ ¬x = "style") ∧ A.foreignRaw i = false := by simpa using hne
          exact this.1
        · exact dropScriptStyleL_clean A ks' x h
        · exact dropScriptStyleL_clean A ks x h
end

mutual
/-- ids of all elements of a subtree -/
def Node.elemIds : Node → List Nat
  | .text _ _ => []
  | .other _ _ => []
  | .elem i _ _ ks => i :: elemIdsL ks
def elemIdsL : List Node → List Nat
  | [] => []
  | k :: ks => k.elemIds ++ elemIdsL ks
end

mutual
/-- no foreign element named like a raw text element survives below the embedded element -/
theorem dropScriptStyle_kids_noForeign (A : CAtoms) : (n : Node) → ∀ j ∈ elemIdsL (dropScriptStyle A n).kids, A.foreignRaw j = false
  | .text _ _ => by simp [dropScriptStyle, Node.kids, elemIdsL]
  | .other _ _ => by simp [dropScriptStyle, Node.kids, elemIdsL]
  | .elem i t a ks => by
    simp only [dropScriptStyle, Node.kids]
    exact dropScriptStyleL_noForeign A ks
theorem dropScriptStyleL_noForeign (A : CAtoms) : (ks : List Node) → ∀ j ∈ elemIdsL (dropScriptStyleL A ks), A.foreignRaw j = false
  | [] => by simp [dropScriptStyleL, elemIdsL]
  | k :: ks => by
    intro x hx
    cases k with
    | text i d =>
      simp only [dropScriptStyleL, dropScriptStyle, elemIdsL, Node.elemIds, List.nil_append] at hx
      exact dropScriptStyleL_noForeign A ks x hx
    | other i kd =>
      simp only [dropScriptStyleL, dropScriptStyle, elemIdsL, Node.elemIds, List.nil_append] at hx
      exact dropScriptStyleL_noForeign A ks x hx
    | elem i t a ks' =>
      simp only [dropScriptStyleL] at hx
      split at hx
      · exact dropScriptStyleL_noForeign A ks x hx
      · rename_i hne
        simp only [elemIdsL, dropScriptStyle, Node.elemIds, List.cons_append, List.mem_cons, List.mem_append] at hx
        rcases hx with h | h | h
        · subst h
          have : (¬t = "script" ∧ ¬t = "style") ∧ A.foreignRaw x = false := by simpa using hne
          exact this.2
        · exact dropScriptStyleL_noForeign A ks' x h
        · exact dropScriptStyleL_noForeign A ks x h
end

mutual
theorem stripNode_tags : (n : Node) → (stripNode n).tags = n.tags
  | .text _ _ => rfl
  | .other _ _ => rfl
  | .elem i t a ks => by simp [stripNode, Node.tags, stripNodeL_tags ks]
theorem stripNodeL_tags : (ks : List Node) → tagsL (stripNodeL ks) = tagsL ks
  | [] => rfl
  | k :: ks => by simp [stripNodeL, tagsL, stripNode_tags k, stripNodeL_tags ks]
end

theorem stripNode_kids (n : Node) : (stripNode n).kids = stripNodeL n.kids := by
  cases n <;> simp [stripNode, Node.kids, stripNodeL]

/-- **No script or style element survives inside an embed placeholder** (the embedded element's
own tag is `blockquote` or `iframe`). -/
theorem embedKids_no_script (A : CAtoms) (el : Node) :
    ∀ k ∈ embedKids A el, (k.tag = "blockquote" ∨ k.tag = "iframe") ∧ ∀ t ∈ tagsL k.kids, t ≠ "script" ∧ t ≠ "style" := by
  intro k hk
  unfold embedKids at hk
  split at hk
  · rename_i htag
    simp only [List.mem_singleton] at hk
    subst hk
    constructor
    · cases el with
      | text _ _ => simp [Node.tag] at htag
      | other _ _ => simp [Node.tag] at htag
      | elem i t a ks => simpa [stripNode, dropScriptStyle, Node.tag] using htag
    · rw [stripNode_kids, stripNodeL_tags]
      exact dropScriptStyle_kids_clean A el
  · cases hk

/-! ## URLs (C06) -/

/-- `src` on img/source/track/video and `srcset` are empty or images of the resolver -/
def SrcAbs (abs absSet : String → String) (tag : String) (attrs : List Attr) : Prop :=
  ∀ a ∈ attrs,
    (srcTags.contains tag = true → a.key = "src" → IsImg abs a.val) ∧
    (a.key = "srcset" → ∃ w, a.val = absSet w)

theorem absSrcOne_spec (abs absSet : String → String) (tag : String) (c : Attr) :
    (absSrcOne abs absSet tag c).key = c.key ∧
    (srcTags.contains tag = true → c.key = "src" → IsImg abs (absSrcOne abs absSet tag c).val) ∧
    (c.key = "srcset" → ∃ w, (absSrcOne abs absSet tag c).val = absSet w) := by
  unfold absSrcOne
  by_cases h3 : c.key = "src"
  · by_cases t3 : srcTags.contains tag = true
    · have t3' : tag ∈ srcTags := by simpa using t3
      by_cases he : c.val = ""
      · simp [h3, t3', he, IsImg]
      · simp [h3, t3', he]; exact Or.inr ⟨c.val, rfl⟩
    · have t3' : ¬ tag ∈ srcTags := by simpa using t3
      simp [h3, t3']
  · by_cases h4 : c.key = "srcset"
    · simp [h4]; exact ⟨c.val, rfl⟩
    · simp [h3, h4]

theorem absSrcAttrs_abs (abs absSet : String → String) (tag : String) (attrs : List Attr) :
    SrcAbs abs absSet tag (absSrcAttrs abs absSet tag attrs) := by
  intro a ha
  unfold absSrcAttrs at ha
  obtain ⟨c, _, rfl⟩ := List.mem_map.mp ha
  obtain ⟨hk, h1, h2⟩ := absSrcOne_spec abs absSet tag c
  exact ⟨fun t k => h1 t (hk ▸ k), fun k => h2 (hk ▸ k)⟩

mutual
def Node.allSrcAbs (abs absSet : String → String) : Node → Prop
  | .text _ _ => True
  | .other _ _ => True
  | .elem _ t attrs ks => SrcAbs abs absSet t attrs ∧ allSrcAbsL abs absSet ks
def allSrcAbsL (abs absSet : String → String) : List Node → Prop
  | [] => True
  | k :: ks => k.allSrcAbs abs absSet ∧ allSrcAbsL abs absSet ks
end

mutual
theorem absSrcNode_abs (abs absSet : String → String) : (n : Node) → (absSrcNode abs absSet n).allSrcAbs abs absSet
  | .text _ _ => by simp [absSrcNode, Node.allSrcAbs]
  | .other _ _ => by simp [absSrcNode, Node.allSrcAbs]
  | .elem i t attrs ks => by
    simp only [absSrcNode, Node.allSrcAbs]
    exact ⟨absSrcAttrs_abs abs absSet t attrs, absSrcNodeL_abs abs absSet ks⟩
theorem absSrcNodeL_abs (abs absSet : String → String) : (ks : List Node) → allSrcAbsL abs absSet (absSrcNodeL abs absSet ks)
  | [] => by simp [absSrcNodeL, allSrcAbsL]
  | k :: ks => by
    simp only [absSrcNodeL, allSrcAbsL]
    exact ⟨absSrcNode_abs abs absSet k, absSrcNodeL_abs abs absSet ks⟩
end

mutual
theorem stripNode_srcAbs (abs absSet : String → String) : (n : Node) → n.allSrcAbs abs absSet →
    (stripNode n).allSrcAbs abs absSet
  | .text _ _, _ => by simp [stripNode, Node.allSrcAbs]
  | .other _ _, _ => by simp [stripNode, Node.allSrcAbs]
  | .elem i t attrs ks, h => by
    simp only [stripNode, Node.allSrcAbs] at *
    exact ⟨fun a ha => h.1 a (List.mem_filter.mp ha).1, stripNodeL_srcAbs abs absSet ks h.2⟩
theorem stripNodeL_srcAbs (abs absSet : String → String) : (ks : List Node) → allSrcAbsL abs absSet ks →
    allSrcAbsL abs absSet (stripNodeL ks)
  | [], _ => by simp [stripNodeL, allSrcAbsL]
  | k :: ks, h => by
    simp only [stripNodeL, allSrcAbsL] at *
    exact ⟨stripNode_srcAbs abs absSet k h.1, stripNodeL_srcAbs abs absSet ks h.2⟩
end

/-- **Image clones**: every `src` of an img/source/track/video and every `srcset` in the processed
clone is empty or an image of the resolver. -/
theorem imageClone_srcAbs (abs absSet : String → String) (el : Node) :
    (imageClone abs absSet el).allSrcAbs abs absSet :=
  stripNode_srcAbs abs absSet _ (absSrcNode_abs abs absSet _)

theorem videoTree_srcAbs (abs absSet : String → String) (el : Node) :
    (videoTree abs absSet el).allSrcAbs abs absSet :=
  stripNode_srcAbs abs absSet _ (absSrcNode_abs abs absSet _)

/-- the poster of the video element itself: resolved before the `src` pass, which leaves it alone,
and `poster` is on the allow list or gone -/
theorem posterAbs_spec (abs : String → String) (attrs : List Attr) :
    ∀ a ∈ posterAbs abs attrs, a.key = "poster" → IsImg abs a.val := by
  intro a ha hk
  unfold posterAbs at ha
  obtain ⟨c, _, rfl⟩ := List.mem_map.mp ha
  by_cases h1 : c.key = "poster"
  · by_cases he : c.val = ""
    · simp [h1, he, IsImg]
    · simp [h1, he]; exact Or.inr ⟨c.val, rfl⟩
  · simp [h1] at hk

/-- **Table and caption clones**: all four URL-bearing attributes -/
theorem cloneAndProcessTree_abs (A : CAtoms) (abs absSet : String → String) (root c : Node)
    (h : cloneAndProcessTree A abs absSet root = some c) : c.allUrlsAbs abs absSet := by
  unfold cloneAndProcessTree at h
  cases ht : treeClone (outputIds A root) root with
  | none => rw [ht] at h; cases h
  | some p =>
    rw [ht] at h
    simp only at h
    split at h
    · cases h; exact stripNode_abs abs absSet _ (absNode_abs abs absSet _)
    · cases h

/-! ## hidden content (C04) -/

/-- a table / caption clone holds only text nodes `GetOutputNodes` collected -/
theorem cloneAndProcessTree_textIds (A : CAtoms) (abs absSet : String → String) (root c : Node)
    (h : cloneAndProcessTree A abs absSet root = some c) :
    c.textIds = root.textIds.filter (fun i => (outputIds A root).contains i) := by
  unfold cloneAndProcessTree at h
  cases ht : treeClone (outputIds A root) root with
  | none => rw [ht] at h; cases h
  | some p =>
    obtain ⟨anc, c0⟩ := p
    rw [ht] at h
    simp only at h
    split at h
    · cases h
      rw [processClone_textIds]
      exact treeClone_textIds _ root anc c0 ht
    · cases h

/-- nothing below an element the visibility test rejects, or below script / style, is collected -/
theorem outputIds_hidden (A : CAtoms) (i : Nat) (t : String) (attrs : List Attr) (ks : List Node)
    (h : visible A i t attrs = false ∨ t = "script" ∨ t = "style" ∨ A.foreignRaw i = true) :
    outputIds A (.elem i t attrs ks) = [] := by
  simp only [outputIds]
  rcases h with h | h | h | h
  · split
    · rfl
    · simp [h]
  · simp [h]
  · simp [h]
  · simp [h]

/-! ## image URLs (C09) -/

mutual
/-- src and srcset URLs of every element of a subtree, in document order -/
def Node.imageCands (setURLs : String → List String) : Node → List String
  | .text _ _ => []
  | .other _ _ => []
  | .elem _ _ attrs ks =>
    (if getAttr attrs "src" != "" then [getAttr attrs "src"] else []) ++
    (if hasAttr attrs "srcset" then setURLs (getAttr attrs "srcset") else []) ++ imageCandsL setURLs ks
def imageCandsL (setURLs : String → List String) : List Node → List String
  | [] => []
  | k :: ks => k.imageCands setURLs ++ imageCandsL setURLs ks
end

mutual
theorem allSrcSetURLs_sublist (setURLs : String → List String) : (n : Node) →
    (allSrcSetURLs setURLs n).Sublist (n.imageCands setURLs)
  | .text _ _ => by simp [allSrcSetURLs, Node.imageCands]
  | .other _ _ => by simp [allSrcSetURLs, Node.imageCands]
  | .elem i t attrs ks => by
    simp only [allSrcSetURLs, Node.imageCands, List.append_assoc]
    exact (List.Sublist.append (List.Sublist.refl _) (allSrcSetURLsL_sublist setURLs ks)).trans
      (List.sublist_append_right _ _)
theorem allSrcSetURLsL_sublist (setURLs : String → List String) : (ks : List Node) →
    (allSrcSetURLsL setURLs ks).Sublist (imageCandsL setURLs ks)
  | [] => by simp [allSrcSetURLsL, imageCandsL]
  | k :: ks => by
    simp only [allSrcSetURLsL, imageCandsL]
    exact List.Sublist.append (allSrcSetURLs_sublist setURLs k) (allSrcSetURLsL_sublist setURLs ks)
end

/-- **`Image.GetURLs` lists, in document order, src / srcset URLs of elements of the processed
clone** (the one `GenerateOutput` serialises). -/
theorem imageURLsOf_sublist (setURLs : String → List String) (clone : Node) :
    (imageURLsOf setURLs clone).Sublist (clone.imageCands setURLs) := by
  cases clone with
  | text _ _ => simp [imageURLsOf, Node.attrs, getAttr, allSrcSetURLs, Node.imageCands]
  | other _ _ => simp [imageURLsOf, Node.attrs, getAttr, allSrcSetURLs, Node.imageCands]
  | elem i t attrs ks =>
    simp only [imageURLsOf, Node.attrs, allSrcSetURLs, Node.imageCands, List.append_assoc]
    exact List.Sublist.append (List.Sublist.refl _)
      (List.Sublist.append (List.Sublist.refl _) (allSrcSetURLsL_sublist setURLs ks))

mutual
/-- `img` and `source` are void elements: the parser never gives them children -/
def Node.voidLeaves : Node → Prop
  | .text _ _ => True
  | .other _ _ => True
  | .elem _ t _ ks => ((t == "img" || t == "source") = true → ks = []) ∧ voidLeavesL ks
def voidLeavesL : List Node → Prop
  | [] => True
  | k :: ks => k.voidLeaves ∧ voidLeavesL ks
end

mutual
theorem tableImageURLsNode_sublist (setURLs : String → List String) : (n : Node) → n.voidLeaves →
    (tableImageURLsNode setURLs n).Sublist (n.imageCands setURLs)
  | .text _ _, _ => by simp [tableImageURLsNode, Node.imageCands]
  | .other _ _, _ => by simp [tableImageURLsNode, Node.imageCands]
  | .elem i t attrs ks, hv => by
    simp only [Node.voidLeaves] at hv
    simp only [tableImageURLsNode, Node.imageCands]
    by_cases ht : (t == "img" || t == "source") = true
    · have hk := hv.1 ht
      subst hk
      simp [ht, allSrcSetURLs, allSrcSetURLsL, tableImageURLsBelow, imageCandsL]
    · simp only [ht, Bool.false_eq_true, if_false, List.nil_append, List.append_assoc]
      exact ((tableImageURLsBelow_sublist setURLs ks hv.2).trans (List.sublist_append_right _ _)).trans
        (List.sublist_append_right _ _)
theorem tableImageURLsBelow_sublist (setURLs : String → List String) : (ks : List Node) → voidLeavesL ks →
    (tableImageURLsBelow setURLs ks).Sublist (imageCandsL setURLs ks)
  | [], _ => by simp [tableImageURLsBelow, imageCandsL]
  | k :: ks, hv => by
    simp only [voidLeavesL] at hv
    simp only [tableImageURLsBelow, imageCandsL]
    exact List.Sublist.append (tableImageURLsNode_sublist setURLs k hv.1) (tableImageURLsBelow_sublist setURLs ks hv.2)
end

/-- `Document.GetImageURLs` concatenates the lists of the content elements in element order -/
theorem docImageURLs_spec (es : List (Bool × List String)) :
    docImageURLs es = ((es.filter (·.1)).map (·.2)).flatten := by
  induction es with
  | nil => rfl
  | cons e es ih =>
    obtain ⟨c, us⟩ := e
    cases c <;> simp [docImageURLs, List.filter, ih]

end Distill
