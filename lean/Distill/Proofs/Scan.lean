/-
  Proofs about `Model/Scan.lean`: every page info the DOM scan hands to the groups of adjacent
  numbers is the page info of an anchor of the tree, or a plain number without URL.
-/
import Distill.Model.Scan
namespace Distill.Scan
open Distill

/-- a call that adds a page info adds the info of some anchor, or a number without URL -/
def OkOp (A : A) : Pg.GOp → Prop
  | .add p => p.url = "" ∨ ∃ id, A.pageInfo id = some (p.num, p.url)
  | _ => True

def Inv (A : A) (s : St) : Prop := ∀ o ∈ s.ops, OkOp A o

theorem textOps_ok (A : A) (data : List Char) : ∀ o ∈ Pg.textOps data, OkOp A o := by
  intro o ho
  unfold Pg.textOps at ho
  split at ho
  · simp only [List.mem_singleton] at ho; subst ho; trivial
  · simp only [List.mem_map] at ho
    obtain ⟨t, _, rfl⟩ := ho
    split
    · split
      · exact Or.inl rfl
      · trivial
    · trivial

theorem push_inv (A : A) (s : St) (os : List Pg.GOp) (h : Inv A s) (ho : ∀ o ∈ os, OkOp A o) : Inv A (s.push os) := by
  intro o hm
  simp only [St.push, List.mem_append, List.mem_reverse] at hm
  rcases hm with hm | hm
  · exact ho o hm
  · exact h o hm

theorem fwd_inv (A : A) (s : St) (k : Nat) (h : Inv A s) : Inv A { s with fwd := k } := h

def StepInv (A : A) : Step → Prop
  | .done s => Inv A s
  | .go _ _ s => Inv A s

theorem step_inv (A : A) (rs : List Rec) (start : Nat) (cs bw : Bool) (s : St) (hs : Inv A s) :
    StepInv A (step A rs start cs bw s) := by
  have hgrp : ∀ k, Inv A ({ s with fwd := k }.push [.addGroup]) := fun k =>
    push_inv A _ _ (fwd_inv A s k hs) (by intro o ho; simp only [List.mem_singleton] at ho; subst ho; trivial)
  unfold step
  repeat' split
  all_goals
    first
      | exact hs
      | exact push_inv A s _ hs (textOps_ok A _)
      | exact hgrp _
      | (apply push_inv A _ _ (fwd_inv A s _ hs)
         intro o ho
         simp only [List.mem_singleton] at ho
         subst ho
         exact Or.inr ⟨_, by assumption⟩)

theorem walk_inv (A : A) (rs : List Rec) :
    ∀ fuel start cs bw s s', Inv A s → walk A rs fuel start cs bw s = some s' → Inv A s' := by
  intro fuel
  induction fuel with
  | zero => intro _ _ _ _ _ _ h; simp [walk] at h
  | succ f ih =>
    intro start cs bw s s' hs h
    unfold walk at h
    have hst := step_inv A rs start cs bw s hs
    split at h
    · rename_i s1 heq
      rw [heq] at hst
      cases h; exact hst
    · rename_i st c s1 heq
      rw [heq] at hst
      exact ih _ _ _ _ _ hst h

theorem loop_inv (A : A) (rs : List Rec) :
    ∀ fuel links s s', Inv A s → loop A rs fuel links s = some s' → Inv A s' := by
  intro fuel
  induction fuel with
  | zero => intro _ _ _ _ h; simp [loop] at h
  | succ f ih =>
    intro links s s' hs h
    cases links with
    | nil => simp [loop] at h; subst h; exact hs
    | cons link rest =>
      unfold loop at h
      split at h
      · exact ih _ _ _ hs h
      · rename_i num url hpi
        simp only [] at h
        split at h
        · cases h
        · rename_i s1 hw1
          split at h
          · cases h
          · rename_i s3 hw3
            have h0 : Inv A { (s.push [.addGroup]) with fwd := 0 } :=
              fwd_inv A _ 0 (push_inv A s _ hs (by intro o ho; simp only [List.mem_singleton] at ho; subst ho; trivial))
            have h1 := walk_inv A rs _ _ _ _ _ _ h0 hw1
            have h2 : Inv A { (s1.push [.add { num := num, url := url }]) with fwd := 0 } :=
              fwd_inv A _ 0 (push_inv A s1 _ h1 (by
                intro o ho; simp only [List.mem_singleton] at ho; subst ho; exact Or.inr ⟨link, hpi⟩))
            have h3 := walk_inv A rs _ _ _ _ _ _ h2 hw3
            exact ih _ _ _ h3 h

/-- **Provenance through the DOM scan**: every page info the scan adds to the groups is the page
info of an anchor of the tree (as `getPageInfoAndText` gives it) or a plain number without a URL —
for every tree. -/
theorem scanOps_provenance (A : A) (root : Node) (ops : List Pg.GOp) (h : scanOps A root = some ops) :
    ∀ o ∈ ops, OkOp A o := by
  unfold scanOps at h
  simp only [Option.map_eq_some_iff] at h
  obtain ⟨s, hl, rfl⟩ := h
  have hinv := loop_inv A _ _ _ _ _ (by intro o ho; simp at ho) hl
  intro o ho
  simp only [List.mem_append, List.mem_reverse, List.mem_singleton] at ho
  rcases ho with ho | rfl
  · exact hinv o ho
  · trivial

end Distill.Scan
