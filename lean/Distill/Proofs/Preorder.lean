import Distill.Proofs.Compose
namespace Distill

/-! ## pre-order numbering: the ids of a tree numbered in document order are distinct -/

mutual
/-- number the nodes of a tree in document order, starting at `k` -/
def relabel (k : Nat) : Node → Node
  | .text _ d => .text k d
  | .other _ kd => .other k kd
  | .elem _ t a ks => .elem k t a (relabelL (k + 1) ks)
def relabelL (k : Nat) : List Node → List Node
  | [] => []
  | n :: ns => relabel k n :: relabelL (k + n.size) ns
end

mutual
theorem relabel_allIds (k : Nat) : (n : Node) → (relabel k n).allIds = List.range' k n.size
  | .text _ _ => by simp [relabel, Node.allIds, Node.size, List.range']
  | .other _ _ => by simp [relabel, Node.allIds, Node.size, List.range']
  | .elem _ t a ks => by
    simp only [relabel, Node.allIds, Node.size]
    rw [relabelL_allIds (k + 1) ks]
    rw [Nat.add_comm 1 (sizeL ks), List.range'_succ]
theorem relabelL_allIds (k : Nat) : (ks : List Node) → allIdsL (relabelL k ks) = List.range' k (sizeL ks)
  | [] => by simp [relabelL, allIdsL, sizeL]
  | n :: ns => by
    simp only [relabelL, allIdsL, sizeL]
    rw [relabel_allIds k n, relabelL_allIds (k + n.size) ns]
    exact (List.range'_append_1 (s := k) (m := n.size) (n := sizeL ns)).symm ▸ rfl
end

mutual
theorem brTextIds_sublist_allIds : (n : Node) → n.brTextIds.Sublist n.allIds
  | .text i d => by simp [Node.brTextIds, Node.allIds]
  | .other _ _ => by simp [Node.brTextIds, Node.allIds]
  | .elem i t a ks => by
    simp only [Node.brTextIds, Node.allIds]
    split
    · exact List.Sublist.cons_cons i (brTextIdsL_sublist_allIdsL ks)
    · simpa using (brTextIdsL_sublist_allIdsL ks).trans (List.sublist_cons_self i _)
theorem brTextIdsL_sublist_allIdsL : (ks : List Node) → (brTextIdsL ks).Sublist (allIdsL ks)
  | [] => by simp [brTextIdsL, allIdsL]
  | k :: ks => by
    simp only [brTextIdsL, allIdsL]
    exact List.Sublist.append (brTextIds_sublist_allIds k) (brTextIdsL_sublist_allIdsL ks)
end

/-- **A tree numbered in document order has distinct ids**, so in particular its text-and-br ids
are distinct: the hypothesis of `rendered_concat_excerpt` holds for every tree the harness (or
anyone numbering nodes by position) hands to the model. -/
theorem relabel_brTextIds_nodup (k : Nat) (n : Node) : (relabel k n).brTextIds.Nodup := by
  have h := brTextIds_sublist_allIds (relabel k n)
  rw [relabel_allIds] at h
  exact h.nodup (List.nodup_range' (step := 1) (by omega))

end Distill
