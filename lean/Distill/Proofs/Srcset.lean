/-
  Proofs about `Model/Srcset.lean`: on a list of well-formed image candidates written in the usual
  way (`url d1 d2, url, url d`), the regular expression finds exactly the candidates' URLs, and the
  rewriting replaces exactly those URLs.
-/
import Distill.Model.Srcset
namespace Distill.Srcset

/-- an image candidate: URL and descriptors -/
structure Cand where
  url : List Char
  descs : List (List Char)

def descText (ds : List (List Char)) : List Char := ds.flatMap (fun d => ' ' :: d)
def candText (c : Cand) : List Char := c.url ++ descText c.descs

/-- candidates separated by a comma and a space -/
def render : List Cand → List Char
  | [] => []
  | [c] => candText c
  | c :: c' :: cs => candText c ++ ',' :: ' ' :: render (c' :: cs)

/-- a descriptor the regular expression knows: the whole token is one `[\d.]+(?:e[+-]?\d+)?[xwh]` -/
def WFDesc (d : List Char) : Prop := descLen .start d = some d.length

/-- a URL: not empty, no white space, does not start with a comma and does not start with something
that reads as a descriptor -/
def WFUrl (u : List Char) : Prop :=
  u ≠ [] ∧ (∀ c ∈ u, isWS c = false) ∧ u.head? ≠ some ',' ∧ descLen .start u = none

def WFCand (c : Cand) : Prop := WFUrl c.url ∧ ∀ d ∈ c.descs, WFDesc d

/-- a separator: white space or a comma -/
def isSep (c : Char) : Bool := isWS c || c == ','

theorem sep_cases {c : Char} (h : isSep c = true) :
    isDigitDot c = false ∧ isUnit c = false ∧ isE c = false ∧ isSign c = false ∧ c.isDigit = false := by
  have : c = ' ' ∨ c = '\n' ∨ c = '\t' ∨ c = '\r' ∨ c = '\x0c' ∨ c = ',' := by
    simp only [isSep, isWS, Bool.or_eq_true, beq_iff_eq] at h
    rcases h with ((((h | h) | h) | h) | h) | h <;> simp [h]
  rcases this with h | h | h | h | h | h <;> subst h <;> decide

theorem descLen_sep (q : DS) (c : Char) (t : List Char) (h : isSep c = true) : descLen q (c :: t) = none := by
  obtain ⟨h1, h2, h3, h4, h5⟩ := sep_cases h
  cases q <;> simp [descLen, h1, h2, h3, h4, h5]

/-- what follows a token that is not a descriptor cannot make it one, when it starts with a separator -/
theorem descLen_none_append (u t : List Char) (ht : t = [] ∨ ∃ c t', t = c :: t' ∧ isSep c = true) :
    ∀ q, descLen q u = none → descLen q (u ++ t) = none := by
  induction u with
  | nil =>
    intro q _
    rcases ht with rfl | ⟨c, t', rfl, hc⟩
    · cases q <;> rfl
    · exact descLen_sep q c t' hc
  | cons a u ih =>
    intro q h
    cases q <;> simp only [descLen, List.cons_append] at h ⊢
    all_goals
      repeat' split at h
      all_goals (try simp_all)
    all_goals (try exact ih _ ‹_›)

/-- a descriptor is recognised whatever follows it -/
theorem descLen_some_append (d t : List Char) :
    ∀ q n, descLen q d = some n → descLen q (d ++ t) = some n := by
  induction d with
  | nil => intro q n h; cases q <;> simp [descLen] at h
  | cons a d ih =>
    intro q n h
    cases q <;> simp only [descLen, List.cons_append] at h ⊢
    all_goals
      repeat' split at h
      all_goals (try simp_all)
    all_goals
      (try
        (obtain ⟨m, hm, rfl⟩ := h
         exact ⟨m, ih _ _ hm, rfl⟩))

theorem wfdesc_head {d : List Char} (h : WFDesc d) : ∃ c cs, d = c :: cs ∧ isWS c = false := by
  unfold WFDesc at h
  cases d with
  | nil => simp [descLen] at h
  | cons c cs =>
    refine ⟨c, cs, rfl, ?_⟩
    simp only [descLen] at h
    split at h
    · rename_i hd
      cases hw : isWS c
      · rfl
      · have := (sep_cases (c := c) (by simp [isSep, hw])).1
        rw [hd] at this; cases this
    · cases h

theorem isWS_space : isWS ' ' = true := by decide

/-- the descriptors of a candidate are consumed as a whole, up to a comma or the end -/
theorem takeDescs_descText (ds : List (List Char)) (hds : ∀ d ∈ ds, WFDesc d) (t : List Char)
    (ht : t = [] ∨ ∃ t', t = ',' :: t') :
    ∀ fuel, (descText ds ++ t).length ≤ fuel → takeDescs fuel (descText ds ++ t) = (descText ds, t) := by
  induction ds with
  | nil =>
    intro fuel _
    simp only [descText, List.flatMap_nil, List.nil_append]
    cases fuel with
    | zero => rfl
    | succ f =>
      rcases ht with rfl | ⟨t', rfl⟩
      · simp [takeDescs]
      · have : isWS ',' = false := by decide
        simp [takeDescs, this]
  | cons d ds ih =>
    intro fuel hf
    obtain ⟨c, cs, rfl, hc⟩ := wfdesc_head (hds d (by simp))
    have hd : WFDesc (c :: cs) := hds _ (by simp)
    have ih' := ih (fun x hx => hds x (by simp [hx]))
    have e : descText ((c :: cs) :: ds) ++ t = ' ' :: (c :: cs) ++ (descText ds ++ t) := by
      simp [descText]
    rw [e] at hf ⊢
    cases fuel with
    | zero => simp at hf
    | succ f =>
      have hlen : descLen .start ((c :: cs) ++ (descText ds ++ t)) = some (c :: cs).length :=
        descLen_some_append _ _ _ _ hd
      have htw : List.takeWhile isWS (' ' :: (c :: cs) ++ (descText ds ++ t)) = [' '] := by
        simp [isWS_space, hc]
      have hdw : List.dropWhile isWS (' ' :: (c :: cs) ++ (descText ds ++ t)) = (c :: cs) ++ (descText ds ++ t) := by
        simp [isWS_space, hc]
      have hrec := ih' f (by simp at hf ⊢; omega)
      simp only [takeDescs, htw, hdw, hlen]
      simp only [List.isEmpty_cons, Bool.false_eq_true, ↓reduceIte]
      have h1 : List.take (c :: cs).length ((c :: cs) ++ (descText ds ++ t)) = c :: cs := by
        simp
      have h2 : List.drop (c :: cs).length ((c :: cs) ++ (descText ds ++ t)) = descText ds ++ t := by
        simp
      rw [h1, h2, hrec]
      simp [descText]

theorem lastComma_go_snoc (cs : List Char) : ∀ i acc, lastComma.go i (cs ++ [',']) acc = some (i + cs.length) := by
  induction cs with
  | nil => intro i acc; simp [lastComma.go]
  | cons c cs ih =>
    intro i acc
    simp only [List.cons_append, lastComma.go, ih, List.length_cons]
    congr 1; omega

theorem lastComma_snoc (u : List Char) (h : u ≠ []) : lastComma (u ++ [',']) = some u.length := by
  cases u with
  | nil => exact absurd rfl h
  | cons c cs =>
    simp only [List.cons_append, lastComma, lastComma_go_snoc, List.length_cons]
    congr 1; omega

theorem takeWhile_nonws_append (u t : List Char) (hu : ∀ c ∈ u, isWS c = false)
    (ht : t = [] ∨ ∃ c t', t = c :: t' ∧ isWS c = true) :
    List.takeWhile (fun c => !isWS c) (u ++ t) = u ∧ List.dropWhile (fun c => !isWS c) (u ++ t) = t := by
  induction u with
  | nil =>
    rcases ht with rfl | ⟨c, t', rfl, hc⟩
    · simp
    · simp [hc]
  | cons a u ih =>
    have ha := hu a (by simp)
    have := ih (fun c hc => hu c (by simp [hc]))
    simp [ha, this.1, this.2]

/-- the text of a non-empty candidate list starts with the first URL, followed by nothing, a space or a comma -/
theorem render_head (c : Cand) (cs : List Cand) :
    ∃ t, render (c :: cs) = c.url ++ t ∧ (t = [] ∨ ∃ ch t', t = ch :: t' ∧ isSep ch = true) := by
  cases cs with
  | nil =>
    refine ⟨descText c.descs, rfl, ?_⟩
    cases hd : c.descs with
    | nil => left; simp [descText]
    | cons d ds => right; exact ⟨' ', d ++ descText ds, by simp [descText], by decide⟩
  | cons c' cs =>
    refine ⟨descText c.descs ++ ',' :: ' ' :: render (c' :: cs), by simp [render, candText], Or.inr ?_⟩
    cases hd : c.descs with
    | nil => exact ⟨',', ' ' :: render (c' :: cs), by simp [descText], by decide⟩
    | cons d ds => exact ⟨' ', d ++ (descText ds ++ ',' :: ' ' :: render (c' :: cs)), by simp [descText], by decide⟩

/-- the match at a candidate that is not the last one -/
theorem matchRun_inner (c c' : Cand) (cs : List Cand) (hc : WFCand c) (hc' : WFCand c') :
    matchRun (render (c :: c' :: cs)) =
      some (⟨c.url, descText c.descs, [], true⟩, ' ' :: render (c' :: cs)) := by
  obtain ⟨⟨hne, hws, _, _⟩, hds⟩ := hc
  obtain ⟨⟨hne', hws', hcomma', hnd'⟩, _⟩ := hc'
  obtain ⟨t', ht', hsep'⟩ := render_head c' cs
  -- the next candidate's text does not start with a descriptor, and starts with a non-space non-comma
  have hnext : descLen .start (render (c' :: cs)) = none := by
    rw [ht']; exact descLen_none_append _ _ hsep' _ hnd'
  obtain ⟨a, u', hu'⟩ : ∃ a u', c'.url = a :: u' := by
    cases h : c'.url with
    | nil => exact absurd h hne'
    | cons a u' => exact ⟨a, u', rfl⟩
  have ha_ws : isWS a = false := hws' a (by simp [hu'])
  have ha_comma : (a == ',') = false := by
    cases h : a == ','
    · rfl
    · rw [hu'] at hcomma'; simp at h; simp [h] at hcomma'
  have hrn : render (c' :: cs) = a :: (u' ++ t') := by rw [ht', hu']; rfl
  cases hd : c.descs with
  | nil =>
    -- `url, next`: the run is `url,`; the first attempt fails at the next URL; the last comma decides
    have e : render (c :: c' :: cs) = (c.url ++ [',']) ++ (' ' :: render (c' :: cs)) := by
      simp [render, candText, hd, descText]
    have hrun := takeWhile_nonws_append (c.url ++ [',']) (' ' :: render (c' :: cs))
      (by
        intro x hx
        simp only [List.mem_append, List.mem_singleton] at hx
        rcases hx with hx | rfl
        · exact hws x hx
        · decide)
      (Or.inr ⟨' ', _, rfl, isWS_space⟩)
    have htd : takeDescs (' ' :: render (c' :: cs)).length (' ' :: render (c' :: cs)) = ([], ' ' :: render (c' :: cs)) := by
      have htw : List.takeWhile isWS (' ' :: render (c' :: cs)) = [' '] := by
        rw [hrn]; simp [isWS_space, ha_ws]
      have hdw : List.dropWhile isWS (' ' :: render (c' :: cs)) = render (c' :: cs) := by
        rw [hrn]; simp [isWS_space, ha_ws]
      simp only [List.length_cons, takeDescs, htw, hdw, hnext]
      simp
    have hdw2 : List.dropWhile isWS (' ' :: render (c' :: cs)) = a :: (u' ++ t') := by
      rw [hrn]; simp [isWS_space, ha_ws]
    rw [e]
    simp only [matchRun, hrun.1, hrun.2, htd, hdw2, ha_comma, lastComma_snoc c.url hne]
    simp [descText, hrn]
  | cons d ds =>
    have e : render (c :: c' :: cs) = c.url ++ (descText c.descs ++ (',' :: ' ' :: render (c' :: cs))) := by
      simp [render, candText]
    have hrun := takeWhile_nonws_append c.url (descText c.descs ++ (',' :: ' ' :: render (c' :: cs))) hws
      (Or.inr ⟨' ', d ++ descText ds ++ (',' :: ' ' :: render (c' :: cs)), by simp [hd, descText], isWS_space⟩)
    have htd := takeDescs_descText c.descs hds (',' :: ' ' :: render (c' :: cs)) (Or.inr ⟨_, rfl⟩)
      (descText c.descs ++ (',' :: ' ' :: render (c' :: cs))).length (Nat.le_refl _)
    have hcomma : isWS ',' = false := by decide
    rw [e]
    simp only [matchRun, hrun.1, hrun.2, htd]
    simp [hcomma, hd]

/-- the match at the last candidate -/
theorem matchRun_last (c : Cand) (hc : WFCand c) :
    matchRun (render [c]) = some (⟨c.url, descText c.descs, [], false⟩, []) := by
  obtain ⟨⟨_, hws, _, _⟩, hds⟩ := hc
  have e : render [c] = c.url ++ (descText c.descs ++ []) := by simp [render, candText]
  have hrun := takeWhile_nonws_append c.url (descText c.descs ++ []) hws
    (by
      cases hd : c.descs with
      | nil => left; simp [descText]
      | cons d ds => right; exact ⟨' ', d ++ descText ds ++ [], by simp [descText], isWS_space⟩)
  have htd := takeDescs_descText c.descs hds [] (Or.inl rfl) (descText c.descs ++ []).length (Nat.le_refl _)
  rw [e]
  simp only [matchRun, hrun.1, hrun.2, htd]
  simp

/-- what `FindAll` yields on a candidate list -/
def expected : List Cand → List Piece
  | [] => []
  | [c] => [.m ⟨c.url, descText c.descs, [], false⟩]
  | c :: c' :: cs => .m ⟨c.url, descText c.descs, [], true⟩ :: .lit ' ' :: expected (c' :: cs)

theorem render_cons_ne (c : Cand) (cs : List Cand) (hc : WFCand c) :
    ∃ a r, render (c :: cs) = a :: r ∧ isWS a = false := by
  obtain ⟨t, ht, _⟩ := render_head c cs
  obtain ⟨⟨hne, hws, _, _⟩, _⟩ := hc
  cases hu : c.url with
  | nil => exact absurd hu hne
  | cons a u => exact ⟨a, u ++ t, by rw [ht, hu]; rfl, hws a (by simp [hu])⟩

theorem pieces_render (cs : List Cand) (h : ∀ c ∈ cs, WFCand c) :
    ∀ fuel, (render cs).length < fuel → pieces fuel (render cs) = expected cs := by
  induction cs with
  | nil => intro fuel hf; cases fuel with
    | zero => simp at hf
    | succ f => rfl
  | cons c cs ih =>
    intro fuel hf
    have hc := h c (by simp)
    obtain ⟨a, r, har, haws⟩ := render_cons_ne c cs hc
    cases fuel with
    | zero => simp at hf
    | succ f =>
      cases cs with
      | nil =>
        have hm := matchRun_last c hc
        rw [har] at hm ⊢
        simp only [pieces, haws, Bool.false_eq_true, ↓reduceIte, hm, expected]
        cases f <;> rfl
      | cons c' cs =>
        have hc' := h c' (by simp)
        have hm := matchRun_inner c c' cs hc hc'
        have hlen : (render (c' :: cs)).length + 2 ≤ (render (c :: c' :: cs)).length := by
          simp [render]
        rw [har] at hm hf
        rw [har]
        simp only [pieces, haws, Bool.false_eq_true, ↓reduceIte, hm, expected]
        rw [← har] at hf
        cases f with
        | zero => omega
        | succ f' =>
          have := ih (fun x hx => h x (by simp [hx])) f' (by omega)
          simp only [pieces, isWS_space, ↓reduceIte, this]

/-- **`GetSrcSetURLs` on a well-formed candidate list returns the candidates' URLs, in order.** -/
theorem urls_render (cs : List Cand) (h : ∀ c ∈ cs, WFCand c) : urls (render cs) = cs.map (·.url) := by
  unfold urls
  rw [pieces_render cs h _ (Nat.lt_succ_self _)]
  clear h
  induction cs with
  | nil => rfl
  | cons c cs ih =>
    cases cs with
    | nil => rfl
    | cons c' cs => simpa [expected] using ih

/-- **`makeSrcSetAbsolute` on a well-formed candidate list rewrites the URLs and nothing else**,
provided the resolution keeps a comma that directly follows a URL (`abs (u ++ ",") = abs u ++ ","`,
which is what `makeSrcSetAbsolute` relies on; the check measures it on the real function). -/
theorem rewrite_render (abs : List Char → List Char) (cs : List Cand) (h : ∀ c ∈ cs, WFCand c)
    (hcomma : ∀ c ∈ cs, abs (c.url ++ [',']) = abs c.url ++ [',']) :
    rewrite abs (render cs) = render (cs.map fun c => { c with url := abs c.url }) := by
  unfold rewrite
  rw [pieces_render cs h _ (Nat.lt_succ_self _)]
  clear h
  induction cs with
  | nil => rfl
  | cons c cs ih =>
    cases cs with
    | nil =>
      simp [expected, rewriteM, render, candText]
    | cons c' cs =>
      have ih' := ih (fun x hx => hcomma x (by simp [hx]))
      have hc := hcomma c (by simp)
      simp only [expected, List.flatMap_cons, List.map_cons, render, candText] at ih' ⊢
      rw [ih']
      cases hd : c.descs with
      | nil => simp [rewriteM, descText, hc]
      | cons d ds => simp [rewriteM, descText]

/-- **the candidates of the rewritten value are the resolved candidates of the original value** -/
theorem urls_rewrite_render (abs : List Char → List Char) (cs : List Cand) (h : ∀ c ∈ cs, WFCand c)
    (hcomma : ∀ c ∈ cs, abs (c.url ++ [',']) = abs c.url ++ [','])
    (habs : ∀ c ∈ cs, WFUrl (abs c.url)) :
    urls (rewrite abs (render cs)) = cs.map (fun c => abs c.url) := by
  rw [rewrite_render abs cs h hcomma, urls_render]
  · simp
  · intro c hc
    simp only [List.mem_map] at hc
    obtain ⟨c0, hc0, rfl⟩ := hc
    exact ⟨habs c0 hc0, (h c0 hc0).2⟩

end Distill.Srcset
