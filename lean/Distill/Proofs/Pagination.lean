/-
  Proofs about the pagination model (Model/Pagination.lean): provenance of the URLs in the
  detection result, and the prev/next selection.
-/
import Distill.Model.Pagination
namespace Distill.Pg

/-- every URL the DOM scan recorded -/
def groupURLs' (gs : List PGroup) : List String := gs.flatMap (fun g => g.list.map (·.url))

/-! ### generic helpers and the provenance invariant -/

theorem foldl_inv {α β : Type} (P : β → Prop) (f : β → α → β) (l : List α) (b : β)
    (h0 : P b) (hstep : ∀ b a, a ∈ l → P b → P (f b a)) : P (l.foldl f b) := by
  induction l generalizing b with
  | nil => simpa using h0
  | cons x xs ih =>
    simp only [List.foldl_cons]
    apply ih
    · exact hstep b x (by simp) h0
    · intro b a ha hb
      exact hstep b a (by simp [ha]) hb

/-- all urls of a page list satisfy `Q` -/
def AllQ (Q : String → Prop) (l : List PInfo) : Prop := ∀ p ∈ l, Q p.url

def Ok (Q : String → Prop) (pi : ParamInfo) : Prop := AllQ Q pi.pages ∧ Q pi.next

def OkOpt (Q : String → Prop) (o : Option ParamInfo) : Prop := ∀ pi, o = some pi → Ok Q pi

theorem default_url : (default : PInfo).url = "" := rfl

variable {Q : String → Prop}

theorem nth_Q (h0 : Q "") {l : List PInfo} (hl : AllQ Q l) (i : Nat) : Q (nth l i).url := by
  unfold nth
  cases h : l[i]? with
  | none => simpa [default_url] using h0
  | some p => simpa using hl p (List.mem_of_getElem? h)

theorem setNum_AllQ {l : List PInfo} (hl : AllQ Q l) (i : Nat) (n : Int) : AllQ Q (setNum l i n) := by
  unfold setNum
  cases h : l[i]? with
  | none => simpa using hl
  | some p =>
    simp only
    intro q hq
    rcases List.mem_or_eq_of_mem_set hq with hq | rfl
    · exact hl q hq
    · exact hl p (List.mem_of_getElem? h)

theorem pageNumbersState_next (h0 : Q "") {asc : List PInfo} (hl : AllQ Q asc) (links : List LinkInfo) :
    Q (pageNumbersState links asc).next := by
  unfold pageNumbersState
  simp only
  repeat' split
  all_goals first | exact h0 | exact nth_Q h0 hl _

theorem isPageNumberSequence_next {st : NumState} {asc : List PInfo} (hs : Q st.next) (hl : AllQ Q asc) :
    Q (isPageNumberSequence st asc).2 := by
  unfold isPageNumberSequence
  dsimp only
  by_cases h1 : asc.length ≤ 1
  · rw [if_pos h1]; exact hs
  rw [if_neg h1]
  by_cases h2 : ((nth asc 0).num != 1 && (nth asc 0).url == "") = true
  · rw [if_pos h2]; exact hs
  rw [if_neg h2]
  generalize hscan : List.foldl _ (true, false, st.next) asc = scan
  have hq : Q scan.2.2 := by
    rw [← hscan]
    apply foldl_inv (fun (acc : Bool × Bool × String) => Q acc.2.2)
    · exact hs
    · intro b a ha hb
      obtain ⟨ok, hp, nx⟩ := b
      dsimp only
      repeat' split
      all_goals first | exact hb | exact hl a ha
  obtain ⟨ok, hp, nx⟩ := scan
  simp only [apply_ite Prod.snd, ite_self]
  exact hq

def EvOk (Q : String → Prop) (r : Option ParamInfo × List PInfo) : Prop := AllQ Q r.2 ∧ OkOpt Q r.1

theorem EvOk_none {l : List PInfo} (h : AllQ Q l) : EvOk Q (none, l) :=
  ⟨h, fun _ h => by cases h⟩

theorem EvOk_some {l : List PInfo} {pi : ParamInfo} (h : AllQ Q l) (hp : Ok Q pi) : EvOk Q (some pi, l) :=
  ⟨h, fun _ h => by cases h; exact hp⟩

theorem evaluate_ok (h0 : Q "") (A : Atoms) (key : String) (links : List LinkInfo) {asc : List PInfo}
    {first : String} (hl : AllQ Q asc) (hf : Q first) :
    EvOk Q (evaluate A key links asc first) := by
  unfold evaluate
  by_cases h1 : links.length ≥ 2
  · rw [if_pos h1]
    dsimp only
    by_cases h2 : (!(pageNumbersState links asc).isAdjacent || !(pageNumbersState links asc).isConsecutive) = true
    · rw [if_pos h2]; exact EvOk_none hl
    rw [if_neg h2]
    have hq := isPageNumberSequence_next (st := pageNumbersState links asc)
      (pageNumbersState_next h0 hl links) hl
    generalize isPageNumberSequence (pageNumbersState links asc) asc = r at hq ⊢
    obtain ⟨ok, next⟩ := r
    dsimp only at hq ⊢
    by_cases h3 : (!ok) = true
    · rw [if_pos h3]; exact EvOk_none hl
    rw [if_neg h3]
    refine EvOk_some hl ⟨?_, hq⟩
    intro p hp
    simp only [List.mem_map] at hp
    obtain ⟨l, _, rfl⟩ := hp
    exact nth_Q h0 hl _
  · rw [if_neg h1]
    rcases links with _ | ⟨only, _ | ⟨b, rest⟩⟩
    · exact EvOk_none hl
    · dsimp only
      have hl' := setNum_AllQ hl 1 2
      by_cases h2 : (first != "") = true
      · rw [if_pos h2]
        split
        · refine EvOk_some hl' ⟨?_, ?_⟩
          · intro p hp
            simp only [List.mem_cons, List.not_mem_nil, or_false] at hp
            rcases hp with rfl | rfl
            · exact hf
            · exact nth_Q h0 hl' _
          · dsimp only
            split
            · exact nth_Q h0 hl' _
            · exact h0
        · exact EvOk_none hl'
      · rw [if_neg h2]; exact EvOk_none hl
    · exact EvOk_none hl

theorem OkOpt_none : OkOpt Q none := fun _ h => by cases h

theorem OkOpt_some {pi : ParamInfo} (h : Ok Q pi) : OkOpt Q (some pi) := fun _ h' => by cases h'; exact h

theorem compareAndUpdate_ok {ds st : DState} (h1 : OkOpt Q ds.best) (h2 : OkOpt Q st.best) :
    OkOpt Q (compareAndUpdate ds st).best := by
  unfold compareAndUpdate
  split
  · exact h2
  · dsimp only
    repeat' split
    all_goals first | exact h1 | exact h2
  · exact h1

theorem insertFirstPage_ok {pi : ParamInfo} {d : String} (h : Ok Q pi) (hd : Q d) :
    Ok Q (insertFirstPage pi d) := by
  refine ⟨?_, h.2⟩
  intro p hp
  simp only [insertFirstPage, List.mem_cons] at hp
  rcases hp with rfl | hp
  · exact hd
  · exact h.1 p hp

theorem determineNext_go {l : List PInfo} {d : String} {has : Bool} {u : String}
    (h : determineNext.go d l has = some u) : ∃ p ∈ l, u = p.url := by
  induction l generalizing has with
  | nil => simp [determineNext.go] at h
  | cons x xs ih =>
    unfold determineNext.go at h
    split at h
    · exact ⟨x, by simp, by simpa using h.symm⟩
    · obtain ⟨p, hp, hu⟩ := ih h
      exact ⟨p, by simp [hp], hu⟩

theorem determineNext_ok {pi : ParamInfo} {d : String} (h : Ok Q pi) : Ok Q (determineNext pi d) := by
  unfold determineNext
  split
  · exact h
  · split
    · rename_i u hu
      obtain ⟨p, hp, rfl⟩ := determineNext_go hu
      exact ⟨h.1, h.1 p hp⟩
    · exact h

theorem of_ite_none {α : Type} {c : Prop} [Decidable c] {x : Option α} {y : α}
    (h : (if c then none else x) = some y) : x = some y := by
  split at h
  · cases h
  · exact h

theorem newDetectionState_ok (h0 : Q "") (A : Atoms) {nums : List PInfo} (desc : Bool) (acc : String)
    (hd : Q A.docURL) (ht : Q (trimPathSlash A.docURL)) (hl : AllQ Q nums) {st : DState}
    (h : newDetectionState A nums desc acc = some st) : OkOpt Q st.best := by
  unfold newDetectionState at h
  dsimp only at h
  replace h := of_ite_none h
  have hl1 : AllQ Q (if desc = true then nums.reverse else nums) := by
    split
    · intro p hp; exact hl p (List.mem_reverse.1 hp)
    · exact hl
  generalize (if desc = true then nums.reverse else nums) = nums1 at h hl1
  generalize (List.filter (fun p => p.url != "") nums).length = outlinks at h
  generalize hx : (if (nums1.length == 2 && outlinks == 1 && (nth nums1 0).num == 1 && (nth nums1 1).num == 2) = true
      then _ else (nums1, outlinks) : List PInfo × Nat) = x at h
  have hl2 : AllQ Q x.1 := by
    rw [← hx]
    split
    · split
      · intro p hp
        simp only [List.mem_cons, List.not_mem_nil, or_false] at hp
        rcases hp with rfl | rfl
        · exact hd
        · exact nth_Q h0 hl1 _
      · intro p hp
        simp only [List.mem_cons, List.not_mem_nil, or_false] at hp
        rcases hp with rfl | rfl
        · exact nth_Q h0 hl1 _
        · exact hd
    · exact hl1
  clear hx
  obtain ⟨nums2, outlinks2⟩ := x
  dsimp only at h hl2
  replace h := of_ite_none h
  replace h := of_ite_none h
  generalize hqc : List.foldl _ (([] : List (PatAtom × List LinkInfo)), "") _ = qc at h
  have hf : Q qc.2 := by
    rw [← hqc]
    apply foldl_inv (fun (a : List (PatAtom × List LinkInfo) × String) => Q a.2)
    · exact h0
    · intro b a ha hb
      simp only [List.mem_map] at ha
      obtain ⟨i, _, rfl⟩ := ha
      dsimp only
      repeat' split
      all_goals first | exact hb | exact nth_Q h0 hl2 _
  clear hqc
  obtain ⟨cands0, firstPageURL⟩ := qc
  dsimp only at h hf
  generalize (if cands0.isEmpty = true then _ else cands0) = cands at h
  generalize hres : List.foldl _ (({} : DState), nums2) cands = res at h
  have hr : OkOpt Q res.1.best ∧ AllQ Q res.2 := by
    rw [← hres]
    apply foldl_inv (fun (r : DState × List PInfo) => OkOpt Q r.1.best ∧ AllQ Q r.2)
    · exact ⟨OkOpt_none, hl2⟩
    · intro b a _ hb
      obtain ⟨st, asc⟩ := b
      obtain ⟨p, links⟩ := a
      dsimp only at hb ⊢
      split
      · exact hb
      · have hev := evaluate_ok h0 A p.key links hb.2 hf
        generalize evaluate A p.key links asc firstPageURL = r at hev ⊢
        obtain ⟨pi?, asc'⟩ := r
        cases pi? with
        | none => exact ⟨hb.1, hev.1⟩
        | some pi =>
          dsimp only
          refine ⟨compareAndUpdate_ok hb.1 (OkOpt_some ?_), hev.1⟩
          have hpi := hev.2 pi rfl
          repeat' split
          all_goals first | exact insertFirstPage_ok hpi ht | exact hpi
  split at h
  · cases h
  · cases h
    exact hr.1

theorem Ok_default (h0 : Q "") : Ok Q ({} : ParamInfo) :=
  ⟨fun _ h => (by cases h), h0⟩

theorem detectParamInfo_ok (h0 : Q "") (A : Atoms) (gs : List PGroup) (arg : String)
    (hd : Q A.docURL) (ht : Q (trimPathSlash A.docURL)) (hg : ∀ g ∈ gs, AllQ Q g.list) :
    Ok Q (detectParamInfo A gs arg) := by
  unfold detectParamInfo
  split
  · exact Ok_default h0
  · dsimp only
    generalize hds : List.foldl _ ({} : DState) gs = ds
    have hok : OkOpt Q ds.best := by
      rw [← hds]
      apply foldl_inv (fun (ds : DState) => OkOpt Q ds.best)
      · exact OkOpt_none
      · intro b g hgm hb
        split
        · exact hb
        · split
          · rename_i st hst
            exact compareAndUpdate_ok hb (newDetectionState_ok h0 A _ _ hd ht (hg g hgm) hst)
          · exact hb
    split
    · exact Ok_default h0
    · rename_i b hb
      exact determineNext_ok (hok b hb)

theorem dropJs_cases (x : String) : dropJs x = "" ∨ (dropJs x = x ∧ isJs x = false) := by
  unfold dropJs
  split
  · exact Or.inl rfl
  · rename_i h
    exact Or.inr ⟨rfl, by simpa using h⟩

theorem numberPrevNextRaw_ok (h0 : Q "") {pi : ParamInfo} (h : Ok Q pi) (s1 s2 : String) :
    Q (numberPrevNextRaw pi s1 s2).1 ∧
    ((numberPrevNextRaw pi s1 s2).2 = "" ∨
      (Q (numberPrevNextRaw pi s1 s2).2 ∧ (numberPrevNextRaw pi s1 s2).2 ≠ s1 ∧
        (numberPrevNextRaw pi s1 s2).2 ≠ s2)) := by
  unfold numberPrevNextRaw
  dsimp only
  split
  · exact ⟨h0, Or.inl rfl⟩
  · split
    · split
      · rename_i p hp
        have hm := List.mem_reverse.1 (List.mem_of_find?_eq_some hp)
        have hpred := List.find?_some hp
        simp only [Bool.not_eq_true', Bool.or_eq_false_iff, beq_eq_false_iff_ne, ne_eq] at hpred
        exact ⟨h0, Or.inr ⟨h.1 p hm, hpred.1, hpred.2⟩⟩
      · exact ⟨h0, Or.inl rfl⟩
    · split
      · rename_i p hp
        refine ⟨h.2, ?_⟩
        have hm := List.mem_of_find?_eq_some hp
        have hpred := List.find?_some hp
        have hmem : p ∈ pi.pages := by
          split at hm
          · exact (List.takeWhile_sublist _).subset (List.mem_reverse.1 hm)
          · cases hm
        simp only [Bool.or_eq_true, beq_iff_eq, Bool.not_eq_true', Bool.or_eq_false_iff,
          beq_eq_false_iff_ne, ne_eq] at hpred
        rcases hpred with hpred | hpred
        · exact Or.inl hpred
        · exact Or.inr ⟨h.1 p hmem, hpred.1, hpred.2⟩
      · exact ⟨h.2, Or.inl rfl⟩

theorem numberPrevNext_ok (h0 : Q "") {pi : ParamInfo} (h : Ok Q pi) (s1 s2 : String) :
    ((numberPrevNext pi s1 s2).1 = "" ∨
      (isJs (numberPrevNext pi s1 s2).1 = false ∧ Q (numberPrevNext pi s1 s2).1)) ∧
    ((numberPrevNext pi s1 s2).2 = "" ∨
      (isJs (numberPrevNext pi s1 s2).2 = false ∧ Q (numberPrevNext pi s1 s2).2 ∧
        (numberPrevNext pi s1 s2).2 ≠ s1 ∧ (numberPrevNext pi s1 s2).2 ≠ s2)) := by
  obtain ⟨h1, h2⟩ := numberPrevNextRaw_ok h0 h s1 s2
  unfold numberPrevNext
  dsimp only
  constructor
  · rcases dropJs_cases (numberPrevNextRaw pi s1 s2).1 with e | ⟨e, hj⟩
    · exact Or.inl e
    · rw [e]; exact Or.inr ⟨hj, h1⟩
  · rcases dropJs_cases (numberPrevNextRaw pi s1 s2).2 with e | ⟨e, hj⟩
    · exact Or.inl e
    · rw [e]
      rcases h2 with h2 | h2
      · exact Or.inl h2
      · exact Or.inr ⟨hj, h2⟩

/-! ### the selection fold of the prev/next algorithm -/

def pickStep (banned : List String) (top : Option Cand) (c : Cand) : Option Cand :=
  if banned.contains c.href then top
  else if decide (c.score ≥ (50 : Int)) && (match top with | none => true | some t => decide (t.score < c.score)) then some c
  else top

theorem pickTop_eq (banned : List String) (cs : List Cand) :
    pickTop banned cs = cs.foldl (pickStep banned) none := rfl

theorem pickStep_cases (banned : List String) (top : Option Cand) (c : Cand) :
    pickStep banned top c = top ∨
      (pickStep banned top c = some c ∧ c.score ≥ 50 ∧ c.href ∉ banned ∧
        ∀ t, top = some t → t.score < c.score) := by
  by_cases hb : c.href ∈ banned
  · left; simp [pickStep, hb]
  · by_cases hs : c.score ≥ 50
    · cases top with
      | none => right; simp [pickStep, hb, hs]
      | some t =>
        by_cases hlt : t.score < c.score
        · right; simp [pickStep, hb, hs, hlt]
        · left; simp [pickStep, hb, hlt]
    · left; simp [pickStep, hb, hs]

theorem pickStep_elig (banned : List String) (top : Option Cand) (c : Cand)
    (hb : c.href ∉ banned) (hs : c.score ≥ 50) :
    ∃ r, pickStep banned top c = some r ∧ c.score ≤ r.score := by
  cases top with
  | none => exact ⟨c, by simp [pickStep, hb, hs], Int.le_refl _⟩
  | some t =>
    by_cases hlt : t.score < c.score
    · exact ⟨c, by simp [pickStep, hb, hs, hlt], Int.le_refl _⟩
    · exact ⟨t, by simp [pickStep, hb, hlt], by omega⟩

theorem pickStep_mono (banned : List String) (t : Cand) (c : Cand) :
    ∃ r, pickStep banned (some t) c = some r ∧ t.score ≤ r.score := by
  rcases pickStep_cases banned (some t) c with h | ⟨h, _, _, h4⟩
  · exact ⟨t, h, Int.le_refl _⟩
  · exact ⟨c, h, Int.le_of_lt (h4 t rfl)⟩

theorem pickTop_cand (banned : List String) (cs : List Cand) :
    pickTop banned cs = none ∨ ∃ c ∈ cs, pickTop banned cs = some c ∧ c.score ≥ 50 ∧ c.href ∉ banned := by
  rw [pickTop_eq]
  apply foldl_inv (fun top => top = none ∨ ∃ c ∈ cs, top = some c ∧ c.score ≥ 50 ∧ c.href ∉ banned)
  · exact Or.inl rfl
  · intro b a ha hb
    rcases pickStep_cases banned b a with h | ⟨h, hs, hban, _⟩
    · rw [h]; exact hb
    · exact Or.inr ⟨a, ha, h, hs, hban⟩

theorem pickFold_max (banned : List String) (cs : List Cand) :
    ∀ top : Option Cand,
      (∀ t, top = some t → ∃ r, cs.foldl (pickStep banned) top = some r ∧ t.score ≤ r.score) ∧
      (∀ c' ∈ cs, c'.href ∉ banned → c'.score ≥ 50 →
        ∃ r, cs.foldl (pickStep banned) top = some r ∧ c'.score ≤ r.score) := by
  induction cs with
  | nil =>
    intro top
    refine ⟨fun t ht => ⟨t, by simpa using ht, Int.le_refl _⟩, by simp⟩
  | cons x xs ih =>
    intro top
    simp only [List.foldl_cons]
    have ih' := ih (pickStep banned top x)
    constructor
    · intro t ht
      subst ht
      obtain ⟨r, hr, hle⟩ := pickStep_mono banned t x
      obtain ⟨r', hr', hle'⟩ := ih'.1 r hr
      exact ⟨r', hr', by omega⟩
    · intro c' hc' hb hs
      rcases List.mem_cons.1 hc' with rfl | hmem
      · obtain ⟨r, hr, hle⟩ := pickStep_elig banned top c' hb hs
        obtain ⟨r', hr', hle'⟩ := ih'.1 r hr
        exact ⟨r', hr', by omega⟩
      · exact ih'.2 c' hmem hb hs

/-! ### the theorems -/

/-- where a URL of the detection result can come from -/
def SrcQ (A : Atoms) (gs : List PGroup) (u : String) : Prop :=
  u = "" ∨ (u ∈ groupURLs' gs ∨ u = A.docURL ∨ u = trimPathSlash A.docURL)

theorem detect_ok (A : Atoms) (gs : List PGroup) (arg : String) :
    Ok (SrcQ A gs) (detectParamInfo A gs arg) := by
  apply detectParamInfo_ok
  · exact Or.inl rfl
  · exact Or.inr (Or.inr (Or.inl rfl))
  · exact Or.inr (Or.inr (Or.inr rfl))
  · intro g hg p hp
    refine Or.inr (Or.inl ?_)
    simp only [groupURLs', List.mem_flatMap, List.mem_map]
    exact ⟨g, hg, p, hp, rfl⟩

theorem detect_pages_src (A : Atoms) (gs : List PGroup) (arg : String) :
    ∀ p ∈ (detectParamInfo A gs arg).pages,
      p.url = "" ∨ (p.url ∈ groupURLs' gs ∨ p.url = A.docURL ∨ p.url = trimPathSlash A.docURL) :=
  (detect_ok A gs arg).1

theorem detect_next_src (A : Atoms) (gs : List PGroup) (arg : String) :
    (detectParamInfo A gs arg).next = "" ∨
      ((detectParamInfo A gs arg).next ∈ groupURLs' gs ∨ (detectParamInfo A gs arg).next = A.docURL ∨
       (detectParamInfo A gs arg).next = trimPathSlash A.docURL) :=
  (detect_ok A gs arg).2

theorem number_links (A : Atoms) (gs : List PGroup) (arg s1 s2 : String) :
    let r := numberPrevNext (detectParamInfo A gs arg) s1 s2
    (r.1 = "" ∨ (isJs r.1 = false ∧ (r.1 ∈ groupURLs' gs ∨ r.1 = A.docURL ∨ r.1 = trimPathSlash A.docURL))) ∧
    (r.2 = "" ∨ (isJs r.2 = false ∧ (r.2 ∈ groupURLs' gs ∨ r.2 = A.docURL ∨ r.2 = trimPathSlash A.docURL) ∧ r.2 ≠ s1 ∧ r.2 ≠ s2)) := by
  intro r
  obtain ⟨h1, h2⟩ := numberPrevNext_ok (Q := SrcQ A gs) (Or.inl rfl) (detect_ok A gs arg) s1 s2
  constructor
  · rcases h1 with h1 | ⟨hj, h1 | h1⟩
    · exact Or.inl h1
    · exact Or.inl h1
    · exact Or.inr ⟨hj, h1⟩
  · rcases h2 with h2 | ⟨hj, h2 | h2, hne⟩
    · exact Or.inl h2
    · exact Or.inl h2
    · exact Or.inr ⟨hj, h2, hne⟩

theorem prevnext_is_candidate (banned : List String) (cs : List Cand) :
    prevNextResult banned cs = "" ∨
    ∃ c ∈ cs, c.href = prevNextResult banned cs ∧ c.score ≥ 50 ∧ c.href ∉ banned := by
  unfold prevNextResult
  rcases pickTop_cand banned cs with h | ⟨c, hc, h, hs, hb⟩
  · rw [h]; exact Or.inl rfl
  · rw [h]; exact Or.inr ⟨c, hc, rfl, hs, hb⟩

theorem prevnext_max (banned : List String) (cs : List Cand) (c' : Cand)
    (hm : c' ∈ cs) (hb : c'.href ∉ banned) (hs : c'.score ≥ 50) :
    ∃ c ∈ cs, c.href = prevNextResult banned cs ∧ c'.score ≤ c.score := by
  obtain ⟨r, hr, hle⟩ := (pickFold_max banned cs none).2 c' hm hb hs
  rw [← pickTop_eq] at hr
  rcases pickTop_cand banned cs with h | ⟨c, hc, h, _, _⟩
  · rw [h] at hr; cases hr
  · have : c = r := by rw [h] at hr; exact Option.some.inj hr
    subst this
    exact ⟨c, hc, by simp [prevNextResult, h], hle⟩

end Distill.Pg
