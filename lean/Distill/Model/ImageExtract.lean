/-
  ImageExtract: `embed.ImageExtractor.Extract` — which element becomes a `webdoc.Image` /
  `webdoc.Figure`, what the extractor does to it on the way (`processPicture`, `replaceLazyAttr`)
  and which caption a figure gets (`findVisibleFigCaption`, `createFigCaption`).

  Atoms: the visibility regexps (`CAtoms`); per attribute value the answers of `rxLazyImageSrc`,
  `rxLazyImageSrcset` and `imageSrcIsValid`.  Outside the model: a figure that contains a
  `noscript` element (its content is re-parsed), and caption text containing `<` or `&` (it is
  re-parsed by `createFigCaption`); the harness leaves those cases out and counts them.
  Elements have distinct attribute names (the converter removes repeated ones first).
-/
import Distill.Model.TextRender
namespace Distill.Img
open Distill

structure LazyAtoms where
  looksSrc : String → Bool       -- rxLazyImageSrc
  looksSrcset : String → Bool    -- rxLazyImageSrcset
  srcValid : String → Bool       -- imageSrcIsValid

def lazySrcAttrs : List String := ["data-src", "data-original", "datasrc", "data-url"]
def lazySrcsetAttrs : List String := ["data-srcset", "datasrcset"]

/-- `dom.SetAttribute`: the first attribute of that name is overwritten, else one is appended -/
def setAttr : List Attr → String → String → List Attr
  | [], k, v => [⟨k, v⟩]
  | a :: rest, k, v => if a.key == k then { a with val := v } :: rest else a :: setAttr rest k v

/-- `dom.RemoveAttribute`: the first attribute of that name -/
def removeAttr : List Attr → String → List Attr
  | [], _ => []
  | a :: rest, k => if a.key == k then rest else a :: removeAttr rest k

def firstNonEmptyAttr (attrs : List Attr) : List String → Option String
  | [] => none
  | k :: ks => if getAttr attrs k != "" then some (getAttr attrs k) else firstNonEmptyAttr attrs ks

/-- `replaceLazySrcAttr` on the attributes of one element -/
def lazySrc (L : LazyAtoms) (attrs : List Attr) : List Attr :=
  let src := getAttr attrs "src"
  let bad := src != "" && !L.srcValid src
  let attrs1 := if bad then removeAttr attrs "src" else attrs
  let s0 := if bad then "" else src
  let s1 := match firstNonEmptyAttr attrs1 lazySrcAttrs with | some v => v | none => s0
  let s2 := if s1 == "" then (match attrs1.find? (fun a => L.looksSrc a.val) with | some a => a.val | none => "") else s1
  if s2 != "" then setAttr attrs1 "src" s2 else attrs1

/-- `replaceLazySrcsetAttr` -/
def lazySrcset (L : LazyAtoms) (attrs : List Attr) : List Attr :=
  let s0 := getAttr attrs "srcset"
  let s1 := match firstNonEmptyAttr attrs lazySrcsetAttrs with | some v => v | none => s0
  let s2 := if s1 == "" then (match attrs.find? (fun a => L.looksSrcset a.val) with | some a => a.val | none => "") else s1
  if s2 != "" then setAttr attrs "srcset" s2 else attrs

def lazyOne (L : LazyAtoms) (attrs : List Attr) : List Attr :=
  let a1 := lazySrc L attrs
  if getAttr a1 "src" == "" then lazySrcset L a1 else a1

mutual
/-- `replaceLazyAttr(base)`: every `img` / `source` below the base, and the base itself -/
def lazyNode (L : LazyAtoms) (isBase : Bool) : Node → Node
  | .text i d => .text i d
  | .other i k => .other i k
  | .elem i t attrs ks =>
    .elem i t (if isBase || t == "img" || t == "source" then lazyOne L attrs else attrs) (lazyNodeL L ks)
def lazyNodeL (L : LazyAtoms) : List Node → List Node
  | [] => []
  | k :: ks => lazyNode L false k :: lazyNodeL L ks
end

/-! ### processPicture -/

mutual
/-- every element other than `img` / `source` is removed with its subtree -/
def onlyImgSource : List Node → List Node
  | [] => []
  | k :: ks =>
    match k with
    | .elem i t a kk => if t == "img" || t == "source" then .elem i t a (onlyImgSource kk) :: onlyImgSource ks else onlyImgSource ks
    | n => n :: onlyImgSource ks
end

mutual
def countTag (tag : String) : Node → Nat
  | .text _ _ => 0
  | .other _ _ => 0
  | .elem _ t _ ks => (if t == tag then 1 else 0) + countTagL tag ks
def countTagL (tag : String) : List Node → Nat
  | [] => 0
  | k :: ks => countTag tag k + countTagL tag ks
end

mutual
/-- rename the first `source` (document order) to `img`; the flag says whether it was found -/
def renameFirstSource : Node → Node × Bool
  | .text i d => (.text i d, false)
  | .other i k => (.other i k, false)
  | .elem i t a ks =>
    if t == "source" then (.elem i "img" a ks, true)
    else let (ks', f) := renameFirstSourceL ks; (.elem i t a ks', f)
def renameFirstSourceL : List Node → List Node × Bool
  | [] => ([], false)
  | k :: ks =>
    let (k', f) := renameFirstSource k
    if f then (k' :: ks, true) else let (ks', f') := renameFirstSourceL ks; (k' :: ks', f')
end

def processPicture (p : Node) : Node :=
  match p with
  | .elem i t a ks =>
    let ks1 := (onlyImgSource ks).filter (fun k => k.isElem)
    if countTagL "img" ks1 == 0 && countTagL "source" ks1 > 0 then .elem i t a (renameFirstSourceL ks1).1
    else .elem i t a ks1
  | n => n

/-! ### figures -/

mutual
/-- first element with that tag in the subtree (root included), document order -/
def firstTag (tag : String) : Node → Option Node
  | .text _ _ => none
  | .other _ _ => none
  | .elem i t a ks => if t == tag then some (.elem i t a ks) else firstTagL tag ks
def firstTagL (tag : String) : List Node → Option Node
  | [] => none
  | k :: ks => match firstTag tag k with | some e => some e | none => firstTagL tag ks
end

mutual
/-- `findVisibleFigCaption` below the figure: the walk enters visible elements only -/
def visibleCaption (A : CAtoms) : Node → Option Node
  | .text _ _ => none
  | .other _ _ => none
  | .elem i t a ks =>
    if !visible A i t a then none
    else if t == "figcaption" then some (.elem i t a ks)
    else visibleCaptionL A ks
def visibleCaptionL (A : CAtoms) : List Node → Option Node
  | [] => none
  | k :: ks => match visibleCaption A k with | some e => some e | none => visibleCaptionL A ks
end

mutual
/-- replace the (first) subtree whose root has id `id` -/
def replaceById (id : Nat) (new : Node) : Node → Node
  | .text i d => if i == id then new else .text i d
  | .other i k => if i == id then new else .other i k
  | .elem i t a ks => if i == id then new else .elem i t a (replaceByIdL id new ks)
def replaceByIdL (id : Nat) (new : Node) : List Node → List Node
  | [] => []
  | k :: ks => replaceById id new k :: replaceByIdL id new ks
end

mutual
/-- is there an `a` element with an `href` attribute below -/
def hasLinkL : List Node → Bool
  | [] => false
  | k :: ks =>
    (match k with
     | .elem _ t a kk => (t == "a" && hasAttr a "href") || hasLinkL kk
     | _ => false) || hasLinkL ks
end

/-- `InnerText` of a parsed plain string: white space normalised, detached punctuation pulled in -/
def innerTextOfPlain (s : List Char) : List Char :=
  let j := joinSp (fields s)
  let p := fixPunct (j.length + 1) j
  fixNewline (p.length + 1) p

def synthCaptionId : Nat := synthBase + 3
def synthCaptionTextId : Nat := synthBase + 4

/-- `createFigCaption(base)`: a new `figcaption` holding the visible text of `base` -/
def createCaption (A : CAtoms) (base : Node) : Node :=
  let t := trimSpaceU (innerTextOfPlain (innerText A base))
  .elem synthCaptionId "figcaption" [] [.text synthCaptionTextId (String.ofList t)]

inductive Res where
  | none                                  -- the extractor declines
  | image (el : Node)
  | figure (el caption : Node)
  | unmodelled                            -- figure with a noscript element

def synthImgId : Nat := synthBase + 5

/-- `ImageExtractor.Extract(node)` -/
def extract (A : CAtoms) (L : LazyAtoms) (n : Node) : Res :=
  match n with
  | .elem i t attrs ks =>
    if t == "figure" then
      if (firstTagL "noscript" ks).isSome then .unmodelled else
      match (match firstTagL "picture" ks with | some p => some p | none => firstTagL "img" ks) with
      | none => .none
      | some image =>
        let image' := if image.tag == "picture" then processPicture image else image
        let fig : Node := .elem i t attrs (replaceByIdL image.id image' ks)
        let cap := match visibleCaptionL A fig.kids with
          | none => createCaption A fig
          | some c => if hasLinkL c.kids then c else createCaption A c
        .figure (lazyNode L true image') cap
    else if t == "span" then
      if strContains (getAttr attrs "class") "lazy-image-placeholder" then
        .image (.elem synthImgId "img" [⟨"src", getAttr attrs "data-src"⟩, ⟨"srcset", getAttr attrs "data-srcset"⟩] [])
      else .none
    else if t == "picture" then .image (lazyNode L true (processPicture n))
    else if t == "img" then .image (lazyNode L true n)
    else .none
  | _ => .none

end Distill.Img
