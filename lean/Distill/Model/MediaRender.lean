/-
  MediaRender: the rendering of the non-text elements — `webdoc.Table`, `webdoc.Figure`,
  `webdoc.Image`, `webdoc.Video`, `webdoc.Embed` `.GenerateOutput`, `domutil.CloneAndProcessTree`,
  and the image URL lists behind `Result.ContentImages` (`Image.GetURLs`, `Table.GetImageURLs`,
  `Document.GetImageURLs`).

  Atoms: visibility regexps (`CAtoms`), `abs` / `absSet` (`CreateAbsoluteURL`, srcset rewriting),
  `setURLs` (the URLs `rxSrcsetURL` finds in a srcset value).  Elements are assumed to have
  distinct attribute names (the converter removes repeated ones from its clone first).
-/
import Distill.Model.TextRender
namespace Distill

/-! ### CloneAndProcessTree (data tables, figure captions) -/

mutual
/-- ids of the nodes `GetOutputNodes` collects, in the order it collects them -/
def outputIds (A : CAtoms) : Node → List Nat
  | .text i _ => [i]
  | .other _ _ => []
  | .elem i t attrs ks =>
    if t == "script" || t == "style" || A.foreignRaw i then [] else if visible A i t attrs then i :: outputIdsL A ks else []
def outputIdsL (A : CAtoms) : List Node → List Nat
  | [] => []
  | k :: ks => outputIds A k ++ outputIdsL A ks
end

/-- `CloneAndProcessTree(root, pageURL)`; `none` = nil -/
def cloneAndProcessTree (A : CAtoms) (abs absSet : String → String) (root : Node) : Option Node :=
  match treeClone (outputIds A root) root with
  | some (_, c) => if c.isElem then some (processClone abs absSet c) else none
  | none => none

/-- `Table.GenerateOutput`; `none` = `InnerText(nil)` dereferences nil -/
def tableOutput (A : CAtoms) (abs absSet : String → String) (textOnly : Bool) (table : Node) : Option (List Char) :=
  match cloneAndProcessTree A abs absSet table with
  | some c => some (if textOnly then innerText (strippedAtoms A) c else outerHTML c)
  | none => if textOnly then none else some []

/-! ### images -/

/-- rewriting of `src` (on img/source/track/video) and `srcset` only: `MakeAllSrcAttributesAbsolute`
then `MakeAllSrcSetAbsolute` -/
def absSrcOne (abs absSet : String → String) (tag : String) (a : Attr) : Attr :=
  if a.key == "src" && srcTags.contains tag && a.val != "" then { a with val := abs a.val }
  else if a.key == "srcset" then { a with val := absSet a.val }
  else a

def absSrcAttrs (abs absSet : String → String) (tag : String) (attrs : List Attr) : List Attr :=
  (attrs.filter (fun a => !(a.key == "srcset" && a.val == ""))).map (absSrcOne abs absSet tag)

mutual
def absSrcNode (abs absSet : String → String) : Node → Node
  | .text i d => .text i d
  | .other i k => .other i k
  | .elem i t attrs ks => .elem i t (absSrcAttrs abs absSet t attrs) (absSrcNodeL abs absSet ks)
def absSrcNodeL (abs absSet : String → String) : List Node → List Node
  | [] => []
  | k :: ks => absSrcNode abs absSet k :: absSrcNodeL abs absSet ks
end

/-- the explicit first step of `cloneAndProcessNode`: the `src` of the first `img` (the root
included) is resolved on its own, before the general pass resolves it again -/
def absFirstImgAttrs (abs : String → String) (attrs : List Attr) : List Attr :=
  attrs.map (fun a => if a.key == "src" && a.val != "" then { a with val := abs a.val } else a)

mutual
/-- returns the rewritten node and whether an `img` was found in it -/
def absFirstImg (abs : String → String) : Node → Node × Bool
  | .text i d => (.text i d, false)
  | .other i k => (.other i k, false)
  | .elem i t attrs ks =>
    if t == "img" then (.elem i t (absFirstImgAttrs abs attrs) ks, true)
    else let (ks', f) := absFirstImgL abs ks; (.elem i t attrs ks', f)
def absFirstImgL (abs : String → String) : List Node → List Node × Bool
  | [] => ([], false)
  | k :: ks =>
    let (k', f) := absFirstImg abs k
    if f then (k' :: ks, true) else let (ks', f') := absFirstImgL abs ks; (k' :: ks', f')
end

/-- `Image.cloneAndProcessNode` -/
def imageClone (abs absSet : String → String) (el : Node) : Node :=
  stripNode (absSrcNode abs absSet (absFirstImg abs el).1)

def imageOutput (abs absSet : String → String) (textOnly : Bool) (el : Node) : List Char :=
  if textOnly then [] else outerHTML (imageClone abs absSet el)

mutual
/-- URLs of the srcset attributes of every element of the subtree, root first (`GetAllSrcSetURLs`;
an element without a srcset contributes nothing) -/
def allSrcSetURLs (setURLs : String → List String) : Node → List String
  | .text _ _ => []
  | .other _ _ => []
  | .elem _ _ attrs ks => (if hasAttr attrs "srcset" then setURLs (getAttr attrs "srcset") else []) ++ allSrcSetURLsL setURLs ks
def allSrcSetURLsL (setURLs : String → List String) : List Node → List String
  | [] => []
  | k :: ks => allSrcSetURLs setURLs k ++ allSrcSetURLsL setURLs ks
end

/-- `Image.GetURLs` on the processed clone -/
def imageURLsOf (setURLs : String → List String) (clone : Node) : List String :=
  (if getAttr clone.attrs "src" != "" then [getAttr clone.attrs "src"] else []) ++ allSrcSetURLs setURLs clone

def imageURLs (abs absSet : String → String) (setURLs : String → List String) (el : Node) : List String :=
  imageURLsOf setURLs (imageClone abs absSet el)

mutual
/-- `Table.GetImageURLs` on the processed clone: for every `img` / `source` *below the root*, its
src and the srcset URLs of its subtree -/
def tableImageURLsBelow (setURLs : String → List String) : List Node → List String
  | [] => []
  | k :: ks => tableImageURLsNode setURLs k ++ tableImageURLsBelow setURLs ks
def tableImageURLsNode (setURLs : String → List String) : Node → List String
  | .text _ _ => []
  | .other _ _ => []
  | .elem i t attrs ks =>
    (if t == "img" || t == "source" then
      (if getAttr attrs "src" != "" then [getAttr attrs "src"] else []) ++ allSrcSetURLs setURLs (.elem i t attrs ks)
     else []) ++ tableImageURLsBelow setURLs ks
end

def tableImageURLs (A : CAtoms) (abs absSet : String → String) (setURLs : String → List String) (table : Node) : List String :=
  match cloneAndProcessTree A abs absSet table with
  | some c => tableImageURLsBelow setURLs c.kids
  | none => []

/-! ### figures -/

def synthFigureId : Nat := synthBase + 1

/-- the element `Figure.GenerateOutput` serialises; `none` = a nil caption clone is appended
although the caption has inner HTML -/
def figureTree (A : CAtoms) (abs absSet : String → String) (el caption : Node) : Option Node :=
  let img := imageClone abs absSet el
  if (innerHTML caption).isEmpty then some (stripNode (.elem synthFigureId "figure" [] [img]))
  else
    match cloneAndProcessTree A abs absSet caption with
    | some c => some (stripNode (.elem synthFigureId "figure" [] [img, c]))
    | none => none

/-- `Figure.GenerateOutput`; `none` = a nil caption clone is dereferenced (`InnerText(nil)`, or
appended although the caption has inner HTML) -/
def figureOutput (A : CAtoms) (abs absSet : String → String) (textOnly : Bool) (el caption : Node) : Option (List Char) :=
  if textOnly then
    match cloneAndProcessTree A abs absSet caption with
    | some c => some (innerText (strippedAtoms A) c)
    | none => none
  else (figureTree A abs absSet el caption).map outerHTML

/-! ### videos -/

def shallow : Node → Node
  | .elem i t a _ => .elem i t a []
  | n => n

def posterAbs (abs : String → String) (attrs : List Attr) : List Attr :=
  attrs.map (fun a => if a.key == "poster" && a.val != "" then { a with val := abs a.val } else a)

/-- the element `Video.GenerateOutput` serialises: a shallow clone with shallow clones of its
`source` / `track` children -/
def videoTree (abs absSet : String → String) (el : Node) : Node :=
  let kids := (el.kids.filter (fun k => k.isElem && (k.tag == "source" || k.tag == "track"))).map shallow
  stripNode (absSrcNode abs absSet (.elem el.id el.tag (posterAbs abs el.attrs) kids))

/-- `Video.GenerateOutput` -/
def videoOutput (abs absSet : String → String) (textOnly : Bool) (el : Node) : List Char :=
  if textOnly then [] else outerHTML (videoTree abs absSet el)

/-! ### embeds -/

mutual
/-- `Embed.GenerateOutput` removes, below the embedded element, every script and style element and
every foreign element named like a raw text element -/
def dropScriptStyle (A : CAtoms) : Node → Node
  | .text i d => .text i d
  | .other i k => .other i k
  | .elem i t a ks => .elem i t a (dropScriptStyleL A ks)
def dropScriptStyleL (A : CAtoms) : List Node → List Node
  | [] => []
  | k :: ks =>
    match k with
    | .elem i t _ _ => if t == "script" || t == "style" || A.foreignRaw i then dropScriptStyleL A ks else dropScriptStyle A k :: dropScriptStyleL A ks
    | _ => dropScriptStyle A k :: dropScriptStyleL A ks
end

def synthEmbedId : Nat := synthBase + 2

def embedMarkers (type id : String) : List Attr :=
  [⟨"class", "embed-placeholder"⟩, ⟨"data-type", type⟩, ⟨"data-id", id⟩]

def embedKids (A : CAtoms) (el : Node) : List Node :=
  if el.tag == "blockquote" || el.tag == "iframe" then [stripNode (dropScriptStyle A el)] else []

/-- the placeholder `Embed.GenerateOutput` creates -/
def embedTree (A : CAtoms) (type id : String) (el : Node) : Node :=
  .elem synthEmbedId "div" (embedMarkers type id) (embedKids A el)

def embedOutput (A : CAtoms) (textOnly : Bool) (type id : String) (el : Node) : List Char :=
  if textOnly then [] else outerHTML (embedTree A type id el)

/-! ### Document.GetImageURLs -/

/-- content flag and image URLs of every element, in element-list order -/
def docImageURLs : List (Bool × List String) → List String
  | [] => []
  | (c, us) :: rest => (if c then us else []) ++ docImageURLs rest

end Distill
