/-
  Convert: `converter.DomConverter` — the walk over the (cloned) tree and, per element, the
  ordered sequence of tests of `visitElementNodeHandler`, emitting builder events.

  Atoms (regexps, embed extractors, table classifier, word counter) are fields of `CAtoms`,
  looked up by node id; every theorem is for all of them.
-/
import Distill.Model.Builder
import Distill.Model.Features
import Distill.Gen.Tables
import Distill.Gen.Funcs
namespace Distill

/-- the kinds of element an embed extractor can produce -/
inductive EmbedKind where
  | image | figure | embed
deriving DecidableEq, Repr, Inhabited

def EmbedKind.toKind : EmbedKind → MKind
  | .image => .image | .figure => .figure | .embed => .embed

/-- answer of the embed extractors for an element (first extractor that accepts) -/
inductive EmbedRes where
  | none
  | some (kind : EmbedKind)
deriving DecidableEq, Repr, Inhabited

structure CAtoms where
  styleDisplay : Nat → String      -- capture of rxDisplay on the style attribute ("" = no match)
  visHidden : Nat → Bool           -- rxVisibilityHidden on the style attribute
  byline : Nat → Bool              -- isByline(node, class+" "+id)
  rxUnlikely : Nat → Bool          -- rxUnlikelyCandidates on class+" "+id
  rxMaybe : Nat → Bool             -- rxOkMaybeItsACandidate on class+" "+id
  embed : Nat → EmbedRes           -- the four embed extractors, in order
  dataTable : Nat → Bool           -- table classifier says Data
  blank : Nat → Bool               -- IsStringAllWhitespace(text data)
  words : Nat → Nat                -- word counter on text data
  /-- `domutil.IsForeignRawTextElement`: an SVG / MathML element named like one of HTML's raw text
  elements (the namespace of a node is not part of the model's trees) -/
  foreignRaw : Nat → Bool := fun _ => false

structure CCfg where
  skipUnlikely : Bool

def strContains (s sub : String) : Bool :=
  let rec go (l : List Char) (p : List Char) (fuel : Nat) : Bool :=
    match fuel with
    | 0 => p.isPrefixOf l
    | fuel+1 => p.isPrefixOf l || (match l with | [] => false | _ :: t => go t p fuel)
  go s.toList sub.toList s.length

/-- default display of a tag, from the generated `GetDisplayStyle` switch -/
def defaultDisplay (tag : String) : String :=
  match Gen.displayTable.find? (fun c => c.1.contains tag) with
  | some c => c.2
  | none => "block"

def displayOf (A : CAtoms) (id : Nat) (tag : String) : String :=
  let d := A.styleDisplay id
  if d != "" then d else defaultDisplay tag

def visAtoms (A : CAtoms) (id : Nat) (tag : String) (attrs : List Attr) : VisAtoms :=
  { display := displayOf A id tag, hasHidden := hasAttr attrs "hidden", visHidden := A.visHidden id,
    ariaHidden := getAttr attrs "aria-hidden", fallbackImage := strContains (getAttr attrs "class") "fallback-image" }

/-- `domutil.IsProbablyVisible` through the generated expression -/
def visible (A : CAtoms) (id : Nat) (tag : String) (attrs : List Attr) : Bool :=
  match Gen.isProbablyVisible (visAtoms A id tag attrs) with
  | some b => b
  | none => true

def nestableTag (tag : String) : Bool :=
  Gen.nestableCases.any (fun c => c.1.contains tag && c.2 == "return true")

def skipFlushTag (tag : String) : Bool :=
  Gen.converterCases.any (fun c => c.1.contains tag && c.2 == "dc.builder.SkipNode(node); return false")

def skipSilentTag (tag : String) : Bool :=
  Gen.converterCases.any (fun c => c.1.contains tag && c.2 == "return false")

def emptyContainerTag (tag : String) : Bool :=
  Gen.emptyContainerCases.any (fun c => c.1.contains tag)

def embedTag (tag : String) : Bool :=
  Gen.relevantImageTags.contains tag || Gen.relevantTwitterTags.contains tag ||
  Gen.relevantVimeoTags.contains tag || Gen.relevantYouTubeTags.contains tag

mutual
/-- all text of the subtree is whitespace (`strings.TrimSpace(dom.TextContent(node)) == ""`) -/
def Node.allBlank (blank : Nat → Bool) : Node → Bool
  | .text i _ => blank i
  | .elem _ _ _ ks => allBlankL blank ks
  | .other _ _ => true
def allBlankL (blank : Nat → Bool) : List Node → Bool
  | [] => true
  | k :: ks => k.allBlank blank && allBlankL blank ks
end

mutual
/-- number of descendant elements with the given tag (`dom.GetElementsByTagName`) -/
def Node.countTag (tag : String) : Node → Nat
  | .elem _ _ _ ks => countTagL tag ks
  | _ => 0
def countTagL (tag : String) : List Node → Nat
  | [] => 0
  | k :: ks => (match k with
      | .elem _ t _ kk => (if t == tag then 1 else 0) + countTagL tag kk
      | _ => 0) + countTagL tag ks
end

def elemChildren (ks : List Node) : Nat := (ks.filter Node.isElem).length

/-- `isElementWithoutContent` -/
def withoutContent (A : CAtoms) (n : Node) : Bool :=
  n.allBlank A.blank &&
  (elemChildren n.kids == 0 || elemChildren n.kids == n.countTag "br" + n.countTag "hr")

/-- `webdoc.GetActionForElement` (display switch and tag switch regenerated: Gen.action*) -/
def actionFor (A : CAtoms) (anc : List String) (id : Nat) (tag : String) (attrs : List Attr) : Action :=
  let d := displayOf A id tag
  let a0 : Action :=
    if d == "none" || d == "inline" then {}
    else if d == "inline-block" || d == "inline-flex" then { changesTagLevel := true }
    else { flush := true, changesTagLevel := true }
  let a1 : Action := if anc.any (fun t => t == "li" || t == "summary") then { a0 with flush := false, changesTagLevel := false } else a0
  if tag != "html" && tag != "body" && tag != "article" && tag == "a" then
    { a1 with changesTagLevel := true, isAnchor := hasAttr attrs "href" }
  else a1

inductive Visit where
  | skip                                  -- return false, nothing emitted
  | emit (evs : List BEv)                 -- return false after these calls
  | descend (pre post : List BEv) (tag : String)   -- return true; tag = name the children see as ancestor
deriving Repr

def textEv (A : CAtoms) (i : Nat) (d : String) : BEv := .addText i (d == "") (A.blank i) (A.words i)

/-- tests 1–6 of `visitElementNodeHandler`: not visible, foreign element named like a raw text
element, social/sharing block, byline,
unlikely candidate (only in skip-unlikelies mode), empty container -/
def gateSkip (cfg : CCfg) (A : CAtoms) (anc : List String)
    (id : Nat) (tag : String) (attrs : List Attr) (kids : List Node) : Bool :=
  !visible A id tag attrs
  || A.foreignRaw id
  || (getAttr attrs "class" == "sharing" || getAttr attrs "class" == "socialArea" || getAttr attrs "data-component" == "share")
  || A.byline id
  || (cfg.skipUnlikely && ((A.rxUnlikely id && !A.rxMaybe id && !anc.contains "table" && tag != "body" && tag != "a")
                           || Gen.unlikelyRoles.contains (getAttr attrs "role")))
  || (emptyContainerTag tag && withoutContent A (.elem id tag attrs kids))

/-- the text child of a `javascript:` anchor that the converter turns into plain text -/
def jsAnchorText (hasParent : Bool) (tag : String) (attrs : List Attr) (kids : List Node) : Option (Nat × String) :=
  if tag == "a" && strHasPrefix (getAttr attrs "href") "javascript:" && hasParent then
    match kids with
    | [.text ti td] => some (ti, td)
    | _ => none
  else none

/-- the `switch tagName` of `visitElementNodeHandler` and the final `StartNode`; tag
placeholders are added by `withTags` -/
def tagSwitch (A : CAtoms) (anc : List String) (hasParent : Bool)
    (id : Nat) (tag : String) (attrs : List Attr) (kids : List Node) : Visit :=
  if tag == "a" && strContains (getAttr attrs "href") "action=edit&section=" then .emit []
  else
    match jsAnchorText hasParent tag attrs kids with
    | some (ti, td) => .emit [textEv A ti td]
    | none =>
      if tag == "span" && getAttr attrs "class" == "mw-editsection" then .emit []
      else if tag == "font" then .descend [.startNode (actionFor A anc id "span" [])] [.endNode] "span"
      else if tag == "br" then .emit [.addBr id]
      else if tag == "table" && A.dataTable id then .emit [.addTable id]
      else if tag == "video" then .emit [.addEmbed .video id]
      else if skipFlushTag tag then .emit [.skipNode]
      else if skipSilentTag tag then .emit []
      else .descend [.startNode (actionFor A anc id tag attrs)] [.endNode] tag

/-- the start placeholder goes out before the tag switch; the end placeholder only when the
element is walked (exit handler) -/
def withTags (tag : String) : Visit → Visit
  | .skip => .skip
  | .emit evs => .emit ((if nestableTag tag then [BEv.addTag tag true] else []) ++ evs)
  | .descend pre post t =>
    .descend ((if nestableTag tag then [BEv.addTag tag true] else []) ++ pre)
             ((if nestableTag tag then [BEv.addTag tag false] else []) ++ post) t

/-- `visitElementNodeHandler` for an element that has a parent iff `hasParent` -/
def visitElem (cfg : CCfg) (A : CAtoms) (anc : List String) (hasParent : Bool)
    (id : Nat) (tag : String) (attrs : List Attr) (kids : List Node) : Visit :=
  if gateSkip cfg A anc id tag attrs kids then .skip
  else
    match (if embedTag tag then A.embed id else .none) with
    | .some k => .emit [.addEmbed k.toKind id]
    | .none => withTags tag (tagSwitch A anc hasParent id tag attrs kids)

/-- the element visitor's signature: ancestors' tags, has-parent, id, tag, attributes, children -/
abbrev Visitor := List String → Bool → Nat → String → List Attr → List Node → Visit

mutual
/-- `domutil.WalkNodes(root, visit, exit)`: pre-order walk; the visitor decides per element
whether the walk goes into the children (and which calls frame them) -/
def walkNode (visit : Visitor) (txt : Nat → String → BEv) (anc : List String) (hasParent : Bool) : Node → List BEv
  | .text i d => [txt i d]
  | .other _ _ => []
  | .elem i t attrs ks =>
    match visit anc hasParent i t attrs ks with
    | .skip => []
    | .emit evs => evs
    | .descend pre post t' => pre ++ walkKids visit txt (t' :: anc) ks ++ post
def walkKids (visit : Visitor) (txt : Nat → String → BEv) (anc : List String) : List Node → List BEv
  | [] => []
  | k :: ks => walkNode visit txt anc true k ++ walkKids visit txt anc ks
end

/-- the walk with the converter's handlers -/
def convertNode (cfg : CCfg) (A : CAtoms) (anc : List String) (hasParent : Bool) (n : Node) : List BEv :=
  walkNode (visitElem cfg A) (textEv A) anc hasParent n
def convertKids (cfg : CCfg) (A : CAtoms) (anc : List String) (ks : List Node) : List BEv :=
  walkKids (visitElem cfg A) (textEv A) anc ks

theorem convertNode_text (cfg : CCfg) (A : CAtoms) (anc : List String) (hp : Bool) (i : Nat) (d : String) :
    convertNode cfg A anc hp (.text i d) = [textEv A i d] := by
  unfold convertNode; rw [walkNode]
theorem convertNode_other (cfg : CCfg) (A : CAtoms) (anc : List String) (hp : Bool) (i k : Nat) :
    convertNode cfg A anc hp (.other i k) = [] := by
  unfold convertNode; rw [walkNode]
theorem convertNode_elem (cfg : CCfg) (A : CAtoms) (anc : List String) (hp : Bool)
    (i : Nat) (t : String) (attrs : List Attr) (ks : List Node) :
    convertNode cfg A anc hp (.elem i t attrs ks) =
      match visitElem cfg A anc hp i t attrs ks with
      | .skip => []
      | .emit evs => evs
      | .descend pre post t' => pre ++ convertKids cfg A (t' :: anc) ks ++ post := by
  unfold convertNode convertKids; rw [walkNode]
theorem convertKids_nil (cfg : CCfg) (A : CAtoms) (anc : List String) : convertKids cfg A anc [] = [] := by
  unfold convertKids; rw [walkKids]
theorem convertKids_cons (cfg : CCfg) (A : CAtoms) (anc : List String) (k : Node) (ks : List Node) :
    convertKids cfg A anc (k :: ks) = convertNode cfg A anc true k ++ convertKids cfg A anc ks := by
  unfold convertKids convertNode; rw [walkKids]

/-- `DomConverter.Convert(root)` on a root whose ancestors have tags `anc` -/
def convert (cfg : CCfg) (A : CAtoms) (anc : List String) (hasParent : Bool) (root : Node) : List BEv :=
  convertNode cfg A anc hasParent root

end Distill
