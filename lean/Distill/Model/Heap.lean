/-
  Heap / Threads: the bookkeeping models behind C10 (caller-owned arguments are never modified)
  and C12 (safe for concurrent use): who may write what.
-/
namespace Distill

/-- an abstract heap: address → cell; addresses below `base` belong to the caller -/
abbrev Heap (Cell : Type) := List Cell

inductive HOp (Cell : Type) where
  | alloc (c : Cell)                 -- dom.Clone / dom.CreateElement / &html.Node{} / url copy
  | write (addr : Nat) (c : Cell)    -- SetAttribute, AppendChild, field assignment, …
  | read (addr : Nat)

def hstep {Cell : Type} (h : Heap Cell) : HOp Cell → Heap Cell
  | .alloc c => h ++ [c]
  | .write a c => h.set a c
  | .read _ => h

def hrun {Cell : Type} (h : Heap Cell) (ops : List (HOp Cell)) : Heap Cell := ops.foldl hstep h

/-- every write of the call targets an address allocated after the call started -/
def WritesFresh {Cell : Type} (base : Nat) (ops : List (HOp Cell)) : Prop :=
  ∀ op ∈ ops, match op with
    | .write a _ => base ≤ a
    | _ => True

/-! ### threads over a shared read-only part -/

/-- a thread's step reads the shared part and its own private state -/
structure ThreadProg (Shared Priv : Type) where
  step : Shared → Priv → Priv

/-- run a schedule (a list of thread indices) over the private states -/
def runSchedule {Shared Priv : Type} (progs : List (ThreadProg Shared Priv)) (sh : Shared) :
    List Priv → List Nat → List Priv
  | ps, [] => ps
  | ps, i :: rest =>
    match progs[i]?, ps[i]? with
    | some p, some st => runSchedule progs sh (ps.set i (p.step sh st)) rest
    | _, _ => runSchedule progs sh ps rest

/-- run thread `i` alone for `n` steps -/
def runAlone {Shared Priv : Type} (p : ThreadProg Shared Priv) (sh : Shared) : Priv → Nat → Priv
  | st, 0 => st
  | st, n + 1 => runAlone p sh (p.step sh st) n

end Distill
