/-
  IEReader: `markup/iereader.Parser` — the IE Reading View accessor, from the document tree to the
  answers it gives (`MSource`), among them the opt-out the whole `MarkupInfo` depends on.

  Atoms: `lower` / `upper` (`strings.ToLower` / `ToUpper`, full Unicode) and the visibility atoms
  of `CAtoms` (for `InnerText` of captions).  Everything else is computed: document-order search
  among the *descendants* of the root, class tokens, `TextContent`, `TrimSpace`, `strconv.Atoi`,
  the size test.
-/
import Distill.Model.Markup
import Distill.Model.TextRender
namespace Distill.IE
open Distill

mutual
/-- all elements below the nodes, in document order (`dom.GetElementsByTagName(root, "*")`
applied to the children of the root) -/
def descElems : Node → List Node
  | .text _ _ => []
  | .other _ _ => []
  | .elem i t a ks => .elem i t a ks :: descElemsL ks
def descElemsL : List Node → List Node
  | [] => []
  | k :: ks => descElems k ++ descElemsL ks
end

/-- elements strictly below the root -/
def below (root : Node) : List Node := descElemsL root.kids

def withTag (root : Node) (tag : String) : List Node := (below root).filter (fun e => e.tag == tag)

mutual
/-- `dom.TextContent` -/
def textContent : Node → List Char
  | .text _ d => d.toList
  | .other _ _ => []
  | .elem _ _ _ ks => textContentL ks
def textContentL : List Node → List Char
  | [] => []
  | k :: ks => textContent k ++ textContentL ks
end

def isClassSep (c : Char) : Bool := c == ' ' || c == '\t' || c == '\n' || c == '\x0c' || c == '\r'

def splitClass : List Char → List Char → List (List Char)
  | [], cur => if cur.isEmpty then [] else [cur.reverse]
  | c :: cs, cur =>
    if isClassSep c then (if cur.isEmpty then splitClass cs [] else cur.reverse :: splitClass cs [])
    else splitClass cs (c :: cur)

/-- the CSS class selector `.name` -/
def hasClass (e : Node) (name : String) : Bool :=
  (splitClass (getAttr e.attrs "class").toList []).contains name.toList

def firstWithClass (root : Node) (name : String) : Option Node := (below root).find? (fun e => hasClass e name)

/-- `strconv.Atoi`: optional sign, ASCII digits, nothing else.  Returns the value Go returns and
whether it returns no error: a syntax error gives 0, a value outside int64 the nearest bound. -/
def atoi (s : String) : Int × Bool :=
  let (neg, ds) := match s.toList with
    | '-' :: r => (true, r)
    | '+' :: r => (false, r)
    | r => (false, r)
  if ds.isEmpty || !ds.all (fun c => '0' ≤ c && c ≤ '9') then (0, false)
  else
    let v : Int := ds.foldl (fun acc c => acc * 10 + (c.toNat - '0'.toNat)) 0
    let x := if neg then -v else v
    if x > 9223372036854775807 then (9223372036854775807, false)
    else if x < -9223372036854775808 then (-9223372036854775808, false)
    else (x, true)

structure Atoms where
  lower : String → String
  upper : String → String
  vis : CAtoms

/-- first `meta` whose lower-cased name is `name`: its content -/
def metaContent (A : Atoms) (root : Node) (name : String) : Option String :=
  ((withTag root "meta").find? (fun m => A.lower (getAttr m.attrs "name") == name)).map (fun m => getAttr m.attrs "content")

def title (A : Atoms) (root : Node) : String :=
  if (withTag root "meta").isEmpty then "" else
  if (withTag root "title").isEmpty then "" else
  (metaContent A root "title").getD ""

def copyright (A : Atoms) (root : Node) : String := (metaContent A root "copyright").getD ""

/-- **the opt-out**: the first `meta` — anywhere below the root — whose upper-cased name is
`IE_RM_OFF` decides, by whether its lower-cased content is `true` -/
def optOut (A : Atoms) (root : Node) : Bool :=
  match (withTag root "meta").find? (fun m => A.upper (getAttr m.attrs "name") == "IE_RM_OFF") with
  | some m => A.lower (getAttr m.attrs "content") == "true"
  | none => false

def trimmedText (e : Node) : String := String.ofList (trimSpaceU (textContent e))

def author (root : Node) : String :=
  match firstWithClass root "byline-name" with
  | some e => trimmedText e
  | none => ""

def date (A : Atoms) (root : Node) : String :=
  match firstWithClass root "dateline" with
  | some e => trimmedText e
  | none => (metaContent A root "displaydate").getD ""

def publisher (root : Node) : String :=
  match (below root).find? (fun e =>
      (if getAttr e.attrs "publisher" != "" then getAttr e.attrs "publisher" else getAttr e.attrs "source_organization") != "") with
  | some e => if getAttr e.attrs "publisher" != "" then getAttr e.attrs "publisher" else getAttr e.attrs "source_organization"
  | none => ""

/-- width ≥ 400, height > 0, 1.3 ≤ width / height ≤ 3.0 (in exact arithmetic) -/
def relevantBySize (img : Node) : Bool :=
  let (w, okw) := atoi (getAttr img.attrs "width")
  let (h, okh) := atoi (getAttr img.attrs "height")
  okw && okh && w ≥ 400 && h > 0 && 10 * w ≥ 13 * h && w ≤ 3 * h

/-- caption of an image that is a direct child of a `figure` with one or two `figcaption`
descendants: the first non-empty `InnerText` among them -/
def captionOf (A : Atoms) (parent : Node) : String :=
  if parent.tag != "figure" then "" else
  let caps := (descElemsL parent.kids).filter (fun e => e.tag == "figcaption")
  if caps.length == 0 || caps.length > 2 then "" else
  -- the loop keeps the last value it computed when none is non-empty: the empty string
  match (caps.map (fun c => String.ofList (innerText A.vis c))).find? (fun s => s != "") with
  | some s => s
  | none => ""

mutual
/-- images with their parent element, in document order -/
def imgsWithParent (parent : Node) : Node → List (Node × Node)
  | .text _ _ => []
  | .other _ _ => []
  | .elem i t a ks =>
    (if t == "img" then [(Node.elem i t a ks, parent)] else []) ++ imgsWithParentL (.elem i t a ks) ks
def imgsWithParentL (parent : Node) : List Node → List (Node × Node)
  | [] => []
  | k :: ks => imgsWithParent parent k ++ imgsWithParentL parent ks
end

def images (A : Atoms) (root : Node) : List MImage :=
  (imgsWithParentL root root.kids).filterMap (fun (img, parent) =>
    let cap := captionOf A parent
    if cap != "" || relevantBySize img then
      some { url := getAttr img.attrs "src", caption := cap,
             width := (atoi (getAttr img.attrs "width")).1, height := (atoi (getAttr img.attrs "height")).1 }
    else none)

/-- the answers of the accessor -/
def source (A : Atoms) (root : Node) : MSource :=
  let au := author root
  { title := title A root, publisher := publisher root, copyright := copyright A root, author := au,
    images := images A root,
    article := some { published := date A root, authors := if au != "" then [au] else [] },
    optOut := optOut A root }

end Distill.IE
