/-
  DocFilters: the three document filters that run after the heuristic classifier
  (internal/filter/docfilter): RelevantElements, LeadImageFinder, NestedElementRetainer.
  They work on the flat element list only.
-/
import Distill.Model.Elem
namespace Distill

/-! ### RelevantElements.Process

Go:
```
inContent := false
for e in Elements:
  if e.IsContent() { inContent = true }
  else if e is *Text { inContent = false }
  else if inContent { e.SetIsContent(true) }
```
`relevantStep` is the loop body as a pure function `(isContent, isText, inContent) ↦
(inContent', setContent)`; the extractor regenerates `Gen.relevantStep` from the source and
`Proofs/GenTie` proves the two equal. -/

def relevantStep (isContent isText inContent : Bool) : Bool × Bool :=
  if isContent then (true, false)
  else if isText then (false, false)
  else if inContent then (inContent, true)
  else (inContent, false)

def relevantGo (inC : Bool) : List Elem → List Elem
  | [] => []
  | e :: es =>
    let r := relevantStep e.content e.isText inC
    (if r.2 then { e with content := true } else e) :: relevantGo r.1 es

def relevantElements (es : List Elem) : List Elem := relevantGo false es

/-! ### LeadImageFinder.Process

`score i` is the summed heuristic score of the element at index `i` (an atom: DOM
distance and has-figure-ancestor scorers on the real tree). -/

def leadMinScore : Int := 13

/-- index of the last content Text, scanning with running index `i` -/
def lastContentText (i : Nat) (acc : Option Nat) : List Elem → Option Nat
  | [] => acc
  | e :: es => lastContentText (i+1) (if e.isText && e.content then some i else acc) es

/-- candidate indices: images/figures before the first content image/figure or the last
content text, whichever comes first -/
def leadCandidates (last : Nat) (i : Nat) : List Elem → List Nat
  | [] => []
  | e :: es =>
    let isImg := e.kind == .image || e.kind == .figure
    if (isImg && e.content) || i == last then []
    else if isImg then i :: leadCandidates last (i+1) es
    else leadCandidates last (i+1) es

/-- first candidate with the maximal score among those scoring above the threshold -/
def bestCandidate (score : Nat → Int) (best : Option (Nat × Int)) : List Nat → Option (Nat × Int)
  | [] => best
  | c :: cs =>
    let s := score c
    if s > leadMinScore then
      match best with
      | none => bestCandidate score (some (c, s)) cs
      | some (b, bs) => if bs < s then bestCandidate score (some (c, s)) cs
                        else bestCandidate score (some (b, bs)) cs
    else bestCandidate score best cs

def setContentAt (i : Nat) : List Elem → List Elem
  | [] => []
  | e :: es => match i with
    | 0 => { e with content := true } :: es
    | i+1 => e :: setContentAt i es

/-! ### the score of a candidate (`getImageScore` with the heuristics of `getLeadHeuristics`)

`ImageDomDistanceScorer(25, first)`: `depthDiff` = depth of the first content text node minus depth of
its nearest common ancestor(-or-self) with the image element; multiplier 1 below 4, 0.6 below 6, 0.2
below 8, else 0 — `int(float64(25) * multiplier)` is 25, 15, 5, 0.  `ImageHasFigureScorer(15)`: 15 when
the image element or one of its ancestors is a `figure`.  Both are capped by their maximum, which
these values never exceed. -/

def domDistanceScore (depthDiff : Nat) : Nat :=
  if depthDiff < 4 then 25 else if depthDiff < 6 then 15 else if depthDiff < 8 then 5 else 0

def hasFigureScore (fig : Bool) : Nat := if fig then 15 else 0

def imageScore (depthDiff : Nat) (fig : Bool) : Int :=
  ((min (domDistanceScore depthDiff) 25 + min (hasFigureScore fig) 15 : Nat) : Int)

def leadIndex (score : Nat → Int) (es : List Elem) : Option Nat :=
  match lastContentText 0 none es with
  | none => none
  | some last =>
    match bestCandidate score none (leadCandidates last 0 es) with
    | none => none
    | some (i, _) => some i

def leadImage (score : Nat → Int) (es : List Elem) : List Elem :=
  match leadIndex score es with
  | none => es
  | some i => setContentAt i es

/-! ### NestedElementRetainer.Process

State: `isC` (isContent), `mark` (stackMark), stack of `(wasContent, index of the start
tag)`.  Output: the list of flag assignments `(index, flag)` the Go code performs on tag
elements, in order; `none` is the Go panic `stack[len(stack)-1]` on an empty stack. -/

structure RSt where
  isC : Bool := false
  mark : Int := -1
  stack : List (Bool × Nat) := []
deriving Repr

inductive REv where
  | item (c : Bool)          -- any non-tag element with its content flag
  | start (i : Nat)          -- Tag start at index i
  | stop (j : Nat)           -- Tag end at index j
deriving Repr

def rstep (s : RSt) : REv → Option (RSt × List (Nat × Bool))
  | .item c => some ({ s with isC := s.isC || c }, [])
  | .start i => some ({ isC := false, mark := s.mark, stack := (s.isC, i) :: s.stack }, [(i, s.isC)])
  | .stop j =>
    match s.stack with
    | [] => none
    | (was, i) :: rest =>
      let c := s.isC || decide (s.mark ≥ (rest.length : Int))
      some ({ isC := was, mark := if c then (rest.length : Int) - 1 else s.mark, stack := rest },
            [(i, c), (j, c)])

def rrun (s : RSt) : List REv → Option (RSt × List (Nat × Bool))
  | [] => some (s, [])
  | e :: es =>
    match rstep s e with
    | none => none
    | some (s1, o1) =>
      match rrun s1 es with
      | none => none
      | some (s2, o2) => some (s2, o1 ++ o2)

def revOf (i : Nat) (e : Elem) : REv :=
  match e.kind with
  | .tagStart => .start i
  | .tagEnd => .stop i
  | _ => .item e.content

def revsFrom (i : Nat) : List Elem → List REv
  | [] => []
  | e :: es => revOf i e :: revsFrom (i+1) es

def setFlagAt (i : Nat) (c : Bool) : List Elem → List Elem
  | [] => []
  | e :: es => match i with
    | 0 => { e with content := c } :: es
    | i+1 => e :: setFlagAt i c es

def applyFlags (es : List Elem) : List (Nat × Bool) → List Elem
  | [] => es
  | (i, c) :: us => applyFlags (setFlagAt i c es) us

/-- `none` = the Go code panics (end tag without start tag) -/
def nestedRetainer (es : List Elem) : Option (List Elem) :=
  match rrun {} (revsFrom 0 es) with
  | none => none
  | some (_, us) => some (applyFlags es us)

/-- the three filters in the order `ExtractContent` runs them -/
def docFilters (score : Nat → Int) (es : List Elem) : Option (List Elem) :=
  nestedRetainer (leadImage score (relevantElements es))

end Distill
