/-
  Dom: the tree the distiller works on.

  `id` is the pre-order index of the node in the *caller's* tree.  Clones keep the id of
  the node they were cloned from (provenance); nodes synthesised by the pipeline get ids
  `≥ synthBase`.  All recursion over `Node` is `mutual` structural recursion together with
  a companion function over `List Node`.
-/
namespace Distill

structure Attr where
  key : String
  val : String
deriving DecidableEq, Repr, Inhabited

inductive Node where
  | text  (id : Nat) (data : String)
  | elem  (id : Nat) (tag : String) (attrs : List Attr) (kids : List Node)
  | other (id : Nat) (kind : Nat)          -- comment / doctype / document / raw
deriving Repr, Inhabited

def synthBase : Nat := 4294967296

namespace Node

def id : Node → Nat
  | .text i _ => i
  | .elem i _ _ _ => i
  | .other i _ => i

def isElem : Node → Bool
  | .elem .. => true
  | _ => false

def isText : Node → Bool
  | .text .. => true
  | _ => false

def tag : Node → String
  | .elem _ t _ _ => t
  | _ => ""

def attrs : Node → List Attr
  | .elem _ _ a _ => a
  | _ => []

def kids : Node → List Node
  | .elem _ _ _ k => k
  | _ => []

end Node

/-- first attribute value with that key (Go: `dom.GetAttribute`, which returns "" when absent) -/
def getAttr (as : List Attr) (k : String) : String :=
  match as.find? (fun a => a.key == k) with
  | some a => a.val
  | none => ""

def hasAttr (as : List Attr) (k : String) : Bool :=
  as.any (fun a => a.key == k)

mutual
/-- ids of all text nodes, in document (pre-)order -/
def Node.textIds : Node → List Nat
  | .text i _ => [i]
  | .elem _ _ _ ks => textIdsL ks
  | .other _ _ => []
def textIdsL : List Node → List Nat
  | [] => []
  | k :: ks => k.textIds ++ textIdsL ks
end

mutual
/-- ids of all nodes, in pre-order -/
def Node.allIds : Node → List Nat
  | .text i _ => [i]
  | .elem i _ _ ks => i :: allIdsL ks
  | .other i _ => [i]
def allIdsL : List Node → List Nat
  | [] => []
  | k :: ks => k.allIds ++ allIdsL ks
end

mutual
/-- all element nodes of the subtree (root included when it is an element), pre-order -/
def Node.elems : Node → List Node
  | .text _ _ => []
  | .elem i t a ks => .elem i t a ks :: elemsL ks
  | .other _ _ => []
def elemsL : List Node → List Node
  | [] => []
  | k :: ks => k.elems ++ elemsL ks
end

mutual
def Node.size : Node → Nat
  | .text _ _ => 1
  | .elem _ _ _ ks => 1 + sizeL ks
  | .other _ _ => 1
def sizeL : List Node → Nat
  | [] => 0
  | k :: ks => k.size + sizeL ks
end

theorem textIdsL_append (a b : List Node) : textIdsL (a ++ b) = textIdsL a ++ textIdsL b := by
  induction a with
  | nil => simp [textIdsL]
  | cons k ks ih => simp [textIdsL, ih, List.append_assoc]

end Distill
