/-
  `PathComponentPagePattern.IsPagingURL` (internal/pagination/pattern/page-pattern-path.go) over
  bytes, with every index and slice expression of the Go code partial: `none` is what the Go
  code would do by panicking with an index out of range.

  Fields are taken as they are stored in the Go struct (strURL, placeholderStart,
  placeholderSegmentStart, prefix, suffix) plus `origin = strings.Index(strURL, url.Path)`.
-/
namespace Distill.PP

abbrev Bytes := List UInt8

structure PathPat where
  str : Bytes          -- strURL
  pStart : Int         -- placeholderStart
  segStart : Int       -- placeholderSegmentStart
  pre : Bytes          -- prefix
  suf : Bytes          -- suffix
  origin : Int         -- strings.Index(strURL, url.Path)

/-- `s[i]` -/
def idx (s : Bytes) (i : Int) : Option UInt8 :=
  if 0 ≤ i ∧ i < s.length then s[i.toNat]? else none

/-- `s[i:j]` -/
def slice (s : Bytes) (i j : Int) : Option Bytes :=
  if 0 ≤ i ∧ i ≤ j ∧ j ≤ s.length then some ((s.drop i.toNat).take (j - i).toNat) else none

/-- `s[:j]` -/
def sliceTo (s : Bytes) (j : Int) : Option Bytes := slice s 0 j

def slash : UInt8 := 47

/-- `strings.LastIndex(s, "/")` -/
def lastIndexSlash (s : Bytes) : Int :=
  let rec go (l : Bytes) (i : Nat) (acc : Int) : Int :=
    match l with
    | [] => acc
    | b :: rest => go rest (i + 1) (if b == slash then (i : Int) else acc)
  go s 0 (-1)

def isDigit (b : UInt8) : Bool := 48 ≤ b && b ≤ 57

/-- value of a digit string -/
def digitsVal (l : Bytes) : Nat := l.foldl (fun acc b => acc * 10 + (b.toNat - 48)) 0

/-- `val, err := strconv.Atoi(s); err == nil && val >= 0` (64-bit int: optional sign, at least
one digit, only digits, in range) -/
def atoiNonNeg (s : Bytes) : Bool :=
  let (neg, ds) : Bool × Bytes := match s with
    | 43 :: rest => (false, rest)      -- '+'
    | 45 :: rest => (true, rest)       -- '-'
    | _ => (false, s)
  if ds.isEmpty || !ds.all isDigit then false
  else
    let v := digitsVal ds
    if neg then v == 0      -- "-0" parses as 0; any other negative value is < 0 (or out of range)
    else v ≤ 9223372036854775807

/-- `rxPageParamSeparator` on a one-byte string: one of - _ ; , -/
def isSeparator (b : UInt8) : Bool := b == 45 || b == 95 || b == 59 || b == 44

def hasPrefix (s p : Bytes) : Bool := p.isPrefixOf s
def hasSuffix (s p : Bytes) : Bool := p.isSuffixOf s

/-- `isPagingUrlForStartOfPathComponent` -/
def startOfComponent (pp : PathPat) (url : Bytes) : Option Bool := do
  let urlLen : Int := url.length
  let suffixLen : Int := pp.suf.length
  let suffixStart := urlLen - suffixLen
  let head ← sliceTo pp.str pp.segStart
  let prevPos := lastIndexSlash head
  if prevPos ≥ pp.origin ∧ prevPos + suffixLen = urlLen then
    let a ← sliceTo url prevPos
    let b ← sliceTo pp.str prevPos
    pure (a == b)
  else if hasPrefix url pp.pre then
    let acceptLen := pp.segStart + suffixLen
    if acceptLen = urlLen then pure true
    else if acceptLen > urlLen then pure false
    else
      let c ← idx url pp.segStart
      if c != slash then pure false
      else
        let num ← slice url (pp.segStart + 1) suffixStart
        pure (atoiNonNeg num)
  else pure false

/-- first position in `[from, maxPos)` where url and pattern differ (or `maxPos`) -/
def firstDiff (pp : PathPat) (url : Bytes) (pos maxPos : Int) (fuel : Nat) : Option Int :=
  match fuel with
  | 0 => some pos
  | fuel + 1 =>
    if pos < maxPos then do
      let a ← idx url pos
      let b ← idx pp.str pos
      if a != b then pure pos else firstDiff pp url (pos + 1) maxPos fuel
    else some pos

/-- `isPagingUrlForNotStartOfPathComponent` -/
def notStartOfComponent (pp : PathPat) (url : Bytes) : Option Bool := do
  let urlLen : Int := url.length
  let suffixLen : Int := pp.suf.length
  let suffixStart := urlLen - suffixLen
  if !hasPrefix url pp.pre then pure false
  else
    let maxPos := if suffixStart < pp.pStart then suffixStart else pp.pStart
    let d ← firstDiff pp url pp.segStart maxPos (maxPos - pp.segStart).toNat
    if d = suffixStart then
      -- `firstDiffPos+1 == placeholderStart && rx.MatchString(string(strURL[firstDiffPos]))`:
      -- the index expression is only evaluated when the first conjunct holds
      let sep ← if d + 1 = pp.pStart then (idx pp.str d).map isSeparator else some false
      if sep then pure true
      else pure (decide (d + suffixLen = urlLen))
    else if d = pp.pStart then
      let num ← slice url d suffixStart
      pure (atoiNonNeg num)
    else pure false

/-- `IsPagingURL` -/
def isPagingURL (pp : PathPat) (url : Bytes) : Option Bool := do
  if !pp.suf.isEmpty ∧ !hasSuffix url pp.suf then pure false
  else
    let c ← idx pp.str (pp.pStart - 1)
    if c == slash then startOfComponent pp url else notStartOfComponent pp url

/-! ### construction (tail of `NewPathComponentPagePattern`) -/

def placeholder : Bytes := [91, 42, 33, 93]   -- "[*!]"

/-- `strings.Index(s, "[*!]")` -/
def indexPlaceholder (s : Bytes) : Int :=
  let rec go (l : Bytes) (i : Nat) : Int :=
    match l with
    | [] => -1
    | b :: rest => if placeholder.isPrefixOf (b :: rest) then (i : Int) else go rest (i + 1)
  go s 0

/-- placeholderStart, placeholderSegmentStart, prefix, suffix from strURL -/
def construct (str : Bytes) (origin : Int) : Option PathPat := do
  let pStart := indexPlaceholder str
  let head ← sliceTo str pStart
  let segStart := lastIndexSlash head
  let pre ← sliceTo str segStart
  let lenURL : Int := str.length
  let lenSuffix := lenURL - pStart - 4
  let suf ← if lenSuffix > 0 then slice str (lenURL - lenSuffix) lenURL else some []
  pure { str := str, pStart := pStart, segStart := segStart, pre := pre, suf := suf, origin := origin }

end Distill.PP
