/-
  `info.MonotonicPageInfoGroups`: the groups of adjacent, strictly monotonic page numbers the
  DOM scan of the page-number algorithm builds (AddGroup / AddPageInfo / AddNumber / CleanUp).
  Value semantics: the group being filled is the last element of `groups`.
-/
import Distill.Model.Pagination
namespace Distill.Pg

structure MG where
  groups : List PGroup := []
  prev : Option PInfo := none
deriving Repr

inductive GOp where
  | addGroup
  | add (p : PInfo)          -- AddPageInfo / AddNumber
  | cleanUp
deriving Repr

def sign (d : Int) : Int := if d > 0 then 1 else if d < 0 then -1 else 0

/-- replace the last group -/
def setLast (gs : List PGroup) (g : PGroup) : List PGroup := gs.dropLast ++ [g]

def MG.addGroup (m : MG) : MG :=
  match m.groups.getLast? with
  | none => { groups := [{ list := [], deltaSign := 0 }], prev := none }
  | some g => if g.list.isEmpty then m else { groups := m.groups ++ [{ list := [], deltaSign := 0 }], prev := none }

def MG.add (m : MG) (p : PInfo) : MG :=
  match m.groups.getLast? with
  | none => m
  | some g =>
    if g.list.isEmpty then { groups := setLast m.groups { g with list := [p] }, prev := some p }
    else
      let prevNum := match m.prev with | some q => q.num | none => 0
      let ds := sign (p.num - prevNum)
      if ds != g.deltaSign then
        if g.deltaSign != 0 then
          -- strictly monotonic until this number: start a new group, with the previous number
          -- first when the two differ
          let start : List PInfo := if ds != 0 then (match m.prev with | some q => [q] | none => []) else []
          { groups := m.groups ++ [{ list := start ++ [p], deltaSign := ds }], prev := some p }
        else
          { groups := setLast m.groups { list := g.list ++ [p], deltaSign := ds }, prev := some p }
      else if ds == 0 then
        -- same number as the only entry of the group: replace it
        { groups := setLast m.groups { list := [p], deltaSign := ds }, prev := some p }
      else
        { groups := setLast m.groups { list := g.list ++ [p], deltaSign := ds }, prev := some p }

def MG.cleanUp (m : MG) : MG :=
  match m.groups.getLast? with
  | some g => if g.list.isEmpty then { m with groups := m.groups.dropLast } else m
  | none => m

def MG.step (m : MG) : GOp → MG
  | .addGroup => m.addGroup
  | .add p => m.add p
  | .cleanUp => m.cleanUp

def runOps (ops : List GOp) : MG := ops.foldl MG.step {}

end Distill.Pg
