/-
  SchemaOrg: `markup/schemaorg.Parser` — the schema.org microdata accessor, from the document tree
  to its answers (`MSource`).

  The items the parser creates live in a store (a list; an item refers to another by its index),
  as the Go objects refer to each other by pointer.  Atom: `lower` (`strings.ToLower`).
  Elements have no repeated attributes in the cases compared.
-/
import Distill.Model.IEReader
namespace Distill.SO
open Distill

inductive SType where | unsupported | image | article | person | organization
deriving DecidableEq, Repr

def typeOfURL (u : String) : SType :=
  if u == "http://schema.org/ImageObject" then .image
  else if ["http://schema.org/Article", "http://schema.org/BlogPosting", "http://schema.org/NewsArticle",
           "http://schema.org/ScholarlyArticle", "http://schema.org/TechArticle"].contains u then .article
  else if u == "http://schema.org/Person" then .person
  else if ["http://schema.org/Organization", "http://schema.org/Corporation", "http://schema.org/EducationalOrganization",
           "http://schema.org/GovernmentOrganization", "http://schema.org/NGO"].contains u then .organization
  else .unsupported

def baseStrs : List String := ["name", "url", "description", "image"]

def strNames : SType → List String
  | .article => baseStrs ++ ["headline", "publisher", "copyrightHolder", "copyrightYear", "dateModified", "datePublished", "author", "creator", "articleSection"]
  | .image => baseStrs ++ ["contentUrl", "encodingFormat", "caption", "representativeOfPage", "width", "height"]
  | .person => baseStrs ++ ["familyName", "givenName"]
  | .organization => baseStrs ++ ["legalName"]
  | .unsupported => baseStrs

def itemNames : SType → List String
  | .article => ["publisher", "copyrightHolder", "author", "creator", "associatedMedia", "encoding"]
  | _ => []

structure Item where
  elemId : Nat
  type : SType
  strs : List (String × String)
  items : List (String × Option Nat)
deriving Repr

def newItem (elemId : Nat) (t : SType) : Item :=
  { elemId := elemId, type := t, strs := (strNames t).map (fun n => (n, "")), items := (itemNames t).map (fun n => (n, none)) }

def Item.str (i : Item) (n : String) : String := (i.strs.lookup n).getD ""
def Item.item (i : Item) (n : String) : Option Nat := (i.items.lookup n).getD none

def trimS (s : String) : String := String.ofList (trimSpaceU s.toList)

/-- `putStringValue`: only a declared property that is still empty takes the (trimmed) value -/
def Item.putStr (i : Item) (n v : String) : Item :=
  { i with strs := i.strs.map (fun e => if e.1 == n && e.2 == "" then (e.1, trimS v) else e) }

/-- `putItemValue`: only a declared property that is still nil takes the item -/
def Item.putItem (i : Item) (n : String) (v : Nat) : Item :=
  { i with items := i.items.map (fun e => if e.1 == n && e.2.isNone then (e.1, some v) else e) }

abbrev Store := List Item

def Store.indexOfElem (s : Store) (elemId : Nat) : Option Nat :=
  let rec go (l : List Item) (k : Nat) : Option Nat :=
    match l with
    | [] => none
    | i :: rest => if i.elemId == elemId then some k else go rest (k + 1)
  go s 0

def Store.update (s : Store) (k : Nat) (f : Item → Item) : Store :=
  let rec go (l : List Item) (j : Nat) : List Item :=
    match l with
    | [] => []
    | i :: rest => (if j == k then f i else i) :: go rest (j + 1)
  go s 0

def isItemScope (attrs : List Attr) : Bool := hasAttr attrs "itemscope" && hasAttr attrs "itemtype"

def attrOfTag (tag : String) : Option String :=
  if ["img", "audio", "embed", "iframe", "source", "track", "video"].contains tag then some "src"
  else if ["a", "link", "area"].contains tag then some "href"
  else if tag == "meta" then some "content"
  else if tag == "time" then some "datetime"
  else if tag == "object" then some "data"
  else if tag == "data" || tag == "meter" then some "value"
  else none

/-- `getPropertyValue` -/
def propertyValue (e : Node) : String :=
  let v := match attrOfTag e.tag with | some a => getAttr e.attrs a | none => ""
  if v != "" then v else trimS (String.ofList (IE.textContent e))

/-- `parseElement(element, parentItem)`; `parent` = index of the parent item in the store -/
def parseElement (s : Store) (e : Node) (parent : Option Nat) : Store :=
  let names : List String := match parent with
    | some _ => (fields (getAttr e.attrs "itemprop").toList).map String.ofList
    | none => []
  let newT : Option SType := if isItemScope e.attrs then some (typeOfURL (getAttr e.attrs "itemtype")) else none
  -- a supported new item is registered (a parent that is known is always supported)
  let (s1, newIdx) : Store × Option Nat := match newT with
    | some t => if t != .unsupported then (s ++ [newItem e.id t], some s.length) else (s, none)
    | none => (s, none)
  match parent with
  | none => s1
  | some p =>
    if names.isEmpty then s1
    else match newT with
      | some t =>
        if t == .unsupported then s1
        else names.foldl (fun st n => match newIdx with | some k => st.update p (fun i => i.putItem n k) | none => st) s1
      | none => names.foldl (fun st n => st.update p (fun i => i.putStr n (propertyValue e))) s1

mutual
/-- the elements `parse` visits below the root, in document order, with the nearest enclosing
element that has `itemscope` and `itemtype` -/
def walk (scopeAnc : Option Nat) (s : Store) : Node → Store
  | .text _ _ => s
  | .other _ _ => s
  | .elem i t attrs ks =>
    let s1 := if hasAttr attrs "itemprop" || hasAttr attrs "itemscope"
      then parseElement s (.elem i t attrs ks) (scopeAnc.bind (fun a => Store.indexOfElem s a)) else s
    walkL (if isItemScope attrs then some i else scopeAnc) s1 ks
def walkL (scopeAnc : Option Nat) (s : Store) : List Node → Store
  | [] => s
  | k :: ks => walkL scopeAnc (walk scopeAnc s k) ks
end

def parse (root : Node) : Store :=
  let s0 := parseElement [] root none
  walkL (if isItemScope root.attrs then some root.id else none) s0 root.kids

/-- `authorFromRel`: the first `a` / `link` with `rel=author` whose trimmed text is not empty -/
def authorFromRel (lower : String → String) (root : Node) : String :=
  let cands := (IE.below root).filter (fun e => (e.tag == "a" || e.tag == "link") && getAttr e.attrs "rel" == "author")
  match (cands.map (fun e => if lower (getAttr e.attrs "rel") == "author" then trimS (String.ofList (IE.textContent e)) else "")).find? (· != "") with
  | some a => a
  | none => ""

def nth? (s : Store) (k : Nat) : Option Item := s[k]?

def personName (i : Item) : String :=
  if i.str "name" != "" then i.str "name"
  else (if i.str "givenName" != "" && i.str "familyName" != "" then i.str "givenName" ++ " " else i.str "givenName") ++ i.str "familyName"

def orgName (i : Item) : String := if i.str "name" != "" then i.str "name" else i.str "legalName"

/-- `getPersonOrOrganizationName` -/
def personOrOrg (s : Store) (a : Item) (prop : String) : String :=
  if a.str prop != "" then a.str prop
  else match a.item prop with
    | some k => (match nth? s k with
      | some v => if v.type == .person then personName v else if v.type == .organization then orgName v else ""
      | none => "")
    | none => ""

def articles (s : Store) : List Item := s.filter (fun i => i.type == .article)

def imageOf (i : Item) : MImage :=
  { url := if i.str "contentUrl" != "" then i.str "contentUrl" else i.str "url",
    type := i.str "encodingFormat", caption := i.str "caption",
    width := (IE.atoi (i.str "width")).1, height := (IE.atoi (i.str "height")).1 }

/-- index of the representative image item of an article (`associatedMedia`, else `encoding`) -/
def representative (s : Store) (a : Item) : Option Nat :=
  let it := match a.item "associatedMedia" with | some k => some k | none => a.item "encoding"
  match it with
  | some k => (match nth? s k with | some v => if v.type == .image then some k else none | none => none)
  | none => none

/-- the first loop of `Images`: images named by the articles, and the associated image item of the
first article that has one (that article's own `image` is skipped) -/
def articleImages (s : Store) : List Item → Option Nat → List MImage × Option Nat
  | [], assoc => ([], assoc)
  | a :: rest, assoc =>
    match assoc with
    | none =>
      match representative s a with
      | some k => articleImages s rest (some k)
      | none =>
        let (l, r) := articleImages s rest none
        ((if a.str "image" != "" then [{ url := a.str "image" }] else []) ++ l, r)
    | some k =>
      let (l, r) := articleImages s rest (some k)
      ((if a.str "image" != "" then [{ url := a.str "image" }] else []) ++ l, r)

/-- the second loop: every image item; the associated one, or the first that is representative of
the page, goes to the front -/
def imageItems (lower : String → String) (s : Store) (assoc : Option Nat) : List (Nat × Item) → Bool → List MImage → List MImage
  | [], _, acc => acc
  | (k, i) :: rest, hasRep, acc =>
    if assoc == some k || (!hasRep && lower (i.str "representativeOfPage") == "true") then
      imageItems lower s assoc rest true (imageOf i :: acc)
    else imageItems lower s assoc rest hasRep (acc ++ [imageOf i])

def images (lower : String → String) (s : Store) : List MImage :=
  let (fromArticles, assoc) := articleImages s (articles s) none
  let imgs := ((List.range s.length).zip s).filter (fun p => p.2.type == .image)
  imageItems lower s assoc imgs false fromArticles

/-- the answers of the accessor -/
def source (lower : String → String) (root : Node) : MSource :=
  let s := parse root
  let arts := articles s
  let first := arts.head?
  let authorOf := fun (a : Item) => if personOrOrg s a "author" != "" then personOrOrg s a "author" else personOrOrg s a "creator"
  let author0 := match first with | some a => authorOf a | none => ""
  { title := match (arts.map (fun a => if a.str "headline" != "" then a.str "headline" else a.str "name")).find? (· != "") with | some t => t | none => "",
    type := if arts.isEmpty then "" else "Article",
    url := match first with | some a => a.str "url" | none => "",
    description := match first with | some a => a.str "description" | none => "",
    publisher := match first with
      | some a => if personOrOrg s a "publisher" != "" then personOrOrg s a "publisher" else personOrOrg s a "copyrightHolder"
      | none => "",
    copyright := match first with
      | some a =>
        let y := a.str "copyrightYear"
        let h := personOrOrg s a "copyrightHolder"
        let c := (if y != "" && h != "" then y ++ " " else y) ++ h
        if c != "" then "Copyright " ++ c else ""
      | none => "",
    author := if author0 != "" then author0 else authorFromRel lower root,
    images := images lower s,
    article := match first with
      | some a => some { published := a.str "datePublished", modified := a.str "dateModified", sect := a.str "articleSection",
                         authors := if authorOf a != "" then [authorOf a] else [] }
      | none => none,
    optOut := false }

end Distill.SO
