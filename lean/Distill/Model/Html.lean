/-
  Html: serialisation of a tree as `golang.org/x/net/html.Render` does it (what
  `dom.OuterHTML` / `dom.InnerHTML` return), over `List Char`.

  Modelled: escaping of text and attribute values (`& ' < > " \r`), void elements (`<br/>`, no
  end tag; a void element with children makes `Render` fail, which `dom.OuterHTML` turns into
  the empty string), literal text children of `iframe noembed noframes noscript plaintext script
  style xmp`, the extra newline after `<pre>` / `<listing>` / `<textarea>` whose first child is a
  text starting with a newline, `<plaintext>` aborting the remaining siblings
  and end tags.  Not modelled: comment, doctype and raw nodes (`other` nodes of kind ≠ comment render as nothing here; they never
  occur in the clones the distiller serialises).
-/
import Distill.Model.Dom
namespace Distill

def escapeChars : List Char → List Char
  | [] => []
  | c :: cs =>
    (if c == '&' then "&amp;".toList
     else if c == '\'' then "&#39;".toList
     else if c == '<' then "&lt;".toList
     else if c == '>' then "&gt;".toList
     else if c == '"' then "&#34;".toList
     else if c == '\r' then "&#13;".toList
     else [c]) ++ escapeChars cs

def voidTags : List String :=
  ["area", "base", "br", "col", "embed", "hr", "img", "input", "keygen", "link", "meta", "param",
   "source", "track", "wbr"]

def literalTextTags : List String :=
  ["iframe", "noembed", "noframes", "noscript", "plaintext", "script", "style", "xmp"]

def newlineTags : List String := ["pre", "listing", "textarea"]

def attrChars (a : Attr) : List Char :=
  ' ' :: a.key.toList ++ '=' :: '"' :: escapeChars a.val.toList ++ ['"']

def attrsChars : List Attr → List Char
  | [] => []
  | a :: as => attrChars a ++ attrsChars as

def startsWithNewline (ks : List Node) : Bool :=
  match ks with
  | .text _ d :: _ => (match d.toList with | '\n' :: _ => true | _ => false)
  | _ => false

/-- outcome of `render1`: an error, the text written, or the text written followed by the
`plaintextAbort` that stops every enclosing `render1` (no further siblings, no end tags) -/
inductive RenderRes where
  | err
  | ok (s : List Char)
  | abort (s : List Char)

mutual
/-- `html.render1` of one node; `lit` = the parent writes text children unescaped -/
def render1 (lit : Bool) : Node → RenderRes
  | .text _ d => .ok (if lit then d.toList else escapeChars d.toList)
  | .other _ _ => .ok []
  | .elem _ t attrs ks =>
    let open_ := '<' :: t.toList ++ attrsChars attrs
    if voidTags.contains t then
      (if ks.isEmpty then .ok (open_ ++ ['/', '>']) else .err)
    else
      let head := open_ ++ '>' :: (if newlineTags.contains t && startsWithNewline ks then ['\n'] else [])
      match render1Kids (literalTextTags.contains t) ks with
      | .err => .err
      | .abort inner => .abort (head ++ inner)
      | .ok inner =>
        if t == "plaintext" then .abort (head ++ inner)
        else .ok (head ++ inner ++ '<' :: '/' :: t.toList ++ ['>'])
def render1Kids (lit : Bool) : List Node → RenderRes
  | [] => .ok []
  | k :: ks =>
    match render1 lit k with
    | .err => .err
    | .abort a => .abort a
    | .ok a =>
      match render1Kids lit ks with
      | .err => .err
      | .abort b => .abort (a ++ b)
      | .ok b => .ok (a ++ b)
end

/-- `html.Render` of one node (`plaintextAbort` is not an error); `none` = Render fails -/
def renderNode (lit : Bool) (n : Node) : Option (List Char) :=
  match render1 lit n with
  | .err => none
  | .ok s => some s
  | .abort s => some s

/-- every child rendered by its own `html.Render` call, concatenated -/
def renderKids (lit : Bool) : List Node → Option (List Char)
  | [] => some []
  | k :: ks =>
    match renderNode lit k, renderKids lit ks with
    | some a, some b => some (a ++ b)
    | _, _ => none

/-- `unicode.IsSpace` -/
def isSpaceChar (c : Char) : Bool :=
  let n := c.toNat
  (9 ≤ n && n ≤ 13) || n == 32 || n == 0x85 || n == 0xA0 || n == 0x1680 || (0x2000 ≤ n && n ≤ 0x200a) ||
  n == 0x2028 || n == 0x2029 || n == 0x202f || n == 0x205f || n == 0x3000

def trimLeftU : List Char → List Char
  | [] => []
  | c :: cs => if isSpaceChar c then trimLeftU cs else c :: cs

/-- `strings.TrimSpace` -/
def trimSpaceU (s : List Char) : List Char := (trimLeftU (trimLeftU s).reverse).reverse

/-- `dom.OuterHTML`: the empty string when `Render` fails -/
def outerHTML (n : Node) : List Char :=
  match renderNode false n with
  | some s => s
  | none => []

/-- `dom.InnerHTML`: every child rendered on its own (so the literal-text rule of the parent does
not apply), concatenated, then `strings.TrimSpace` -/
def innerHTML (n : Node) : List Char :=
  match renderKids false n.kids with
  | some s => trimSpaceU s
  | none => []

end Distill
