/-
  OpenGraph: `markup/opengraph.Parser` — from the `meta` elements of the document to the property
  table, the image list, the profile / article sub-parsers, the gate of `NewParser` and the
  answers of the accessor (`MSource`).

  Atoms: `lower` (`strings.ToLower`), and the three prefixes in use (`findPrefixes`: the `prefix`
  attribute / `xmlns:` declarations are read with regular expressions; the defaults are `og`,
  `profile`, `article`).  Elements have no repeated attributes in the cases compared.
-/
import Distill.Model.IEReader
namespace Distill.OG
open Distill

inductive Pfx where | og | profile | article
deriving DecidableEq, Repr

structure Important where
  name : String
  pfx : Pfx
  type : String      -- "", "image", "profile", "article"

/-- `importantProperties`, in source order -/
def important : List Important :=
  [⟨"title", .og, ""⟩, ⟨"type", .og, ""⟩, ⟨"url", .og, ""⟩, ⟨"description", .og, ""⟩, ⟨"site_name", .og, ""⟩,
   ⟨"image", .og, "image"⟩, ⟨"image:", .og, "image"⟩,
   ⟨"first_name", .profile, "profile"⟩, ⟨"last_name", .profile, "profile"⟩,
   ⟨"section", .article, "article"⟩, ⟨"published_time", .article, "article"⟩, ⟨"modified_time", .article, "article"⟩,
   ⟨"expiration_time", .article, "article"⟩, ⟨"author", .article, "article"⟩]

structure Prefixes where
  og : String := "og"
  profile : String := "profile"
  article : String := "article"

def Prefixes.get (p : Prefixes) : Pfx → String
  | .og => p.og | .profile => p.profile | .article => p.article

structure Img where
  root : String := ""
  url : String := ""
  secureUrl : String := ""
  type : String := ""
  width : Int := 0
  height : Int := 0
deriving Repr

structure St where
  table : List (String × String) := []     -- propertyTable (latest value first)
  images : List Img := []                   -- ImagePropParser.ImageList, in order
  profileChecked : Bool := false
  isProfile : Bool := false
  isArticle : Bool := false
  authors : List String := []
deriving Repr

def St.get (s : St) (k : String) : String := (s.table.lookup k).getD ""
def St.set (s : St) (k v : String) : St := { s with table := (k, v) :: s.table.filter (fun e => e.1 != k) }

def hasPrefix (s p : String) : Bool := p.toList.isPrefixOf s.toList
def dropPrefix (s p : String) : String := if hasPrefix s p then String.ofList (s.toList.drop p.length) else s

def setLastImg (l : List Img) (i : Img) : List Img := l.dropLast ++ [i]

/-- `ImagePropParser.Parse`: always answers "do not add to the table" -/
def imageParse (s : St) (property content : String) : St :=
  if property == "image" then { s with images := s.images ++ [{ root := content }] }
  else
    let cur : Img := match s.images.getLast? with | some i => i | none => {}
    let upd : Option Img :=
      if property == "image:url" then some { cur with url := content }
      else if property == "image:secure_url" then some { cur with secureUrl := content }
      else if property == "image:type" then some { cur with type := content }
      else if property == "image:width" then some { cur with width := (IE.atoi content).1 }
      else if property == "image:height" then some { cur with height := (IE.atoi content).1 }
      else none
    match upd with
    | none => s
    | some i => if s.images.isEmpty then { s with images := [i] } else { s with images := setLastImg s.images i }

/-- one `meta` element against one important property; `property` is the (possibly already
shortened) lower-cased property value carried along the inner loop -/
def stepImportant (lower : String → String) (P : Prefixes) (content : String) (acc : St × String) (ip : Important) : St × String :=
  let (s, property) := acc
  let pwc := P.get ip.pfx ++ ":"
  if !hasPrefix property (pwc ++ ip.name) then (s, property)
  else
    let property' := dropPrefix property pwc
    if ip.type == "image" then (imageParse s property' content, property')
    else if ip.type == "profile" then
      let s1 := if s.profileChecked then s else { s with isProfile := lower (s.get "type") == "profile", profileChecked := true }
      ((if s1.isProfile then s1.set ip.name content else s1), property')
    else if ip.type == "article" then
      let s1 := if s.isArticle then s else { s with isArticle := lower (s.get "type") == "article" }
      if !s1.isArticle then (s1, property')
      else if property' == "author" then ({ s1 with authors := s1.authors ++ [content] }, property')
      else (s1.set ip.name content, property')
    else (s.set ip.name content, property')

def stepMeta (lower : String → String) (P : Prefixes) (s : St) (m : Node) : St :=
  let content := getAttr m.attrs "content"
  let property := lower (getAttr m.attrs "property")
  (important.foldl (stepImportant lower P content) (s, property)).1

/-- the `meta` elements `parseMetaTags` selects: below the root, with a `property` attribute that
starts (case-sensitively) with one of the prefixes in use -/
def selected (P : Prefixes) (root : Node) : List Node :=
  (IE.withTag root "meta").filter (fun m =>
    hasAttr m.attrs "property" &&
    (hasPrefix (getAttr m.attrs "property") P.og || hasPrefix (getAttr m.attrs "property") P.profile ||
     hasPrefix (getAttr m.attrs "property") P.article))

/-- `ImagePropParser.Verify` -/
def verifyImages (l : List Img) : List MImage :=
  l.filterMap (fun i => if i.root == "" then none else
    some { url := if i.url == "" then i.root else i.url, secureUrl := i.secureUrl, type := i.type, width := i.width, height := i.height })

structure Parsed where
  st : St
  images : List MImage

def parse (lower : String → String) (P : Prefixes) (root : Node) : Parsed :=
  let st := (selected P root).foldl (stepMeta lower P) {}
  { st := st, images := verifyImages st.images }

/-- the gate of `NewParser`: the parser is usable only with title, type, url and an image -/
def usable (p : Parsed) : Bool :=
  p.st.get "title" != "" && p.st.get "type" != "" && p.st.get "url" != "" && !p.images.isEmpty

/-- the answers of the accessor -/
def source (lower : String → String) (p : Parsed) : MSource :=
  let s := p.st
  let fullName :=
    if !s.isProfile then "" else
    if s.get "first_name" != "" && s.get "last_name" != "" then s.get "first_name" ++ " " ++ s.get "last_name" else s.get "first_name"
  let art : MArticle := { published := s.get "published_time", modified := s.get "modified_time",
                          expiration := s.get "expiration_time", sect := s.get "section", authors := s.authors }
  { title := s.get "title",
    type := if lower (s.get "type") == "article" then "Article" else "",
    url := s.get "url", description := s.get "description", publisher := s.get "site_name", copyright := "",
    author := fullName, images := p.images,
    article := if art.sect == "" && art.published == "" && art.modified == "" && art.expiration == "" && art.authors.isEmpty then none else some art,
    optOut := false }

end Distill.OG
