/-
  Style: what `GetDisplayStyle` and `IsProbablyVisible` read from an inline style attribute.

    rxDisplay          (?i)display\s*:\s*([\w-]+)\s*(!\s*important\s*)?(?:;|$)
    rxVisibilityHidden (?i)visibility\s*:\s*(:?hidden|collapse)

  with Go's leftmost-first matching spelled out.  Both expressions are deterministic once the start
  position is fixed: `[\w-]+` and every `\s*` must be maximal (a shorter match is followed by a
  character of the same class, which nothing after it accepts), and the optional `!important` group
  cannot be skipped when a `!` follows (what follows the group is `;` or the end).  `(?i)` folds case
  by Unicode simple folding: besides ASCII upper case, LATIN SMALL LETTER LONG S (U+017F) matches `s`
  and KELVIN SIGN (U+212A) matches `k`.

  `GetDisplayStyle` goes through ALL matches (`FindAllStringSubmatch`: matching resumes after a
  match): the last one marked important decides, else the last one.
-/
namespace Distill.Style

/-- Go's `\s` -/
def isWS (c : Char) : Bool :=
  c == ' ' || c == '\n' || c == '\t' || c == '\r' || c == '\x0c'

/-- `[\w-]` under `(?i)`: the class is closed under case folding, so LONG S and KELVIN SIGN are in it -/
def isWordDash (c : Char) : Bool := c.isAlphanum || c == '_' || c == '-' || c == '\u017f' || c == '\u212a'

/-- `strings.ToLower` on the characters `[\w-]` can match -/
def lower (c : Char) : Char := if c == '\u212a' then 'k' else c.toLower

/-- does `c` match the lower-case ASCII letter `l` under `(?i)` -/
def foldEq (c l : Char) : Bool :=
  c == l || c.toLower == l || (l == 's' && c == '\u017f') || (l == 'k' && c == '\u212a')

/-- `(?i)lit` at the head: the rest after it -/
def lit : List Char → List Char → Option (List Char)
  | [], s => some s
  | _ :: _, [] => none
  | l :: ls, c :: cs => if foldEq c l then lit ls cs else none

def skipWS (s : List Char) : List Char := s.dropWhile isWS

/-- one match of `rxDisplay` -/
structure DMatch where
  value : List Char        -- group 1
  important : Bool         -- group 2 took part
deriving Repr, DecidableEq

/-- `rxDisplay` anchored at the head of `s`: the match and what follows it -/
def displayAt (s : List Char) : Option (DMatch × List Char) :=
  match lit "display".toList s with
  | none => none
  | some r1 =>
    match skipWS r1 with
    | ':' :: r2 =>
      let r3 := skipWS r2
      let v := r3.takeWhile isWordDash
      if v.isEmpty then none else
      let r4 := skipWS (r3.dropWhile isWordDash)
      match r4 with
      | [] => some (⟨v, false⟩, [])
      | ';' :: r5 => some (⟨v, false⟩, r5)
      | '!' :: r5 =>
        match lit "important".toList (skipWS r5) with
        | none => none
        | some r6 =>
          match skipWS r6 with
          | [] => some (⟨v, true⟩, [])
          | ';' :: r7 => some (⟨v, true⟩, r7)
          | _ => none
      | _ => none
    | _ => none

/-- `FindAllStringSubmatch`: every match, resuming after each -/
def displayAll : Nat → List Char → List DMatch
  | 0, _ => []
  | _ + 1, [] => []
  | fuel + 1, c :: cs =>
    match displayAt (c :: cs) with
    | some (m, rest) => m :: displayAll fuel rest
    | none => displayAll fuel cs

/-- the declaration that decides: the last important one, else the last one -/
def cascade : Option DMatch → List DMatch → Option DMatch
  | cur, [] => cur
  | none, m :: ms => cascade (some m) ms
  | some cur, m :: ms => if m.important || !cur.important then cascade (some ⟨m.value, cur.important || m.important⟩) ms
                         else cascade (some cur) ms

/-- what `GetDisplayStyle` takes from the style attribute, lower-cased (`none` = tag default) -/
def display (s : List Char) : Option (List Char) :=
  (cascade none (displayAll (s.length + 1) s)).map fun m => m.value.map lower

/-- `rxVisibilityHidden` anchored at the head of `s` -/
def visAt (s : List Char) : Bool :=
  match lit "visibility".toList s with
  | none => false
  | some r1 =>
    match skipWS r1 with
    | ':' :: r2 =>
      let r3 := skipWS r2
      -- the group is `:?hidden | collapse`: an optional (stray) colon belongs to the first branch only
      let r4 := match r3 with | ':' :: r => r | _ => r3
      (lit "hidden".toList r4).isSome || (lit "collapse".toList r3).isSome
    | _ => false

/-- `rxVisibilityHidden.MatchString` -/
def visHidden : List Char → Bool
  | [] => false
  | c :: cs => visAt (c :: cs) || visHidden cs

end Distill.Style
