/-
  Render (first part): the node selection of the secondary rendering paths.

  `domutil.GetOutputNodes(root)` — used for data tables and for figure captions that are kept
  as DOM — walks the subtree and collects text nodes and the elements `IsProbablyVisible`
  accepts, not descending into rejected ones.
-/
import Distill.Model.Convert
namespace Distill

mutual
/-- text nodes collected by `GetOutputNodes` -/
def outputTextIds (A : CAtoms) : Node → List Nat
  | .text i _ => [i]
  | .other _ _ => []
  | .elem i t attrs ks =>
    if t == "script" || t == "style" || A.foreignRaw i then [] else if visible A i t attrs then outputTextIdsL A ks else []
def outputTextIdsL (A : CAtoms) : List Node → List Nat
  | [] => []
  | k :: ks => outputTextIds A k ++ outputTextIdsL A ks
end

mutual
/-- text nodes not inside an element the visibility test rejects -/
def Node.visibleOnlyTextIds (A : CAtoms) : Node → List Nat
  | .text i _ => [i]
  | .other _ _ => []
  | .elem i t attrs ks => if !visible A i t attrs then [] else visibleOnlyTextIdsL A ks
def visibleOnlyTextIdsL (A : CAtoms) : List Node → List Nat
  | [] => []
  | k :: ks => k.visibleOnlyTextIds A ++ visibleOnlyTextIdsL A ks
end

mutual
theorem outputTextIds_sublist (A : CAtoms) : (n : Node) → (outputTextIds A n).Sublist (n.visibleOnlyTextIds A)
  | .text i d => by simp [outputTextIds, Node.visibleOnlyTextIds]
  | .other _ _ => by simp [outputTextIds, Node.visibleOnlyTextIds]
  | .elem i t attrs ks => by
    simp only [outputTextIds, Node.visibleOnlyTextIds]
    split
    · exact List.nil_sublist _
    · cases h : visible A i t attrs
      · simp
      · simpa using outputTextIdsL_sublist A ks
theorem outputTextIdsL_sublist (A : CAtoms) : (ks : List Node) → (outputTextIdsL A ks).Sublist (visibleOnlyTextIdsL A ks)
  | [] => by simp [outputTextIdsL, visibleOnlyTextIdsL]
  | k :: ks => by
    simp only [outputTextIdsL, visibleOnlyTextIdsL]
    exact List.Sublist.append (outputTextIds_sublist A k) (outputTextIdsL_sublist A ks)
end

end Distill

namespace Distill

mutual
/-- tags of the elements `GetOutputNodes` collects -/
def outputTags (A : CAtoms) : Node → List String
  | .text _ _ => []
  | .other _ _ => []
  | .elem i t attrs ks =>
    if t == "script" || t == "style" || A.foreignRaw i then [] else if visible A i t attrs then t :: outputTagsL A ks else []
def outputTagsL (A : CAtoms) : List Node → List String
  | [] => []
  | k :: ks => outputTags A k ++ outputTagsL A ks
end

mutual
/-- no script or style element is ever collected, whatever the atoms say -/
theorem outputTags_no_script (A : CAtoms) : (n : Node) → ∀ t ∈ outputTags A n, t ≠ "script" ∧ t ≠ "style"
  | .text _ _ => by simp [outputTags]
  | .other _ _ => by simp [outputTags]
  | .elem i t attrs ks => by
    intro x hx
    simp only [outputTags] at hx
    split at hx
    · simp at hx
    · rename_i hne
      split at hx
      · rcases List.mem_cons.mp hx with h | h
        · subst h
          have : (¬x = "script" ∧ ¬x = "style") ∧ A.foreignRaw i = false := by simpa using hne
          exact this.1
        · exact outputTagsL_no_script A ks x h
      · simp at hx
theorem outputTagsL_no_script (A : CAtoms) : (ks : List Node) → ∀ t ∈ outputTagsL A ks, t ≠ "script" ∧ t ≠ "style"
  | [] => by simp [outputTagsL]
  | k :: ks => by
    intro x hx
    simp only [outputTagsL, List.mem_append] at hx
    rcases hx with h | h
    · exact outputTags_no_script A k x h
    · exact outputTagsL_no_script A ks x h
end

/-! ### repeated attributes (`domutil.RemoveDuplicateAttributes`)

The parser keeps every copy of a repeated attribute; `dom.GetAttribute` / `dom.SetAttribute` only
see the first.  The converter drops the later copies from its clone before walking it, so every
function below runs on elements whose attribute names are distinct. -/

def dedupAttrs : List Attr → List String → List Attr
  | [], _ => []
  | a :: rest, seen => if seen.contains a.key then dedupAttrs rest seen else a :: dedupAttrs rest (a.key :: seen)

mutual
def dedupNode : Node → Node
  | .text i d => .text i d
  | .other i k => .other i k
  | .elem i t attrs ks => .elem i t (dedupAttrs attrs []) (dedupNodeL ks)
def dedupNodeL : List Node → List Node
  | [] => []
  | k :: ks => dedupNode k :: dedupNodeL ks
end

/-! ### attribute stripping (`domutil.StripAttributes`) over the generated tables -/

def stripAlwaysKeys : List String :=
  match Gen.stripCases with
  | (ks, "continue") :: _ => ks
  | _ => []

def stripSizeKeys : List String :=
  match Gen.stripCases with
  | _ :: (ks, "if !elementAllowedToHaveSize { continue }") :: _ => ks
  | _ => []

/-- an attribute survives iff it is not presentational/identifying, not a size attribute on an
element that may not carry one, and is on the allow list -/
def keepAttr (tag : String) (a : Attr) : Bool :=
  !stripAlwaysKeys.contains a.key &&
  !(stripSizeKeys.contains a.key && !Gen.elementWithSizeAttr.contains tag) &&
  Gen.allowedAttributes.contains a.key

mutual
/-- `StripAttributes(node)`: the node and every descendant element -/
def stripNode : Node → Node
  | .text i d => .text i d
  | .other i k => .other i k
  | .elem i t attrs ks => .elem i t (attrs.filter (keepAttr t)) (stripNodeL ks)
def stripNodeL : List Node → List Node
  | [] => []
  | k :: ks => stripNode k :: stripNodeL ks
end

/-! ### making URLs absolute (`MakeAllLinksAbsolute`, `MakeAllSrcAttributesAbsolute`, `MakeAllSrcSetAbsolute`)

`abs` is the atom `stringutil.CreateAbsoluteURL(·, pageURL)`; `absSet` rewrites every srcset
candidate with it (the srcset regexp is an atom). -/

def srcTags : List String :=
  match Gen.srcTagCases with
  | (ks, _) :: _ => ks
  | _ => []

/-- what `MakeAllLinksAbsolute` does to one attribute of an element with tag `tag`
(attribute keys are unique on a parsed element) -/
def absOne (abs absSet : String → String) (tag : String) (a : Attr) : Attr :=
  if a.key == "href" && tag == "a" && a.val != "" then { a with val := abs a.val }
  else if a.key == "poster" && tag == "video" && a.val != "" then { a with val := abs a.val }
  else if a.key == "src" && srcTags.contains tag && a.val != "" then { a with val := abs a.val }
  else if a.key == "srcset" then { a with val := absSet a.val }
  else a

/-- attribute rewriting `MakeAllLinksAbsolute` performs on one element: an empty srcset is
removed, every other URL-bearing attribute is rewritten in place -/
def absAttrs (abs absSet : String → String) (tag : String) (attrs : List Attr) : List Attr :=
  (attrs.filter (fun a => !(a.key == "srcset" && a.val == ""))).map (absOne abs absSet tag)

mutual
def absNode (abs absSet : String → String) : Node → Node
  | .text i d => .text i d
  | .other i k => .other i k
  | .elem i t attrs ks => .elem i t (absAttrs abs absSet t attrs) (absNodeL abs absSet ks)
def absNodeL (abs absSet : String → String) : List Node → List Node
  | [] => []
  | k :: ks => absNode abs absSet k :: absNodeL abs absSet ks
end

/-- the processed clone every Text / table / caption rendering serialises: absolutise, then strip -/
def processClone (abs absSet : String → String) (n : Node) : Node := stripNode (absNode abs absSet n)

end Distill
