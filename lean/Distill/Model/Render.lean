/-
  Render (first part): the node selection of the secondary rendering paths.

  `domutil.GetOutputNodes(root)` — used for data tables and for figure captions that are kept
  as DOM — walks the subtree and collects text nodes and the elements `IsProbablyVisible`
  accepts, not descending into rejected ones.
-/
import Distill.Model.Convert
namespace Distill

mutual
/-- text nodes collected by `GetOutputNodes` -/
def outputTextIds (A : CAtoms) : Node → List Nat
  | .text i _ => [i]
  | .other _ _ => []
  | .elem i t attrs ks => if visible A i t attrs then outputTextIdsL A ks else []
def outputTextIdsL (A : CAtoms) : List Node → List Nat
  | [] => []
  | k :: ks => outputTextIds A k ++ outputTextIdsL A ks
end

mutual
/-- text nodes not inside an element the visibility test rejects -/
def Node.visibleOnlyTextIds (A : CAtoms) : Node → List Nat
  | .text i _ => [i]
  | .other _ _ => []
  | .elem i t attrs ks => if !visible A i t attrs then [] else visibleOnlyTextIdsL A ks
def visibleOnlyTextIdsL (A : CAtoms) : List Node → List Nat
  | [] => []
  | k :: ks => k.visibleOnlyTextIds A ++ visibleOnlyTextIdsL A ks
end

mutual
theorem outputTextIds_sublist (A : CAtoms) : (n : Node) → (outputTextIds A n).Sublist (n.visibleOnlyTextIds A)
  | .text i d => by simp [outputTextIds, Node.visibleOnlyTextIds]
  | .other _ _ => by simp [outputTextIds, Node.visibleOnlyTextIds]
  | .elem i t attrs ks => by
    simp only [outputTextIds, Node.visibleOnlyTextIds]
    cases h : visible A i t attrs
    · simp
    · simpa using outputTextIdsL_sublist A ks
theorem outputTextIdsL_sublist (A : CAtoms) : (ks : List Node) → (outputTextIdsL A ks).Sublist (visibleOnlyTextIdsL A ks)
  | [] => by simp [outputTextIdsL, visibleOnlyTextIdsL]
  | k :: ks => by
    simp only [outputTextIdsL, visibleOnlyTextIdsL]
    exact List.Sublist.append (outputTextIds_sublist A k) (outputTextIdsL_sublist A ks)
end

end Distill
