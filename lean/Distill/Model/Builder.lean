/-
  Builder: `webdoc.WebDocumentBuilder` + `webdoc.TextBuilder` as a step function over the
  events the DOM converter sends (internal/webdoc/document-builder.go, text-builder.go).
-/
import Distill.Model.Elem
namespace Distill

/-- `webdoc.ElementAction` (labels are carried for the classifier only) -/
structure Action where
  flush : Bool := false
  isAnchor : Bool := false
  changesTagLevel : Bool := false
deriving DecidableEq, Repr, Inhabited

/-- the calls the converter makes on the `DocumentBuilder` interface -/
inductive BEv where
  | skipNode
  | startNode (act : Action)
  | endNode
  | addText (id : Nat) (empty : Bool) (blank : Bool) (words : Nat)   -- AddTextNode(textNode)
  | addBr (id : Nat)                                                -- AddLineBreak
  | addTable (id : Nat)                                             -- AddDataTable
  | addTag (name : String) (start : Bool)                           -- AddTag
  | addEmbed (kind : MKind) (id : Nat)                              -- AddEmbed (image/figure/video/embed)
deriving Repr, Inhabited

/-- `TextBuilder` -/
structure TB where
  nodes : List Nat := []           -- textNodes (ids), oldest first
  firstNode : Nat := 0
  firstNonWS : Int := -1
  lastNonWS : Int := 0
  numWords : Nat := 0
  numAnchorWords : Nat := 0
  blockTagLevel : Int := -1
  inAnchor : Bool := false
deriving Repr, Inhabited

/-- a built `webdoc.Text` -/
structure TextEl where
  start : Nat
  stop : Nat
  win : List Nat
  firstWord : Int
  lastWord : Int
  numWords : Nat
  numLinked : Nat
  tagLevel : Int
  offset : Nat
  group : Nat
deriving Repr, Inhabited

def TB.addText (tb : TB) (id : Nat) (empty blank : Bool) (words : Nat) (tagLevel : Int) : TB :=
  if empty then tb
  else
    let nodes := tb.nodes ++ [id]
    if blank then { tb with nodes := nodes }
    else
      let last : Int := (nodes.length : Int) - 1
      { tb with
        nodes := nodes,
        numWords := tb.numWords + words,
        numAnchorWords := if tb.inAnchor then tb.numAnchorWords + words else tb.numAnchorWords,
        lastNonWS := last,
        firstNonWS := if tb.firstNonWS < (tb.firstNode : Int) then last else tb.firstNonWS,
        blockTagLevel := if tb.blockTagLevel == -1 then tagLevel else tb.blockTagLevel }

def TB.addBr (tb : TB) (id : Nat) : TB := { tb with nodes := tb.nodes ++ [id] }

def TB.reset (tb : TB) : TB :=
  { tb with numWords := 0, numAnchorWords := 0, firstNode := tb.nodes.length, blockTagLevel := -1 }

/-- `TextBuilder.Build` -/
def TB.build (tb : TB) (offset : Nat) : TB × Option TextEl :=
  if tb.firstNode = tb.nodes.length then (tb, none)
  else if tb.firstNonWS < (tb.firstNode : Int) then (tb.reset, none)
  else
    (tb.reset, some {
      start := tb.firstNode, stop := tb.nodes.length,
      win := (tb.nodes.drop tb.firstNode),
      firstWord := tb.firstNonWS, lastWord := tb.lastNonWS,
      numWords := tb.numWords, numLinked := tb.numAnchorWords,
      tagLevel := tb.blockTagLevel, offset := offset, group := 0 })

/-- one entry of the document under construction -/
inductive DocEl where
  | text (t : TextEl)
  | tag (name : String) (start : Bool)
  | table (id : Nat)
  | media (kind : MKind) (id : Nat)
deriving Repr, Inhabited

/-- `WebDocumentBuilder` -/
structure BSt where
  tagLevel : Int := 0
  nextTextIndex : Nat := 0
  groupNumber : Nat := 0
  flush : Bool := false
  stack : List Action := []        -- actionStack, innermost first
  tb : TB := {}
  out : List DocEl := []           -- document.Elements, oldest first
deriving Repr, Inhabited

def BSt.flushBlock (s : BSt) : BSt :=
  match s.tb.build s.nextTextIndex with
  | (tb, none) => { s with tb := tb }
  | (tb, some t) =>
    { s with tb := tb, nextTextIndex := s.nextTextIndex + 1,
             out := s.out ++ [.text { t with group := s.groupNumber }] }

/-- the `if db.flush { flushBlock; groupNumber++; flush = false }` prelude of AddTextNode/AddLineBreak -/
def BSt.preText (s : BSt) : BSt :=
  if s.flush then
    let s1 := s.flushBlock
    { s1 with groupNumber := s1.groupNumber + 1, flush := false }
  else s

def bstep (s : BSt) : BEv → BSt
  | .skipNode => { s with flush := true }
  | .startNode a =>
    { s with stack := a :: s.stack,
             tagLevel := if a.changesTagLevel then s.tagLevel + 1 else s.tagLevel,
             tb := if a.isAnchor then { s.tb with inAnchor := true } else s.tb,
             flush := s.flush || a.flush }
  | .endNode =>
    match s.stack with
    | [] => s
    | a :: rest =>
      let s1 := { s with tagLevel := if a.changesTagLevel then s.tagLevel - 1 else s.tagLevel }
      let s2 := if s1.flush || a.flush then
                  let f := s1.flushBlock
                  { f with groupNumber := f.groupNumber + 1 }
                else s1
      let s3 := if a.isAnchor then { s2 with tb := { s2.tb with inAnchor := false } } else s2
      { s3 with stack := rest }
  | .addText id e b w =>
    let s1 := s.preText
    { s1 with tb := s1.tb.addText id e b w s1.tagLevel }
  | .addBr id =>
    let s1 := s.preText
    { s1 with tb := s1.tb.addBr id }
  | .addTable id =>
    let s1 := s.flushBlock
    { s1 with out := s1.out ++ [.table id] }
  | .addTag n st =>
    let s1 := s.flushBlock
    { s1 with out := s1.out ++ [.tag n st] }
  | .addEmbed k id =>
    let s1 := s.flushBlock
    { s1 with out := s1.out ++ [.media k id] }

def brun (s : BSt) (evs : List BEv) : BSt := evs.foldl bstep s

/-- `Build()` -/
def buildDoc (evs : List BEv) : List DocEl := (brun {} evs).flushBlock.out

end Distill
