/-
  Candidates: the converter's three word lists — `rxUnlikelyCandidates`, `rxOkMaybeItsACandidate`,
  `rxByline` — and the tests built on them (`isByline`, `isValidByline`).  Each expression is `(?i)`
  followed by an alternation of literal words, so "the expression matches" is "one of the words occurs,
  in any case"; the words are READ from the regenerated pattern (`Gen.modelledRegexps`), and `altWords`
  refuses a pattern that is anything but such an alternation.
-/
import Distill.Model.Style
import Distill.Model.Html
import Distill.Gen.Tables
namespace Distill.Cand
open Distill

def isLiteral (c : Char) : Bool := c.isAlphanum || c == '-' || c == '_' || c == ' '

/-- split on `|` -/
def splitBar : List Char → List Char → List (List Char)
  | [], cur => [cur.reverse]
  | c :: cs, cur => if c == '|' then cur.reverse :: splitBar cs [] else splitBar cs (c :: cur)

/-- the lower-case words of a pattern `(?i)w1|w2|…`; `none` for any other pattern -/
def altWords (pat : String) : Option (List (List Char)) :=
  match pat.toList with
  | '(' :: '?' :: 'i' :: ')' :: rest =>
    let ws := splitBar rest []
    if ws.all (fun w => !w.isEmpty && w.all (fun c => isLiteral c && c.toLower == c)) then some ws else none
  | _ => none

/-- the word occurs somewhere in `s`, in any case -/
def occurs (w : List Char) : List Char → Bool
  | [] => (Style.lit w []).isSome
  | c :: cs => (Style.lit w (c :: cs)).isSome || occurs w cs

/-- `rx.MatchString(s)` for an alternation of words -/
def matchAlt (ws : List (List Char)) (s : List Char) : Bool := ws.any (occurs · s)

def patternOf (name : String) : String := (Gen.modelledRegexps.lookup name).getD "?"

def unlikelyWords : Option (List (List Char)) := altWords (patternOf "internal/converter.rxUnlikelyCandidates")
def maybeWords : Option (List (List Char)) := altWords (patternOf "internal/converter.rxOkMaybeItsACandidate")
def bylineWords : Option (List (List Char)) := altWords (patternOf "internal/converter.rxByline")

/-- `class + " " + id` -/
def matchString (cls id : String) : List Char := cls.toList ++ ' ' :: id.toList

/-- `isValidByline`: between 1 and 99 characters after trimming -/
def validByline (text : String) : Bool :=
  let n := (trimSpaceU text.toList).length
  0 < n && n < 100

/-- occurrence of an exact (case-sensitive) string: `strings.Contains` -/
def containsExact (w : List Char) : List Char → Bool
  | [] => w.isEmpty
  | c :: cs => w.isPrefixOf (c :: cs) || containsExact w cs

structure Answer where
  unlikely : Bool
  maybe : Bool
  byline : Bool
deriving Repr, DecidableEq

/-- the three answers for an element with the given attributes and text content; `none` when a
pattern is not an alternation of words -/
def answers (cls id rel itemprop text : String) : Option Answer :=
  match unlikelyWords, maybeWords, bylineWords with
  | some u, some m, some b =>
    let ms := matchString cls id
    some { unlikely := matchAlt u ms, maybe := matchAlt m ms,
           byline := (rel == "author" || containsExact "author".toList itemprop.toList || matchAlt b ms) && validByline text }
  | _, _, _ => none

end Distill.Cand
