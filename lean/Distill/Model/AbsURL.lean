/-
  AbsURL: `stringutil.CreateAbsoluteURL(url, base)` for a non-nil base.  What net/url says about
  the reference is the atom `U`:
    requestAbs  `ParseRequestURI(url)` succeeds with a scheme and a host name
    parses      `Parse(url)` succeeds
    resolved    `base.ResolveReference(Parse(url)).String()`
  The function has no state: the answer depends on (url, base) only.
-/
namespace Distill.AbsURL

structure U where
  requestAbs : Bool
  parses : Bool
  resolved : String

def startsWith (s p : String) : Bool := p.toList.isPrefixOf s.toList

/-- `CreateAbsoluteURL(url, base)`, base not nil -/
def create (url : String) (u : U) : String :=
  if url == "" then url
  else if startsWith url "#" then url
  else if startsWith url "data:" then url
  else if startsWith url "javascript:" then url
  else if u.requestAbs then url
  else if !u.parses then url
  else u.resolved

/-- the references the property lets through unchanged -/
def passThrough (url : String) (u : U) : Bool :=
  url == "" || startsWith url "#" || startsWith url "data:" || startsWith url "javascript:" || u.requestAbs || !u.parses

end Distill.AbsURL
