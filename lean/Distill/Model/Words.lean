/-
  Words: the three word counters of `stringutil` and their selection, over `List Char`.

    FastWordCounter    matches of `\S*[\w\x{00C0}-\x{1FFF}]\S*`
    LetterWordCounter  matches of `\S*[\w\x{00C0}-\x{1FFF}\x{AC00}-\x{D7AF}]\S*`
    FullWordCounter    the latter plus ceil(0.55 × number of characters in U+3040 … U+A4CF)
    SelectWordCounter  Full when the sample holds a character in U+3040 … U+A4CF, else Letter when
                       it holds one in U+AC00 … U+D7AF, else Fast

  A match is a maximal run of non-space characters that contains a word character; `\s` is the
  ASCII class of Go's regexp: tab, newline, form feed, carriage return, space (not vertical tab).
-/
namespace Distill

/-- white space as the title heuristic treats it (kept for `Model/Title`) -/
def isWS (c : Char) : Bool :=
  c == ' ' || c == '\n' || c == '\t' || c == '\r' || c == '\x0b' || c == '\x0c'

/-- Go's `\s` -/
def isReWS (c : Char) : Bool :=
  c == ' ' || c == '\n' || c == '\t' || c == '\r' || c == '\x0c'

/-- `[\w\x{00C0}-\x{1FFF}]` -/
def isWordChar (c : Char) : Bool :=
  c.isAlphanum || c == '_' || (0xC0 ≤ c.toNat && c.toNat ≤ 0x1FFF)

def isHangul (c : Char) : Bool := 0xAC00 ≤ c.toNat && c.toNat ≤ 0xD7AF
def isCJK (c : Char) : Bool := 0x3040 ≤ c.toNat && c.toNat ≤ 0xA4CF

/-- scan with state: inside a token? has the token a word character so far? -/
def countFromW (isW : Char → Bool) (inTok hasW : Bool) : List Char → Nat
  | [] => if inTok && hasW then 1 else 0
  | c :: cs =>
    if isReWS c then (if inTok && hasW then 1 else 0) + countFromW isW false false cs
    else countFromW isW true (hasW || isW c) cs

def countFrom (inTok hasW : Bool) (s : List Char) : Nat := countFromW isWordChar inTok hasW s

/-- `FastWordCounter.Count` -/
def countWords (s : List Char) : Nat := countFrom false false s

/-- `LetterWordCounter.Count` -/
def countWordsLetter (s : List Char) : Nat := countFromW (fun c => isWordChar c || isHangul c) false false s

/-- `math.Ceil(float64(n) * 0.55)`, in the same floating-point arithmetic -/
def ceil055 (n : Nat) : Nat := (Float.ceil (Float.ofNat n * 0.55)).toUInt64.toNat

/-- `FullWordCounter.Count` -/
def countWordsFull (s : List Char) : Nat := countWordsLetter s + ceil055 (s.filter isCJK).length

inductive Counter where | full | letter | fast
deriving DecidableEq, Repr

/-- `SelectWordCounter` -/
def selectCounter (sample : List Char) : Counter :=
  if sample.any isCJK then .full else if sample.any isHangul then .letter else .fast

def Counter.count : Counter → List Char → Nat
  | .full => countWordsFull
  | .letter => countWordsLetter
  | .fast => countWords

end Distill
