/-
  Words: the word counter (`stringutil.FastWordCounter`: matches of `\S*[\w\x{00C0}-\x{1FFF}]\S*`,
  i.e. maximal runs of non-space characters that contain a word character) over `List Char`,
  exact on the characters the generators use (ASCII and Latin-1 letters).
-/
namespace Distill

/-- Go's `\s` in RE2 (ASCII class): tab, newline, vertical tab, form feed, carriage return, space -/
def isWS (c : Char) : Bool :=
  c == ' ' || c == '\n' || c == '\t' || c == '\r' || c == '\x0b' || c == '\x0c'

/-- `[\w\x{00C0}-\x{1FFF}]` -/
def isWordChar (c : Char) : Bool :=
  c.isAlphanum || c == '_' || (0xC0 ≤ c.toNat && c.toNat ≤ 0x1FFF)

/-- scan with state: inside a token? has the token a word character so far? -/
def countFrom (inTok hasW : Bool) : List Char → Nat
  | [] => if inTok && hasW then 1 else 0
  | c :: cs =>
    if isWS c then (if inTok && hasW then 1 else 0) + countFrom false false cs
    else countFrom true (hasW || isWordChar c) cs

def countWords (s : List Char) : Nat := countFrom false false s

end Distill
