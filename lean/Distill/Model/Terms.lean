/-
  Terms: how the page-number finder reads plain text and link text
  (`PageNumberFinder.addNonLinkTextIfValid`, `linkTextToNumber`), over `List Char`.

  The three regular expressions are written out:
    rxNumber             `\d`                         some ASCII digit
    rxTerms              `(\S*[\w\x{00C0}-\x{1FFF}\x{2C00}-\x{D7FF}]\S*)`
                                                      every maximal run of characters other than
                                                      `\t \n \f \r space` that holds a word character
    rxSurroundingDigits  `^[\W_]*(\d+)[\W_]*$`        ASCII digits between characters that are not
                                                      ASCII letters or digits
  (`\s`, `\w`, `\d` are ASCII classes in Go's regexp; a no-break space is neither white space
  nor a word character there.)
-/
import Distill.Model.PageGroups
namespace Distill.Pg

def isReSpace (c : Char) : Bool := c == ' ' || c == '\t' || c == '\n' || c == '\x0c' || c == '\r'
def isAsciiDigit (c : Char) : Bool := '0' ≤ c && c ≤ '9'
def isAsciiAlnum (c : Char) : Bool := isAsciiDigit c || ('a' ≤ c && c ≤ 'z') || ('A' ≤ c && c ≤ 'Z')

/-- the class inside `rxTerms` -/
def isTermChar (c : Char) : Bool :=
  isAsciiAlnum c || c == '_' || (0xC0 ≤ c.toNat && c.toNat ≤ 0x1FFF) || (0x2C00 ≤ c.toNat && c.toNat ≤ 0xD7FF)

/-- maximal runs of non-space characters -/
def runsAux : List Char → List Char → List (List Char)
  | [], cur => if cur.isEmpty then [] else [cur.reverse]
  | c :: cs, cur =>
    if isReSpace c then (if cur.isEmpty then runsAux cs [] else cur.reverse :: runsAux cs [])
    else runsAux cs (c :: cur)

/-- `rxTerms.FindAllString(text, -1)` -/
def terms (text : List Char) : List (List Char) := (runsAux text []).filter (fun r => r.any isTermChar)

def digitsVal (ds : List Char) : Nat := ds.foldl (fun acc c => acc * 10 + (c.toNat - '0'.toNat)) 0

/-- `rxSurroundingDigits` and `strconv.Atoi` on its group: the number, when the term is digits
between non-alphanumerics (an overflowing number is some value above every limit) -/
def termNumber (t : List Char) : Option Nat :=
  let rest := t.dropWhile (fun c => !isAsciiAlnum c)
  let ds := rest.takeWhile isAsciiDigit
  let tail := rest.dropWhile isAsciiDigit
  if !ds.isEmpty && tail.all (fun c => !isAsciiAlnum c) then some (digitsVal ds) else none

def maxNumForPageParam : Nat := 100

/-- the calls `addNonLinkTextIfValid(text)` makes on the groups of adjacent numbers -/
def textOps (text : List Char) : List GOp :=
  if !text.any isAsciiDigit then [.addGroup]
  else (terms text).map (fun t =>
    match termNumber t with
    | some n => if n ≤ maxNumForPageParam then .add { num := n, url := "" } else .addGroup
    | none => .addGroup)

/-- its return value: whether some term was added as a number -/
def textAdded (text : List Char) : Bool :=
  (textOps text).any (fun o => match o with | .add _ => true | _ => false)

/-- `strings.TrimSpace` (Unicode white space) -/
def isUniSpace (c : Char) : Bool :=
  let n := c.toNat
  (9 ≤ n && n ≤ 13) || n == 32 || n == 0x85 || n == 0xA0 || n == 0x1680 || (0x2000 ≤ n && n ≤ 0x200a) ||
  n == 0x2028 || n == 0x2029 || n == 0x202f || n == 0x205f || n == 0x3000

def trimUni (s : List Char) : List Char :=
  ((s.dropWhile isUniSpace).reverse.dropWhile isUniSpace).reverse

/-- `linkTextToNumber`: brackets removed, trimmed, then `strconv.Atoi` (optional sign, ASCII
digits only); `none` = error -/
def linkTextToNumber (text : List Char) : Option Int :=
  let cleaned := trimUni (text.filter (fun c => !(c == '(' || c == ')' || c == '[' || c == ']' || c == '{' || c == '}')))
  let (neg, ds) := match cleaned with
    | '-' :: r => (true, r)
    | '+' :: r => (false, r)
    | r => (false, r)
  if ds.isEmpty || !ds.all isAsciiDigit then none
  else
    let v : Int := digitsVal ds
    some (if neg then -v else v)

end Distill.Pg
