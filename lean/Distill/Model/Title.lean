/-
  Title: `extractor.getDocumentTitle` over `List Char` (single-line titles: `.` in the Go
  regexps does not cross a newline; the visible-text rendering of `<title>` the code starts
  from contains none).  Word counts use the fast word counter model.
-/
import Distill.Model.Words
namespace Distill

def titleSeps : List Char := ['|', '-', '\\', '/', '>', '»']
def hierSeps : List Char := ['\\', '/', '>', '»']

/-- `rxTitleSeparator` / `rxTitleHierarchySep`: space, separator, space -/
def hasSepIn (seps : List Char) : List Char → Bool
  | [] => false
  | a :: t =>
    (a == ' ' && (match t with
      | b :: ' ' :: _ => seps.contains b
      | _ => false)) || hasSepIn seps t

/-- position just before the LAST "separator followed by a space" (`(.*)[seps] .*` is greedy) -/
def lastSepSpace : List Char → Option Nat
  | [] => none
  | c :: rest =>
    match lastSepSpace rest with
    | some n => some (n + 1)
    | none => match rest with
      | ' ' :: _ => if titleSeps.contains c then some 0 else none
      | _ => none

/-- `rxTitleRemoveFinalPart.ReplaceAllString(s, "$1")` -/
def removeFinalPart (s : List Char) : List Char :=
  match lastSepSpace s with
  | some n => s.take n
  | none => s

/-- index of the first separator character -/
def firstSep : List Char → Option Nat
  | [] => none
  | c :: rest => if titleSeps.contains c then some 0 else (firstSep rest).map (· + 1)

/-- `rxTitleRemove1stPart.ReplaceAllString(s, "$1")` -/
def removeFirstPart (s : List Char) : List Char :=
  match firstSep s with
  | some n => s.drop (n + 1)
  | none => s

def firstIdx (p : Char → Bool) : List Char → Option Nat
  | [] => none
  | c :: rest => if p c then some 0 else (firstIdx p rest).map (· + 1)

def lastIdx (p : Char → Bool) : List Char → Option Nat
  | [] => none
  | c :: rest =>
    match lastIdx p rest with
    | some n => some (n + 1)
    | none => if p c then some 0 else none

/-- `strings.Index(s, ": ") != -1` -/
def hasColonSpace : List Char → Bool
  | ':' :: ' ' :: _ => true
  | _ :: rest => hasColonSpace rest
  | [] => false

/-- `rxTitleAnySeparator.ReplaceAllString(s, "")` -/
def stripSeps (s : List Char) : List Char := s.filter (fun c => !titleSeps.contains c)

def trimLeft : List Char → List Char
  | c :: rest => if isWS c then trimLeft rest else c :: rest
  | [] => []

def trimSpace (s : List Char) : List Char := (trimLeft (trimLeft s).reverse).reverse

/-- `strings.Join(strings.Fields(s), " ")` -/
def fieldsJoin (s : List Char) : List Char :=
  let rec go (inTok : Bool) (started : Bool) : List Char → List Char
    | [] => []
    | c :: rest =>
      if isWS c then go false started rest
      else (if !inTok && started then [' '] else []) ++ c :: go true true rest
  go false false s

/-- `s[strings.LastIndex(s, ":")+1:]` -/
def afterLastColon (s : List Char) : List Char :=
  match lastIdx (· == ':') s with | some n => s.drop (n + 1) | none => s
/-- `s[strings.Index(s, ":")+1:]` -/
def afterFirstColon (s : List Char) : List Char :=
  match firstIdx (· == ':') s with | some n => s.drop (n + 1) | none => s
/-- `s[:strings.Index(s, ":")]` -/
def beforeFirstColon (s : List Char) : List Char :=
  match firstIdx (· == ':') s with | some n => s.take n | none => []

structure TitleIn where
  orig : List Char                 -- InnerText of <title> ("" when there is none)
  h1 : Option (List Char)          -- InnerText of the first <h1>
  headingMatch : Bool              -- some h1/h2 has exactly this (trimmed) text

/-- the candidate before the final "too short → original" rule -/
def titleStage1 (i : TitleIn) : List Char × Bool :=
  if hasSepIn titleSeps i.orig then
    let hier := hasSepIn hierSeps i.orig
    let c := removeFinalPart i.orig
    (if countWords c < 3 then removeFirstPart i.orig else c, hier)
  else if hasColonSpace i.orig then
    if i.headingMatch then (i.orig, false)
    else
      if countWords (afterLastColon i.orig) < 3 then (afterFirstColon i.orig, false)
      else (if countWords (beforeFirstColon i.orig) > 5 then i.orig else afterLastColon i.orig, false)
  else if i.orig.length > 150 || i.orig.length < 15 then
    (i.h1.getD i.orig, false)
  else (i.orig, false)

/-- `getDocumentTitle` -/
def documentTitle (i : TitleIn) : List Char :=
  let (c, hier) := titleStage1 i
  let cur := fieldsJoin (trimSpace c)
  let n := countWords cur
  if n ≤ 4 && !i.orig.isEmpty && (!hier || (n : Int) != (countWords (stripSeps i.orig) : Int) - 1) then i.orig else cur

/-- `ExtractTitle`: the markup title wins when there is one -/
def resultTitle (markup : List Char) (i : TitleIn) : List Char :=
  if !markup.isEmpty then markup else documentTitle i

end Distill
