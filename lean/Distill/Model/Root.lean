/-
  Root: which element the distiller works on — the first statements of `distiller.Apply` and of
  `extractor.NewContentExtractor`.

  `Apply(doc)`: a root that is not an element is replaced by `dom.QuerySelector(doc, "*")`, the
  first element among its descendants in document order; without one the call returns an error.
  `NewContentExtractor(root)`: `dom.QuerySelector(root, "html")` — the first `html` element among
  the *descendants* of the root — or the root itself.
-/
import Distill.Model.Dom
namespace Distill

mutual
/-- first element with a tag accepted by `p` in the subtree, the root included, in document order -/
def Node.firstElem (p : String → Bool) : Node → Option Node
  | .text _ _ => none
  | .other _ _ => none
  | .elem i t a ks => if p t then some (.elem i t a ks) else firstElemL p ks
def firstElemL (p : String → Bool) : List Node → Option Node
  | [] => none
  | k :: ks =>
    match k.firstElem p with
    | some e => some e
    | none => firstElemL p ks
end

/-- `dom.QuerySelector(n, sel)` for a tag selector: descendants only -/
def queryDesc (p : String → Bool) (n : Node) : Option Node := firstElemL p n.kids

/-- the root validation of `Apply`; `none` = the error "input doesn't have a valid element".
A non-element root with children is a document node (kind 3 = `html.DocumentNode` is the only
non-element kind that can carry children in a parsed tree), represented as an `other` node whose
children are given separately. -/
def applyRoot (doc : Node) (docKids : List Node) : Option Node :=
  if doc.isElem then some doc else firstElemL (fun _ => true) docKids

/-- the document element `NewContentExtractor` selects -/
def extractorRoot (root : Node) : Node :=
  match queryDesc (fun t => t == "html") root with
  | some h => h
  | none => root

end Distill
