/-
  Pagination (page-number algorithm): the list logic of internal/pagination/{info,parser} and the
  derivation of next/prev in `PageNumberFinder.FindPagination`.

  Input: the groups of adjacent monotonic page numbers the DOM scan produced (taken from the
  implementation), and atoms for everything that parses URLs: per URL its page patterns
  (query-parameter and path-component: pattern string, page-parameter value, `IsValidFor(docURL)`),
  and `IsPagingURL(pattern, url)`.  PageInfo cells are values here; the one in-place write of the Go
  code (`ascendingNumbers[1].PageNumber = 2` in `Evaluate`) is applied to the group's own list.
-/
namespace Distill.Pg

structure PInfo where
  num : Int
  url : String
deriving DecidableEq, Repr, Inhabited

structure PGroup where
  list : List PInfo
  deltaSign : Int
deriving Repr, Inhabited

structure PatAtom where
  key : String          -- PagePattern.String()
  value : Int           -- PagePattern.PageNumber(): the numeric value found in the URL
  validFor : Bool       -- IsValidFor(docURL)
deriving Repr, Inhabited

structure UrlAtoms where
  url : String
  parses : Bool                 -- ParseRequestURI and Parse succeed
  query : List PatAtom
  path : List PatAtom
deriving Repr, Inhabited

structure LinkInfo where
  pageNum : Int
  value : Int
  pos : Nat
deriving Repr, Inhabited

structure ParamInfo where
  isPageNumber : Bool := false
  pattern : String := ""
  pages : List PInfo := []
  formula : Option (Int × Int) := none
  next : String := ""
deriving Repr, Inhabited

structure Atoms where
  urls : List UrlAtoms
  isPaging : String → String → Bool      -- pattern key → url → IsPagingURL
  docURL : String                         -- parsedDocURL.String()
  docParses : Bool                        -- DetectParamInfo's own parse + scheme/host test

def nth (l : List PInfo) (i : Nat) : PInfo := (l[i]?).getD default

/-! ### PageNumbersState -/

structure NumState where
  isAdjacent : Bool := false
  isConsecutive : Bool := false
  next : String := ""
deriving Repr

structure AdjScan where
  firstPos : Int := -1
  lastPos : Int := -1
  gapPos : Int := -1
  seen : List Int := []
  ok : Bool := true

def adjStep (s : AdjScan) (l : LinkInfo) : AdjScan :=
  if !s.ok then s else
  let cur : Int := l.pos
  let s1 : AdjScan :=
    if s.lastPos == -1 then { s with firstPos := cur }
    else if cur != s.lastPos + 1 then
      if cur ≤ s.lastPos || cur != s.lastPos + 2 || s.gapPos != -1 then { s with ok := false }
      else { s with gapPos := cur - 1 }
    else s
  if !s1.ok then s1
  else if s1.seen.contains l.value then { s1 with ok := false }
  else { s1 with seen := l.value :: s1.seen, lastPos := cur }

def pageNumbersState (links : List LinkInfo) (asc : List PInfo) : NumState :=
  let sc := links.foldl adjStep {}
  if !sc.ok then {}
  else
    let n : Int := asc.length
    if sc.gapPos != -1 then
      if sc.gapPos ≤ 0 || sc.gapPos ≥ n - 1 then { isAdjacent := true }
      else
        let g := sc.gapPos.toNat
        let curNum := (nth asc g).num
        if (nth asc (g - 1)).num == curNum - 1 && (nth asc (g + 1)).num == curNum + 1 then
          { isAdjacent := true, isConsecutive := true, next := (nth asc (g + 1)).url }
        else { isAdjacent := true }
    else if (sc.firstPos == 0 || sc.firstPos == 1) && (nth asc 0).num == 1 && (nth asc 1).num == 2 then
      { isAdjacent := true, isConsecutive := true }
    else if sc.firstPos == 2 && (nth asc 2).num == 3 && (nth asc 1).url == "" && (nth asc 0).url != "" then
      { isAdjacent := true, isConsecutive := true }
    else if (sc.lastPos == n - 1 || sc.lastPos == n - 2) &&
            (nth asc (n - 2).toNat).num + 1 == (nth asc (n - 1).toNat).num then
      { isAdjacent := true, isConsecutive := true }
    else
      -- Case #4: some i in (firstPos, lastPos) with asc[i-1]+2 == asc[i+1]
      let lo := (sc.firstPos + 1).toNat
      let hi := sc.lastPos.toNat
      let found := (List.range (hi - lo)).any (fun k =>
        let i := lo + k
        (nth asc (i - 1)).num + 2 == (nth asc (i + 1)).num)
      { isAdjacent := true, isConsecutive := found }

/-! ### isPageNumberSequence -/

/-- returns (verdict, NextPagingURL possibly set) -/
def isPageNumberSequence (st : NumState) (asc : List PInfo) : Bool × String :=
  if asc.length ≤ 1 then (false, st.next)
  else
    let first := nth asc 0
    if first.num != 1 && first.url == "" then (false, st.next)
    else
      -- at most one plain number; the first URL after it is the next paging URL (if none yet)
      let scan := asc.foldl (fun (acc : Bool × Bool × String) p =>
        let (ok, hasPlain, next) := acc
        if !ok then acc
        else if p.url == "" then (if hasPlain then (false, hasPlain, next) else (true, true, next))
        else if hasPlain && next == "" then (true, hasPlain, p.url)
        else acc) (true, false, st.next)
      let (ok, _, next) := scan
      if !ok then (false, next)
      else if asc.length == 2 then (first.num + 1 == (nth asc 1).num, next)
      else
        -- groups of consecutive numbers: (start, end) pairs
        let rec groups (i : Nat) (start : Nat) (l : List PInfo) (acc : List (Nat × Nat)) : List (Nat × Nat) :=
          match l with
          | a :: b :: rest =>
            if b.num != a.num + 1 then groups (i + 1) (i + 1) (b :: rest) (acc ++ [(start, i + 1)])
            else groups (i + 1) start (b :: rest) acc
          | _ => acc ++ [(start, asc.length)]
        let gs := groups 0 0 asc []
        if gs.length > 2 then (false, next)
        else
          let maxLen := gs.foldl (fun m g => max m (g.2 - g.1)) 0
          if maxLen ≤ 1 then (false, next)
          else
            -- at most one entry without URL in the whole list at this point, hence in any group
            let best := (gs.find? (fun g => g.2 - g.1 == maxLen)).getD (0, 0)
            let nEmpty := ((asc.drop best.1).take (best.2 - best.1)).filter (fun p => p.url == "") |>.length
            (nEmpty ≤ 1, next)

/-! ### LinearFormula -/

def linearFormula (links : List LinkInfo) : Option (Int × Int) :=
  match links with
  | a :: b :: rest =>
    if rest.isEmpty && max a.pageNum b.pageNum > 4 then none
    else
      let dx := b.pageNum - a.pageNum
      if dx == 0 then none
      else
        let dy := b.value - a.value
        let coef := Int.tdiv dy dx
        if coef == 0 then none
        else
          let delta := a.value - coef * a.pageNum
          if delta != 0 && delta != -coef then none
          else if rest.all (fun l => l.value == coef * l.pageNum + delta) then some (coef, delta)
          else none
  | _ => none

/-! ### Evaluate -/

def setNum (l : List PInfo) (i : Nat) (n : Int) : List PInfo :=
  match l[i]? with
  | some p => l.set i { p with num := n }
  | none => l

/-- returns the PageParamInfo (if any) and the possibly modified ascending numbers -/
def evaluate (A : Atoms) (key : String) (links : List LinkInfo) (asc : List PInfo) (firstPageURL : String) :
    Option ParamInfo × List PInfo :=
  if links.length ≥ 2 then
    let st := pageNumbersState links asc
    if !st.isAdjacent || !st.isConsecutive then (none, asc)
    else
      let (ok, next) := isPageNumberSequence st asc
      if !ok then (none, asc)
      else
        (some { isPageNumber := true, pattern := key,
                pages := links.map (fun l => { num := l.pageNum, url := (nth asc l.pos).url }),
                formula := linearFormula links, next := next }, asc)
  else
    match links with
    | [only] =>
      if firstPageURL != "" then
        let second := only.pageNum == 2 && only.pos == 1
        let third := only.pageNum == 3 && only.pos == 2
        let asc' := setNum asc 1 2
        if (nth asc' 0).num == 1 && (second || third) && A.isPaging key firstPageURL then
          let d := only.value - only.pageNum
          let formula : Int × Int := if d == 0 || d == 1 then (1, d) else (only.value, 0)
          let pages := [{ num := 1, url := firstPageURL }, { num := only.pageNum, url := (nth asc' only.pos).url }]
          (some { isPageNumber := true, pattern := key, pages := pages, formula := some formula,
                  next := if third then (nth asc' only.pos).url else "" }, asc')
        else (none, asc')
      else (none, asc)
    | _ => (none, asc)

/-! ### PageParamInfo helpers -/

def canInsertFirstPage (pi : ParamInfo) (docURL : String) (asc : List PInfo) : Bool :=
  if pi.pages.length < 2 then false
  else if (nth pi.pages 0).num == 1 then false
  else if docURL.utf8ByteSize ≥ (nth pi.pages 0).url.utf8ByteSize then false
  else
    let idx := (List.range pi.pages.length)
    if idx.any (fun i => (nth pi.pages i).num != (i : Int) + 2 || (nth pi.pages i).url == docURL) then false
    else !(asc.any (fun l => l.num == 1 && l.url != "" && l.url != docURL))

def insertFirstPage (pi : ParamInfo) (docURL : String) : ParamInfo :=
  { pi with pages := { num := 1, url := docURL } :: pi.pages }

/-- `CompareTo`: 1 this better, -1 other better, 0 undecided -/
def compareTo (a b : ParamInfo) : Int :=
  if a.formula.isSome && b.formula.isNone then 1
  else if a.formula.isNone && b.formula.isSome then -1
  else if a.isPageNumber == b.isPageNumber then 0
  else if a.isPageNumber then 1
  else if b.isPageNumber then -1
  else 0

structure DState where
  best : Option ParamInfo := none
  multi : Bool := false
deriving Repr

def compareAndUpdate (ds : DState) (st : DState) : DState :=
  match ds.best, st.best with
  | none, _ => { best := st.best, multi := st.multi }
  | some a, some b =>
    let r := compareTo a b
    if r == -1 then { best := st.best, multi := st.multi }
    else if r == 0 then { ds with multi := true }
    else ds
  | some _, none => ds       -- never called with an empty state

def trimSlash (s : String) : String :=
  if s.toList.getLast? == some '/' then String.ofList s.toList.dropLast else s

/-- the URL string with the trailing slash of its *path* removed: the path ends at the first `?`
or `#` (the document URL is in `url.String()` form, where neither occurs unescaped in the path) -/
def trimPathSlash (s : String) : String :=
  let cs := s.toList
  let head := cs.takeWhile (fun c => c != '?' && c != '#')
  let tail := cs.dropWhile (fun c => c != '?' && c != '#')
  let head' := if head.getLast? == some '/' then head.dropLast else head
  String.ofList (head' ++ tail)

def urlAtoms (A : Atoms) (u : String) : Option UrlAtoms := A.urls.find? (fun x => x.url == u)

/-- insertion-ordered association list: pattern key → links -/
def addCandidate (cs : List (PatAtom × List LinkInfo)) (p : PatAtom) (l : LinkInfo) : List (PatAtom × List LinkInfo) :=
  if cs.any (fun c => c.1.key == p.key) then
    cs.map (fun c => if c.1.key == p.key then (c.1, c.2 ++ [l]) else c)
  else cs ++ [(p, [l])]

def maxPagingDocs : Nat := 100

/-- `newDetectionStateFromMonotonicNumbers` -/
def newDetectionState (A : Atoms) (nums : List PInfo) (descending : Bool) (accepted : String) : Option DState :=
  let outlinks := (nums.filter (fun p => p.url != "")).length
  if outlinks == 0 then none
  else
    let nums1 := if descending then nums.reverse else nums
    -- two partial pages, each with a digital outlink to the other
    let (nums2, outlinks2) :=
      if nums1.length == 2 && outlinks == 1 && (nth nums1 0).num == 1 && (nth nums1 1).num == 2 then
        if (nth nums1 0).url == "" then ([{ num := 1, url := A.docURL }, nth nums1 1], outlinks + 1)
        else ([nth nums1 0, { num := 2, url := A.docURL }], outlinks + 1)
      else (nums1, outlinks)
    if outlinks2 < 2 then none
    else
      let possibleDate := nums2.foldl (fun d p => if p.num == d + 1 then d + 1 else d) (0 : Int)
      if possibleDate ≥ 28 && possibleDate ≤ 31 then none
      else
        let indexed := (List.range nums2.length).map (fun i => (i, nth nums2 i))
        -- query components
        let qc := indexed.foldl (fun (acc : List (PatAtom × List LinkInfo) × String) ip =>
          let (i, page) := ip
          if page.url == "" then acc
          else match urlAtoms A page.url with
            | some ua =>
              if !ua.parses then acc
              else
                let cs := ua.query.foldl (fun cs p => addCandidate cs p { pageNum := page.num, value := p.value, pos := i }) acc.1
                (cs, if page.num == 1 then page.url else acc.2)
            | none => acc) ([], "")
        let (cands0, firstPageURL) := qc
        let cands := if cands0.isEmpty then
            indexed.foldl (fun (cs : List (PatAtom × List LinkInfo)) ip =>
              let (i, page) := ip
              if page.url == "" then cs
              else match urlAtoms A page.url with
                | some ua => if !ua.parses then cs
                             else ua.path.foldl (fun cs p => addCandidate cs p { pageNum := page.num, value := p.value, pos := i }) cs
                | none => cs) []
          else cands0
        let docTrim := trimPathSlash A.docURL
        let res := cands.foldl (fun (acc : DState × List PInfo) c =>
          let (st, asc) := acc
          let (p, links) := c
          if p.key == accepted || links.length > maxPagingDocs || !p.validFor then acc
          else
            let (pi?, asc') := evaluate A p.key links asc firstPageURL
            match pi? with
            | none => (st, asc')
            | some pi =>
              let pi' :=
                if canInsertFirstPage pi docTrim asc' then insertFirstPage pi docTrim
                else if A.isPaging p.key docTrim then
                  let fp := nth pi.pages 0
                  if fp.num == 2 && fp.url != docTrim && docTrim.utf8ByteSize < fp.url.utf8ByteSize then insertFirstPage pi docTrim else pi
                else pi
              (compareAndUpdate st { best := some pi' }, asc')) (({} : DState), nums2)
        if res.1.best.isNone then none else some res.1

/-- `DetermineNextPagingURL` -/
def determineNext (pi : ParamInfo) (docURL : String) : ParamInfo :=
  if pi.next != "" || pi.pages.isEmpty then pi
  else
    let rec go (l : List PInfo) (has : Bool) : Option String :=
      match l with
      | [] => none
      | p :: rest => if has then some p.url else go rest (p.url == docURL)
    match go pi.pages false with
    | some u => { pi with next := u }
    | none => pi

/-- `DetectParamInfo`; `docURLArg` is the string passed in (pageURL.String()) -/
def detectParamInfo (A : Atoms) (groups : List PGroup) (docURLArg : String) : ParamInfo :=
  if !A.docParses then {}
  else
    let ds := groups.foldl (fun (ds : DState) g =>
      if g.list.length < 2 then ds
      else
        let accepted := match ds.best with | some b => b.pattern | none => ""
        match newDetectionState A g.list (decide (g.deltaSign < (0 : Int))) accepted with
        | some st => compareAndUpdate ds st
        | none => ds) {}
    match ds.best with
    | none => {}
    | some b => determineNext b docURLArg

def isJs (s : String) : Bool := "javascript:".toList.isPrefixOf s.toList

/-- the deferred clean-up of `FindPagination`: position holders are never returned -/
def dropJs (s : String) : String := if isJs s then "" else s

/-- tail of `PageNumberFinder.FindPagination` before the clean-up: (next, prev); `s1` is the
unescaped string form of the (slash-trimmed) page URL, `s2` its escaped form without user
info: a page info with either URL is this page -/
def numberPrevNextRaw (pi : ParamInfo) (s1 s2 : String) : String × String :=
  if !pi.isPageNumber then ("", "")
  else
    let isCur : String → Bool := fun u => u == s1 || u == s2
    let next := pi.next
    if next == "" then
      -- last page: the last page info that is not this page
      match pi.pages.reverse.find? (fun p => !isCur p.url) with
      | some p => ("", p.url)
      | none => ("", "")
    else
      let before := pi.pages.takeWhile (fun p => p.url != next)
      let idxFound := before.length < pi.pages.length
      let cands := if idxFound then before.reverse else []
      match cands.find? (fun p => p.url == "" || !isCur p.url) with
      | some p => (next, p.url)
      | none => (next, "")

def numberPrevNext (pi : ParamInfo) (s1 s2 : String) : String × String :=
  let r := numberPrevNextRaw pi s1 s2
  (dropJs r.1, dropJs r.2)

/-! ### prev/next algorithm: the final selection -/

structure Cand where
  href : String
  score : Int
deriving Repr

/-- the loop over `candidates` at the end of `PrevNextFinder.FindOutlink` -/
def pickTop (banned : List String) (cs : List Cand) : Option Cand :=
  cs.foldl (fun (top : Option Cand) (c : Cand) =>
    if banned.contains c.href then top
    else if decide (c.score ≥ (50 : Int)) && (match top with | none => true | some t => decide (t.score < c.score)) then some c
    else top) none

def prevNextResult (banned : List String) (cs : List Cand) : String :=
  match pickTop banned cs with
  | some c => c.href
  | none => ""

end Distill.Pg
