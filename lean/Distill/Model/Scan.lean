/-
  Scan: the DOM half of `PageNumberFinder.FindOutlink` — the loop over the anchors and the walk
  `findAndAddClosestValidLeafNodes` to the nearest leaves before and after each page-number link —
  as the sequence of calls it makes on the groups of adjacent numbers.

  The tree is flattened into records with parent / sibling / child links (the Go code navigates by
  pointers in both directions).  Atoms: per anchor, what `getPageInfoAndText` says (Model/PageInfo.lean
  is that function; here its answer is looked up by element id); per text node, whether the word
  counter finds no word.  The reading of a text node's terms is `Pg.textOps` (Model/Terms.lean).
  The walk is not structurally recursive; it runs on fuel and `none` means the fuel ran out (reported,
  never defaulted).
-/
import Distill.Model.Dom
import Distill.Model.Terms
import Distill.Model.Style
namespace Distill.Scan
open Distill

inductive Kind where
  | text (data : String)
  | elem (tag : String)
  | other
deriving Repr

structure Rec where
  id : Nat
  kind : Kind
  parent : Option Nat
  prev : Option Nat
  next : Option Nat
  first : Option Nat
  last : Option Nat
deriving Repr

def kindOf : Node → Kind
  | .text _ d => .text d
  | .elem _ t _ _ => .elem t
  | .other _ _ => .other

def headId : List Node → Option Nat
  | [] => none
  | n :: _ => some n.id

def lastId : List Node → Option Nat
  | [] => none
  | [n] => some n.id
  | _ :: ns => lastId ns

mutual
/-- records of a node and its descendants, pre-order -/
def flatNode (parent prev next : Option Nat) : Node → List Rec
  | .text i d => [⟨i, .text d, parent, prev, next, none, none⟩]
  | .other i _ => [⟨i, .other, parent, prev, next, none, none⟩]
  | .elem i t _ ks => ⟨i, .elem t, parent, prev, next, headId ks, lastId ks⟩ :: flatKids i none ks
def flatKids (parent : Nat) (prev : Option Nat) : List Node → List Rec
  | [] => []
  | k :: ks => flatNode (some parent) prev (headId ks) k ++ flatKids parent (some k.id) ks
end

structure A where
  pageInfo : Nat → Option (Int × String)   -- `getPageInfoAndText` of the anchor with this id
  noWords : Nat → Bool                      -- text == "" || wordCounter.Count(text) == 0

def get (rs : List Rec) (i : Nat) : Option Rec := rs.find? (·.id == i)

/-- `rxInvalidParentWrapper` — `(?i)(body)|(html)` — on `NodeName` -/
def invalidWrapper (k : Kind) : Bool :=
  match k with
  | .elem t => Cand.occursLit "body".toList t.toList || Cand.occursLit "html".toList t.toList
  | .text _ => false      -- "#text"
  | .other => false       -- "#comment", "#document": neither word occurs
where
  Cand.occursLit (w : List Char) : List Char → Bool
    | [] => (Style.lit w []).isSome
    | c :: cs => (Style.lit w (c :: cs)).isSome || Cand.occursLit w cs

structure St where
  ops : List Pg.GOp := []       -- calls on the groups, most recent first
  fwd : Nat := 0                -- numForwardLinksProcessed

def St.push (s : St) (o : List Pg.GOp) : St := { s with ops := o.reverse ++ s.ops }

/-- one activation of `findAndAddClosestValidLeafNodes`: it returns, or calls itself -/
inductive Step where
  | done (s : St)
  | go (start : Nat) (checkStart : Bool) (s : St)

/-- the body of `findAndAddClosestValidLeafNodes(start, checkStart, backward)` up to its recursive
call (the Boolean it returns is not used by the caller) -/
def step (A : A) (rs : List Rec) (start : Nat) (checkStart backward : Bool) (s : St) : Step :=
  match get rs start with
  | none => .done s
  | some sr =>
    match (if checkStart then some start else (if backward then sr.prev else sr.next)) with
    | none =>
      -- no sibling: go on from the parent, unless it is a body / html wrapper
      match sr.parent with
      | none => .done s
      | some p =>
        match get rs p with
        | none => .done s
        | some pr => if invalidWrapper pr.kind then .done s else .go p false s
    | some n =>
      match get rs n with
      | none => .done s
      | some nr =>
        match nr.kind with
        | .text data =>
          if A.noWords n then .go n false s
          else if backward || !Pg.textAdded data.toList then .done (s.push (Pg.textOps data.toList))
          else .go n false (s.push (Pg.textOps data.toList))
        | .elem tag =>
          if tag == "a" then
            if backward then .done s
            else
              match A.pageInfo n with
              | some (num, url) => .go n false ({ s with fwd := s.fwd + 1 }.push [.add { num := num, url := url }])
              | none => .done ({ s with fwd := s.fwd + 1 }.push [.addGroup])
          else
            -- check the children, nearest first; a node without children is passed over
            match (if backward then nr.last else nr.first) with
            | none => .go n false s
            | some c => .go c true s
        | .other =>
          match (if backward then nr.last else nr.first) with
          | none => .go n false s
          | some c => .go c true s

def walk (A : A) (rs : List Rec) : Nat → Nat → Bool → Bool → St → Option St
  | 0, _, _, _, _ => none
  | fuel + 1, start, checkStart, backward, s =>
    match step A rs start checkStart backward s with
    | .done s' => some s'
    | .go st cs s' => walk A rs fuel st cs backward s'

/-- the loop of `FindOutlink` over the anchors in document order, then `CleanUp` -/
def loop (A : A) (rs : List Rec) : Nat → List Nat → St → Option St
  | 0, _, _ => none
  | _, [], s => some s
  | fuel + 1, link :: rest, s =>
    match A.pageInfo link with
    | none => loop A rs fuel rest s
    | some (num, url) =>
      let s0 := { (s.push [.addGroup]) with fwd := 0 }
      match walk A rs (4 * rs.length + 8) link false true s0 with
      | none => none
      | some s1 =>
        let s2 := { (s1.push [.add { num := num, url := url }]) with fwd := 0 }
        match walk A rs (4 * rs.length + 8) link false false s2 with
        | none => none
        | some s3 => loop A rs fuel (rest.drop s3.fwd) s3

def anchors (rs : List Rec) : List Nat :=
  rs.filterMap fun r => match r.kind with | .elem t => if t == "a" then some r.id else none | _ => none

/-- the calls the scan makes on the groups, in order (`none`: fuel exhausted) -/
def scanOps (A : A) (root : Node) : Option (List Pg.GOp) :=
  let rs := flatNode none none none root
  -- the root itself is not one of `GetElementsByTagName(root, "a")`
  let links := (anchors rs).filter (· != root.id)
  (loop A rs (links.length + 1) links {}).map fun s => s.ops.reverse ++ [.cleanUp]

/-- the groups of adjacent numbers the detection starts from -/
def scanGroups (A : A) (root : Node) : Option (List Pg.PGroup) :=
  (scanOps A root).map fun ops => (Pg.runOps ops).groups

end Distill.Scan
