/-
  LinkScore: what `PrevNextFinder.FindOutlink` decides about ONE anchor — ignored (and why), banned,
  or a candidate with a score — and `getPageDiff`.

  The regular expressions on link text / class / id / href are spelled out:
    rxExtraneous     (?i)print|archive|comment|discuss|e[\-]?mail|share|reply|all|login|sign|single|as one|article|post|篇
    rxNextLink       (?i)(next|weiter|continue|>([^\|]|$)|»([^\|]|$))
    rxPrevLink       (?i)(prev|early|old|new|<|«)
    rxPositive / rxNegative   alternations of words
    rxPagination     (?i)pag(e|ing|inat)
    rxLinkPagination (?i)p(a|g|ag)?(e|ing|ination)?(=|\/)[0-9]{1,2}$
    rxFirstLast      (?i)(first|last)
    rxNumber         \d
  Each is an alternation of literals (possibly followed by one more character test or anchored at the
  end), so "matches" is "one of the alternatives occurs"; optional groups are expanded.

  What net/url and the string helpers say about the href is in `Facts` (atoms): whether it could be
  made absolute, the prefix test, the cleaned form, the comparisons with the current and folder URL.
-/
import Distill.Model.Style
import Distill.Model.Candidates
import Distill.Model.Pagination
namespace Distill.LinkScore
open Distill

def w (s : String) : List Char := s.toList

def extraneousWords : List (List Char) :=
  [w "print", w "archive", w "comment", w "discuss", w "email", w "e-mail", w "share", w "reply", w "all", w "login",
   w "sign", w "single", w "as one", w "article", w "post", w "篇"]
def negativeWords : List (List Char) :=
  [w "combx", w "comment", w "com-", w "contact", w "foot", w "footer", w "footnote", w "masthead", w "media", w "meta",
   w "outbrain", w "promo", w "related", w "shoutbox", w "sidebar", w "sponsor", w "shopping", w "tags", w "tool", w "widget"]
def positiveWords : List (List Char) :=
  [w "article", w "body", w "content", w "entry", w "hentry", w "main", w "page", w "pagination", w "post", w "text", w "blog", w "story"]
def paginationWords : List (List Char) := [w "page", w "paging", w "paginat"]
def firstLastWords : List (List Char) := [w "first", w "last"]
def nextWords : List (List Char) := [w "next", w "weiter", w "continue"]
def prevWords : List (List Char) := [w "prev", w "early", w "old", w "new", w "<", w "«"]

def rxExtraneous (s : List Char) : Bool := Cand.matchAlt extraneousWords s
def rxNegative (s : List Char) : Bool := Cand.matchAlt negativeWords s
def rxPositive (s : List Char) : Bool := Cand.matchAlt positiveWords s
def rxPagination (s : List Char) : Bool := Cand.matchAlt paginationWords s
def rxFirstLast (s : List Char) : Bool := Cand.matchAlt firstLastWords s
def rxPrevLink (s : List Char) : Bool := Cand.matchAlt prevWords s

/-- `>([^\|]|$)` / `»([^\|]|$)`: the arrow at the end, or followed by anything but a bar -/
def arrowOccurs : List Char → Bool
  | [] => false
  | c :: cs => ((c == '>' || c == '»') && (match cs with | [] => true | d :: _ => d != '|')) || arrowOccurs cs

def rxNextLink (s : List Char) : Bool := Cand.matchAlt nextWords s || arrowOccurs s

def rxNumber (s : List Char) : Bool := s.any Char.isDigit

/-- the sixteen prefixes `p(a|g|ag)?(e|ing|ination)?` -/
def linkPagPrefixes : List (List Char) :=
  (["", "a", "g", "ag"].flatMap fun m => ["", "e", "ing", "ination"].map fun t => w ("p" ++ m ++ t))

/-- does `s` END with a spelling of `pre`, then `=` or `/`, then one or two digits -/
def endsLinkPag (pre : List Char) (s : List Char) : Bool :=
  let r := s.reverse
  -- one or two digits at the end, then the separator, then the prefix (reversed)
  let tailOK : List Char → Bool := fun r1 =>
    match r1 with
    | sep :: r2 => (sep == '=' || sep == '/') && (Style.lit pre.reverse r2).isSome
    | [] => false
  match r with
  | d1 :: r1 =>
    d1.isDigit && (tailOK r1 || (match r1 with | d2 :: r2 => d2.isDigit && tailOK r2 | [] => false))
  | [] => false

def rxLinkPagination (s : List Char) : Bool := linkPagPrefixes.any (endsLinkPag · s)

/-- `strconv.Atoi` on the link text, 0 on error (values beyond the range of `int` are not modelled) -/
def atoi (s : List Char) : Int :=
  let digits : List Char → Option Nat := fun ds =>
    if ds.isEmpty || !ds.all Char.isDigit then none
    else some (ds.foldl (fun n c => n * 10 + (c.toNat - '0'.toNat)) 0)
  match s with
  | '+' :: ds => match digits ds with | some n => (n : Int) | none => 0
  | '-' :: ds => match digits ds with | some n => -(n : Int) | none => 0
  | ds => match digits ds with | some n => (n : Int) | none => 0

/-! ### getPageDiff, on bytes -/

/-- first index `i ≥ skip`, below both lengths, at which the two strings differ; 0 when there is none
(the Go loop leaves `commonLen` at its zero value) -/
def commonLen (a b : List UInt8) (skip : Nat) : Nat :=
  let n := min a.length b.length
  match (List.range n).find? (fun i => skip ≤ i && a[i]? != b[i]?) with
  | some i => i
  | none => 0

def isDigitB (b : UInt8) : Bool := 48 ≤ b && b ≤ 57

/-- `Atoi(rxNumberAtStart.FindString(s))`: the number the bytes start with, 0 when there is none -/
def numberAtStart (s : List UInt8) : Nat :=
  (s.takeWhile isDigitB).foldl (fun n b => n * 10 + (b.toNat - 48)) 0

/-- `getPageDiff(pageURL, linkHref, skip)` -/
def pageDiff (page href : List UInt8) (skip : Nat) : Option Int :=
  let c := commonLen page href skip
  let u := numberAtStart (page.drop c)
  let l := numberAtStart (href.drop c)
  if u > 0 && l > 0 then some ((l : Int) - (u : Int)) else none

/-! ### one anchor -/

structure Facts where
  absOK : Bool          -- ParseRequestURI of the resolved href succeeds
  hasPrefix : Bool      -- HasPrefixIgnoreCase(resolved href, allowed prefix)
  restHasDigit : Bool   -- a digit in the resolved href beyond the prefix
  cleanOK : Bool        -- Parse of the resolved href succeeds
  href : String         -- fragment and trailing slash removed, unescaped
  eqCurrent : Bool      -- EqualsIgnoreCase(href, current URL)
  eqFolder : Bool       -- EqualsIgnoreCase(href, folder URL)
  inFolder : Bool       -- strings.HasPrefix(href, folder URL)
  remainder : String    -- href without the folder URL prefix (href itself when not inFolder)
  text : String         -- trimmed InnerText of the anchor
  cls : String
  id : String
  parents : List (String × String)   -- class, id of every element ancestor, nearest first
  current : String      -- current URL
  prefixLen : Nat       -- len(allowed prefix)

inductive Verdict where
  | ignored (why : String)
  | banned
  | cand (score : Int)
deriving Repr, DecidableEq

/-- the walk over the element ancestors: +25 once for a pagination word, −25 once for a negative word
that is not also positive; stops when both have happened -/
def parentScore : Bool → Bool → List (String × String) → Int
  | _, _, [] => 0
  | pos, neg, (c, i) :: ps =>
    if pos && neg then 0 else
    let d := c.toList ++ ' ' :: i.toList
    let hitPos := !pos && rxPagination d
    let hitNeg := !neg && rxNegative d && !rxPositive d
    (if hitPos then 25 else 0) + (if hitNeg then -25 else 0) + parentScore (pos || hitPos) (neg || hitNeg) ps

/-- the bonus for a link text that reads as a number -/
def numBonus (next : Bool) (text : List Char) : Int :=
  let n := atoi text
  if n > 0 then (if next && n == 1 then -10 else (if 10 - n < 0 then 0 else 10 - n)) else 0

/-- the bonus for pointing exactly one page on (back) -/
def diffBonus (next : Bool) (F : Facts) : Int :=
  match pageDiff F.current.toUTF8.toList F.href.toUTF8.toList F.prefixLen with
  | some d => if (next && d == 1) || (!next && d == -1) then 25 else 0
  | none => 0

/-- text + " " + class + " " + id -/
def dataOf (F : Facts) : List Char := F.text.toList ++ ' ' :: F.cls.toList ++ ' ' :: F.id.toList

def own (next : Bool) (s : List Char) : Bool := if next then rxNextLink s else rxPrevLink s
def opp (next : Bool) (s : List Char) : Bool := if next then rxPrevLink s else rxNextLink s

/-- the filters at the head of the loop body: `some v` when the anchor is ignored or banned -/
def filterOutcome (next : Bool) (F : Facts) : Option Verdict :=
  if !F.absOK then some (.ignored "can't converted to abs url")
  else if !F.hasPrefix then some (.ignored "not prefix")
  else if next && !F.restHasDigit then some (.ignored "not prefix + number")
  else if !F.cleanOK then some (.ignored "can't be cleaned")
  else if F.eqCurrent || (next && F.eqFolder) then some (.ignored "same as current or folder url")
  else if F.text.utf8ByteSize > 25 then some (.ignored "link text too long")
  else if rxExtraneous F.text.toList then some .banned
  else if next && !rxNumber F.remainder.toList then some (.ignored "no number beyond folder url")
  else none

/-- the score of an anchor that got past the filters -/
def score (next : Bool) (F : Facts) : Int :=
  let text := F.text.toList
  let textLen := F.text.utf8ByteSize
  let data := dataOf F
  let href := F.href.toList
  let s0 : Int := if F.inFolder then 0 else -25
  let s1 := s0 + (if own next data then 50 else 0)
  let s2 := s1 + (if rxPagination data then 25 else 0)
  let s3 := s2 + (if rxFirstLast data && !own next text then -65 else 0)
  let s4 := s3 + (if rxNegative data || rxExtraneous data then -50 else 0)
  let s5 := s4 + (if opp next data then -200 else 0)
  let s6 := s5 + parentScore false false F.parents
  let s7 := s6 + (if rxLinkPagination href || rxPagination href then 25 else 0)
  let s8 := s7 + (if rxExtraneous href then -15 else 0)
  let s9 := s8 + (if textLen > 10 then -(textLen : Int) else 0)
  let s10 := s9 + numBonus next text
  s10 + diffBonus next F

def verdict (next : Bool) (F : Facts) : Verdict :=
  match filterOutcome next F with
  | some v => v
  | none => .cand (score next F)

/-! ### the whole finder, from the facts about every anchor -/

/-- `PrevNextFinder.FindOutlink`: the banned URLs, the candidates in document order, the best one -/
def findOutlink (next : Bool) (Fs : List Facts) : String :=
  let banned := Fs.filterMap fun F => match verdict next F with | .banned => some F.href | _ => none
  let cands := Fs.filterMap fun F => match verdict next F with | .cand sc => some (⟨F.href, sc⟩ : Pg.Cand) | _ => none
  Pg.prevNextResult banned cands

end Distill.LinkScore
