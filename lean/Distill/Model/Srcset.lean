/-
  Srcset: what `rxSrcsetURL` — `(?i)(\S+)((?:\s+[\d.]+(?:e[+-]?\d+)?[xwh])*)(\s*(?:,|$))` — finds in a
  srcset value, what `GetSrcSetURLs` returns and what `makeSrcSetAbsolute` writes back, over
  `List Char`, with the leftmost-first (backtracking) semantics of Go's regexp spelled out.

  Why the matcher below is the regular expression:
    * a match starts at a non-space character; `\S+` is greedy, so the first attempt takes the whole
      run of non-space characters;
    * a descriptor `[\d.]+(?:e[+-]?\d+)?[xwh]` is deterministic: a shorter `[\d.]+` / `\d+` is followed
      by a digit or dot, which is neither `e`, a sign nor a unit, and dropping the exponent leaves an
      `e` where the unit should be — the automaton `descLen` accepts at the first unit it reaches;
    * `(?:\s+D)*` is greedy; giving back an iteration leaves white space followed by a digit or dot
      where `\s*(?:,|$)` needs a comma or the end, so only the maximal run of descriptors can succeed;
    * with a shorter `\S+` the next character is a non-space character, so no descriptor and no
      white space can follow: the attempt succeeds iff that character is a comma; greedy means the
      LAST comma of the run (not at its first position: `\S+` needs one character) is tried first;
    * no match at a position means no match anywhere in that run; FindAll resumes after a match.
  `makeSrcSetAbsolute` matches the text of every match AGAIN, on its own, where `$` is the end of that
  text: a match `url,` without descriptor and white space then has the comma inside group 1.
-/
namespace Distill.Srcset

/-- Go's `\s` -/
def isWS (c : Char) : Bool :=
  c == ' ' || c == '\n' || c == '\t' || c == '\r' || c == '\x0c'

def isDigitDot (c : Char) : Bool := c.isDigit || c == '.'
def isUnit (c : Char) : Bool := c == 'x' || c == 'w' || c == 'h' || c == 'X' || c == 'W' || c == 'H'
def isE (c : Char) : Bool := c == 'e' || c == 'E'
def isSign (c : Char) : Bool := c == '+' || c == '-'

/-- states of the descriptor automaton -/
inductive DS where
  | start   -- nothing read
  | mant    -- inside `[\d.]+`
  | e       -- `e` read
  | sign    -- sign read
  | exp     -- inside `\d+` of the exponent
deriving DecidableEq, Repr

/-- number of characters of the descriptor at the head of the list, if there is one -/
def descLen : DS → List Char → Option Nat
  | _, [] => none
  | .start, c :: cs => if isDigitDot c then (descLen .mant cs).map (· + 1) else none
  | .mant, c :: cs =>
    if isDigitDot c then (descLen .mant cs).map (· + 1)
    else if isUnit c then some 1
    else if isE c then (descLen .e cs).map (· + 1)
    else none
  | .e, c :: cs =>
    if c.isDigit then (descLen .exp cs).map (· + 1)
    else if isSign c then (descLen .sign cs).map (· + 1)
    else none
  | .sign, c :: cs => if c.isDigit then (descLen .exp cs).map (· + 1) else none
  | .exp, c :: cs =>
    if c.isDigit then (descLen .exp cs).map (· + 1)
    else if isUnit c then some 1
    else none

/-- `(?:\s+D)*`, greedy: the text consumed and the rest -/
def takeDescs : Nat → List Char → List Char × List Char
  | 0, s => ([], s)
  | fuel + 1, s =>
    let ws := s.takeWhile isWS
    let r := s.dropWhile isWS
    if ws.isEmpty then ([], s)
    else match descLen .start r with
      | none => ([], s)
      | some n =>
        let more := takeDescs fuel (r.drop n)
        (ws ++ r.take n ++ more.1, more.2)

/-- position of the last comma of a run that is not its first character -/
def lastComma : List Char → Option Nat
  | [] => none
  | _ :: cs => go 1 cs none
where
  go (i : Nat) : List Char → Option Nat → Option Nat
    | [], acc => acc
    | c :: cs, acc => go (i + 1) cs (if c == ',' then some i else acc)

/-- one match: groups 1, 2 and the white space and comma of group 3 -/
structure M where
  url : List Char
  descs : List Char
  ws : List Char
  comma : Bool
deriving Repr, DecidableEq

/-- the match starting at the head of `s` (a non-space character), and what follows it -/
def matchRun (s : List Char) : Option (M × List Char) :=
  let run := s.takeWhile (fun c => !isWS c)
  let rest := s.dropWhile (fun c => !isWS c)
  let d := takeDescs rest.length rest
  let ws := d.2.takeWhile isWS
  match d.2.dropWhile isWS with
  | [] => some (⟨run, d.1, ws, false⟩, [])
  | c :: r4 =>
    if c == ',' then some (⟨run, d.1, ws, true⟩, r4)
    else match lastComma run with
      | some j => some (⟨run.take j, [], [], true⟩, run.drop (j + 1) ++ rest)
      | none => none

inductive Piece where
  | lit (c : Char)
  | m (x : M)
deriving Repr

/-- `FindAll`: matches and the characters between them, in order -/
def pieces : Nat → List Char → List Piece
  | 0, _ => []
  | _ + 1, [] => []
  | fuel + 1, c :: cs =>
    if isWS c then .lit c :: pieces fuel cs
    else match matchRun (c :: cs) with
      | some (x, rest) => .m x :: pieces fuel rest
      | none => .lit c :: pieces fuel cs

/-- `GetSrcSetURLs` on a non-empty value: group 1 of every match -/
def urls (s : List Char) : List (List Char) :=
  (pieces (s.length + 1) s).filterMap fun | .m x => some x.url | .lit _ => none

/-- what the replacement function of `makeSrcSetAbsolute` returns for one match -/
def rewriteM (abs : List Char → List Char) (x : M) : List Char :=
  if x.descs.isEmpty && x.ws.isEmpty && x.comma then abs (x.url ++ [','])
  else abs x.url ++ x.descs ++ x.ws ++ (if x.comma then [','] else [])

/-- `makeSrcSetAbsolute` on a non-empty value -/
def rewrite (abs : List Char → List Char) (s : List Char) : List Char :=
  (pieces (s.length + 1) s).flatMap fun | .m x => rewriteM abs x | .lit c => [c]

/-- the URLs the rewriting asks `CreateAbsoluteURL` about -/
def asked (s : List Char) : List (List Char) :=
  (pieces (s.length + 1) s).filterMap fun
    | .m x => some (if x.descs.isEmpty && x.ws.isEmpty && x.comma then x.url ++ [','] else x.url)
    | .lit _ => none

end Distill.Srcset
