/-
  TableClass: the documented rule cascade (written from the property text), and the feature
  extraction `tableclass.Classifier.Classify` performs on the tree.
-/
import Distill.Model.Dom
import Distill.Model.Features
import Distill.Gen.Tables
namespace Distill

inductive TableType where
  | layout | data
deriving DecidableEq, Repr

/-- one rule of the cascade: guard, verdict, reason name -/
structure TRule where
  guard : TableFeatures → Bool
  verdict : TableType
  reason : String

def ariaGridRoles : List String := ["grid", "treegrid"]
def ariaLandmarkRoles : List String :=
  ["application", "banner", "complementary", "contentinfo", "form", "main", "navigation", "search"]

/-- The cascade in the order the property states it. -/
def tableRules : List TRule :=
  [ ⟨fun f => f.insideEditable, .layout, "InsideEditableArea"⟩,
    ⟨fun f => f.role == "presentation", .layout, "RoleTable"⟩,
    ⟨fun f => ariaLandmarkRoles.contains f.role || ariaGridRoles.contains f.role, .data, "RoleTable"⟩,
    ⟨fun f => f.descRole, .data, "RoleDescendant"⟩,
    ⟨fun f => f.datatable == "0", .layout, "Datatable0"⟩,
    ⟨fun f => f.nested, .layout, "NestedTable"⟩,
    ⟨fun f => decide (f.rows ≤ 1), .layout, "LessEq1Row"⟩,
    ⟨fun f => decide (f.cols ≤ 1), .layout, "LessEq1Col"⟩,
    ⟨fun f => f.captionValid || f.thead || f.tfoot || f.headerTag, .data, "CaptionTheadTfootColgroupColTh"⟩,
    ⟨fun f => f.cellAttr, .data, "AbbrHeadersScope"⟩,
    ⟨fun f => f.cellLoneAbbr, .data, "OnlyHasAbbr"⟩,
    ⟨fun f => f.summary, .data, "Summary"⟩,
    ⟨fun f => decide (f.cols ≥ 5), .data, "MoreEq5Cols"⟩,
    ⟨fun f => decide (f.rows ≥ 20), .data, "MoreEq20Rows"⟩,
    ⟨fun f => decide (f.cells ≤ 10), .layout, "LessEq10Cells"⟩,
    ⟨fun f => f.objectTag, .layout, "EmbedObjectAppletIframe"⟩ ]

def firstRule (f : TableFeatures) : List TRule → TableType × String
  | [] => (.data, "Default")
  | r :: rs => if r.guard f then (r.verdict, r.reason) else firstRule f rs

def classifySpec (f : TableFeatures) : TableType × String := firstRule f tableRules

/-- how the Go source spells a verdict (`c.logAndReturn(Type, Reason)`) -/
def goReturn (v : TableType × String) : String × String :=
  ((match v.1 with | .layout => "Layout" | .data => "Data"), v.2)

/-! ### feature extraction from the tree -/

def asciiLower (s : String) : String := String.ofList (s.toList.map Char.toLower)

/-- `strconv.Atoi` on an attribute, with the code's `0 → 1` defaulting; only plain decimal
digit strings and the absent attribute are modelled (everything else is `none`) -/
def spanOf (s : String) : Option Int :=
  if s == "" then some 1
  else if s.toList.all Char.isDigit then
    match s.toNat? with
    | some 0 => some 1
    | some n => some (n : Int)
    | none => none
  else none

mutual
/-- element descendants (root excluded), pre-order -/
def Node.descElems : Node → List Node
  | .elem _ _ _ ks => descElemsL ks
  | _ => []
def descElemsL : List Node → List Node
  | [] => []
  | k :: ks => (match k with
      | .elem i t a kk => .elem i t a kk :: descElemsL kk
      | _ => []) ++ descElemsL ks
end

mutual
/-- descendants of a table that are not inside a nested table (the nested `<table>` element
itself is direct, its content is not) -/
def Node.directDesc : Node → List Node
  | .elem _ _ _ ks => directDescL ks
  | _ => []
def directDescL : List Node → List Node
  | [] => []
  | k :: ks => (match k with
      | .elem i t a kk => .elem i t a kk :: (if t == "table" then [] else directDescL kk)
      | _ => []) ++ directDescL ks
end

def firstWithTag (es : List Node) (tags : List (String × String)) : Option (Node × String) :=
  match es with
  | [] => none
  | e :: rest =>
    match tags.find? (fun p => p.1 == e.tag) with
    | some p => some (e, p.2)
    | none => firstWithTag rest tags

/-- `hasOneOfElements`: the *first* element with a listed tag decides -/
def hasOneOf (validText : Nat → Bool) (es : List Node) (tags : List (String × String)) : Bool :=
  match firstWithTag es tags with
  | none => false
  | some (e, v) => v != "true" || validText e.id

def sumSpans (xs : List (Option Int)) : Option Int :=
  xs.foldl (fun acc x => match acc, x with
    | some a, some b => some (a + b)
    | _, _ => none) (some 0)

def maxInt (xs : List Int) : Int := xs.foldl (fun a b => if b > a then b else a) 0

def rowsCols (t : Node) : Option (Int × Int) :=
  let trs := t.descElems.filter (fun e => e.tag == "tr")
  match sumSpans (trs.map (fun r => spanOf (getAttr r.attrs "rowspan"))) with
  | none => none
  | some rows =>
    let perRow := trs.map (fun r =>
      sumSpans ((r.descElems.filter (fun e => e.tag == "td")).map (fun c => spanOf (getAttr c.attrs "colspan"))))
    if perRow.all Option.isSome then
      some (rows, maxInt (perRow.map (fun o => o.getD 0)))
    else none

/-- `anc`: for each ancestor, (tag, contenteditable value); `validText`: the
`hasValidText` atom (InnerText non-blank) by element id -/
def tableFeatures (anc : List (String × String)) (validText : Nat → Bool) (t : Node) : Option TableFeatures :=
  let all := t.descElems
  let nested := all.any (fun e => e.tag == "table")
  let direct := if nested then t.directDesc else all
  let tds := direct.filter (fun e => e.tag == "td")
  let roleOf := fun (e : Node) => asciiLower (getAttr e.attrs "role")
  match rowsCols t with
  | none => none
  | some (rows, cols) => some {
      insideEditable := anc.any (fun p => p.1 == "input" || asciiLower p.2 == "true"),
      role := roleOf t,
      descRole := direct.any (fun e => Gen.ariaRoles.contains (roleOf e) || Gen.ariaTableDescendantRoles.contains (roleOf e)),
      datatable := getAttr t.attrs "datatable",
      nested := nested,
      rows := rows, cols := cols,
      captionValid := match all.find? (fun e => e.tag == "caption") with
        | some c => validText c.id
        | none => false,
      thead := all.any (fun e => e.tag == "thead"),
      tfoot := all.any (fun e => e.tag == "tfoot"),
      headerTag := hasOneOf validText direct Gen.headerTags,
      cellAttr := tds.any (fun c => hasAttr c.attrs "abbr" || hasAttr c.attrs "headers" || hasAttr c.attrs "scope"),
      cellLoneAbbr := tds.any (fun c => match c.descElems with
        | [e] => e.tag == "abbr"
        | _ => false),
      summary := hasAttr t.attrs "summary",
      cells := tds.length,
      objectTag := hasOneOf validText direct Gen.objectTags }

end Distill
