/-
  TextDoc: grouping of Text elements into text blocks and writing the classifier's verdict back
  (`Document.CreateTextDocument`, `TextBlock.MergeNext`, `TextDocument.ApplyToModel`).
  Here the verdict of the filters is a parameter: a list of blocks, each a list of indices of
  Text elements with a content flag and a title label (every theorem about this file is for all
  verdicts).  The filters themselves are modelled in `Model/Filters.lean`; they merge blocks (not
  always adjacent ones) or drop whole blocks — `FltProps.initial_block_all_or_nothing`.
-/
import Distill.Model.Builder
namespace Distill

/-- one classified block: which Text elements (by position among the Text elements) it holds -/
structure VBlock where
  members : List Nat
  content : Bool
  title : Bool
deriving Repr

/-- `ApplyToModel`: every Text of a content block becomes content (and carries TITLE if the block
does); Texts of non-content blocks are left alone -/
def flagOf (blocks : List VBlock) (i : Nat) : Bool × Bool :=
  match blocks.find? (fun b => b.members.contains i) with
  | some b => if b.content then (true, b.title) else (false, false)
  | none => (false, false)

/-- initial blocks: consecutive Text elements with the same group number -/
def groupBlocks : List (Nat × Nat) → List (List Nat)     -- (position, group) pairs, in order
  | [] => []
  | (i, g) :: rest =>
    match groupBlocks rest with
    | [] => [[i]]
    | (j :: js) :: more =>
      match rest with
      | (_, g') :: _ => if g == g' then (i :: j :: js) :: more else [i] :: (j :: js) :: more
      | [] => [[i]]
    | [] :: more => [i] :: more

end Distill
