/-
  Apply: what `distiller.Apply` does with its Options value.

  Everything the extraction computes (title, text, HTML, word count, images, markup) is the
  atom `core`, a function of the page URL only: the generated inventory `applyOptsUses` shows
  that the Options value reaches the extractor through exactly two expressions,
  `opts.LogFlags` (into the logger) and `opts.OriginalURL`.  The option-dependent tail of
  `Apply` is regenerated from the source (`Gen.applyTail`).
-/
import Distill.Model.Features
import Distill.Gen.Funcs
namespace Distill

structure Opts where
  logFlags : Nat := 0
  url : Option String := none
  skip : Bool := false
  algo : Nat := 0            -- 0 = PrevNext (default), 1 = PageNumber
deriving Repr

structure AResult (Core : Type) where
  core : Core
  url : String
  pag : String × String      -- (next, prev)

def optAtoms (o : Opts) (pageNumber prevNext : String × String) : OptAtoms :=
  { hasURL := o.url.isSome, urlString := o.url.getD "", skip := o.skip,
    algoPageNumber := o.algo == 1, pageNumberResult := pageNumber, prevNextResult := prevNext }

/-- `core u`: the extraction result for page URL `u`; `pn u`, `pv u`: the answers of the two
pagination finders for that URL -/
def applyModel {Core : Type} (core : Option String → Core) (pn pv : Option String → String × String)
    (o : Opts) : Option (AResult Core) :=
  match Gen.applyTail (optAtoms o (pn o.url) (pv o.url)) with
  | some (u, p) => some { core := core o.url, url := u, pag := p }
  | none => none

/-- `ApplyForURL(url, timeout, opts)`: fetches, then runs `Apply` on the parsed response with a
*copy* of the options whose page URL is the address the caller supplied (statement list
`Gen.entryPointBodies`) -/
def applyForURLModel {Core : Type} (core : Option String → Core) (pn pv : Option String → String × String)
    (url : String) (o : Opts) : Option (AResult Core) :=
  applyModel core pn pv { o with url := some url }

end Distill
