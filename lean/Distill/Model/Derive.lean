/-
  Derive: four of the converter's per-element answers computed by the model itself from the
  element's attributes, instead of being taken from the implementation:
    styleDisplay  ← Style.display  (the style attribute)
    visHidden     ← Style.visHidden
    rxUnlikely    ← Cand.matchAlt unlikelyWords (class + " " + id)
    rxMaybe       ← Cand.matchAlt maybeWords
  `dom.GetAttribute` reads the first attribute of that name, as `getAttr` does.
-/
import Distill.Model.Convert
import Distill.Model.Style
import Distill.Model.Candidates
import Distill.Model.IEReader
import Distill.Model.Words
import Distill.Model.Html
import Distill.Model.TableClass
import Distill.Model.TextRender
import Distill.Gen.Funcs
namespace Distill

/-- the attributes of the element with the given id, `[]` when there is none -/
def attrsOf (t : Node) (i : Nat) : List Attr :=
  match t.elems.find? (fun e => e.id == i) with
  | some e => e.attrs
  | none => []

def derivedDisplay (attrs : List Attr) : String :=
  match Style.display (getAttr attrs "style").toList with
  | some v => String.ofList v
  | none => ""

def derivedVisHidden (attrs : List Attr) : Bool := Style.visHidden (getAttr attrs "style").toList

def derivedUnlikely (attrs : List Attr) : Bool :=
  match Cand.unlikelyWords with
  | some ws => Cand.matchAlt ws (Cand.matchString (getAttr attrs "class") (getAttr attrs "id"))
  | none => false

def derivedMaybe (attrs : List Attr) : Bool :=
  match Cand.maybeWords with
  | some ws => Cand.matchAlt ws (Cand.matchString (getAttr attrs "class") (getAttr attrs "id"))
  | none => false

/-- the atoms with those four answers replaced by the model's own -/
def deriveAtoms (t : Node) (A : CAtoms) : CAtoms :=
  { A with
    styleDisplay := fun i => derivedDisplay (attrsOf t i),
    visHidden := fun i => derivedVisHidden (attrsOf t i),
    rxUnlikely := fun i => derivedUnlikely (attrsOf t i),
    rxMaybe := fun i => derivedMaybe (attrsOf t i) }

mutual
/-- the node with the given id -/
def findNode (i : Nat) : Node → Option Node
  | .text j d => if i == j then some (.text j d) else none
  | .other j k => if i == j then some (.other j k) else none
  | .elem j t a ks => if i == j then some (.elem j t a ks) else findNodeL i ks
def findNodeL (i : Nat) : List Node → Option Node
  | [] => none
  | k :: ks => match findNode i k with | some n => some n | none => findNodeL i ks
end

/-- `isByline` on the element (rel, itemprop, class + " " + id, text content) -/
def derivedByline (e : Node) : Bool :=
  match Cand.answers (getAttr e.attrs "class") (getAttr e.attrs "id") (getAttr e.attrs "rel") (getAttr e.attrs "itemprop")
      (String.ofList (IE.textContent e)) with
  | some a => a.byline
  | none => false

/-- `stringutil.IsStringAllWhitespace` -/
def derivedBlank (data : String) : Bool := data.toList.all isSpaceChar

/-- `WordCounter.Count` with the counter `SelectWordCounter` picks for the text content of the root -/
def derivedWords (root : Node) (data : String) : Nat := (selectCounter (IE.textContent root)).count data.toList

/-- … and three more: byline, blank, word count -/
def deriveAtomsFull (t : Node) (A : CAtoms) : CAtoms :=
  -- the counter is selected once for the page
  let counter := selectCounter (IE.textContent t)
  { deriveAtoms t A with
    byline := fun i => match findNode i t with | some e => derivedByline e | none => false,
    blank := fun i => match findNode i t with | some (.text _ d) => derivedBlank d | _ => false,
    words := fun i => match findNode i t with | some (.text _ d) => counter.count d.toList | _ => 0 }

theorem deriveAtomsFull_words (t : Node) (A : CAtoms) (i : Nat) (j : Nat) (d : String) (h : findNode i t = some (.text j d)) :
    (deriveAtomsFull t A).words i = derivedWords t d := by
  simp [deriveAtomsFull, derivedWords, h]

mutual
/-- (tag, contenteditable) of the ancestors of the node with the given id; `none` when it is not in the tree -/
def ancestorsTo (i : Nat) (acc : List (String × String)) : Node → Option (List (String × String))
  | .text j _ => if i == j then some acc else none
  | .other j _ => if i == j then some acc else none
  | .elem j t a ks => if i == j then some acc else ancestorsToL i ((t, getAttr a "contenteditable") :: acc) ks
def ancestorsToL (i : Nat) (acc : List (String × String)) : List Node → Option (List (String × String))
  | [] => none
  | k :: ks => match ancestorsTo i acc k with | some r => some r | none => ancestorsToL i acc ks
end

/-- the classifier's `hasValidText`: `InnerText` neither empty nor all white space -/
def derivedValidText (A : CAtoms) (e : Node) : Bool :=
  let txt := innerText A e
  !txt.isEmpty && !txt.all isSpaceChar

/-- the table classifier's verdict "Data" on the table with the given id, in its place in the tree:
features extracted by `tableFeatures`, the regenerated cascade `Gen.classify`; `none` when the
features are outside the model -/
def derivedDataTable (root : Node) (A : CAtoms) (i : Nat) : Option Bool :=
  match findNode i root, ancestorsTo i [] root with
  | some tn, some anc =>
    let valid : Nat → Bool := fun j => match findNode j tn with | some e => derivedValidText A e | none => false
    match tableFeatures anc valid tn with
    | some f => match Gen.classify f with
      | some (some g) => some (g.1 == "Data")
      | _ => none
    | none => none
  | _, _ => none

/-- … and the table classifier -/
def deriveAtomsAll (t : Node) (A : CAtoms) : CAtoms :=
  let B := deriveAtomsFull t A
  { B with dataTable := fun i => match derivedDataTable t B i with | some b => b | none => A.dataTable i }

/-! ### the same, computed once per page

The driver uses these: every answer is computed once per element and looked up afterwards;
`deriveAtomsFast_eq` / `deriveAtomsAllFast` tie them to the definitions above. -/

structure DRow where
  id : Nat
  disp : String
  vis : Bool
  unl : Bool
  may : Bool
  byl : Bool

def deriveTable (t : Node) : List DRow :=
  t.elems.map fun e => ⟨e.id, derivedDisplay e.attrs, derivedVisHidden e.attrs, derivedUnlikely e.attrs, derivedMaybe e.attrs, derivedByline e⟩

def rowOf (tbl : List DRow) (i : Nat) : Option DRow := tbl.find? (fun r => r.id == i)

def deriveAtomsFast (t : Node) (A : CAtoms) : CAtoms :=
  let tbl := deriveTable t
  { A with
    styleDisplay := fun i => match rowOf tbl i with | some r => r.disp | none => derivedDisplay [],
    visHidden := fun i => match rowOf tbl i with | some r => r.vis | none => derivedVisHidden [],
    rxUnlikely := fun i => match rowOf tbl i with | some r => r.unl | none => derivedUnlikely [],
    rxMaybe := fun i => match rowOf tbl i with | some r => r.may | none => derivedMaybe [] }

theorem rowOf_deriveTable (t : Node) (i : Nat) :
    rowOf (deriveTable t) i = (t.elems.find? (fun e => e.id == i)).map
      (fun e => ⟨e.id, derivedDisplay e.attrs, derivedVisHidden e.attrs, derivedUnlikely e.attrs, derivedMaybe e.attrs, derivedByline e⟩) := by
  unfold rowOf deriveTable
  rw [List.find?_map]
  rfl

theorem row_lookup {α : Type} (t : Node) (i : Nat) (f : DRow → α) (g : List Attr → α)
    (hfg : ∀ e : Node, f ⟨e.id, derivedDisplay e.attrs, derivedVisHidden e.attrs, derivedUnlikely e.attrs, derivedMaybe e.attrs, derivedByline e⟩ = g e.attrs) :
    (match rowOf (deriveTable t) i with | some r => f r | none => g []) = g (attrsOf t i) := by
  rw [rowOf_deriveTable]
  unfold attrsOf
  cases t.elems.find? (fun e => e.id == i) with
  | none => simp only [Option.map_none]
  | some e => simp only [Option.map_some]; exact hfg e

theorem deriveAtomsFast_eq (t : Node) (A : CAtoms) : deriveAtomsFast t A = deriveAtoms t A := by
  have h1 : (fun i => match rowOf (deriveTable t) i with | some r => r.disp | none => derivedDisplay []) =
      fun i => derivedDisplay (attrsOf t i) := by
    funext i; exact row_lookup t i (·.disp) derivedDisplay (fun _ => by dsimp only)
  have h2 : (fun i => match rowOf (deriveTable t) i with | some r => r.vis | none => derivedVisHidden []) =
      fun i => derivedVisHidden (attrsOf t i) := by
    funext i; exact row_lookup t i (·.vis) derivedVisHidden (fun _ => by dsimp only)
  have h3 : (fun i => match rowOf (deriveTable t) i with | some r => r.unl | none => derivedUnlikely []) =
      fun i => derivedUnlikely (attrsOf t i) := by
    funext i; exact row_lookup t i (·.unl) derivedUnlikely (fun _ => by dsimp only)
  have h4 : (fun i => match rowOf (deriveTable t) i with | some r => r.may | none => derivedMaybe []) =
      fun i => derivedMaybe (attrsOf t i) := by
    funext i; exact row_lookup t i (·.may) derivedMaybe (fun _ => by dsimp only)
  unfold deriveAtomsFast deriveAtoms
  simp only [h1, h2, h3, h4]

/-- all seven answers and the table classifier, the per-element ones looked up in the table -/
def deriveAtomsAllFast (t : Node) (A : CAtoms) : CAtoms :=
  let tbl := deriveTable t
  let counter := selectCounter (IE.textContent t)
  let B : CAtoms :=
    { deriveAtomsFast t A with
      byline := fun i => match rowOf tbl i with | some r => r.byl | none => false,
      blank := fun i => match findNode i t with | some (.text _ d) => derivedBlank d | _ => false,
      words := fun i => match findNode i t with | some (.text _ d) => counter.count d.toList | _ => 0 }
  { B with dataTable := fun i => match derivedDataTable t B i with | some b => b | none => A.dataTable i }

/-- atoms for a stand-alone subtree: display and visibility from the style attributes, nothing else
(`innerText` only asks about visibility) -/
def blankAtoms : CAtoms where
  styleDisplay := fun _ => ""
  visHidden := fun _ => false
  byline := fun _ => false
  rxUnlikely := fun _ => false
  rxMaybe := fun _ => false
  embed := fun _ => .none
  dataTable := fun _ => false
  blank := fun _ => false
  words := fun _ => 0

def styleOnlyAtoms (t : Node) : CAtoms := deriveAtomsFast t blankAtoms

/-- the ids of the elements of `t` (the table itself included) whose `hasValidText` is true -/
def validTextIds (t : Node) : List Nat :=
  let A := styleOnlyAtoms t
  (t :: t.descElems).filterMap fun e => if derivedValidText A e then some e.id else none

end Distill
