/-
  Derive: four of the converter's per-element answers computed by the model itself from the
  element's attributes, instead of being taken from the implementation:
    styleDisplay  ← Style.display  (the style attribute)
    visHidden     ← Style.visHidden
    rxUnlikely    ← Cand.matchAlt unlikelyWords (class + " " + id)
    rxMaybe       ← Cand.matchAlt maybeWords
  `dom.GetAttribute` reads the first attribute of that name, as `getAttr` does.
-/
import Distill.Model.Convert
import Distill.Model.Style
import Distill.Model.Candidates
namespace Distill

/-- the attributes of the element with the given id, `[]` when there is none -/
def attrsOf (t : Node) (i : Nat) : List Attr :=
  match t.elems.find? (fun e => e.id == i) with
  | some e => e.attrs
  | none => []

def derivedDisplay (attrs : List Attr) : String :=
  match Style.display (getAttr attrs "style").toList with
  | some v => String.ofList v
  | none => ""

def derivedVisHidden (attrs : List Attr) : Bool := Style.visHidden (getAttr attrs "style").toList

def derivedUnlikely (attrs : List Attr) : Bool :=
  match Cand.unlikelyWords with
  | some ws => Cand.matchAlt ws (Cand.matchString (getAttr attrs "class") (getAttr attrs "id"))
  | none => false

def derivedMaybe (attrs : List Attr) : Bool :=
  match Cand.maybeWords with
  | some ws => Cand.matchAlt ws (Cand.matchString (getAttr attrs "class") (getAttr attrs "id"))
  | none => false

/-- the atoms with those four answers replaced by the model's own -/
def deriveAtoms (t : Node) (A : CAtoms) : CAtoms :=
  { A with
    styleDisplay := fun i => derivedDisplay (attrsOf t i),
    visHidden := fun i => derivedVisHidden (attrsOf t i),
    rxUnlikely := fun i => derivedUnlikely (attrsOf t i),
    rxMaybe := fun i => derivedMaybe (attrsOf t i) }

end Distill
