/-
  Elem: the flat element list (`webdoc.Document.Elements`) the document filters and the
  renderer work on.
-/
import Distill.Model.Dom
namespace Distill

inductive Kind where
  | text | tagStart | tagEnd | image | figure | video | embed | table
deriving DecidableEq, Repr, Inhabited

/-- the kinds of element `AddEmbed` receives -/
inductive MKind where
  | image | figure | video | embed
deriving DecidableEq, Repr, Inhabited

def MKind.toKind : MKind → Kind
  | .image => .image | .figure => .figure | .video => .video | .embed => .embed

def Kind.isTag : Kind → Bool
  | .tagStart | .tagEnd => true
  | _ => false

def Kind.isMedia : Kind → Bool
  | .image | .figure | .video | .embed | .table => true
  | _ => false

/-- one entry of `Document.Elements` -/
structure Elem where
  kind    : Kind
  content : Bool := false          -- `BaseElement.isContent`
  name    : String := ""           -- tag name (Tag)
  win     : List Nat := []         -- Text: ids of the nodes in `TextNodes[Start:End]`
  group   : Nat := 0               -- Text: GroupNumber
  node    : Nat := 0               -- media / table: id of the element node
  title   : Bool := false          -- Text: carries label TITLE
deriving Repr, Inhabited

def Elem.isText (e : Elem) : Bool := e.kind == .text

end Distill
