/-
  Filters: the article extractor (`internal/extractor/article.go`) — the fourteen text-block
  filters of `ArticleExtractor.Extract`, `TextBlock.MergeNext`, `CountWordsInContent` and
  `TextDocument.ApplyToModel`, as total functions over a list of blocks.

  What stays an atom (answers of the real code, per *initial* block, shipped with the input):
  the text tests of the first two filters (`isTerminating`, title match — both run before any
  merge, so they only ever see initial blocks) and the DOM answers two filters read
  (`findCanonicalReps`; the grand-parent elements KeepLargestBlock compares).  A merged block keeps
  the first Text element of its first constituent, so `first` (the index of that initial block)
  is all the model needs to find the DOM answers of a merged block.

  Link density is `NumWordsInAnchor / NumWords` in float64; the filters only compare it with
  constants, which is done here by cross-multiplication over Nat (exact as long as a block has
  fewer than 10^6 words; the correspondence check runs the two side by side).

  Every index expression of SimilarSiblingContent.Process is partial here (`l[i]?`): an
  out-of-range access makes the whole run `none`.  `Proofs/Filters.lean` shows it never is.
-/
namespace Distill.Flt

structure Labels where
  title : Bool := false
  mightBe : Bool := false
  veryLikely : Bool := false
  li : Bool := false
  heading : Bool := false
  h1 : Bool := false
  h2 : Bool := false
  h3 : Bool := false
  bhf : Bool := false        -- BOILERPLATE_HEADING_FUSED
  snc : Bool := false        -- STRICTLY_NOT_CONTENT
  sibling : Bool := false    -- SIBLING_OF_MAIN_CONTENT
deriving DecidableEq, Repr, Inhabited

def Labels.or (a b : Labels) : Labels :=
  { title := a.title || b.title, mightBe := a.mightBe || b.mightBe, veryLikely := a.veryLikely || b.veryLikely,
    li := a.li || b.li, heading := a.heading || b.heading, h1 := a.h1 || b.h1, h2 := a.h2 || b.h2,
    h3 := a.h3 || b.h3, bhf := a.bhf || b.bhf, snc := a.snc || b.snc, sibling := a.sibling || b.sibling }

/-- one text block -/
structure TB where
  members : List Nat      -- its Text elements (position among the Text elements of the document)
  numWords : Nat
  numAnchor : Nat
  tagLevel : Int
  offStart : Int          -- OffsetBlock of the first / last Text element
  offEnd : Int
  labels : Labels
  content : Bool
  first : Nat             -- initial block whose first Text element is this block's first
deriving Repr, Inhabited

/-- `TextBlock.MergeNext` -/
def TB.merge (a b : TB) : TB :=
  { a with
    members := a.members ++ b.members
    numWords := a.numWords + b.numWords
    numAnchor := a.numAnchor + b.numAnchor
    content := a.content || b.content
    labels := a.labels.or b.labels
    tagLevel := if b.tagLevel < a.tagLevel then b.tagLevel else a.tagLevel
    offEnd := b.offEnd }

/-- `LinkDensity <= num/den` -/
def TB.ldLe (b : TB) (num den : Nat) : Bool := b.numWords == 0 || decide (b.numAnchor * den ≤ num * b.numWords)
/-- `LinkDensity == 0` -/
def TB.ldZero (b : TB) : Bool := b.numWords == 0 || b.numAnchor == 0

/-- answers of the real code for an initial block -/
structure BAtoms where
  repParent : Nat := 0
  repKind : String := ""
  gpFirst : Nat := 0
  gpLast : Nat := 0
  term : Bool := false
  titleMatch : Bool := false
deriving Repr, Inhabited

abbrev Atoms := List BAtoms
def Atoms.at (A : Atoms) (i : Nat) : BAtoms := A.getD i {}

/-! ### 1, 2: TerminatingBlocksFinder, DocumentTitleMatch -/

def terminating (A : Atoms) (l : List TB) : List TB × Bool :=
  (l.map (fun b => if (A.at b.first).term then { b with labels := { b.labels with snc := true } } else b),
   l.any (fun b => (A.at b.first).term))

def titleMatch (A : Atoms) (l : List TB) : List TB × Bool :=
  (l.map (fun b => if (A.at b.first).titleMatch then { b with labels := { b.labels with title := true } } else b),
   l.any (fun b => (A.at b.first).titleMatch))

/-! ### 3: NumWordsRulesClassifier -/

def classify (prev : Option TB) (cur : TB) (next : Option TB) : Bool :=
  if cur.ldLe 333333 1000000 then
    if prev.all (·.ldLe 555556 1000000) then
      if cur.numWords ≤ 16 then
        if next.all (fun n => decide (n.numWords ≤ 15)) then prev.any (fun p => decide (p.numWords > 4)) else true
      else true
    else
      if cur.numWords ≤ 40 then next.any (fun n => decide (n.numWords > 17)) else true
  else false

def numWordsGo (prev : Option TB) : List TB → List TB × Bool
  | [] => ([], false)
  | c :: rest =>
    let v := classify prev c rest.head?
    let (r, ch) := numWordsGo (some c) rest
    ({ c with content := v } :: r, (v != c.content) || ch)

def numWordsRules (l : List TB) : List TB × Bool := numWordsGo none l

/-! ### 4: LabelToBoilerplate(STRICTLY_NOT_CONTENT) -/

def labelToBoilerplate (l : List TB) : List TB × Bool :=
  (l.map (fun b => if b.content && b.labels.snc then { b with content := false } else b),
   l.any (fun b => b.content && b.labels.snc))

/-! ### 5, 6: SimilarSiblingContentExpansion -/

structure SSP where
  crossTitles : Bool := false
  crossHeadings : Bool := false
  mixedTags : Bool := false
  ldNum : Nat := 0          -- MaxLinkDensity = ldNum / ldDen
  ldDen : Nat := 1
  maxDist : Nat := 0
deriving Repr, DecidableEq

structure SS where
  blocks : List TB
  good : List Nat
  bad : List Nat
  gb : Nat
  ge : Nat
  bb : Nat
  be : Nat
  changed : Bool

def similar (p : SSP) (A : Atoms) (i j : Nat) : Option Bool := do
  let l ← A[i]?
  let r ← A[j]?
  if !p.mixedTags && l.repKind != r.repKind then pure false else pure (l.repParent == r.repParent)

def setContent (bs : List TB) (i : Nat) : Option (List TB) := do
  let b ← bs[i]?
  pure (bs.set i { b with content := true })

/-- `for j := badBegin; j < badEnd; j++ { … }` of the allowExpandFrom branch; `k` iterations left -/
def loopA (p : SSP) (A : Atoms) (i : Nat) : Nat → Nat → SS → Option SS
  | 0, _, s => some s
  | k+1, j, s => do
    let b ← s.bad[j]?
    if i - b > p.maxDist then
      loopA p A i k (j+1) (if j == s.bb then { s with bb := s.bb + 1 } else s)
    else
      let sim ← similar p A i b
      if sim then
        let bs ← setContent s.blocks b
        let v ← s.bad[s.bb]?
        loopA p A i k (j+1) { s with blocks := bs, bad := s.bad.set j v, bb := s.bb + 1, changed := true }
      else loopA p A i k (j+1) s

/-- `for j = goodBegin; j < goodEnd; j++ { … break }` of the allowExpandTo branch; the flag says
whether the loop was left by `break` (then `j != goodEnd`) -/
def loopB (p : SSP) (A : Atoms) (i : Nat) : Nat → Nat → SS → Option (SS × Bool)
  | 0, _, s => some (s, false)
  | k+1, j, s => do
    let g ← s.good[j]?
    if i - g > p.maxDist then
      loopB p A i k (j+1) (if j == s.gb then { s with gb := s.gb + 1 } else s)
    else
      let sim ← similar p A i g
      if sim then
        let bs ← setContent s.blocks i
        let v ← s.good[s.gb]?
        pure ({ s with blocks := bs, good := s.good.set j v, gb := s.gb + 1, changed := true }, true)
      else loopB p A i k (j+1) s

def allowFrom (b : TB) : Bool := b.content && !b.labels.snc && !b.labels.title
def allowTo (p : SSP) (b : TB) : Bool := b.ldLe p.ldNum p.ldDen && !b.content && !b.labels.snc && !b.labels.title

def pushGood (s : SS) (i : Nat) : Option SS :=
  if s.ge < s.good.length then some { s with good := s.good.set s.ge i, ge := s.ge + 1 } else none
def pushBad (s : SS) (i : Nat) : Option SS :=
  if s.be < s.bad.length then some { s with bad := s.bad.set s.be i, be := s.be + 1 } else none

/-- the outer loop: `k` iterations left, at index `i` -/
def ssIter (p : SSP) (A : Atoms) : Nat → Nat → SS → Option SS
  | 0, _, s => some s
  | k+1, i, s => do
    let b ← s.blocks[i]?
    if (!p.crossTitles && b.labels.title) || (!p.crossHeadings && b.labels.heading) then
      ssIter p A k (i+1) { s with gb := s.ge, bb := s.be }
    else if allowFrom b then
      let s1 ← pushGood s i
      let s2 ← loopA p A i (s1.be - s1.bb) s1.bb s1
      ssIter p A k (i+1) s2
    else if allowTo p b then
      let (s1, broke) ← loopB p A i (s.ge - s.gb) s.gb s
      let s2 ← if broke then pushGood s1 i else pushBad s1 i
      ssIter p A k (i+1) s2
    else ssIter p A k (i+1) s

def similarSibling (p : SSP) (A : Atoms) (l : List TB) : Option (List TB × Bool) :=
  if l.length < 2 then some (l, false) else do
    let n := l.length
    let s ← ssIter p A n 0 { blocks := l, good := List.replicate n 0, bad := List.replicate n 0,
                              gb := 0, ge := 0, bb := 0, be := 0, changed := false }
    pure (s.blocks, s.changed)

/-! ### 7: HeadingFusion -/

structure Fuse where
  done : List TB      -- finished blocks, last first
  prev : TB
  skipped : List TB   -- blocks that stay in the list after `prev`, last first (proximity fusion only)
  changed : Bool

def Fuse.result (s : Fuse) : List TB := s.done.reverse ++ s.prev :: s.skipped.reverse

def hfStep (s : Fuse) (b : TB) : Fuse :=
  let prev := s.prev
  let move : Fuse := { s with done := prev :: s.done, prev := b }
  if !prev.labels.heading then move
  else if prev.labels.snc || b.labels.snc then move
  else if prev.labels.title || b.labels.title then move
  else if b.content then
    let m := prev.merge b
    { s with prev := { m with labels := { m.labels with heading := false, bhf := m.labels.bhf || !prev.content } }, changed := true }
  else if prev.content then { s with done := { prev with content := false } :: s.done, prev := b, changed := true }
  else move

def headingFusion : List TB → List TB × Bool
  | [] => ([], false)
  | [a] => ([a], false)
  | a :: rest =>
    let s := rest.foldl hfStep { done := [], prev := a, skipped := [], changed := false }
    (s.result, s.changed)

/-! ### 8, 10: BlockProximityFusion -/

def pfOk (post : Bool) (prev b : TB) : Bool :=
  (if post then prev.tagLevel == b.tagLevel else !b.labels.bhf)
  && (prev.labels.snc == b.labels.snc)
  && (prev.labels.title == b.labels.title)
  && !((!prev.content && prev.labels.li) && !b.labels.li)

/-- note the third case: when two neighbouring content blocks are close but must not be fused,
`prevBlock` is *not* advanced, so the next block is compared with (and may be merged into) the
older one, across the block in between -/
def pfStep (post : Bool) (s : Fuse) (b : TB) : Fuse :=
  let prev := s.prev
  let move : Fuse := { s with done := s.skipped ++ prev :: s.done, prev := b, skipped := [] }
  if !b.content || !prev.content then move
  else if b.offStart - prev.offEnd - 1 ≤ 1 then
    if pfOk post prev b then { s with prev := prev.merge b, changed := true }
    else { s with skipped := b :: s.skipped }
  else move

def proximityFusion (post : Bool) : List TB → List TB × Bool
  | [] => ([], false)
  | [a] => ([a], false)
  | a :: rest =>
    let s := rest.foldl (pfStep post) { done := [], prev := a, skipped := [], changed := false }
    (s.result, s.changed)

/-! ### 9: BoilerplateBlock(labelToKeep) -/

def bpRemoves (keepSet : Bool) (b : TB) : Bool := !b.content && (keepSet || !b.labels.title)

def boilerplateBlock (keepSet : Bool) (l : List TB) : List TB × Bool :=
  (l.filter (fun b => !bpRemoves keepSet b), l.any (bpRemoves keepSet))

/-! ### 11: KeepLargestBlock -/

/-- index and size of the first content block with the most words (`>` keeps the first) -/
def largestGo : List TB → Nat → Option (Nat × Nat) → Option (Nat × Nat)
  | [], _, best => best
  | b :: rest, i, best =>
    let best' := if b.content then
        match best with
        | none => some (i, b.numWords)
        | some (_, m) => if b.numWords > m then some (i, b.numWords) else best
      else best
    largestGo rest (i+1) best'

def mapIdxFrom (g : Nat → TB → TB) : Nat → List TB → List TB
  | _, [] => []
  | i, b :: rest => g i b :: mapIdxFrom g (i+1) rest

def anyIdxFrom (g : Nat → TB → Bool) : Nat → List TB → Bool
  | _, [] => false
  | i, b :: rest => g i b || anyIdxFrom g (i+1) rest

def markLargest (idx : Option Nat) (l : List TB) : List TB :=
  mapIdxFrom (fun i b =>
    if some i == idx then { b with content := true, labels := { b.labels with veryLikely := true } }
    else { b with content := false, labels := { b.labels with mightBe := true } }) 0 l

/-- one direction of the sibling expansion: `gp` is the grand-parent to match, `mine` / `next`
pick the candidate's element to compare and the one to continue from -/
def expandGo (A : Atoms) (mine next : BAtoms → Nat) : Nat → List TB → List TB
  | _, [] => []
  | gp, c :: rest =>
    let a := A.at c.first
    if gp == mine a then
      { c with content := true, labels := { c.labels with sibling := true } } :: expandGo A mine next (next a) rest
    else c :: expandGo A mine next gp rest

def keepLargest (expand : Bool) (A : Atoms) (l : List TB) : List TB × Bool :=
  if l.length < 2 then (l, false) else
    let best := largestGo l 0 none
    let l1 := markLargest (best.map (·.1)) l
    match best with
    | some (idx, _) =>
      if expand then
        match l1[idx]? with
        | some big =>
          let a := A.at big.first
          let before := (expandGo A (·.gpLast) (·.gpFirst) a.gpFirst (l1.take idx).reverse).reverse
          let after := expandGo A (·.gpFirst) (·.gpLast) a.gpLast (l1.drop (idx+1))
          (before ++ big :: after, true)
        | none => (l1, true)
      else (l1, true)
    | none => (l1, true)

/-! ### 12: ExpandTitleToContent -/

def titleScan : List TB → Nat → Option Nat → Option Nat → Option Nat × Option Nat
  | [], _, t, c => (t, c)
  | b :: rest, i, t, c =>
    let t' := if c.isNone && b.labels.title then some i else t
    let c' := if c.isNone && b.content then some i else c
    titleScan rest (i+1) t' c'

def expandTitle (l : List TB) : List TB × Bool :=
  match titleScan l 0 none none with
  | (some t, some c) =>
    if c ≤ t then (l, false) else
      let hit (i : Nat) (b : TB) : Bool := decide (t ≤ i) && decide (i < c) && b.labels.mightBe
      (mapIdxFrom (fun i b => if hit i b then { b with content := true } else b) 0 l,
       anyIdxFrom (fun i b => hit i b && !b.content) 0 l)
  | _ => (l, false)

/-! ### 13: LargeBlockAroundTagLevelToContent -/

def largeLevel (l : List TB) : Int :=
  match l.find? (fun b => b.content && b.labels.veryLikely) with
  | some b => b.tagLevel
  | none => -1

def largeHit (tl : Int) (b : TB) : Bool :=
  !b.content && decide (b.numWords ≥ 100) && (b.tagLevel == tl || b.tagLevel == tl - 1 || b.tagLevel == tl + 1)

def largeBlockAt (tl : Int) (l : List TB) : List TB × Bool :=
  if tl == -1 then (l, false) else
    (l.map (fun b => if largeHit tl b then { b with content := true } else b), l.any (largeHit tl))

def largeBlock (l : List TB) : List TB × Bool := largeBlockAt (largeLevel l) l

/-! ### 14: ListAtEnd -/

def listAtEndGo : Int → List TB → List TB × Bool
  | _, [] => ([], false)
  | tl, b :: rest =>
    if b.content && b.labels.veryLikely then
      let (r, ch) := listAtEndGo b.tagLevel rest
      (b :: r, ch)
    else if decide (b.tagLevel > tl) && b.labels.mightBe && b.labels.li && b.ldZero then
      let (r, _) := listAtEndGo tl rest
      ({ b with content := true } :: r, true)
    else
      let (r, ch) := listAtEndGo 32767 rest
      (b :: r, ch)

def listAtEnd (l : List TB) : List TB × Bool := listAtEndGo 32767 l

/-! ### the pipeline -/

inductive Filter where
  | terminating | titleMatch | numWords | labelToBoilerplate
  | similarSibling (p : SSP)
  | headingFusion
  | proximity (post : Bool)
  | boilerplate (keepSet : Bool)
  | keepLargest (expand : Bool)
  | expandTitle | largeBlock | listAtEnd
deriving Repr, DecidableEq

def runFilter (A : Atoms) : Filter → List TB → Option (List TB × Bool)
  | .terminating, l => some (terminating A l)
  | .titleMatch, l => some (titleMatch A l)
  | .numWords, l => some (numWordsRules l)
  | .labelToBoilerplate, l => some (labelToBoilerplate l)
  | .similarSibling p, l => similarSibling p A l
  | .headingFusion, l => some (headingFusion l)
  | .proximity post, l => some (proximityFusion post l)
  | .boilerplate k, l => some (boilerplateBlock k l)
  | .keepLargest e, l => some (keepLargest e A l)
  | .expandTitle, l => some (expandTitle l)
  | .largeBlock, l => some (largeBlock l)
  | .listAtEnd, l => some (listAtEnd l)

/-- `ArticleExtractor.Extract`: the filters in the order and with the settings of the source -/
def articleFilters : List Filter :=
  [ .terminating, .titleMatch, .numWords, .labelToBoilerplate,
    .similarSibling { crossHeadings := true, ldNum := 1, ldDen := 2, maxDist := 10 },
    .similarSibling { crossHeadings := true, mixedTags := true, ldNum := 0, ldDen := 1, maxDist := 10 },
    .headingFusion, .proximity false, .boilerplate true, .proximity true, .keepLargest true,
    .expandTitle, .largeBlock, .listAtEnd ]

/-- every intermediate block list, with the `changed` answer of the filter that produced it -/
def runTrace (A : Atoms) : List Filter → List TB → Option (List (List TB × Bool))
  | [], _ => some []
  | f :: fs, l => do
    let (l', ch) ← runFilter A f l
    let rest ← runTrace A fs l'
    pure ((l', ch) :: rest)

def run (A : Atoms) : List Filter → List TB → Option (List TB)
  | [], l => some l
  | f :: fs, l => do
    let (l', _) ← runFilter A f l
    run A fs l'

def extract (A : Atoms) (l : List TB) : Option (List TB) := run A articleFilters l

/-- `TextDocument.CountWordsInContent` -/
def countWordsInContent (l : List TB) : Nat := (l.filter (·.content)).foldl (fun n b => n + b.numWords) 0

/-- `TextDocument.ApplyToModel`: the Text elements that are flagged content, and those that get
the TITLE label -/
def contentMembers (l : List TB) : List Nat := (l.filter (·.content)).flatMap (·.members)
def titleMembers (l : List TB) : List Nat := (l.filter (fun b => b.content && b.labels.title)).flatMap (·.members)

end Distill.Flt
