/-
  Markup: how `markup.Parser` combines the three markup sources (OpenGraph, schema.org,
  IE Reading View) into `MarkupInfo`.  The per-source parsers are atoms: a source is the
  record of what its accessor methods answer.
-/
import Distill.Model.Features
namespace Distill

structure MImage where
  url : String := ""
  secureUrl : String := ""
  type : String := ""
  caption : String := ""
  width : Int := 0
  height : Int := 0
deriving DecidableEq, Repr

structure MArticle where
  published : String := ""
  modified : String := ""
  expiration : String := ""
  sect : String := ""
  authors : List String := []
deriving DecidableEq, Repr

/-- the answers of one accessor -/
structure MSource where
  title : String := ""
  type : String := ""
  url : String := ""
  description : String := ""
  publisher : String := ""
  copyright : String := ""
  author : String := ""
  images : List MImage := []
  article : Option MArticle := none
  optOut : Bool := false
deriving DecidableEq, Repr

structure MInfo where
  title : String := ""
  type : String := ""
  url : String := ""
  description : String := ""
  publisher : String := ""
  copyright : String := ""
  author : String := ""
  article : MArticle := {}
  images : List MImage := []
deriving DecidableEq, Repr

/-- getter shape "first-nonempty-string" -/
def firstNonEmpty (f : MSource → String) : List MSource → String
  | [] => ""
  | s :: ss => if f s != "" then f s else firstNonEmpty f ss

/-- getter shape "first-nonempty-list" -/
def firstImages : List MSource → List MImage
  | [] => []
  | s :: ss => if s.images.length > 0 then s.images else firstImages ss

/-- getter shape "first-non-nil" -/
def firstArticle : List MSource → Option MArticle
  | [] => none
  | s :: ss => match s.article with
    | some a => some a
    | none => firstArticle ss

/-- `Parser.MarkupInfo` -/
def combine (srcs : List MSource) : MInfo :=
  if srcs.any (·.optOut) then {}
  else
    { title := firstNonEmpty (·.title) srcs,
      type := firstNonEmpty (·.type) srcs,
      url := firstNonEmpty (·.url) srcs,
      description := firstNonEmpty (·.description) srcs,
      publisher := firstNonEmpty (·.publisher) srcs,
      copyright := firstNonEmpty (·.copyright) srcs,
      author := firstNonEmpty (·.author) srcs,
      article := (firstArticle srcs).getD {},
      images := firstImages srcs }

/-- the accessor list `markup.NewParser` builds: OpenGraph only when its parser is usable -/
def sources (ogUsable : Bool) (og schema ie : MSource) : List MSource :=
  (if ogUsable then [og] else []) ++ [schema, ie]

end Distill
