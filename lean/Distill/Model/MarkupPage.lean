/-
  MarkupPage: `markup.NewParser(document).MarkupInfo()` from the document tree — the three
  accessors built from the page (OpenGraph only when usable, then schema.org, then IE Reading
  View) and combined.
-/
import Distill.Model.OpenGraph
import Distill.Model.SchemaOrg
namespace Distill

structure PageAtoms where
  lower : String → String
  upper : String → String
  vis : CAtoms
  prefixes : OG.Prefixes

def pageSources (A : PageAtoms) (root : Node) : List MSource :=
  let og := OG.parse A.lower A.prefixes root
  sources (OG.usable og) (OG.source A.lower og) (SO.source A.lower root) (IE.source { lower := A.lower, upper := A.upper, vis := A.vis } root)

/-- `Result.MarkupInfo` for the document element `root` -/
def pageMarkup (A : PageAtoms) (root : Node) : MInfo := combine (pageSources A root)

end Distill
