/-
  Embed: recognition of third-party frames (YouTube, Vimeo, Twitter).
  The per-extractor decision lists are generated (Distill.Gen.Funcs); this file holds the
  composition the converter performs and the hand-written specification functions.
-/
import Distill.Model.Features
import Distill.Gen.Funcs
namespace Distill

/-- the documented root-domain test: the host is the root or a sub-domain of it -/
def rootMatchSpec (host root : String) : Bool := host == root || strHasSuffix host ("." ++ root)

/-- last non-empty (trimmed) path segment, unless it is the marker segment `skip`
(`embed` for YouTube, `video` for Vimeo, none for tweets); `segs` are the trimmed segments
of `strings.Split(path, "/")` -/
def idOf (skip : Option String) (segs : List String) : String :=
  match segs.reverse.find? (fun s => s != "") with
  | none => ""
  | some s => if skip == some s then "" else s

def unwrapGen (o : Option (Option (String × String))) : Option (String × String) :=
  match o with
  | some r => r
  | none => none

/-- `TwitterExtractor.Extract`: relevant tag, then blockquote → unrendered, else rendered -/
def twitterExtract (a : EmbedAtoms) : Option (String × String) :=
  if a.nodeNil then none
  else if !(Gen.relevantTwitterTags.contains a.tag) then none
  else if a.tag == "blockquote" then unwrapGen (Gen.twitterNonRendered a)
  else unwrapGen (Gen.twitterRendered a)

/-- the converter asks Twitter, Vimeo, YouTube in this order (after the image extractor,
which never yields a third-party embed) and takes the first answer -/
def embedDecision (a : EmbedAtoms) : Option (String × String) :=
  match twitterExtract a with
  | some r => some r
  | none =>
    match unwrapGen (Gen.vimeoExtract a) with
    | some r => some r
    | none => unwrapGen (Gen.youtubeExtract a)

end Distill
