/-
  TextRender: `webdoc.Text.GenerateOutput` — from the window of text nodes of one Text element
  to its HTML and plain-text rendering — with `domutil.TreeClone`, `GetAncestors`,
  `domutil.InnerText`, and `webdoc.Document.GenerateOutput` on top of it.

  The tree is the converter's private clone (ids are pre-order indices in it).  Atoms: the inline
  display capture and the visibility regexps of `CAtoms` (by node id), `abs` / `absSet`
  (`CreateAbsoluteURL`, srcset rewriting).  Everything else is computed here.

  Partial operations of the Go code are partial here: `TreeClone` of an empty window returns nil
  and the next line dereferences it; a non-element clone root needs the first node's parent.
-/
import Distill.Model.Render
import Distill.Model.Html
namespace Distill

/-! ### TreeClone -/

mutual
/-- the nodes `fnClone` copies: a node is in `allAncestors` iff it is listed or has a listed
descendant; children are filtered the same way, in sibling order -/
def keepNode (ids : List Nat) : Node → Option Node
  | .text i d => if ids.contains i then some (.text i d) else none
  | .other i k => if ids.contains i then some (.other i k) else none
  | .elem i t a ks =>
    let ks' := keepL ids ks
    if ids.contains i || !ks'.isEmpty then some (.elem i t a ks') else none
def keepL (ids : List Nat) : List Node → List Node
  | [] => []
  | k :: ks =>
    match keepNode ids k with
    | some k' => k' :: keepL ids ks
    | none => keepL ids ks
end

/-- an element without its children (`dom.Clone(n, false)`) -/
structure Shell where
  id : Nat
  tag : String
  attrs : List Attr
deriving Repr

/-- `dom.IsVoidElement` on an element: by name only, so an SVG / MathML element that carries the name
of a void HTML element counts (the parser gives only such elements children) -/
def domVoid (tag : String) : Bool :=
  ["area", "base", "br", "col", "embed", "hr", "img", "input", "keygen", "link", "meta", "param", "source", "track", "wbr"].contains tag

/-- `dom.AppendChild(shallowClone, kid)`: appending to a void element does nothing -/
def Shell.wrap (s : Shell) (kid : Node) : Node :=
  if domVoid s.tag then .elem s.id s.tag s.attrs [] else .elem s.id s.tag s.attrs [kid]

/-- from the top of the pruned tree down to the nearest common ancestor: a pruned node that is
not listed and has exactly one child has all listed nodes inside that child.  Returns the
ancestors passed (innermost first) and the nearest common ancestor. -/
def descend (ids : List Nat) (fuel : Nat) (passed : List Shell) (n : Node) : List Shell × Node :=
  match fuel with
  | 0 => (passed, n)
  | fuel + 1 =>
    match n with
    | .elem i t a [k] => if ids.contains i then (passed, n) else descend ids fuel ({ id := i, tag := t, attrs := a } :: passed) k
    | _ => (passed, n)

/-- `domutil.TreeClone(nodes)` together with the chain of source ancestors above the clone's
root (innermost first); `none` = nil (no common ancestor: empty window, or nodes of other trees) -/
def treeClone (ids : List Nat) (top : Node) : Option (List Shell × Node) :=
  if ids.isEmpty then none else
  match keepNode ids top with
  | none => none
  | some p => some (descend ids top.size [] p)

/-! ### the body → div step

`dom.SetInnerHTML(div, dom.InnerHTML(clonedRoot))` serialises the children, trims the string and
parses it again.  On a tree that came out of the parser this gives the same children, except
that adjacent text nodes are merged and white space at both ends of the string is gone. -/

def mergeTexts : List Node → List Node
  | .text i a :: .text _ b :: rest => mergeTexts (.text i (a ++ b) :: rest)
  | k :: rest => k :: mergeTexts rest
  | [] => []
termination_by l => l.length

mutual
/-- adjacent text nodes merge at every level of the re-parsed subtree -/
def mergeDeep : Node → Node
  | .elem i t a ks => .elem i t a (mergeTexts (mergeDeepL ks))
  | .text i d => .text i d
  | .other i k => .other i k
def mergeDeepL : List Node → List Node
  | [] => []
  | k :: ks => mergeDeep k :: mergeDeepL ks
end

def trimFirstText : List Node → List Node
  | .text i d :: rest =>
    let d' := trimLeftU d.toList
    if d'.isEmpty then trimFirstText rest else .text i (String.ofList d') :: rest
  | l => l

def trimLastText (l : List Node) : List Node :=
  match l.reverse with
  | .text i d :: rest =>
    let d' := (trimLeftU d.toList.reverse).reverse
    if d'.isEmpty then rest.reverse else (.text i (String.ofList d') :: rest).reverse
  | _ => l

def synthDivId : Nat := synthBase

def bodyToDiv (n : Node) : Node :=
  match n with
  | .elem _ "body" _ ks => .elem synthDivId "div" [] (trimLastText (trimFirstText (mergeTexts (mergeDeepL ks))))
  | _ => n

/-! ### climbing until the root is not inline -/

def nodeDisplay (A : CAtoms) : Node → String
  | .elem i t _ _ => displayOf A i t
  | _ => defaultDisplay ""

/-- the `for` loop of `Text.GenerateOutput`: structural recursion over the remaining source
ancestors, so it ends at the root of the fragment -/
def climb (A : CAtoms) (root : Node) : List Shell → Node
  | [] => root
  | s :: rest =>
    if nodeDisplay A root != "inline" then root
    else if nestableTag root.tag then root
    else if s.tag == "body" then root
    else climb A (s.wrap root) rest

/-! ### InnerText -/

def nlMarker : List Char := ['|', '\\', '/', '|']

mutual
/-- the buffer `InnerText` fills; visibility is tested on the node as it is *now* (after
stripping, in the rendering paths) -/
def innerTextBuf (A : CAtoms) : Node → List Char
  | .text _ d => ' ' :: d.toList ++ [' ']
  | .other _ _ => []
  | .elem i t attrs ks =>
    if t == "br" then nlMarker
    else if !visible A i t attrs then []
    else innerTextBufL A ks
def innerTextBufL (A : CAtoms) : List Node → List Char
  | [] => []
  | k :: ks => innerTextBuf A k ++ innerTextBufL A ks
end

/-- `strings.Fields` -/
def fieldsAux : List Char → List Char → List (List Char)
  | [], cur => if cur.isEmpty then [] else [cur.reverse]
  | c :: cs, cur =>
    if isSpaceChar c then (if cur.isEmpty then fieldsAux cs [] else cur.reverse :: fieldsAux cs [])
    else fieldsAux cs (c :: cur)

def fields (s : List Char) : List (List Char) := fieldsAux s []

def joinSp : List (List Char) → List Char
  | [] => []
  | [w] => w
  | w :: ws => w ++ ' ' :: joinSp ws

def isPunct (c : Char) : Bool := c == '.' || c == '?' || c == '!' || c == ',' || c == ';'

def isReSpace (c : Char) : Bool := c == ' ' || c == '\t' || c == '\n' || c == '\x0c' || c == '\r'

def takeNonSpace : List Char → List Char × List Char
  | [] => ([], [])
  | c :: cs => if isReSpace c then ([], c :: cs) else let (a, b) := takeNonSpace cs; (c :: a, b)

def dropReSpace : List Char → List Char
  | [] => []
  | c :: cs => if isReSpace c then dropReSpace cs else c :: cs

/-- `rxPunctuation.ReplaceAllString(text, "$1 $2")` with `\s+([.?!,;])\s*(\S*)` -/
def fixPunct (fuel : Nat) (s : List Char) : List Char :=
  match fuel with
  | 0 => s
  | fuel + 1 =>
    match s with
    | [] => []
    | c :: cs =>
      if isReSpace c then
        match dropReSpace cs with
        | p :: rest =>
          if isPunct p then
            let (w, rest') := takeNonSpace (dropReSpace rest)
            p :: ' ' :: w ++ fixPunct fuel rest'
          else c :: fixPunct fuel cs
        | [] => c :: fixPunct fuel cs
      else c :: fixPunct fuel cs

/-- `rxTempNewline.ReplaceAllString(text, "\n")` with `\s*\|\\/\|\s*` -/
def fixNewline (fuel : Nat) (s : List Char) : List Char :=
  match fuel with
  | 0 => s
  | fuel + 1 =>
    match s with
    | [] => []
    | c :: cs =>
      let t := dropReSpace (c :: cs)
      if nlMarker.isPrefixOf t then '\n' :: fixNewline fuel (dropReSpace (t.drop 4))
      else c :: fixNewline fuel cs

def innerText (A : CAtoms) (n : Node) : List Char :=
  let j := joinSp (fields (innerTextBuf A n))
  let p := fixPunct (j.length + 1) j
  fixNewline (p.length + 1) p

/-! ### Text.GenerateOutput -/

/-- after `StripAttributes` no inline style is left: the display capture and the visibility
regexp see the empty string -/
def strippedAtoms (A : CAtoms) : CAtoms := { A with styleDisplay := fun _ => "", visHidden := fun _ => false }

/-- the processed clone `Text.GenerateOutput` serialises; `none` = the Go code dereferences nil -/
def textClone (A : CAtoms) (abs absSet : String → String) (ids : List Nat) (top : Node) : Option Node :=
  match treeClone ids top with
  | none => none
  | some (anc, c) =>
    let wrapped : Option (List Shell × Node) :=
      if c.isElem then some (anc, c) else
      match anc with
      | s :: rest => some (rest, s.wrap c)
      | [] => none
    match wrapped with
    | none => none
    | some (anc', r) =>
      let r1 := bodyToDiv r
      let r2 := climb A r1 anc'
      some (processClone abs absSet r2)

/-- `Text.GenerateOutput(textOnly)`; `title` = the element carries the TITLE label -/
def textOutput (A : CAtoms) (abs absSet : String → String) (title textOnly : Bool) (ids : List Nat) (top : Node) :
    Option (List Char) :=
  if title then some [] else
  match textClone A abs absSet ids top with
  | none => none
  | some r =>
    some (if textOnly then innerText (strippedAtoms A) r
          else if nestableTag r.tag then innerHTML r
          else outerHTML r)

/-! ### Document.GenerateOutput -/

/-- one element of the document as far as output is concerned: its content flag and its two
renderings -/
structure OutEl where
  content : Bool
  html : List Char
  text : List Char

def docOutput (textOnly : Bool) : List OutEl → List Char
  | [] => []
  | e :: es =>
    (if e.content then (if textOnly then e.text ++ ['\n'] else e.html) else []) ++ docOutput textOnly es

end Distill
