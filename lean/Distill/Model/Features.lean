/-
  Features: the atom records the generated decision functions (Distill.Gen.Funcs) range over.
  Hand-written; each field names what the real code computes (see go/extract/expect/*.json
  for the source expression each field stands for).
-/
namespace Distill

/-- `strings.HasSuffix` over the character lists (kernel-reducible) -/
def strHasSuffix (s suf : String) : Bool := suf.toList.isSuffixOf s.toList

/-- `strings.HasPrefix` -/
def strHasPrefix (s pre : String) : Bool := pre.toList.isPrefixOf s.toList

/-- what `domutil.IsProbablyVisible` reads from an element -/
structure VisAtoms where
  display : String          -- GetDisplayStyle(node): inline `display:` value or the tag default
  hasHidden : Bool          -- has a `hidden` attribute
  visHidden : Bool          -- rxVisibilityHidden matches the style attribute
  ariaHidden : String       -- aria-hidden attribute value
  fallbackImage : Bool      -- class contains "fallback-image"
deriving Repr

/-- what `domutil.HasRootDomain(url, root)` computes before its final test -/
structure RootDomainAtoms where
  urlEmpty : Bool
  rootEmpty : Bool
  parseErr : Bool           -- ParseRequestURI fails (after the `//` → `http://` fix-up)
  host : String             -- parsed Host
  root : String
deriving Repr

/-- the features `tableclass.Classifier.Classify` inspects -/
structure TableFeatures where
  insideEditable : Bool     -- an ancestor is <input> or has contenteditable=true
  role : String             -- lower-cased role attribute of the table
  descRole : Bool           -- a direct descendant carries an ARIA landmark / table-descendant role
  datatable : String        -- datatable attribute
  nested : Bool             -- contains a nested table
  rows : Int
  cols : Int
  captionValid : Bool       -- has a caption with valid text
  thead : Bool
  tfoot : Bool
  headerTag : Bool          -- first colgroup/col/th among direct descendants qualifies
  cellAttr : Bool           -- a direct td has abbr / headers / scope
  cellLoneAbbr : Bool       -- a direct td has a lone <abbr> child element
  summary : Bool
  cells : Int               -- number of direct td
  objectTag : Bool          -- embed/object/applet/iframe among direct descendants
deriving Repr

end Distill

namespace Distill
/-- what the three third-party embed extractors read from a node.  The `…Root d` fields are
`domutil.HasRootDomain(<the URL that extractor looks at>, d)`; the id fields are what the
extractor's own URL helper returns for that URL. -/
structure EmbedAtoms where
  nodeNil : Bool := false
  tag : String
  ytRoot : String → Bool          -- on the (object/param-aware, `&`→`?` fixed, absolutised) src
  ytId : String
  vmRoot : String → Bool          -- on the absolutised src
  vmId : String
  twSrcRoot : String → Bool       -- on the raw src attribute (rendered tweet iframe)
  tweetIdAttr : String            -- data-tweet-id
  classTwitterTweet : Bool
  nAnchors : Int
  twAnchorRoot : String → Bool    -- on the absolutised href of the last anchor
  tweetIdFromUrl : String
end Distill

namespace Distill
/-- what the OpenGraph parser has collected when it decides whether it is usable -/
structure OgAtoms where
  title : String
  type : String
  url : String
  nImages : Int
end Distill

namespace Distill
/-- what `distiller.Apply` reads from its Options value after extraction, plus the answers
of the two pagination finders (atoms) -/
structure OptAtoms where
  hasURL : Bool
  urlString : String
  skip : Bool
  algoPageNumber : Bool
  pageNumberResult : String × String    -- (next, prev) of the page-number finder
  prevNextResult : String × String      -- (next, prev) of the prev/next finder
end Distill
