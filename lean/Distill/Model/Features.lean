/-
  Features: the atom records the generated decision functions (Distill.Gen.Funcs) range over.
  Hand-written; each field names what the real code computes (see go/extract/expect/*.json
  for the source expression each field stands for).
-/
namespace Distill

/-- `strings.HasSuffix` over the character lists (kernel-reducible) -/
def strHasSuffix (s suf : String) : Bool := suf.toList.isSuffixOf s.toList

/-- `strings.HasPrefix` -/
def strHasPrefix (s pre : String) : Bool := pre.toList.isPrefixOf s.toList

/-- what `domutil.IsProbablyVisible` reads from an element -/
structure VisAtoms where
  display : String          -- GetDisplayStyle(node): inline `display:` value or the tag default
  hasHidden : Bool          -- has a `hidden` attribute
  visHidden : Bool          -- rxVisibilityHidden matches the style attribute
  ariaHidden : String       -- aria-hidden attribute value
  fallbackImage : Bool      -- class contains "fallback-image"
deriving Repr

/-- what `domutil.HasRootDomain(url, root)` computes before its final test -/
structure RootDomainAtoms where
  urlEmpty : Bool
  rootEmpty : Bool
  parseErr : Bool           -- ParseRequestURI fails (after the `//` → `http://` fix-up)
  host : String             -- parsed Host
  root : String
deriving Repr

/-- the features `tableclass.Classifier.Classify` inspects -/
structure TableFeatures where
  insideEditable : Bool     -- an ancestor is <input> or has contenteditable=true
  role : String             -- lower-cased role attribute of the table
  descRole : Bool           -- a direct descendant carries an ARIA landmark / table-descendant role
  datatable : String        -- datatable attribute
  nested : Bool             -- contains a nested table
  rows : Int
  cols : Int
  captionValid : Bool       -- has a caption with valid text
  thead : Bool
  tfoot : Bool
  headerTag : Bool          -- first colgroup/col/th among direct descendants qualifies
  cellAttr : Bool           -- a direct td has abbr / headers / scope
  cellLoneAbbr : Bool       -- a direct td has a lone <abbr> child element
  summary : Bool
  cells : Int               -- number of direct td
  objectTag : Bool          -- embed/object/applet/iframe among direct descendants
deriving Repr

end Distill
