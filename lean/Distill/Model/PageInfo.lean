/-
  PageInfo: `PageNumberFinder.getPageInfoAndText` — whether an anchor is a page-number link, and with
  which number and URL.  The text reading is `Pg.linkTextToNumber` (Model/Terms.lean); what net/url
  says about the resolved href is the atom `H`.
-/
import Distill.Model.Terms
namespace Distill.PageInfo
open Distill

def maxNumForPageParam : Int := 100

/-- what net/url says about `CreateAbsoluteURL(href, pageURL)` -/
structure H where
  resolved : String     -- the resolved href
  requestOK : Bool      -- ParseRequestURI succeeds
  sameHost : Bool       -- … and its Host equals the page URL's Host
  parseOK : Bool        -- Parse succeeds
  cleaned : String      -- trailing slash of the path and fragment removed, String()

def isJs (s : String) : Bool := "javascript:".toList.isPrefixOf s.toList

/-- `(PageInfo, text)`: `none` = not a page-number link -/
def pageInfo (text : String) (h : H) : Option (Int × String) :=
  match Pg.linkTextToNumber text.toList with
  | none => none
  | some n =>
    if n < 0 || n > maxNumForPageParam then none
    else if h.resolved == "" || isJs h.resolved then some (n, h.resolved)
    else if !h.requestOK || !h.sameHost then none
    else if !h.parseOK then none
    else some (n, h.cleaned)

end Distill.PageInfo
