/-
  Extract: `ContentExtractor.ExtractContent` — two conversion passes with the word-count
  threshold, then the three document filters.
-/
import Distill.Model.Convert
import Distill.Model.DocFilters
namespace Distill

/-- the pass `ExtractContent` ends up using: first with the unlikely-candidate pruning; if the
classifier then finds fewer than `threshold` words, again without it.  `wc` is the word count
the classifier reports for a converted document (an atom). -/
def extractEvents (threshold : Nat) (wc : List BEv → Nat) (A : CAtoms) (root : Node) : List BEv :=
  let e1 := convert { skipUnlikely := true } A [] false root
  if wc e1 < threshold then convert { skipUnlikely := false } A [] false root else e1

end Distill
